/-
GraphLemmas — helper lemmas about the `Graph` models: association lists, the characterisation of the
optionality / trigger folds by *sets* of declarations, node texts.
-/
import CylcModel.Graph
import Mathlib.Tactic.SplitIfs
import Mathlib.Tactic.Cases
import Mathlib.Tactic.Tauto

namespace CylcModel.Graph
open CylcModel.Generated.GraphTables

/-! ## association lists -/

theorem lookup_aset {κ β : Type} [BEq κ] [LawfulBEq κ] (k k' : κ) (v : β) (l : List (κ × β)) :
    (aset k v l).lookup k' = if k' == k then some v else l.lookup k' := by
  induction l with
  | nil =>
    simp only [aset, List.lookup]
    cases h : k' == k <;> simp
  | cons p r ih =>
    obtain ⟨pk, pv⟩ := p
    simp only [aset]
    by_cases hk : pk == k
    · have hk' : pk = k := by simpa using hk
      subst hk'
      simp only [beq_self_eq_true, if_true, List.lookup]
      cases h : k' == pk <;> simp
    · simp only [hk, Bool.false_eq_true, if_false, List.lookup, ih]
      cases h : k' == pk
      · simp
      · have : k' = pk := by simpa using h
        subst this
        simp [hk]

/-! ## optionality declarations -/

theorem opposite_symm {a b : Str} (h : opposite a = some b) : opposite b = some a := by
  unfold opposite at h
  split_ifs at h with h1 h2 h3 h4
  · simp only [Option.some.injEq] at h; subst h; subst h1; decide
  · simp only [Option.some.injEq] at h; subst h; subst h2; decide
  · simp only [Option.some.injEq] at h; subst h; subst h3; decide
  · simp only [Option.some.injEq] at h; subst h; subst h4; decide

theorem opposite_irrefl (a : Str) : opposite a ≠ some a := by
  unfold opposite
  split_ifs with h1 h2 h3 h4
  · subst h1; decide
  · subst h2; decide
  · subst h3; decide
  · subst h4; decide
  · simp

/-- elementary optionality declaration: (task, output, optional) -/
abbrev EOpt := Str × Str × Bool

def stepOpt (o : Opts) (e : EOpt) : Option Opts := setOpt1 o e.1 e.2.1 e.2.2

/-- two declarations can stand together: the same output has one flag, opposite outputs are both optional -/
def Compat (a b : EOpt) : Prop :=
  a.1 = b.1 → ((a.2.1 = b.2.1 → a.2.2 = b.2.2) ∧ (opposite a.2.1 = some b.2.1 → a.2.2 = true ∧ b.2.2 = true))

theorem Compat.symm {a b : EOpt} (h : Compat a b) : Compat b a := by
  intro hn
  obtain ⟨h1, h2⟩ := h hn.symm
  exact ⟨fun ho => (h1 ho.symm).symm, fun ho => (h2 (opposite_symm ho)).symm⟩

theorem Compat.refl (a : EOpt) : Compat a a :=
  fun _ => ⟨fun _ => rfl, fun h => absurd h (opposite_irrefl _)⟩

/-- table `t` holds exactly the declarations satisfying `P` -/
def ReprO (t : Opts) (P : EOpt → Prop) : Prop := ∀ n o b, t.lookup (n, o) = some b ↔ P (n, o, b)

def AllCompat (P : EOpt → Prop) : Prop := ∀ a b, P a → P b → Compat a b

theorem reprO_nil : ReprO [] (fun _ => False) := by
  intro n o b; simp [List.lookup]

theorem optUpd_ok {t : Opts} {P : EOpt → Prop} {n o : Str} {b : Bool} (hR : ReprO t P)
    (hC : ∀ x, P x → Compat (n, o, b) x) :
    ∃ o1, optUpd t n o b = some o1 ∧ ReprO o1 (fun x => P x ∨ x = (n, o, b)) := by
  unfold optUpd
  cases hl : t.lookup (n, o) with
  | none =>
    refine ⟨_, rfl, ?_⟩
    intro n' o' b'
    rw [lookup_aset]
    by_cases hk : ((n', o') == (n, o)) = true
    · have hk' : (n', o') = (n, o) := by simpa using hk
      obtain ⟨rfl, rfl⟩ := Prod.mk.inj hk'
      simp only [beq_self_eq_true, if_true, Option.some.injEq]
      constructor
      · intro h; subst h; exact Or.inr rfl
      · rintro (h | h)
        · have := (hR n' o' b').2 h; rw [hl] at this; cases this
        · have := (Prod.mk.inj (Prod.mk.inj h).2).2; exact this.symm
    · simp only [hk, Bool.false_eq_true, if_false]
      rw [hR]
      constructor
      · exact Or.inl
      · rintro (h | h)
        · exact h
        · exfalso; apply hk
          have h1 := (Prod.mk.inj h).1; have h2 := (Prod.mk.inj (Prod.mk.inj h).2).1
          subst h1; subst h2; simp
  | some po =>
    have hP : P (n, o, po) := (hR n o po).1 hl
    have hb : b = po := ((hC _ hP) rfl).1 rfl
    subst hb
    refine ⟨t, by simp, ?_⟩
    intro n' o' b'
    rw [hR]
    constructor
    · exact Or.inl
    · rintro (h | h)
      · exact h
      · rw [h]; exact hP

theorem stepOpt_ok {t : Opts} {P : EOpt → Prop} {e : EOpt} (hR : ReprO t P)
    (hC : ∀ x, P x → Compat e x) :
    ∃ t', stepOpt t e = some t' ∧ ReprO t' (fun x => P x ∨ x = e) := by
  obtain ⟨n, o, b⟩ := e
  obtain ⟨o1, ho1, hR1⟩ := optUpd_ok hR hC
  refine ⟨o1, ?_, hR1⟩
  show setOpt1 t n o b = some o1
  unfold setOpt1
  rw [ho1]
  simp only
  have : oppOk o1 n o b = true := by
    unfold oppOk
    cases hop : opposite o with
    | none => rfl
    | some opp =>
      simp only
      cases hl2 : o1.lookup (n, opp) with
      | none => rfl
      | some oo =>
        simp only
        have hP2 := (hR1 n opp oo).1 hl2
        have hboth : b = true ∧ oo = true := by
          rcases hP2 with h | h
          · exact ((hC _ h) rfl).2 hop
          · have h2 := (Prod.mk.inj (Prod.mk.inj h).2).1
            rw [h2] at hop
            exact absurd hop (opposite_irrefl _)
        obtain ⟨rfl, rfl⟩ := hboth
        rfl
  rw [this]; rfl

theorem stepOpt_some {t t' : Opts} {P : EOpt → Prop} {e : EOpt} (hR : ReprO t P)
    (h : stepOpt t e = some t') : (∀ x, P x → Compat e x) := by
  obtain ⟨n, o, b⟩ := e
  intro x hx hn
  obtain ⟨xn, xo, xb⟩ := x
  simp only at hn
  subst hn
  have h' : setOpt1 t n o b = some t' := h
  unfold setOpt1 at h'
  have hlx : t.lookup (n, xo) = some xb := (hR n xo xb).2 hx
  cases hu : optUpd t n o b with
  | none => rw [hu] at h'; simp at h'
  | some o1 =>
    rw [hu] at h'
    simp only at h'
    have hok : oppOk o1 n o b = true := by
      by_cases hc : oppOk o1 n o b = true
      · exact hc
      · simp [hc] at h'
    constructor
    · intro ho
      simp only at ho
      subst ho
      unfold optUpd at hu
      rw [hlx] at hu
      simp only at hu
      by_cases hb : (b != xb) = true
      · simp [hb] at hu
      · simpa using hb
    · intro hop
      simp only at hop
      have hne : ((n, xo) == (n, o)) = false := by
        apply Bool.eq_false_iff.2
        intro hk
        have hk' : (n, xo) = (n, o) := by simpa using hk
        have := (Prod.mk.inj hk').2
        subst this
        exact opposite_irrefl _ hop
      have hl1 : o1.lookup (n, xo) = some xb := by
        unfold optUpd at hu
        cases hl : t.lookup (n, o) with
        | none =>
          rw [hl] at hu
          simp only [Option.some.injEq] at hu
          subst hu
          rw [lookup_aset, hne]; simpa using hlx
        | some po =>
          rw [hl] at hu
          simp only at hu
          by_cases hb : (b != po) = true
          · simp [hb] at hu
          · simp only [hb, Bool.false_eq_true, if_false, Option.some.injEq] at hu
            subst hu; exact hlx
      unfold oppOk at hok
      rw [hop] at hok
      simp only [hl1] at hok
      simpa using hok

theorem foldOpt_char (L : List EOpt) : ∀ (t : Opts) (P : EOpt → Prop), ReprO t P → AllCompat P →
    ((∀ t', L.foldlM stepOpt t = some t' →
        AllCompat (fun x => P x ∨ x ∈ L) ∧ ReprO t' (fun x => P x ∨ x ∈ L)) ∧
     (AllCompat (fun x => P x ∨ x ∈ L) → ∃ t', L.foldlM stepOpt t = some t')) := by
  induction L with
  | nil =>
    intro t P hR hC
    refine ⟨?_, fun _ => ⟨t, rfl⟩⟩
    intro t' h
    simp only [List.foldlM, Option.pure_def, Option.some.injEq] at h
    subst h
    simp only [List.not_mem_nil, or_false]
    exact ⟨hC, hR⟩
  | cons e L ih =>
    intro t P hR hC
    have hiff : ∀ x, ((P x ∨ x = e) ∨ x ∈ L) ↔ (P x ∨ x ∈ e :: L) := by
      intro x; simp only [List.mem_cons]; exact or_assoc
    constructor
    · intro t' h
      simp only [List.foldlM, Option.bind_eq_bind] at h
      cases hs : stepOpt t e with
      | none => rw [hs] at h; simp at h
      | some t1 =>
        rw [hs] at h
        simp only [Option.bind_some] at h
        have hce := stepOpt_some hR hs
        obtain ⟨t1', hs', hR1⟩ := stepOpt_ok hR hce
        rw [hs] at hs'; cases hs'
        have hC1 : AllCompat (fun x => P x ∨ x = e) := by
          intro a b ha hb
          rcases ha with ha | ha <;> rcases hb with hb | hb
          · exact hC a b ha hb
          · subst hb; exact (hce a ha).symm
          · subst ha; exact hce b hb
          · subst ha; subst hb; exact Compat.refl _
        obtain ⟨h1, -⟩ := ih t1 _ hR1 hC1
        obtain ⟨hA, hRR⟩ := h1 t' h
        constructor
        · intro a b ha hb; exact hA a b ((hiff a).2 ha) ((hiff b).2 hb)
        · intro n o b; rw [hRR]; exact hiff _
    · intro hA
      have hce : ∀ x, P x → Compat e x := fun x hx => hA e x (Or.inr List.mem_cons_self) (Or.inl hx)
      obtain ⟨t1, hs, hR1⟩ := stepOpt_ok hR hce
      have hC1 : AllCompat (fun x => P x ∨ x = e) := by
        intro a b ha hb
        apply hA
        · rcases ha with ha | ha
          · exact Or.inl ha
          · subst ha; exact Or.inr List.mem_cons_self
        · rcases hb with hb | hb
          · exact Or.inl hb
          · subst hb; exact Or.inr List.mem_cons_self
      obtain ⟨-, h2⟩ := ih t1 _ hR1 hC1
      obtain ⟨t', ht'⟩ := h2 (by intro a b ha hb; exact hA a b ((hiff a).1 ha) ((hiff b).1 hb))
      refine ⟨t', ?_⟩
      simp only [List.foldlM, Option.bind_eq_bind, hs, Option.bind_some]
      exact ht'

/-! ## trigger declarations -/

/-- elementary trigger declaration: (task, expression, triggers, suicide) -/
abbrev ETrig := Str × Str × List Str × Bool

def stepTrig (t : Trigs) (e : ETrig) : Option Trigs := setTrigger t e.1 e.2.2.2 e.2.2.1 e.2.1

/-- the same non-empty expression cannot trigger a task and its removal -/
def CompatT (a b : ETrig) : Prop :=
  a.1 = b.1 → a.2.1 = b.2.1 → a.2.1 ≠ [] → a.2.2.2 = b.2.2.2

theorem CompatT.symm {a b : ETrig} (h : CompatT a b) : CompatT b a :=
  fun h1 h2 h3 => (h h1.symm h2.symm (h2 ▸ h3)).symm

theorem CompatT.refl (a : ETrig) : CompatT a a := fun _ _ _ => rfl

/-- every stored value is a declaration, every declared key is stored -/
def ReprT (t : Trigs) (P : ETrig → Prop) : Prop :=
  ∀ n e, (∀ v, t.lookup (n, e) = some v → P (n, e, v.1, v.2)) ∧
    ((∃ ts s, P (n, e, ts, s)) → (t.lookup (n, e)).isSome = true)

def AllCompatT (P : ETrig → Prop) : Prop := ∀ a b, P a → P b → CompatT a b

theorem reprT_nil : ReprT [] (fun _ => False) := by
  intro n e; simp [List.lookup]

theorem reprT_aset {t : Trigs} {P : ETrig → Prop} {n e : Str} {ts : List Str} {s : Bool} (hR : ReprT t P) :
    ReprT (aset (n, e) (ts, s) t) (fun x => P x ∨ x = (n, e, ts, s)) := by
  intro n' e'
  rw [lookup_aset]
  by_cases hk : ((n', e') == (n, e)) = true
  · have hk' : (n', e') = (n, e) := by simpa using hk
    obtain ⟨rfl, rfl⟩ := Prod.mk.inj hk'
    simp only [beq_self_eq_true, if_true, Option.some.injEq, Option.isSome_some, implies_true, and_true]
    intro v hv; subst hv; exact Or.inr rfl
  · simp only [hk, Bool.false_eq_true, if_false]
    constructor
    · intro v hv; exact Or.inl ((hR n' e').1 v hv)
    · rintro ⟨ts', s', h | h⟩
      · exact (hR n' e').2 ⟨ts', s', h⟩
      · exfalso; apply hk
        have h1 := (Prod.mk.inj h).1; have h2 := (Prod.mk.inj (Prod.mk.inj h).2).1
        subst h1; subst h2; simp

theorem stepTrig_ok {t : Trigs} {P : ETrig → Prop} {e : ETrig} (hR : ReprT t P)
    (hC : ∀ x, P x → CompatT e x) :
    ∃ t', stepTrig t e = some t' ∧ ReprT t' (fun x => P x ∨ x = e) := by
  obtain ⟨n, ex, ts, s⟩ := e
  refine ⟨aset (n, ex) (ts, s) t, ?_, reprT_aset hR⟩
  show setTrigger t n s ts ex = _
  unfold setTrigger
  cases hl : t.lookup (n, ex) with
  | none => rfl
  | some v =>
    obtain ⟨vts, vs⟩ := v
    simp only
    have hP := (hR n ex).1 _ hl
    by_cases hne : ex = []
    · subst hne; simp
    · have := hC _ hP rfl rfl hne
      simp only at this
      subst this
      simp

theorem stepTrig_some {t t' : Trigs} {P : ETrig → Prop} {e : ETrig} (hR : ReprT t P) (hA : AllCompatT P)
    (h : stepTrig t e = some t') : (∀ x, P x → CompatT e x) := by
  obtain ⟨n, ex, ts, s⟩ := e
  intro x hx hn he hne
  obtain ⟨xn, xe, xts, xs⟩ := x
  simp only at hn he hne ⊢
  subst hn; subst he
  have h' : setTrigger t n s ts ex = some t' := h
  unfold setTrigger at h'
  have hsome := (hR n ex).2 ⟨xts, xs, hx⟩
  cases hl : t.lookup (n, ex) with
  | none => rw [hl] at hsome; simp at hsome
  | some v =>
    obtain ⟨vts, vs⟩ := v
    rw [hl] at h'
    simp only at h'
    have hP := (hR n ex).1 _ hl
    have hvs : vs = xs := hA _ _ hP hx rfl rfl hne
    subst hvs
    by_cases hc : (!ex.isEmpty && vs != s) = true
    · simp [hc] at h'
    · simp only [Bool.and_eq_true, Bool.not_eq_true', bne_iff_ne, ne_eq, not_and, Decidable.not_not] at hc
      have : ex.isEmpty = false := by
        cases ex with
        | nil => exact absurd rfl hne
        | cons _ _ => rfl
      exact (hc this).symm

theorem stepTrig_eq {t : Trigs} {e : ETrig} {t' : Trigs} (h : stepTrig t e = some t') :
    t' = aset (e.1, e.2.1) (e.2.2.1, e.2.2.2) t := by
  obtain ⟨n, ex, ts, s⟩ := e
  have h' : setTrigger t n s ts ex = some t' := h
  unfold setTrigger at h'
  cases hl : t.lookup (n, ex) with
  | none => rw [hl] at h'; simpa using h'.symm
  | some v =>
    rw [hl] at h'
    simp only at h'
    split_ifs at h' with hc
    simpa using h'.symm

theorem foldTrig_char (L : List ETrig) : ∀ (t : Trigs) (P : ETrig → Prop), ReprT t P → AllCompatT P →
    ((∀ t', L.foldlM stepTrig t = some t' →
        AllCompatT (fun x => P x ∨ x ∈ L) ∧ ReprT t' (fun x => P x ∨ x ∈ L)) ∧
     (AllCompatT (fun x => P x ∨ x ∈ L) → ∃ t', L.foldlM stepTrig t = some t')) := by
  induction L with
  | nil =>
    intro t P hR hC
    refine ⟨?_, fun _ => ⟨t, rfl⟩⟩
    intro t' h
    simp only [List.foldlM, Option.pure_def, Option.some.injEq] at h
    subst h
    simp only [List.not_mem_nil, or_false]
    exact ⟨hC, hR⟩
  | cons e L ih =>
    intro t P hR hC
    have hiff : ∀ x, ((P x ∨ x = e) ∨ x ∈ L) ↔ (P x ∨ x ∈ e :: L) := by
      intro x; simp only [List.mem_cons]; exact or_assoc
    have mkC1 : (∀ x, P x → CompatT e x) → AllCompatT (fun x => P x ∨ x = e) := by
      intro hce a b ha hb
      rcases ha with ha | ha <;> rcases hb with hb | hb
      · exact hC a b ha hb
      · subst hb; exact (hce a ha).symm
      · subst ha; exact hce b hb
      · subst ha; subst hb; exact CompatT.refl _
    constructor
    · intro t' h
      simp only [List.foldlM, Option.bind_eq_bind] at h
      cases hs : stepTrig t e with
      | none => rw [hs] at h; simp at h
      | some t1 =>
        rw [hs] at h
        simp only [Option.bind_some] at h
        have hce := stepTrig_some hR hC hs
        obtain ⟨t1', hs', hR1⟩ := stepTrig_ok hR hce
        rw [hs] at hs'; cases hs'
        obtain ⟨h1, -⟩ := ih t1 _ hR1 (mkC1 hce)
        obtain ⟨hA, hRR⟩ := h1 t' h
        constructor
        · intro a b ha hb; exact hA a b ((hiff a).2 ha) ((hiff b).2 hb)
        · intro n ex
          obtain ⟨r1, r2⟩ := hRR n ex
          exact ⟨fun v hv => (hiff _).1 (r1 v hv), fun ⟨ts, s, hp⟩ => r2 ⟨ts, s, (hiff _).2 hp⟩⟩
    · intro hA
      have hce : ∀ x, P x → CompatT e x := fun x hx => hA e x (Or.inr List.mem_cons_self) (Or.inl hx)
      obtain ⟨t1, hs, hR1⟩ := stepTrig_ok hR hce
      obtain ⟨-, h2⟩ := ih t1 _ hR1 (mkC1 hce)
      obtain ⟨t', ht'⟩ := h2 (by intro a b ha hb; exact hA a b ((hiff a).1 ha) ((hiff b).1 hb))
      refine ⟨t', ?_⟩
      simp only [List.foldlM, Option.bind_eq_bind, hs, Option.bind_some]
      exact ht'

/-! ## declarations → elementary declarations -/

/-- the elementary optionality declarations of a declaration; `none` = rejected on its own
(`expired` / `submit-failed` required, `finished` optional) -/
def Decl.eopts : Decl → Option (List EOpt)
  | .trig _ _ _ _ => some []
  | .opt n o b =>
    if (o = outExpired || o = outSubmitFailed) && !b then none
    else if o = outFinished then (if b then none else some [(n, outSucceeded, true), (n, outFailed, true)])
    else some [(n, o, b)]

def Decl.etrigs : Decl → List ETrig
  | .trig n e ts s => [(n, e, ts, s)]
  | .opt _ _ _ => []

theorem applyDecl_char (st st' : St) (d : Decl) :
    applyDecl st d = some st' ↔
      ∃ es, d.eopts = some es ∧ es.foldlM stepOpt st.opts = some st'.opts ∧
        d.etrigs.foldlM stepTrig st.trigs = some st'.trigs := by
  cases d with
  | trig n e ts s =>
    simp only [applyDecl, Decl.eopts, Decl.etrigs, Option.some.injEq, exists_eq_left', List.foldlM,
      Option.pure_def, Option.bind_eq_bind, stepTrig]
    cases hs : setTrigger st.trigs n s ts e with
    | none => simp
    | some t =>
      simp only [Option.map_some, Option.some.injEq, Option.bind_some]
      constructor
      · intro h; subst h; exact ⟨rfl, rfl⟩
      · rintro ⟨h1, h2⟩
        cases st'; simp only at h1 h2; subst h1; subst h2; rfl
  | opt n o b =>
    simp only [applyDecl, Decl.eopts, Decl.etrigs, List.foldlM, Option.pure_def, Option.some.injEq]
    unfold setOutputOpt
    simp only [Bool.false_eq_true, if_false]
    by_cases h1 : ((o = outExpired || o = outSubmitFailed) && !b) = true
    · simp [h1]
    · simp only [h1, Bool.false_eq_true, if_false]
      by_cases h2 : o = outFinished
      · simp only [h2, if_true]
        cases b with
        | true => simp
        | false =>
          simp only [Bool.false_eq_true, if_false, Option.some.injEq, exists_eq_left', List.foldlM,
            Option.pure_def, Option.bind_eq_bind, stepOpt]
          cases hs : setOpt1 st.opts n outSucceeded true with
          | none => simp
          | some t1 =>
            simp only [Option.bind_some]
            cases hs2 : setOpt1 t1 n outFailed true with
            | none => simp
            | some t2 =>
              simp only [Option.map_some, Option.some.injEq, Option.bind_some]
              constructor
              · intro h; subst h; exact ⟨rfl, rfl⟩
              · rintro ⟨h1, h2⟩
                cases st'; simp only at h1 h2; subst h1; subst h2; rfl
      · simp only [h2, if_false, Option.some.injEq, exists_eq_left', List.foldlM, Option.pure_def,
          Option.bind_eq_bind, stepOpt]
        cases hs : setOpt1 st.opts n o b with
        | none => simp
        | some t1 =>
          simp only [Option.map_some, Option.some.injEq, Option.bind_some]
          constructor
          · intro h; subst h; exact ⟨rfl, rfl⟩
          · rintro ⟨h1, h2⟩
            cases st'; simp only at h1 h2; subst h1; subst h2; rfl

/-- the fold over declarations is the two folds over elementary declarations -/
theorem foldDecl_split (D : List Decl) : ∀ (st st' : St),
    D.foldlM applyDecl st = some st' ↔
      ∃ E, D.mapM Decl.eopts = some E ∧ E.flatten.foldlM stepOpt st.opts = some st'.opts ∧
        (D.flatMap Decl.etrigs).foldlM stepTrig st.trigs = some st'.trigs := by
  induction D with
  | nil =>
    intro st st'
    simp only [List.foldlM, Option.pure_def, Option.some.injEq, List.mapM_nil, List.flatMap_nil,
      exists_eq_left', List.flatten_nil]
    constructor
    · intro h; subst h; exact ⟨rfl, rfl⟩
    · rintro ⟨h1, h2⟩
      cases st; cases st'; simp only at h1 h2; subst h1; subst h2; rfl
  | cons d D ih =>
    intro st st'
    simp only [List.foldlM, Option.bind_eq_bind, List.mapM_cons, List.flatMap_cons]
    constructor
    · intro h
      cases hs : applyDecl st d with
      | none => rw [hs] at h; simp at h
      | some s1 =>
        rw [hs] at h
        simp only [Option.bind_some] at h
        obtain ⟨es, he, ho, ht⟩ := (applyDecl_char st s1 d).1 hs
        obtain ⟨E, hE, hO, hT⟩ := (ih s1 st').1 h
        refine ⟨es :: E, ?_, ?_, ?_⟩
        · simp [he, hE]
        · simp only [List.flatten_cons, List.foldlM_append, ho, Option.bind_eq_bind, Option.bind_some]; exact hO
        · simp only [List.foldlM_append, ht, Option.bind_eq_bind, Option.bind_some]; exact hT
    · rintro ⟨E', hE', hO, hT⟩
      cases he : d.eopts with
      | none => simp [he] at hE'
      | some es =>
        cases hE : D.mapM Decl.eopts with
        | none => simp [he, hE] at hE'
        | some E =>
          simp only [he, hE, Option.pure_def, Option.bind_eq_bind, Option.bind_some, Option.some.injEq] at hE'
          subst hE'
          simp only [List.flatten_cons, List.foldlM_append, Option.bind_eq_bind] at hO
          simp only [List.foldlM_append, Option.bind_eq_bind] at hT
          cases ho : es.foldlM stepOpt st.opts with
          | none => rw [ho] at hO; simp at hO
          | some o1 =>
            cases ht : d.etrigs.foldlM stepTrig st.trigs with
            | none => rw [ht] at hT; simp at hT
            | some t1 =>
              rw [ho] at hO; rw [ht] at hT
              simp only [Option.bind_some] at hO hT
              have hs : applyDecl st d = some { trigs := t1, opts := o1 } :=
                (applyDecl_char st _ d).2 ⟨es, he, ho, ht⟩
              rw [hs]
              simp only [Option.bind_some]
              exact (ih _ st').2 ⟨E, hE, hO, hT⟩

/-! ## the fold as a function of the *set* of declarations -/

theorem mapM_some_iff {α β : Type} (f : α → Option β) (D : List α) :
    (∃ E, D.mapM f = some E) ↔ ∀ d ∈ D, (f d).isSome = true := by
  induction D with
  | nil => simp
  | cons d D ih =>
    simp only [List.mapM_cons, Option.pure_def, Option.bind_eq_bind, List.mem_cons, forall_eq_or_imp]
    cases hd : f d with
    | none => simp
    | some b =>
      simp only [Option.bind_some, Option.isSome_some, true_and]
      rw [← ih]
      constructor
      · rintro ⟨E, hE⟩
        cases hm : D.mapM f with
        | none => rw [hm] at hE; simp at hE
        | some E' => exact ⟨E', rfl⟩
      · rintro ⟨E, hE⟩
        exact ⟨b :: E, by simp [hE]⟩

theorem mem_flatten_of_mapM {α β : Type} (f : α → Option (List β)) (D : List α) :
    ∀ E, D.mapM f = some E → ∀ x, x ∈ E.flatten ↔ ∃ d ∈ D, ∃ es, f d = some es ∧ x ∈ es := by
  induction D with
  | nil =>
    intro E h x
    simp only [List.mapM_nil, Option.pure_def, Option.some.injEq] at h
    subst h; simp
  | cons d D ih =>
    intro E h x
    simp only [List.mapM_cons, Option.pure_def, Option.bind_eq_bind] at h
    cases hd : f d with
    | none => rw [hd] at h; simp at h
    | some es =>
      rw [hd] at h
      simp only [Option.bind_some] at h
      cases hm : D.mapM f with
      | none => rw [hm] at h; simp at h
      | some E' =>
        rw [hm] at h
        simp only [Option.bind_some, Option.some.injEq] at h
        subst h
        simp only [List.flatten_cons, List.mem_append, List.mem_cons, exists_eq_or_imp, hd,
          Option.some.injEq, exists_eq_left']
        rw [ih E' hm x]

def memE (D : List Decl) (x : EOpt) : Prop := ∃ d ∈ D, ∃ es, d.eopts = some es ∧ x ∈ es
def memT (D : List Decl) (x : ETrig) : Prop := ∃ d ∈ D, x ∈ d.etrigs

/-- the declarations can stand together -/
def Good (D : List Decl) : Prop :=
  (∀ d ∈ D, d.eopts.isSome = true) ∧ AllCompat (memE D) ∧ AllCompatT (memT D)

theorem AllCompat_congr {P Q : EOpt → Prop} (h : ∀ x, P x ↔ Q x) : AllCompat P ↔ AllCompat Q :=
  ⟨fun hp a b ha hb => hp a b ((h a).2 ha) ((h b).2 hb), fun hq a b ha hb => hq a b ((h a).1 ha) ((h b).1 hb)⟩

theorem AllCompatT_congr {P Q : ETrig → Prop} (h : ∀ x, P x ↔ Q x) : AllCompatT P ↔ AllCompatT Q :=
  ⟨fun hp a b ha hb => hp a b ((h a).2 ha) ((h b).2 hb), fun hq a b ha hb => hq a b ((h a).1 ha) ((h b).1 hb)⟩

theorem ReprO_congr {t : Opts} {P Q : EOpt → Prop} (h : ∀ x, P x ↔ Q x) (hr : ReprO t P) : ReprO t Q :=
  fun n o b => (hr n o b).trans (h _)

theorem ReprT_congr {t : Trigs} {P Q : ETrig → Prop} (h : ∀ x, P x ↔ Q x) (hr : ReprT t P) : ReprT t Q :=
  fun n e => ⟨fun v hv => (h _).1 ((hr n e).1 v hv), fun ⟨ts, s, hq⟩ => (hr n e).2 ⟨ts, s, (h _).2 hq⟩⟩

/-- **the fold is a function of the set of declarations** -/
theorem fold_good (D : List Decl) :
    (∀ st, D.foldlM applyDecl ({} : St) = some st →
        Good D ∧ ReprO st.opts (memE D) ∧ ReprT st.trigs (memT D)) ∧
    (Good D → ∃ st, D.foldlM applyDecl ({} : St) = some st) := by
  have hT : ∀ x, (False ∨ x ∈ D.flatMap Decl.etrigs) ↔ memT D x := by
    intro x; simp only [false_or, List.mem_flatMap, memT]
  constructor
  · intro st h
    obtain ⟨E, hE, hO, hTr⟩ := (foldDecl_split D _ st).1 h
    have hmem := mem_flatten_of_mapM Decl.eopts D E hE
    have hEq : ∀ x, (False ∨ x ∈ E.flatten) ↔ memE D x := by
      intro x; simp only [false_or]; exact hmem x
    obtain ⟨ho, -⟩ := foldOpt_char E.flatten [] _ reprO_nil (fun _ _ h => h.elim)
    obtain ⟨hAC, hRO⟩ := ho _ hO
    obtain ⟨ht, -⟩ := foldTrig_char (D.flatMap Decl.etrigs) [] _ reprT_nil (fun _ _ h => h.elim)
    obtain ⟨hACT, hRT⟩ := ht _ hTr
    refine ⟨⟨(mapM_some_iff _ D).1 ⟨E, hE⟩, (AllCompat_congr hEq).1 hAC, (AllCompatT_congr hT).1 hACT⟩,
      ReprO_congr hEq hRO, ReprT_congr hT hRT⟩
  · rintro ⟨h1, h2, h3⟩
    obtain ⟨E, hE⟩ := (mapM_some_iff _ D).2 h1
    have hmem := mem_flatten_of_mapM Decl.eopts D E hE
    have hEq : ∀ x, (False ∨ x ∈ E.flatten) ↔ memE D x := by
      intro x; simp only [false_or]; exact hmem x
    obtain ⟨-, ho⟩ := foldOpt_char E.flatten [] _ reprO_nil (fun _ _ h => h.elim)
    obtain ⟨to, hto⟩ := ho ((AllCompat_congr hEq).2 h2)
    obtain ⟨-, ht⟩ := foldTrig_char (D.flatMap Decl.etrigs) [] _ reprT_nil (fun _ _ h => h.elim)
    obtain ⟨tt, htt⟩ := ht ((AllCompatT_congr hT).2 h3)
    exact ⟨{ trigs := tt, opts := to }, (foldDecl_split D _ _).2 ⟨E, hE, hto, htt⟩⟩

/-! ## equivalence of results -/

/-- Two parser tables are observably the same: the same optionality table, the same non-empty trigger
expressions per task with the same suicide flag, the same set of tasks. -/
def StEq (a b : St) : Prop :=
  (∀ k, a.opts.lookup k = b.opts.lookup k) ∧
  (∀ n e, e ≠ [] → (a.trigs.lookup (n, e)).map (·.2) = (b.trigs.lookup (n, e)).map (·.2)) ∧
  (∀ n, (∃ e, (a.trigs.lookup (n, e)).isSome = true) ↔ (∃ e, (b.trigs.lookup (n, e)).isSome = true))

/-- both rejected, or both accepted with the same tables -/
def REq : Option St → Option St → Prop
  | none, none => True
  | some x, some y => StEq x y
  | _, _ => False

theorem StEq.refl (a : St) : StEq a a := ⟨fun _ => rfl, fun _ _ _ => rfl, fun _ => Iff.rfl⟩
theorem REq.refl (a : Option St) : REq a a := by cases a <;> simp [REq, StEq.refl]

theorem StEq.symm {a b : St} (h : StEq a b) : StEq b a :=
  ⟨fun k => (h.1 k).symm, fun n e he => (h.2.1 n e he).symm, fun n => (h.2.2 n).symm⟩

theorem StEq.trans {a b c : St} (h : StEq a b) (g : StEq b c) : StEq a c :=
  ⟨fun k => (h.1 k).trans (g.1 k), fun n e he => (h.2.1 n e he).trans (g.2.1 n e he),
   fun n => (h.2.2 n).trans (g.2.2 n)⟩

theorem REq.symm {a b : Option St} (h : REq a b) : REq b a := by
  cases a <;> cases b <;> simp only [REq] at h ⊢ <;> first | exact h.symm | exact h

theorem REq.trans {a b c : Option St} (h : REq a b) (g : REq b c) : REq a c := by
  cases a <;> cases b <;> cases c <;> simp only [REq] at h g ⊢ <;> first | exact h.trans g | exact h | exact g

/-- the declaration lists declare the same things (empty-expression trigger entries only count for
the set of tasks) -/
structure DeclEquiv (D₁ D₂ : List Decl) : Prop where
  ok : (∀ d ∈ D₁, d.eopts.isSome = true) ↔ (∀ d ∈ D₂, d.eopts.isSome = true)
  opts : ∀ x, memE D₁ x ↔ memE D₂ x
  trigs : ∀ n e ts s, e ≠ [] → (memT D₁ (n, e, ts, s) ↔ memT D₂ (n, e, ts, s))
  tasks : ∀ n, (∃ e ts s, memT D₁ (n, e, ts, s)) ↔ (∃ e ts s, memT D₂ (n, e, ts, s))

theorem allCompatT_of_trigs {D₁ D₂ : List Decl}
    (h : ∀ n e ts s, e ≠ [] → (memT D₁ (n, e, ts, s) ↔ memT D₂ (n, e, ts, s)))
    (hc : AllCompatT (memT D₁)) : AllCompatT (memT D₂) := by
  intro a b ha hb hn he hne
  obtain ⟨an, ae, ats, as⟩ := a
  obtain ⟨bn, be, bts, bs⟩ := b
  simp only at hn he hne
  subst hn; subst he
  exact hc _ _ ((h _ _ _ _ hne).2 ha) ((h _ _ _ _ hne).2 hb) rfl rfl hne

theorem option_eq_of_iff {α : Type} {a b : Option α} (h : ∀ v, a = some v ↔ b = some v) : a = b := by
  cases a with
  | none =>
    cases b with
    | none => rfl
    | some v => exact absurd ((h v).2 rfl) (by simp)
  | some v => exact ((h v).1 rfl).symm

theorem fold_equiv {D₁ D₂ : List Decl} (h : DeclEquiv D₁ D₂) :
    REq (D₁.foldlM applyDecl ({} : St)) (D₂.foldlM applyDecl ({} : St)) := by
  have good12 : Good D₁ → Good D₂ := fun ⟨g1, g2, g3⟩ =>
    ⟨h.ok.1 g1, (AllCompat_congr h.opts).1 g2, allCompatT_of_trigs h.trigs g3⟩
  have good21 : Good D₂ → Good D₁ := fun ⟨g1, g2, g3⟩ =>
    ⟨h.ok.2 g1, (AllCompat_congr h.opts).2 g2,
      allCompatT_of_trigs (fun n e ts s he => (h.trigs n e ts s he).symm) g3⟩
  cases h1 : D₁.foldlM applyDecl ({} : St) with
  | none =>
    cases h2 : D₂.foldlM applyDecl ({} : St) with
    | none => trivial
    | some s2 =>
      obtain ⟨g, -, -⟩ := (fold_good D₂).1 s2 h2
      obtain ⟨s1, hs1⟩ := (fold_good D₁).2 (good21 g)
      rw [h1] at hs1; cases hs1
  | some s1 =>
    obtain ⟨g1, ro1, rt1⟩ := (fold_good D₁).1 s1 h1
    cases h2 : D₂.foldlM applyDecl ({} : St) with
    | none =>
      obtain ⟨s2, hs2⟩ := (fold_good D₂).2 (good12 g1)
      rw [h2] at hs2; cases hs2
    | some s2 =>
      obtain ⟨g2, ro2, rt2⟩ := (fold_good D₂).1 s2 h2
      refine ⟨?_, ?_, ?_⟩
      · rintro ⟨n, o⟩
        apply option_eq_of_iff
        intro b
        rw [ro1 n o b, ro2 n o b]
        exact h.opts _
      · intro n e he
        cases l1 : s1.trigs.lookup (n, e) with
        | none =>
          cases l2 : s2.trigs.lookup (n, e) with
          | none => rfl
          | some v2 =>
            have p2 := (rt2 n e).1 v2 l2
            have := (rt1 n e).2 ⟨_, _, (h.trigs n e _ _ he).2 p2⟩
            rw [l1] at this; simp at this
        | some v1 =>
          have p1 := (rt1 n e).1 v1 l1
          cases l2 : s2.trigs.lookup (n, e) with
          | none =>
            have := (rt2 n e).2 ⟨_, _, (h.trigs n e _ _ he).1 p1⟩
            rw [l2] at this; simp at this
          | some v2 =>
            have p2 := (rt2 n e).1 v2 l2
            have := g2.2.2 _ _ ((h.trigs n e _ _ he).1 p1) p2 rfl rfl he
            simp only at this
            simp [this]
      · intro n
        have key : ∀ (s : St) (D : List Decl), ReprT s.trigs (memT D) →
            ((∃ e, (s.trigs.lookup (n, e)).isSome = true) ↔ ∃ e ts sc, memT D (n, e, ts, sc)) := by
          intro s D rt
          constructor
          · rintro ⟨e, he⟩
            cases l : s.trigs.lookup (n, e) with
            | none => rw [l] at he; simp at he
            | some v => exact ⟨e, v.1, v.2, (rt n e).1 v l⟩
          · rintro ⟨e, ts, sc, hm⟩
            exact ⟨e, (rt n e).2 ⟨ts, sc, hm⟩⟩
        rw [key s1 D₁ rt1, key s2 D₂ rt2]
        exact h.tasks n

/-! ## the structure model as a function of sets -/

def guardOk (L : List SLine) : Bool := L.all fun l => l.shapeOk && l.nodes.all Node.valid
def pairsOf (L : List SLine) : List SPair := L.flatMap SLine.pairs
def eocOf (L : List SLine) : List Str := L.flatMap SLine.eoc
def midOf (m : Bool) (L : List SLine) : List Str := if m then L.flatMap SLine.mid else []

theorem parseStructWith_unfold (m : Bool) (L : List SLine) :
    parseStructWith m L =
      if !guardOk L then none
      else
        match (pairsOf L).mapM (pairDecls (eocOf L) (midOf m L)) with
        | none => none
        | some ds =>
          match ds.flatten.foldlM applyDecl ({} : St) with
          | none => none
          | some st => if terminalsOk (pairsOf L) then some st else none := rfl

theorem parse_equiv_core {m : Bool} {L₁ L₂ : List SLine}
    (hg : guardOk L₁ = guardOk L₂)
    (hp : (∀ p ∈ pairsOf L₁, (pairDecls (eocOf L₁) (midOf m L₁) p).isSome = true) ↔
          (∀ p ∈ pairsOf L₂, (pairDecls (eocOf L₂) (midOf m L₂) p).isSome = true))
    (hd : ∀ ds₁ ds₂, (pairsOf L₁).mapM (pairDecls (eocOf L₁) (midOf m L₁)) = some ds₁ →
          (pairsOf L₂).mapM (pairDecls (eocOf L₂) (midOf m L₂)) = some ds₂ →
          DeclEquiv ds₁.flatten ds₂.flatten)
    (ht : terminalsOk (pairsOf L₁) = terminalsOk (pairsOf L₂)) :
    REq (parseStructWith m L₁) (parseStructWith m L₂) := by
  rw [parseStructWith_unfold, parseStructWith_unfold, hg, ht]
  cases hgu : guardOk L₂ with
  | false => simp [REq]
  | true =>
  simp only [Bool.not_true, Bool.false_eq_true, if_false]
  cases h1 : (pairsOf L₁).mapM (pairDecls (eocOf L₁) (midOf m L₁)) with
  | none =>
    cases h2 : (pairsOf L₂).mapM (pairDecls (eocOf L₂) (midOf m L₂)) with
    | none => trivial
    | some ds₂ =>
      exfalso
      obtain ⟨E, hE⟩ := (mapM_some_iff _ _).2 (hp.2 ((mapM_some_iff _ _).1 ⟨ds₂, h2⟩))
      rw [h1] at hE; cases hE
  | some ds₁ =>
    cases h2 : (pairsOf L₂).mapM (pairDecls (eocOf L₂) (midOf m L₂)) with
    | none =>
      exfalso
      obtain ⟨E, hE⟩ := (mapM_some_iff _ _).2 (hp.1 ((mapM_some_iff _ _).1 ⟨ds₁, h1⟩))
      rw [h2] at hE; cases hE
    | some ds₂ =>
      have hfe := fold_equiv (hd ds₁ ds₂ h1 h2)
      simp only
      cases f1 : ds₁.flatten.foldlM applyDecl ({} : St) with
      | none =>
        cases f2 : ds₂.flatten.foldlM applyDecl ({} : St) with
        | none => trivial
        | some s2 => rw [f1, f2] at hfe; exact hfe.elim
      | some s1 =>
        cases f2 : ds₂.flatten.foldlM applyDecl ({} : St) with
        | none => rw [f1, f2] at hfe; exact hfe.elim
        | some s2 =>
          rw [f1, f2] at hfe
          simp only
          by_cases htt : terminalsOk (pairsOf L₂) = true
          · simp only [htt, if_true]; exact hfe
          · simp only [htt, Bool.false_eq_true, if_false]; trivial

theorem contains_congr {l₁ l₂ : List Str} (h : ∀ x, x ∈ l₁ ↔ x ∈ l₂) (t : Str) :
    l₁.contains t = l₂.contains t := by
  rw [Bool.eq_iff_iff, List.contains_iff_mem, List.contains_iff_mem]; exact h t

theorem pairDecls_congr {e₁ e₂ m₁ m₂ : List Str} (he : ∀ x, x ∈ e₁ ↔ x ∈ e₂) (hm : ∀ x, x ∈ m₁ ↔ x ∈ m₂)
    (p : SPair) : pairDecls e₁ m₁ p = pairDecls e₂ m₂ p := by
  have hro : ∀ (b : Bool) (r : Node), rightOutput e₁ m₁ b r = rightOutput e₂ m₂ b r := by
    intro b r; unfold rightOutput; rw [contains_congr he, contains_congr hm]
  have hrd : ∀ (ex : Str) (ts : List Str) (r : Node), rightDecls e₁ m₁ ex ts r = rightDecls e₂ m₂ ex ts r := by
    intro ex ts r; unfold rightDecls; rw [hro]
  have hfun : rightDecls e₁ m₁ = rightDecls e₂ m₂ := by
    funext ex ts r; exact hrd ex ts r
  unfold pairDecls
  rw [hfun]

theorem mem_flatMap_congr {α β : Type} {L₁ L₂ : List α} (h : ∀ l, l ∈ L₁ ↔ l ∈ L₂) (f : α → List β) (x : β) :
    x ∈ L₁.flatMap f ↔ x ∈ L₂.flatMap f := by
  simp only [List.mem_flatMap]
  exact ⟨fun ⟨l, hl, hx⟩ => ⟨l, (h l).1 hl, hx⟩, fun ⟨l, hl, hx⟩ => ⟨l, (h l).2 hl, hx⟩⟩

theorem all_congr {α : Type} {L₁ L₂ : List α} (h : ∀ l, l ∈ L₁ ↔ l ∈ L₂) (f : α → Bool) :
    L₁.all f = L₂.all f := by
  rw [Bool.eq_iff_iff, List.all_eq_true, List.all_eq_true]
  exact ⟨fun g x hx => g x ((h x).2 hx), fun g x hx => g x ((h x).1 hx)⟩

theorem terminalsOk_congr {P₁ P₂ : List SPair} (h : ∀ p, p ∈ P₁ ↔ p ∈ P₂) :
    terminalsOk P₁ = terminalsOk P₂ := by
  unfold terminalsOk
  have hl : ∀ t : Str, (P₁.flatMap SPair.leftTexts).contains t = (P₂.flatMap SPair.leftTexts).contains t :=
    fun t => contains_congr (fun x => mem_flatMap_congr h _ x) t
  simp only [hl]
  exact all_congr h _

/-- membership of a declaration in the declarations of a list of pairs -/
theorem mem_decls {e m : List Str} {P : List SPair} {ds : List (List Decl)}
    (h : P.mapM (pairDecls e m) = some ds) (d : Decl) :
    d ∈ ds.flatten ↔ ∃ p ∈ P, ∃ l, pairDecls e m p = some l ∧ d ∈ l :=
  mem_flatten_of_mapM _ P ds h d

theorem declEquiv_of_mem {D₁ D₂ : List Decl} (h : ∀ d, d ∈ D₁ ↔ d ∈ D₂) : DeclEquiv D₁ D₂ where
  ok := ⟨fun g d hd => g d ((h d).2 hd), fun g d hd => g d ((h d).1 hd)⟩
  opts := fun x => ⟨fun ⟨d, hd, r⟩ => ⟨d, (h d).1 hd, r⟩, fun ⟨d, hd, r⟩ => ⟨d, (h d).2 hd, r⟩⟩
  trigs := fun _ _ _ _ _ => ⟨fun ⟨d, hd, r⟩ => ⟨d, (h d).1 hd, r⟩, fun ⟨d, hd, r⟩ => ⟨d, (h d).2 hd, r⟩⟩
  tasks := fun _ => ⟨fun ⟨e, ts, s, d, hd, r⟩ => ⟨e, ts, s, d, (h d).1 hd, r⟩,
                     fun ⟨e, ts, s, d, hd, r⟩ => ⟨e, ts, s, d, (h d).2 hd, r⟩⟩

/-- lines that form the same *set* give the same result: duplicated lines and the order of lines
do not matter -/
theorem parseStructWith_set_invariant (m : Bool) {L₁ L₂ : List SLine} (h : ∀ l, l ∈ L₁ ↔ l ∈ L₂) :
    REq (parseStructWith m L₁) (parseStructWith m L₂) := by
  have hpairs : ∀ p, p ∈ pairsOf L₁ ↔ p ∈ pairsOf L₂ := fun p => mem_flatMap_congr h _ p
  have heoc : ∀ x, x ∈ eocOf L₁ ↔ x ∈ eocOf L₂ := fun x => mem_flatMap_congr h _ x
  have hmid : ∀ x, x ∈ midOf m L₁ ↔ x ∈ midOf m L₂ := by
    intro x; unfold midOf; cases m
    · simp
    · simp only [if_true]; exact mem_flatMap_congr h _ x
  have hpd : ∀ p, pairDecls (eocOf L₁) (midOf m L₁) p = pairDecls (eocOf L₂) (midOf m L₂) p :=
    pairDecls_congr heoc hmid
  apply parse_equiv_core
  · exact all_congr h _
  · constructor
    · intro g p hp; rw [← hpd]; exact g p ((hpairs p).2 hp)
    · intro g p hp; rw [hpd]; exact g p ((hpairs p).1 hp)
  · intro ds₁ ds₂ h1 h2
    apply declEquiv_of_mem
    intro d
    rw [mem_decls h1, mem_decls h2]
    constructor
    · rintro ⟨p, hp, l, hl, hd⟩; exact ⟨p, (hpairs p).1 hp, l, by rw [← hpd]; exact hl, hd⟩
    · rintro ⟨p, hp, l, hl, hd⟩; exact ⟨p, (hpairs p).2 hp, l, by rw [hpd]; exact hl, hd⟩
  · exact terminalsOk_congr hpairs

/-! ## splitting a chain -/

theorem chainLinks_append (a : List (List Node)) (m : List Node) (b : List (List Node)) :
    ∀ h : Tree Node, chainLinks h (a ++ [m] ++ b) = chainLinks h (a ++ [m]) ++ chainLinks (bigAnd default m) b := by
  induction a with
  | nil => intro h; simp [chainLinks]
  | cons x a ih => intro h; simp only [List.cons_append, chainLinks]; rw [ih]

theorem bigAnd_leaves {α : Type} (d : α) : ∀ (l : List α), l ≠ [] → (bigAnd d l).leaves = l
  | [], h => absurd rfl h
  | [x], _ => rfl
  | x :: y :: r, _ => by
    simp only [bigAnd, Tree.leaves, List.singleton_append]
    rw [bigAnd_leaves d (y :: r) (by simp)]

theorem dropLast_append_singleton {α : Type} (a : List α) (x : α) : dropLast (a ++ [x]) = a := by
  induction a with
  | nil => rfl
  | cons y a ih =>
    cases a with
    | nil => rfl
    | cons z a => simp only [List.cons_append, dropLast] at ih ⊢; rw [ih]

theorem dropLast_append {α : Type} (a b : List α) (hb : b ≠ []) : dropLast (a ++ b) = a ++ dropLast b := by
  induction a with
  | nil => rfl
  | cons y a ih =>
    cases hab : a ++ b with
    | nil =>
      have : b = [] := (List.append_eq_nil_iff.1 hab).2
      exact absurd this hb
    | cons z r =>
      simp only [List.cons_append, hab, dropLast]
      rw [← hab, ih]

theorem getLast?_append_ne {α : Type} (a b : List α) (hb : b ≠ []) : (a ++ b).getLast? = b.getLast? := by
  rw [List.getLast?_append]
  cases h : b.getLast? with
  | none => exact absurd (List.getLast?_eq_none_iff.1 h) hb
  | some v => simp

theorem outSucceeded_ne_nil : outSucceeded ≠ [] := by decide

/-- `rightOutput` with a larger end-of-chain set and a smaller mid-chain set (`T` = what moved):
the same, or the inference of `:succeeded` for a plain node whose text is in `T` is lost -/
theorem rightOutput_sub {e₁ e₂ m₁ m₂ T : List Str}
    (hE : ∀ x, x ∈ e₂ ↔ x ∈ e₁ ∨ x ∈ T) (hM : ∀ x, x ∈ m₁ ↔ x ∈ m₂ ∨ x ∈ T) (b : Bool) (r : Node) :
    rightOutput e₂ m₂ b r = rightOutput e₁ m₁ b r ∨
    (rightOutput e₂ m₂ b r = [] ∧ rightOutput e₁ m₁ b r = outSucceeded ∧
      r.text ∈ T ∧ r.qual = [] ∧ r.opt = false) := by
  unfold rightOutput
  cases hq : r.qual.isEmpty with
  | false => simp
  | true =>
    have hq' : r.qual = [] := List.isEmpty_iff.1 hq
    have c1 : e₁.contains r.text = true ↔ r.text ∈ e₁ := List.contains_iff_mem
    have c2 : e₂.contains r.text = true ↔ r.text ∈ e₂ := List.contains_iff_mem
    have c3 : m₁.contains r.text = true ↔ r.text ∈ m₁ := List.contains_iff_mem
    have c4 : m₂.contains r.text = true ↔ r.text ∈ m₂ := List.contains_iff_mem
    have f1 : e₁.contains r.text = true → e₂.contains r.text = true :=
      fun h => c2.2 ((hE _).2 (Or.inl (c1.1 h)))
    have f2 : m₂.contains r.text = true → m₁.contains r.text = true :=
      fun h => c3.2 ((hM _).2 (Or.inl (c4.1 h)))
    have f3 : e₂.contains r.text = true → e₁.contains r.text = false → r.text ∈ T := by
      intro h h'
      rcases (hE _).1 (c2.1 h) with g | g
      · have := c1.2 g; rw [h'] at this; cases this
      · exact g
    have f4 : m₁.contains r.text = true → m₂.contains r.text = false → r.text ∈ T := by
      intro h h'
      rcases (hM _).1 (c3.1 h) with g | g
      · have := c4.2 g; rw [h'] at this; cases this
      · exact g
    have hS : outSucceeded ≠ [] := by decide
    generalize e₁.contains r.text = A₁ at *
    generalize e₂.contains r.text = A₂ at *
    generalize m₁.contains r.text = B₁ at *
    generalize m₂.contains r.text = B₂ at *
    cases hopt : r.opt <;> cases b <;> cases A₁ <;> cases A₂ <;> cases B₁ <;> cases B₂ <;>
      simp_all

theorem rightDecls_sub {e₁ e₂ m₁ m₂ T : List Str}
    (hE : ∀ x, x ∈ e₂ ↔ x ∈ e₁ ∨ x ∈ T) (hM : ∀ x, x ∈ m₁ ↔ x ∈ m₂ ∨ x ∈ T)
    (ex : Str) (ts : List Str) (r : Node) (d : Decl) :
    (d ∈ rightDecls e₂ m₂ ex ts r → d ∈ rightDecls e₁ m₁ ex ts r) ∧
    (d ∈ rightDecls e₁ m₁ ex ts r → d ∈ rightDecls e₂ m₂ ex ts r ∨
      (r.text ∈ T ∧ r.qual = [] ∧ r.opt = false ∧ r.suicide = false ∧ d = Decl.opt r.name outSucceeded false)) := by
  unfold rightDecls
  rcases rightOutput_sub hE hM ex.isEmpty r with h | ⟨h2, h1, hT, hq, hopt⟩
  · rw [h]; exact ⟨id, Or.inl⟩
  · rw [h2, h1]
    have hnil : rightOptDecl r [] = [] := by simp [rightOptDecl]
    rw [hnil, List.append_nil]
    constructor
    · exact fun hd => List.mem_append_left _ hd
    · intro hd
      rcases List.mem_append.1 hd with hd | hd
      · exact Or.inl hd
      · right
        unfold rightOptDecl at hd
        have hne : outSucceeded.isEmpty = false := by decide
        cases hs : r.suicide with
        | true => simp [hs] at hd
        | false =>
          simp only [hne, hs, Bool.or_self, Bool.false_eq_true, if_false, List.mem_singleton] at hd
          exact ⟨hT, hq, hopt, rfl, by rw [hd, hopt]⟩

/-- the declaration that version 2 of a pair may lack: the inferred `:succeeded` of a plain node in `T` -/
def Extra (T : List Str) (r : Node) (d : Decl) : Prop :=
  r.text ∈ T ∧ r.qual = [] ∧ r.opt = false ∧ r.suicide = false ∧ d = Decl.opt r.name outSucceeded false

theorem pairDecls_isSome_indep (e₁ m₁ e₂ m₂ : List Str) (p : SPair) :
    (pairDecls e₁ m₁ p).isSome = (pairDecls e₂ m₂ p).isSome := by
  unfold pairDecls
  split_ifs with h1
  · rfl
  · cases p.left with
    | none => rfl
    | some l =>
      simp only
      split_ifs <;> rfl

theorem pairDecls_noXtrig {e m : List Str} {p : SPair} {l : List Decl} (h : pairDecls e m p = some l) :
    ∀ r ∈ p.rights, r.isXtrig = false := by
  unfold pairDecls at h
  split_ifs at h with h1
  simp only [Bool.or_eq_true, not_or, Bool.not_eq_true] at h1
  intro r hr
  have := h1.2
  rw [List.any_eq_false] at this
  simpa using this r hr

theorem pairDecls_sub {e₁ e₂ m₁ m₂ T : List Str}
    (hE : ∀ x, x ∈ e₂ ↔ x ∈ e₁ ∨ x ∈ T) (hM : ∀ x, x ∈ m₁ ↔ x ∈ m₂ ∨ x ∈ T)
    {p : SPair} {l₁ l₂ : List Decl} (h1 : pairDecls e₁ m₁ p = some l₁) (h2 : pairDecls e₂ m₂ p = some l₂)
    (d : Decl) :
    (d ∈ l₂ → d ∈ l₁) ∧ (d ∈ l₁ → d ∈ l₂ ∨ ∃ r ∈ p.rights, Extra T r d) := by
  unfold pairDecls at h1 h2
  split_ifs at h1 h2 with hc
  cases hl : p.left with
  | none =>
    rw [hl] at h1 h2
    simp only [Option.some.injEq] at h1 h2
    subst h1; subst h2
    simp only [List.mem_flatMap]
    constructor
    · rintro ⟨r, hr, hd⟩; exact ⟨r, hr, (rightDecls_sub hE hM _ _ r d).1 hd⟩
    · rintro ⟨r, hr, hd⟩
      rcases (rightDecls_sub hE hM _ _ r d).2 hd with h | h
      · exact Or.inl ⟨r, hr, h⟩
      · exact Or.inr ⟨r, hr, h⟩
  | some l =>
    rw [hl] at h1 h2
    simp only at h1 h2
    split_ifs at h1 h2 with hc2
    simp only [Option.some.injEq] at h1 h2
    subst h1; subst h2
    simp only [List.mem_flatMap]
    constructor
    · rintro ⟨u, hu, r, hr, hd⟩; exact ⟨u, hu, r, hr, (rightDecls_sub hE hM _ _ r d).1 hd⟩
    · rintro ⟨u, hu, r, hr, hd⟩
      rcases (rightDecls_sub hE hM _ _ r d).2 hd with h | h
      · exact Or.inl ⟨u, hu, r, hr, h⟩
      · exact Or.inr ⟨r, hr, h⟩

theorem Tree.leaves_ne_nil {α : Type} : ∀ t : Tree α, t.leaves ≠ []
  | .leaf _ => by simp [Tree.leaves]
  | .and l r => by simp [Tree.leaves, Tree.leaves_ne_nil l]
  | .or l r => by simp [Tree.leaves, Tree.leaves_ne_nil l]
  | .paren t => by simp [Tree.leaves, Tree.leaves_ne_nil t]

theorem leftUnits_ne_nil (t : Tree Node) : leftUnits t ≠ [] := by
  unfold leftUnits
  split_ifs
  · simp
  · simp [Tree.leaves_ne_nil t]

theorem mem_autoPairs {ns : List Node} {p : SPair} :
    p ∈ autoPairs ns ↔ ∃ n ∈ ns, n.isXtrig = false ∧ p = ⟨none, [n]⟩ := by
  unfold autoPairs
  simp only [List.mem_map, List.mem_filter, Bool.not_eq_true', Bool.not_eq_eq_eq_not, Bool.not_true]
  constructor
  · rintro ⟨n, ⟨hn, hx⟩, rfl⟩; exact ⟨n, hn, hx, rfl⟩
  · rintro ⟨n, hn, hx, rfl⟩; exact ⟨n, ⟨hn, hx⟩, rfl⟩

theorem pairDecls_auto (e m : List Str) (n : Node) (hx : n.isXtrig = false) :
    pairDecls e m ⟨none, [n]⟩ = some (rightDecls e m [] [] n) := by
  unfold pairDecls
  simp [hx]

theorem declEquiv_of_extra {D₁ D₂ : List Decl} (h₁ : ∀ d ∈ D₁, d ∈ D₂)
    (h₂ : ∀ d ∈ D₂, d ∈ D₁ ∨ ∃ n s, d = Decl.trig n [] [] s ∧ ∃ e ts s', Decl.trig n e ts s' ∈ D₁) :
    DeclEquiv D₁ D₂ where
  ok := by
    constructor
    · intro g d hd
      rcases h₂ d hd with h | ⟨n, s, rfl, -⟩
      · exact g d h
      · rfl
    · intro g d hd; exact g d (h₁ d hd)
  opts := by
    intro x
    constructor
    · rintro ⟨d, hd, r⟩; exact ⟨d, h₁ d hd, r⟩
    · rintro ⟨d, hd, es, he, hx⟩
      rcases h₂ d hd with h | ⟨n, s, rfl, -⟩
      · exact ⟨d, h, es, he, hx⟩
      · simp only [Decl.eopts, Option.some.injEq] at he; subst he; cases hx
  trigs := by
    intro n e ts s hne
    constructor
    · rintro ⟨d, hd, r⟩; exact ⟨d, h₁ d hd, r⟩
    · rintro ⟨d, hd, hx⟩
      rcases h₂ d hd with h | ⟨n', s', rfl, -⟩
      · exact ⟨d, h, hx⟩
      · simp only [Decl.etrigs, List.mem_singleton, Prod.mk.injEq] at hx
        exact absurd hx.2.1 hne
  tasks := by
    intro n
    constructor
    · rintro ⟨e, ts, s, d, hd, r⟩; exact ⟨e, ts, s, d, h₁ d hd, r⟩
    · rintro ⟨e, ts, s, d, hd, hx⟩
      rcases h₂ d hd with h | ⟨n', s', rfl, e', ts', s'', hin⟩
      · exact ⟨e, ts, s, d, h, hx⟩
      · simp only [Decl.etrigs, List.mem_singleton, Prod.mk.injEq] at hx
        obtain ⟨rfl, -⟩ := hx
        exact ⟨e', ts', s'', _, hin, by simp [Decl.etrigs]⟩

theorem parseStructWith_guard {m : Bool} {L : List SLine} (h : guardOk L = false) : parseStructWith m L = none := by
  rw [parseStructWith_unfold, h]; rfl

/-- core of the chain-split argument, on abstract line lists: version 2 has the auto-trigger pairs of
`mm` in addition, `mm` has become end-of-chain and is no longer mid-chain -/
theorem chain_split_core {L₁ L₂ : List SLine} {mm : List Node}
    (hg : guardOk L₁ = guardOk L₂)
    (hP : ∀ p, p ∈ pairsOf L₂ ↔ p ∈ pairsOf L₁ ∨ p ∈ autoPairs mm)
    (hE : ∀ x, x ∈ eocOf L₂ ↔ x ∈ eocOf L₁ ∨ x ∈ mm.map Node.text)
    (hM : ∀ x, x ∈ midOf true L₁ ↔ x ∈ midOf true L₂ ∨ x ∈ mm.map Node.text)
    (hlink : ∃ l, (⟨some l, mm⟩ : SPair) ∈ pairsOf L₁)
    (hinj : guardOk L₁ = true → ∀ p ∈ pairsOf L₁, ∀ r ∈ p.rights, ∀ n ∈ mm, n.text = r.text → n = r) :
    REq (parseStructWith true L₁) (parseStructWith true L₂) := by
  cases hgu : guardOk L₁ with
  | false =>
    rw [parseStructWith_guard hgu, parseStructWith_guard (hg ▸ hgu)]; trivial
  | true =>
  have hinj := hinj hgu
  obtain ⟨l0, hl0⟩ := hlink
  apply parse_equiv_core hg
  · -- acceptance of every pair on its own
    constructor
    · intro g p hp
      rcases (hP p).1 hp with h | h
      · rw [← pairDecls_isSome_indep (eocOf L₁) (midOf true L₁)]; exact g p h
      · obtain ⟨n, -, hx, rfl⟩ := mem_autoPairs.1 h
        rw [pairDecls_auto _ _ n hx]; rfl
    · intro g p hp
      rw [pairDecls_isSome_indep _ _ (eocOf L₂) (midOf true L₂)]
      exact g p ((hP p).2 (Or.inl hp))
  · intro ds₁ ds₂ h1 h2
    have some1 : ∀ p ∈ pairsOf L₁, ∃ l, pairDecls (eocOf L₁) (midOf true L₁) p = some l := by
      intro p hp
      have := (mapM_some_iff _ _).1 ⟨ds₁, h1⟩ p hp
      exact Option.isSome_iff_exists.1 this
    have some2 : ∀ p ∈ pairsOf L₂, ∃ l, pairDecls (eocOf L₂) (midOf true L₂) p = some l := by
      intro p hp
      have := (mapM_some_iff _ _).1 ⟨ds₂, h2⟩ p hp
      exact Option.isSome_iff_exists.1 this
    apply declEquiv_of_extra
    · -- every declaration of version 1 is made in version 2
      intro d hd
      obtain ⟨p, hp, l₁, hl₁, hdl⟩ := (mem_decls h1 d).1 hd
      have hp2 : p ∈ pairsOf L₂ := (hP p).2 (Or.inl hp)
      obtain ⟨l₂, hl₂⟩ := some2 p hp2
      rcases (pairDecls_sub hE hM hl₁ hl₂ d).2 hdl with h | ⟨r, hr, hT, hq, hopt, hs, rfl⟩
      · exact (mem_decls h2 d).2 ⟨p, hp2, l₂, hl₂, h⟩
      · -- the lost inference is made by the auto-trigger pair of the same node
        obtain ⟨n, hn, hnt⟩ := List.mem_map.1 hT
        have hnr : n = r := hinj p hp r hr n hn hnt
        subst hnr
        have hx : n.isXtrig = false := pairDecls_noXtrig hl₁ n hr
        have hauto : (⟨none, [n]⟩ : SPair) ∈ pairsOf L₂ := (hP _).2 (Or.inr (mem_autoPairs.2 ⟨n, hn, hx, rfl⟩))
        refine (mem_decls h2 _).2 ⟨_, hauto, _, pairDecls_auto _ _ n hx, ?_⟩
        unfold rightDecls
        apply List.mem_append_right
        have : rightOutput (eocOf L₂) (midOf true L₂) ([] : Str).isEmpty n = outSucceeded := by
          unfold rightOutput; simp [hq]
        rw [this]
        unfold rightOptDecl
        have hne : outSucceeded.isEmpty = false := by decide
        simp [hne, hs, hopt]
    · -- every declaration of version 2 is made in version 1, or is an empty auto-trigger
      intro d hd
      obtain ⟨p, hp, l₂, hl₂, hdl⟩ := (mem_decls h2 d).1 hd
      rcases (hP p).1 hp with hp1 | hpa
      · obtain ⟨l₁, hl₁⟩ := some1 p hp1
        exact Or.inl ((mem_decls h1 d).2 ⟨p, hp1, l₁, hl₁, (pairDecls_sub hE hM hl₁ hl₂ d).1 hdl⟩)
      · obtain ⟨n, hn, hx, rfl⟩ := mem_autoPairs.1 hpa
        rw [pairDecls_auto _ _ n hx] at hl₂
        simp only [Option.some.injEq] at hl₂
        subst hl₂
        -- the link that has `mm` on its right declares the same things about `n`
        obtain ⟨l₀, hl₀⟩ := some1 _ hl0
        have hl₀' := hl₀
        unfold pairDecls at hl₀'
        split_ifs at hl₀' with hc
        simp only at hl₀'
        split_ifs at hl₀' with hc2
        simp only [Option.some.injEq] at hl₀'
        obtain ⟨u, us, hus⟩ := List.exists_cons_of_ne_nil (leftUnits_ne_nil l0)
        have hmemu : u ∈ leftUnits l0 := by rw [hus]; exact List.mem_cons_self
        have hin : ∀ d', d' ∈ rightDecls (eocOf L₁) (midOf true L₁) ((exprOf u).render id) (exprOf u).leaves n →
            d' ∈ ds₁.flatten := by
          intro d' hd'
          refine (mem_decls h1 d').2 ⟨_, hl0, l₀, hl₀, ?_⟩
          rw [← hl₀']
          exact List.mem_flatMap.2 ⟨u, hmemu, List.mem_flatMap.2 ⟨n, hn, hd'⟩⟩
        unfold rightDecls at hdl
        rcases List.mem_append.1 hdl with ht | ho
        · -- the empty auto-trigger entry
          right
          unfold rightTrigDecl at ht
          cases hoff : n.offset.isEmpty with
          | false => simp [hoff] at ht
          | true =>
            simp only [hoff, if_true, List.mem_singleton] at ht
            subst ht
            refine ⟨n.name, n.suicide, rfl, (exprOf u).render id, (exprOf u).leaves, n.suicide, ?_⟩
            apply hin
            unfold rightDecls rightTrigDecl
            simp [hoff]
        · left
          apply hin
          unfold rightDecls
          apply List.mem_append_right
          have hTn : n.text ∈ midOf true L₁ := (hM _).2 (Or.inr (List.mem_map.2 ⟨n, hn, rfl⟩))
          have : rightOutput (eocOf L₁) (midOf true L₁) ((exprOf u).render id).isEmpty n =
              rightOutput (eocOf L₂) (midOf true L₂) ([] : Str).isEmpty n := by
            unfold rightOutput
            have hc : (midOf true L₁).contains n.text = true := List.contains_iff_mem.2 hTn
            cases hq : n.qual.isEmpty <;> simp [hc, hTn]
          rw [this]; exact ho
  · -- the offset check only looks at pairs with a left side
    unfold terminalsOk
    have hl : ∀ t : Str, ((pairsOf L₁).flatMap SPair.leftTexts).contains t =
        ((pairsOf L₂).flatMap SPair.leftTexts).contains t := by
      intro t
      apply contains_congr
      intro x
      simp only [List.mem_flatMap]
      constructor
      · rintro ⟨p, hp, hx⟩; exact ⟨p, (hP p).2 (Or.inl hp), hx⟩
      · rintro ⟨p, hp, hx⟩
        rcases (hP p).1 hp with h | h
        · exact ⟨p, h, hx⟩
        · obtain ⟨n, -, -, rfl⟩ := mem_autoPairs.1 h
          simp [SPair.leftTexts] at hx
    simp only [hl]
    rw [Bool.eq_iff_iff, List.all_eq_true, List.all_eq_true]
    constructor
    · intro g p hp
      rcases (hP p).1 hp with h | h
      · exact g p h
      · obtain ⟨n, -, -, rfl⟩ := mem_autoPairs.1 h
        rfl
    · intro g p hp; exact g p ((hP p).2 (Or.inl hp))


theorem exists_link_last (m : List Node) : ∀ (a : List (List Node)) (h : Tree Node),
    ∃ l, (⟨some l, m⟩ : SPair) ∈ chainLinks h (a ++ [m])
  | [], h => ⟨h, by simp [chainLinks]⟩
  | x :: a, h => by
    obtain ⟨l, hl⟩ := exists_link_last m a (bigAnd default x)
    exact ⟨l, by simp only [List.cons_append, chainLinks, List.mem_cons]; exact Or.inr hl⟩

theorem chainLinks_rights_mem : ∀ (rest : List (List Node)) (h : Tree Node) (p : SPair),
    p ∈ chainLinks h rest → p.rights ∈ rest
  | [], _, p, hp => by simp [chainLinks] at hp
  | r :: rest, h, p, hp => by
    simp only [chainLinks, List.mem_cons] at hp
    rcases hp with rfl | hp
    · simp
    · exact List.mem_cons_of_mem _ (chainLinks_rights_mem rest _ p hp)

theorem pair_rights_sub_nodes {l : SLine} {p : SPair} (hp : p ∈ l.pairs) : ∀ r ∈ p.rights, r ∈ l.nodes := by
  intro r hr
  cases l with
  | lone ns =>
    simp only [SLine.pairs] at hp
    obtain ⟨n, hn, -, rfl⟩ := mem_autoPairs.1 hp
    simp only [List.mem_singleton] at hr
    subst hr; exact hn
  | chain h rest =>
    simp only [SLine.pairs, List.mem_append] at hp
    simp only [SLine.nodes, List.mem_append]
    rcases hp with hp | hp
    · obtain ⟨n, hn, -, rfl⟩ := mem_autoPairs.1 hp
      simp only [List.mem_singleton] at hr
      subst hr; exact Or.inl hn
    · right
      exact List.mem_flatten.2 ⟨p.rights, chainLinks_rights_mem rest h p hp, hr⟩

/-! ## node texts determine nodes (reading a node text back) -/

theorem spanP_append_stop {p : Char → Bool} : ∀ (l tail : Str), l.all p = true →
    (match tail with | [] => true | c :: _ => !p c) = true → spanP p (l ++ tail) = (l, tail)
  | [], tail, _, ht => by
    cases tail with
    | nil => rfl
    | cons c t =>
      simp only [Bool.not_eq_true'] at ht
      simp [spanP, ht]
  | a :: l, tail, hl, ht => by
    simp only [List.all_cons, Bool.and_eq_true] at hl
    simp only [List.cons_append, spanP, hl.1, if_true]
    rw [spanP_append_stop l tail hl.2 ht]

theorem spanP_spec (p : Char → Bool) : ∀ l : Str,
    (spanP p l).1 ++ (spanP p l).2 = l ∧ (spanP p l).1.all p = true
  | [] => by simp [spanP]
  | c :: r => by
    obtain ⟨h1, h2⟩ := spanP_spec p r
    by_cases hc : p c = true
    · simp [spanP, hc, h1, h2]
    · simp [spanP, hc]

/-- the part of a node text after the name -/
def Node.qualText (n : Node) : Str := if n.qual.isEmpty then [] else ':' :: n.qual
def Node.optText (n : Node) : Str := if n.opt then ['?'] else []
def Node.tailText (n : Node) : Str := n.offset ++ (n.qualText ++ n.optText)

theorem Node.text_eq (n : Node) :
    n.text = (if n.suicide then ['!'] else []) ++ (n.name ++ n.tailText) := by
  simp [Node.text, Node.tailText, Node.qualText, Node.optText, List.append_assoc]

/-- a plain (non-xtrigger) node with valid syntax -/
def Node.plainValid (n : Node) : Bool :=
  validName nodesCls n.name && validOffset nodesCls n.offset && n.qual.all fun d => nodesCls.qual.contains d

theorem cls_facts :
    nodesCls.nameRest.contains '[' = false ∧ nodesCls.nameRest.contains ':' = false ∧
    nodesCls.nameRest.contains '?' = false ∧ nodesCls.offset.contains ']' = false ∧
    nodesCls.qual.contains '?' = false ∧ nodesCls.nameFirst.contains '!' = false ∧
    nodesCls.nameFirst.contains '@' = false := by decide

theorem cls_facts' :
    '[' ∉ nodesCls.nameRest ∧ ':' ∉ nodesCls.nameRest ∧ '?' ∉ nodesCls.nameRest ∧ ']' ∉ nodesCls.offset ∧
    '?' ∉ nodesCls.qual ∧ '!' ∉ nodesCls.nameFirst ∧ '@' ∉ nodesCls.nameFirst := by decide

theorem validOffset_cases {off : Str} (h : validOffset nodesCls off = true) :
    off = [] ∨ ∃ b bs, (b :: bs).all (fun d => nodesCls.offset.contains d) = true ∧ off = '[' :: (b :: bs) ++ [']'] := by
  unfold validOffset at h
  cases off with
  | nil => exact Or.inl rfl
  | cons c r =>
    right
    simp only [List.isEmpty_cons, Bool.false_or] at h
    split at h
    · rename_i r' heq
      simp only [List.cons.injEq] at heq
      obtain ⟨rfl, rfl⟩ := heq
      obtain ⟨h1, h2⟩ := spanP_spec (fun d => nodesCls.offset.contains d) r
      simp only [Bool.and_eq_true, Bool.not_eq_true', beq_iff_eq] at h
      obtain ⟨hne, hq⟩ := h
      rw [hq] at h1
      cases hb : (spanP (fun d => nodesCls.offset.contains d) r).1 with
      | nil => rw [hb] at hne; simp at hne
      | cons b bs =>
        rw [hb] at h1 h2
        exact ⟨b, bs, h2, by rw [← h1]; simp⟩
    · cases h

theorem takeOffset_text (n : Node) (hv : validOffset nodesCls n.offset = true) :
    takeOffset nodesCls n.tailText = (n.offset, n.qualText ++ n.optText) := by
  obtain ⟨-, -, -, f4, -, -, -⟩ := cls_facts
  unfold Node.tailText
  rcases validOffset_cases hv with h | ⟨b, bs, hall, h⟩
  · rw [h]
    simp only [List.nil_append]
    unfold takeOffset Node.qualText Node.optText
    cases hq : n.qual.isEmpty <;> cases ho : n.opt <;> simp
  · rw [h]
    have := spanP_append_stop (p := fun d => nodesCls.offset.contains d) (b :: bs)
      (']' :: (n.qualText ++ n.optText)) hall (by simp [cls_facts'.2.2.2.1])
    simp only [List.cons_append] at this
    simp only [List.cons_append, List.append_assoc, List.singleton_append, List.nil_append, takeOffset, this]

theorem takeQual_text (n : Node) (hv : (n.qual.all fun d => nodesCls.qual.contains d) = true) :
    takeQual nodesCls (n.qualText ++ n.optText) = (n.qualText, n.optText) := by
  obtain ⟨-, -, -, -, f5, -, -⟩ := cls_facts
  unfold Node.qualText
  cases hq : n.qual with
  | nil =>
    simp only [List.isEmpty_nil, if_true, List.nil_append]
    unfold takeQual Node.optText
    cases n.opt <;> simp
  | cons c r =>
    simp only [List.isEmpty_cons, Bool.false_eq_true, if_false, List.cons_append, takeQual]
    rw [hq] at hv
    have := spanP_append_stop (p := fun d => nodesCls.qual.contains d) (c :: r) n.optText hv
      (by unfold Node.optText; cases n.opt <;> simp [cls_facts'.2.2.2.2.1])
    simp only [List.cons_append] at this
    rw [this]
    simp

theorem takeOpt_text (n : Node) : takeOpt n.optText = (n.optText, []) := by
  unfold Node.optText takeOpt
  cases n.opt <;> simp

theorem tailText_head_stop (n : Node) (hv : validOffset nodesCls n.offset = true) :
    (match n.tailText with | [] => true | c :: _ => !(nodesCls.nameRest.contains c)) = true := by
  obtain ⟨f1, f2, f3, -, -, -, -⟩ := cls_facts
  unfold Node.tailText
  rcases validOffset_cases hv with h | ⟨b, bs, -, h⟩
  · rw [h]
    unfold Node.qualText Node.optText
    cases hq : n.qual.isEmpty <;> cases ho : n.opt <;> simp [cls_facts'.2.1, cls_facts'.2.2.1]
  · rw [h]; simp [cls_facts'.1]

/-- reading the text of a valid plain node back gives its parts -/
theorem tailAfterName_text (n : Node) (hv : n.plainValid = true) (pre : Str) :
    tailAfterName nodesCls pre (n.name ++ n.tailText) =
      some ({ name := pre ++ n.name, offset := n.offset, qual := n.qualText, opt := n.optText }, []) := by
  unfold Node.plainValid at hv
  simp only [Bool.and_eq_true] at hv
  obtain ⟨⟨hname, hoff⟩, hqual⟩ := hv
  unfold validName at hname
  cases hn : n.name with
  | nil => rw [hn] at hname; cases hname
  | cons c r =>
    rw [hn] at hname
    simp only [Bool.and_eq_true] at hname
    unfold tailAfterName takeName
    simp only [List.cons_append, hname.1, if_true]
    rw [spanP_append_stop r n.tailText hname.2 (tailText_head_stop n hoff)]
    simp only [takeOffset_text n hoff, takeQual_text n hqual, takeOpt_text]

theorem qualText_inj {n r : Node} (h : n.qualText = r.qualText) : n.qual = r.qual := by
  unfold Node.qualText at h
  cases hn : n.qual with
  | nil =>
    cases hr : r.qual with
    | nil => rfl
    | cons c t => rw [hn, hr] at h; simp at h
  | cons c t =>
    cases hr : r.qual with
    | nil => rw [hn, hr] at h; simp at h
    | cons c' t' => rw [hn, hr] at h; simpa using h

theorem optText_inj {n r : Node} (h : n.optText = r.optText) : n.opt = r.opt := by
  unfold Node.optText at h
  cases hn : n.opt <;> cases hr : r.opt <;> simp [hn, hr] at h ⊢

theorem valid_cases (n : Node) (h : n.valid = true) :
    (n.isXtrig = false ∧ n.plainValid = true) ∨
    (n.isXtrig = true ∧ n.offset = [] ∧ n.qual = [] ∧ n.opt = false ∧ n.suicide = false) := by
  unfold Node.valid at h
  cases hx : n.isXtrig with
  | false =>
    left
    simp only [hx, Bool.false_eq_true, if_false] at h
    exact ⟨rfl, h⟩
  | true =>
    right
    simp only [hx, if_true, Bool.and_eq_true, Bool.not_eq_true', List.isEmpty_iff] at h
    obtain ⟨⟨⟨⟨-, h1⟩, h2⟩, h3⟩, h4⟩ := h
    exact ⟨rfl, h1, h2, h3, h4⟩

theorem plain_name_head {n : Node} (h : n.plainValid = true) :
    ∃ c r, n.name = c :: r ∧ nodesCls.nameFirst.contains c = true := by
  unfold Node.plainValid validName at h
  simp only [Bool.and_eq_true] at h
  cases hn : n.name with
  | nil => rw [hn] at h; simp at h
  | cons c r =>
    rw [hn] at h
    simp only [Bool.and_eq_true] at h
    exact ⟨c, r, rfl, h.1.1.1⟩

theorem plain_body_inj {n r : Node} (hn : n.plainValid = true) (hr : r.plainValid = true)
    (h : n.name ++ n.tailText = r.name ++ r.tailText) :
    n.name = r.name ∧ n.offset = r.offset ∧ n.qual = r.qual ∧ n.opt = r.opt := by
  have h1 := tailAfterName_text n hn []
  have h2 := tailAfterName_text r hr []
  rw [h, h2] at h1
  simp only [List.nil_append, Option.some.injEq, Prod.mk.injEq, and_true, Item.mk.injEq] at h1
  obtain ⟨a, b, c, d⟩ := h1
  exact ⟨a.symm, b.symm, (qualText_inj c).symm, (optText_inj d).symm⟩

/-- **node texts determine nodes**: two syntactically valid nodes with the same text are the same node -/
theorem text_injective {n r : Node} (hn : n.valid = true) (hr : r.valid = true) (h : n.text = r.text) :
    n = r := by
  have bang : nodesCls.nameFirst.contains '!' = false := cls_facts.2.2.2.2.2.1
  have atf : nodesCls.nameFirst.contains '@' = false := cls_facts.2.2.2.2.2.2
  rw [Node.text_eq, Node.text_eq] at h
  rcases valid_cases n hn with ⟨-, pn⟩ | ⟨xn, on, qn, optn, sn⟩ <;>
  rcases valid_cases r hr with ⟨-, pr⟩ | ⟨xr, or_, qr, optr, sr⟩
  · -- both plain
    obtain ⟨c, t, hcn, hc⟩ := plain_name_head pn
    obtain ⟨c', t', hcr, hc'⟩ := plain_name_head pr
    have body : n.suicide = r.suicide ∧ n.name ++ n.tailText = r.name ++ r.tailText := by
      cases hsn : n.suicide <;> cases hsr : r.suicide <;>
        simp only [hsn, hsr, Bool.false_eq_true, if_false, if_true, List.nil_append, List.cons_append,
          List.cons.injEq, true_and, hcn, hcr] at h ⊢
      · exact h
      · exfalso; rw [h.1] at hc; rw [bang] at hc; cases hc
      · exfalso; rw [← h.1] at hc'; rw [bang] at hc'; cases hc'
      · exact h
    obtain ⟨hs, hb⟩ := body
    obtain ⟨a, b, c2, d⟩ := plain_body_inj pn pr hb
    cases n; cases r; simp only at a b c2 d hs; subst a; subst b; subst c2; subst d; subst hs; rfl
  · -- plain against xtrigger
    exfalso
    obtain ⟨c, t, hcn, hc⟩ := plain_name_head pn
    unfold Node.isXtrig at xr
    cases hrn : r.name with
    | nil => rw [hrn] at xr; simp at xr
    | cons c' t' =>
      rw [hrn] at xr
      have hat : c' = '@' := by have : '@' = c' := by simpa using xr
                                exact this.symm
      subst hat
      simp only [sr, Bool.false_eq_true, if_false, List.nil_append, hrn, hcn, List.cons_append] at h
      cases hsn : n.suicide
      · simp only [hsn, Bool.false_eq_true, if_false, List.nil_append, List.cons.injEq] at h
        rw [h.1] at hc; rw [atf] at hc; cases hc
      · simp [hsn] at h
  · exfalso
    obtain ⟨c, t, hcr, hc⟩ := plain_name_head pr
    unfold Node.isXtrig at xn
    cases hnn : n.name with
    | nil => rw [hnn] at xn; simp at xn
    | cons c' t' =>
      rw [hnn] at xn
      have hat : c' = '@' := by have : '@' = c' := by simpa using xn
                                exact this.symm
      subst hat
      simp only [sn, Bool.false_eq_true, if_false, List.nil_append, hnn, hcr, List.cons_append] at h
      cases hsr : r.suicide
      · simp only [hsr, Bool.false_eq_true, if_false, List.nil_append, List.cons.injEq] at h
        rw [← h.1] at hc; rw [atf] at hc; cases hc
      · simp [hsr] at h
  · -- both xtriggers: the text is the name
    simp only [sn, sr, Bool.false_eq_true, if_false, List.nil_append, Node.tailText, on, or_, Node.qualText,
      qn, qr, List.isEmpty_nil, if_true, Node.optText, optn, optr, List.append_nil] at h
    cases n; cases r
    simp only at h on or_ qn qr optn optr sn sr
    subst h; subst on; subst or_; subst qn; subst qr; subst optn; subst optr; subst sn; subst sr; rfl

/-- **chain versus pairs**: cutting a chain at an inner element `m` into the two chains that share `m`
gives the same tables (with the mid-chain inference of findings/C14-fix-3.diff) -/
theorem chain_split (pre post : List SLine) (h : Tree Node) (a : List (List Node)) (m : List Node)
    (b : List (List Node)) (hb : b ≠ []) :
    REq (parseStructWith true (pre ++ [SLine.chain h (a ++ [m] ++ b)] ++ post))
        (parseStructWith true (pre ++ [SLine.chain h (a ++ [m]), SLine.chain (bigAnd default m) b] ++ post)) := by
  by_cases hm : m = []
  · -- an empty element: both are rejected by the shape check
    subst hm
    have g1 : guardOk (pre ++ [SLine.chain h (a ++ [[]] ++ b)] ++ post) = false := by
      unfold guardOk
      rw [List.all_eq_false]
      exact ⟨SLine.chain h (a ++ [[]] ++ b), by simp, by simp [SLine.shapeOk]⟩
    have g2 : guardOk (pre ++ [SLine.chain h (a ++ [[]]), SLine.chain (bigAnd default []) b] ++ post) = false := by
      unfold guardOk
      rw [List.all_eq_false]
      exact ⟨SLine.chain h (a ++ [[]]), by simp, by simp [SLine.shapeOk]⟩
    rw [parseStructWith_guard g1, parseStructWith_guard g2]; trivial
  have hleaves : (bigAnd default m).leaves = m := bigAnd_leaves _ m hm
  apply chain_split_core (mm := m)
  · -- the shape / node-syntax check
    unfold guardOk
    rw [Bool.eq_iff_iff]
    have hbe : b.isEmpty = false := by cases b with | nil => exact absurd rfl hb | cons _ _ => rfl
    have hme : m.isEmpty = false := by cases m with | nil => exact absurd rfl hm | cons _ _ => rfl
    have h1 : (a ++ [m] ++ b).isEmpty = false := by cases a <;> rfl
    have h2 : (a ++ [m]).isEmpty = false := by cases a <;> rfl
    simp only [List.all_append, List.all_cons, List.all_nil, Bool.and_true, SLine.shapeOk, SLine.nodes,
      hleaves, List.flatten_append, List.flatten_cons, List.flatten_nil, List.append_nil,
      h1, h2, hbe, hme, Bool.not_false, Bool.true_and, Bool.and_eq_true]
    tauto
  · intro p
    simp only [pairsOf, List.flatMap_append, List.flatMap_cons, List.flatMap_nil, List.append_nil, SLine.pairs,
      chainLinks_append, hleaves, List.mem_append]
    tauto
  · intro x
    have e1 : (a ++ [m] ++ b).getLast? = b.getLast? := getLast?_append_ne _ b hb
    have e2 : (a ++ [m]).getLast? = some m := by simp
    simp only [eocOf, List.flatMap_append, List.flatMap_cons, List.flatMap_nil, List.append_nil, SLine.eoc,
      e1, e2, List.mem_append]
    tauto
  · intro x
    have d1 : dropLast (a ++ [m] ++ b) = a ++ [m] ++ dropLast b := dropLast_append _ b hb
    have d2 : dropLast (a ++ [m]) = a := dropLast_append_singleton a m
    simp only [midOf, if_true, List.flatMap_append, List.flatMap_cons, List.flatMap_nil, List.append_nil,
      SLine.mid, d1, d2, List.flatten_append, List.flatten_cons, List.flatten_nil, List.map_append,
      List.mem_append]
    tauto
  · obtain ⟨l, hl⟩ := exists_link_last m a h
    refine ⟨l, ?_⟩
    simp only [pairsOf, List.flatMap_append, List.flatMap_cons, List.flatMap_nil, List.append_nil, SLine.pairs,
      chainLinks_append, List.mem_append]
    tauto
  · intro hgu p hp r hr n hn hnr
    simp only [pairsOf, List.mem_flatMap] at hp
    obtain ⟨l, hl, hpl⟩ := hp
    have hrn : r ∈ l.nodes := pair_rights_sub_nodes hpl r hr
    have hmid : SLine.chain h (a ++ [m] ++ b) ∈ pre ++ [SLine.chain h (a ++ [m] ++ b)] ++ post := by simp
    have hnn : n ∈ (SLine.chain h (a ++ [m] ++ b)).nodes := by
      simp only [SLine.nodes, List.flatten_append, List.flatten_cons, List.flatten_nil, List.append_nil,
        List.mem_append]
      exact Or.inr (Or.inl (Or.inr hn))
    unfold guardOk at hgu
    rw [List.all_eq_true] at hgu
    have v1 := hgu _ hmid
    have v2 := hgu _ hl
    simp only [Bool.and_eq_true, List.all_eq_true] at v1 v2
    exact text_injective (v1.2 n hnn) (v2.2 r hrn) hnr


/-! ## what an accepted graph records -/

theorem parse_some {m : Bool} {L : List SLine} {st : St} (h : parseStructWith m L = some st) :
    guardOk L = true ∧ ∃ ds, (pairsOf L).mapM (pairDecls (eocOf L) (midOf m L)) = some ds ∧
      ds.flatten.foldlM applyDecl ({} : St) = some st ∧ terminalsOk (pairsOf L) = true := by
  rw [parseStructWith_unfold] at h
  cases hg : guardOk L with
  | false => simp [hg] at h
  | true =>
    simp only [hg, Bool.not_true, Bool.false_eq_true, if_false] at h
    cases hm : (pairsOf L).mapM (pairDecls (eocOf L) (midOf m L)) with
    | none => simp [hm] at h
    | some ds =>
      simp only [hm] at h
      cases hf : ds.flatten.foldlM applyDecl ({} : St) with
      | none => simp [hf] at h
      | some st' =>
        simp only [hf] at h
        cases ht : terminalsOk (pairsOf L) with
        | false => simp [ht] at h
        | true =>
          simp only [ht, if_true, Option.some.injEq] at h
          subst h
          exact ⟨rfl, ds, rfl, hf, rfl⟩

theorem render_ne_nil {α : Type} (f : α → Str) : ∀ t : Tree α, (∀ a ∈ t.leaves, f a ≠ []) → t.render f ≠ []
  | .leaf a, h => by simpa [Tree.render] using h a (by simp [Tree.leaves])
  | .and l r, _ => by simp [Tree.render]
  | .or l r, _ => by simp [Tree.render]
  | .paren t, _ => by simp [Tree.render]

theorem leafExpr_leaves_ne (n : Node) : ∀ a ∈ (leafExpr n).leaves, a ≠ [] := by
  intro a ha
  unfold leafExpr at ha
  split_ifs at ha with hx
  · simp only [Tree.leaves, List.mem_singleton] at ha; subst ha
    intro h0; unfold Node.isXtrig at hx; rw [h0] at hx; simp at hx
  · simp only [Tree.leaves, List.mem_append, List.mem_singleton] at ha
    rcases ha with rfl | rfl <;> simp [atomText]
  · simp only [Tree.leaves, List.mem_singleton] at ha; subst ha; simp [atomText]

theorem bind_leaves {α β : Type} (f : α → Tree β) : ∀ t : Tree α,
    (t.bind f).leaves = t.leaves.flatMap fun a => (f a).leaves
  | .leaf a => by simp [Tree.bind, Tree.leaves]
  | .and l r => by simp [Tree.bind, Tree.leaves, bind_leaves f l, bind_leaves f r]
  | .or l r => by simp [Tree.bind, Tree.leaves, bind_leaves f l, bind_leaves f r]
  | .paren t => by simp [Tree.bind, Tree.leaves, bind_leaves f t]

theorem exprOf_render_ne_nil (u : Tree Node) : (exprOf u).render id ≠ [] := by
  apply render_ne_nil
  intro a ha
  unfold exprOf at ha
  rw [bind_leaves] at ha
  obtain ⟨n, -, han⟩ := List.mem_flatMap.1 ha
  exact leafExpr_leaves_ne n a han

theorem valid_name_ne_nil {n : Node} (h : n.valid = true) : n.name ≠ [] := by
  rcases valid_cases n h with ⟨-, hp⟩ | ⟨hx, -⟩
  · obtain ⟨c, r, hc, -⟩ := plain_name_head hp
    rw [hc]; simp
  · unfold Node.isXtrig at hx
    intro h0; rw [h0] at hx; simp at hx

/-- the trigger declarations an accepted graph makes for a pair -/
theorem trig_decl_of_pair {e m : List Str} {p : SPair} {ld : List Decl} (h : pairDecls e m p = some ld)
    {l : Tree Node} (hl : p.left = some l) {u : Tree Node} (hu : u ∈ leftUnits l) {r : Node} (hr : r ∈ p.rights)
    (hoff : r.offset = []) :
    Decl.trig r.name ((exprOf u).render id) (exprOf u).leaves r.suicide ∈ ld := by
  unfold pairDecls at h
  split_ifs at h with hc
  rw [hl] at h
  simp only at h
  split_ifs at h with hc2
  simp only [Option.some.injEq] at h
  subst h
  refine List.mem_flatMap.2 ⟨u, hu, List.mem_flatMap.2 ⟨r, hr, ?_⟩⟩
  unfold rightDecls rightTrigDecl
  simp [hoff]

theorem trig_decl_origin {e m : List Str} {p : SPair} {ld : List Decl} (h : pairDecls e m p = some ld)
    {n ex : Str} {ts : List Str} {s : Bool} (hd : Decl.trig n ex ts s ∈ ld) (hne : ex ≠ []) :
    ∃ l, p.left = some l ∧ ∃ u ∈ leftUnits l, ∃ r ∈ p.rights, r.offset = [] ∧ n = r.name ∧
      ex = (exprOf u).render id ∧ ts = (exprOf u).leaves ∧ s = r.suicide := by
  unfold pairDecls at h
  split_ifs at h with hc
  cases hl : p.left with
  | none =>
    rw [hl] at h
    simp only [Option.some.injEq] at h
    subst h
    obtain ⟨r, hr, hdr⟩ := List.mem_flatMap.1 hd
    unfold rightDecls rightTrigDecl rightOptDecl at hdr
    simp only [List.mem_append] at hdr
    rcases hdr with hdr | hdr
    · split_ifs at hdr
      · simp only [List.mem_singleton, Decl.trig.injEq] at hdr
        exact absurd hdr.2.1 hne
      · cases hdr
    · split_ifs at hdr
      · cases hdr
      · simp at hdr
  | some l =>
    rw [hl] at h
    simp only at h
    split_ifs at h with hc2
    simp only [Option.some.injEq] at h
    subst h
    obtain ⟨u, hu, hdu⟩ := List.mem_flatMap.1 hd
    obtain ⟨r, hr, hdr⟩ := List.mem_flatMap.1 hdu
    unfold rightDecls rightTrigDecl rightOptDecl at hdr
    simp only [List.mem_append] at hdr
    rcases hdr with hdr | hdr
    · split_ifs at hdr with hoff
      · simp only [List.mem_singleton, Decl.trig.injEq] at hdr
        obtain ⟨a, b, c, d⟩ := hdr
        exact ⟨l, rfl, u, hu, r, hr, List.isEmpty_iff.1 hoff, a, b, c, d⟩
      · cases hdr
    · split_ifs at hdr
      · cases hdr
      · simp at hdr

/-- **dependencies are the expressions written (1)**: in an accepted graph every link `l => ... r ...`
records, for each unit `u` of the left side, the expression `exprOf u` under task `r` with `r`'s suicide flag -/
theorem struct_trigs_recorded {m : Bool} {L : List SLine} {st : St} (h : parseStructWith m L = some st)
    {p : SPair} (hp : p ∈ pairsOf L) {l : Tree Node} (hl : p.left = some l) {u : Tree Node}
    (hu : u ∈ leftUnits l) {r : Node} (hr : r ∈ p.rights) (hoff : r.offset = []) :
    ∃ ts, st.trigs.lookup (r.name, (exprOf u).render id) = some (ts, r.suicide) := by
  have hne := exprOf_render_ne_nil u
  obtain ⟨-, ds, hm, hf, -⟩ := parse_some h
  obtain ⟨hgood, -, hrt⟩ := (fold_good ds.flatten).1 st hf
  obtain ⟨ld, hld⟩ := Option.isSome_iff_exists.1 ((mapM_some_iff _ _).1 ⟨ds, hm⟩ p hp)
  have hd : Decl.trig r.name ((exprOf u).render id) (exprOf u).leaves r.suicide ∈ ds.flatten :=
    (mem_decls hm _).2 ⟨p, hp, ld, hld, trig_decl_of_pair hld hl hu hr hoff⟩
  have hmem : memT ds.flatten (r.name, (exprOf u).render id, (exprOf u).leaves, r.suicide) :=
    ⟨_, hd, by simp [Decl.etrigs]⟩
  have hsome := (hrt r.name ((exprOf u).render id)).2 ⟨_, _, hmem⟩
  cases hlk : st.trigs.lookup (r.name, (exprOf u).render id) with
  | none => rw [hlk] at hsome; simp at hsome
  | some v =>
    have hv := (hrt r.name ((exprOf u).render id)).1 v hlk
    have := hgood.2.2 _ _ hv hmem rfl rfl hne
    simp only at this
    exact ⟨v.1, by rw [← this]⟩

/-- **dependencies are the expressions written (2)**: every recorded non-empty expression of an
accepted graph is `exprOf u` for a unit `u` of the left side of a link whose right side has the task -/
theorem struct_trigs_origin {m : Bool} {L : List SLine} {st : St} (h : parseStructWith m L = some st)
    {n ex : Str} {v : List Str × Bool} (hlk : st.trigs.lookup (n, ex) = some v) (hne : ex ≠ []) :
    ∃ p ∈ pairsOf L, ∃ l, p.left = some l ∧ ∃ u ∈ leftUnits l, ∃ r ∈ p.rights, r.offset = [] ∧ n = r.name ∧
      ex = (exprOf u).render id ∧ v = ((exprOf u).leaves, r.suicide) := by
  obtain ⟨-, ds, hm, hf, -⟩ := parse_some h
  obtain ⟨-, -, hrt⟩ := (fold_good ds.flatten).1 st hf
  obtain ⟨d, hd, hdm⟩ := (hrt n ex).1 v hlk
  cases d with
  | opt a b c => simp [Decl.etrigs] at hdm
  | trig n' e' ts' s' =>
    simp only [Decl.etrigs, List.mem_singleton, Prod.mk.injEq] at hdm
    obtain ⟨rfl, rfl, h3, h4⟩ := hdm
    obtain ⟨p, hp, ld, hld, hdl⟩ := (mem_decls hm _).1 hd
    obtain ⟨l, hl, u, hu, r, hr, hoff, a, b, c, d⟩ := trig_decl_origin hld hdl hne
    refine ⟨p, hp, l, hl, u, hu, r, hr, hoff, a, b, ?_⟩
    cases v; simp only at h3 h4; rw [h3, h4, c, d]

/-! ## meaning of recorded expressions -/

/-- truth of a written left node under a valuation of `NAME[OFFSET]:OUTPUT` atoms -/
def nodeDen (σ : Str → Bool) (n : Node) : Bool :=
  if n.isXtrig then σ n.name
  else if n.trigOut = outFinished then
    σ (atomText n.name n.offset outSucceeded) || σ (atomText n.name n.offset outFailed)
  else σ (atomText n.name n.offset n.trigOut)

theorem leafExpr_den (σ : Str → Bool) (n : Node) : (leafExpr n).den σ = nodeDen σ n := by
  unfold leafExpr nodeDen
  split_ifs <;> simp [Tree.den]

/-- the recorded expression means the written one -/
theorem exprOf_den (σ : Str → Bool) : ∀ t : Tree Node, (exprOf t).den σ = t.den (nodeDen σ)
  | .leaf n => by simp [exprOf, Tree.bind, Tree.den, leafExpr_den]
  | .and l r => by
    have := exprOf_den σ l; have := exprOf_den σ r
    simp only [exprOf] at *; simp [Tree.bind, Tree.den, *]
  | .or l r => by
    have := exprOf_den σ l; have := exprOf_den σ r
    simp only [exprOf] at *; simp [Tree.bind, Tree.den, *]
  | .paren t => by
    have := exprOf_den σ t
    simp only [exprOf] at *; simp [Tree.bind, Tree.den, *]

/-! ## text layer: comments, white space, continuation lines -/

/-- `badSpaces` without its two exemptions (an upper bound) -/
def badGo' (inName : Bool) : Str → Bool
  | [] => false
  | c :: r =>
    if isWs c then (inName && wsThenSuffix (c :: r)) || badGo' false r
    else if bsNameFirst.contains c then badGo' true r
    else if bsNameRest.contains c then badGo' inName r
    else badGo' false r

theorem badGo_le : ∀ (s : Str) (prev : Option Char) (inName : Bool),
    badSpacesGo prev inName s = true → badGo' inName s = true
  | [], _, _, h => by simp [badSpacesGo] at h
  | c :: r, prev, inName, h => by
    unfold badSpacesGo at h
    unfold badGo'
    split_ifs at h ⊢ with h1 h2 h3
    · simp only [Bool.or_eq_true, Bool.and_eq_true] at h ⊢
      rcases h with h | h
      · exact Or.inl ⟨h.1.1.1, h.2⟩
      · exact Or.inr (badGo_le r _ _ h)
    · exact badGo_le r _ _ h
    · exact badGo_le r _ _ h
    · exact badGo_le r _ _ h

/-- white space that may be used inside a physical line -/
def WsOk (w : Str) : Prop := ∀ c ∈ w, isWs c = true ∧ c ≠ '\n'

/-- text of a node token: not empty, no white space, none of `# & | = >` -/
def NodeTextOk (s : Str) : Prop :=
  s ≠ [] ∧ ∀ c ∈ s, isWs c = false ∧ c ≠ '#' ∧ c ≠ '&' ∧ c ≠ '|' ∧ c ≠ '=' ∧ c ≠ '>'

def Tok.Ok : Tok → Prop
  | .node s => NodeTextOk s
  | _ => True

theorem op_chars_facts :
    isWs '=' = false ∧ isWs '>' = false ∧ isWs '&' = false ∧ isWs '|' = false ∧ isWs '(' = false ∧ isWs ')' = false ∧
    bsSuffix.contains '=' = false ∧ bsSuffix.contains '&' = false ∧ bsSuffix.contains '|' = false ∧
    bsSuffix.contains '(' = false ∧ bsSuffix.contains ')' = false ∧
    bsNameFirst.contains '>' = false ∧ bsNameFirst.contains '&' = false ∧ bsNameFirst.contains '|' = false ∧
    bsNameFirst.contains '(' = false ∧ bsNameFirst.contains ')' = false ∧ bsNameFirst.contains '=' = false ∧
    bsNameRest.contains '>' = false ∧ bsNameRest.contains '&' = false ∧ bsNameRest.contains '|' = false ∧
    bsNameRest.contains '(' = false ∧ bsNameRest.contains ')' = false ∧ bsNameRest.contains '=' = false := by decide

theorem Tok.text_ne_nil {t : Tok} (h : t.Ok) : t.text ≠ [] := by
  cases t <;> simp [Tok.text]
  exact h.1

theorem Tok.text_noWs {t : Tok} (h : t.Ok) : ∀ c ∈ t.text, isWs c = false := by
  obtain ⟨f1, f2, f3, f4, f5, f6, -⟩ := op_chars_facts
  cases t with
  | node s => exact fun c hc => (h.2 c hc).1
  | arrow => intro c hc; simp only [Tok.text, List.mem_cons, List.not_mem_nil, or_false] at hc; rcases hc with rfl | rfl <;> assumption
  | amp => intro c hc; simp only [Tok.text, List.mem_singleton] at hc; subst hc; assumption
  | bar => intro c hc; simp only [Tok.text, List.mem_singleton] at hc; subst hc; assumption
  | lp => intro c hc; simp only [Tok.text, List.mem_singleton] at hc; subst hc; assumption
  | rp => intro c hc; simp only [Tok.text, List.mem_singleton] at hc; subst hc; assumption

theorem Tok.text_noHash {t : Tok} (h : t.Ok) : ∀ c ∈ t.text, c ≠ '#' := by
  cases t with
  | node s => exact fun c hc => (h.2 c hc).2.1
  | arrow => intro c hc; simp only [Tok.text, List.mem_cons, List.not_mem_nil, or_false] at hc; rcases hc with rfl | rfl <;> decide
  | amp => intro c hc; simp only [Tok.text, List.mem_singleton] at hc; subst hc; decide
  | bar => intro c hc; simp only [Tok.text, List.mem_singleton] at hc; subst hc; decide
  | lp => intro c hc; simp only [Tok.text, List.mem_singleton] at hc; subst hc; decide
  | rp => intro c hc; simp only [Tok.text, List.mem_singleton] at hc; subst hc; decide

/-- is the text just read a task name (a word character followed by name characters)? -/
def nameAfter (inName : Bool) : Str → Bool
  | [] => inName
  | c :: r =>
    nameAfter (if bsNameFirst.contains c then true else if bsNameRest.contains c then inName else false) r

theorem badGo'_noWs : ∀ (s rest : Str) (inName : Bool), (∀ c ∈ s, isWs c = false) →
    badGo' inName (s ++ rest) = badGo' (nameAfter inName s) rest
  | [], _, _, _ => rfl
  | c :: r, rest, inName, h => by
    have hc : isWs c = false := h c List.mem_cons_self
    have hr : ∀ d ∈ r, isWs d = false := fun d hd => h d (List.mem_cons_of_mem _ hd)
    simp only [List.cons_append, badGo', hc, Bool.false_eq_true, if_false, nameAfter]
    split_ifs <;> exact badGo'_noWs r rest _ hr

theorem nameAfter_nonNode {t : Tok} (h : t.isNode = false) (b : Bool) : nameAfter b t.text = false := by
  obtain ⟨-, -, -, -, -, -, -, -, -, -, -, g1, g2, g3, g4, g5, g6, k1, k2, k3, k4, k5, k6⟩ := op_chars_facts
  cases t with
  | node s => simp [Tok.isNode] at h
  | arrow => simp only [Tok.text, nameAfter, g1, g6, k1, k6, Bool.false_eq_true, if_false]
  | amp => simp only [Tok.text, nameAfter, g2, k2, Bool.false_eq_true, if_false]
  | bar => simp only [Tok.text, nameAfter, g3, k3, Bool.false_eq_true, if_false]
  | lp => simp only [Tok.text, nameAfter, g4, k4, Bool.false_eq_true, if_false]
  | rp => simp only [Tok.text, nameAfter, g5, k5, Bool.false_eq_true, if_false]

/-- first character of a non-node token is not a name character -/
theorem nonNode_head {t : Tok} (h : t.isNode = false) :
    ∃ c r, t.text = c :: r ∧ bsSuffix.contains c = false ∧ isWs c = false := by
  obtain ⟨w1, -, w3, w4, w5, w6, f1, f2, f3, f4, f5, -⟩ := op_chars_facts
  cases t with
  | node s => simp [Tok.isNode] at h
  | arrow => exact ⟨'=', ['>'], rfl, f1, w1⟩
  | amp => exact ⟨'&', [], rfl, f2, w3⟩
  | bar => exact ⟨'|', [], rfl, f3, w4⟩
  | lp => exact ⟨'(', [], rfl, f4, w5⟩
  | rp => exact ⟨')', [], rfl, f5, w6⟩

theorem dropWhile_ws_append (w rest : Str) (hw : ∀ c ∈ w, isWs c = true)
    (hr : match rest with | [] => True | c :: _ => isWs c = false) : (w ++ rest).dropWhile isWs = rest := by
  induction w with
  | nil =>
    cases rest with
    | nil => rfl
    | cons c r => simp only [List.nil_append, List.dropWhile_cons, hr]; simp
  | cons c w ih =>
    have hc := hw c List.mem_cons_self
    simp only [List.cons_append, List.dropWhile_cons, hc, if_true]
    exact ih (fun d hd => hw d (List.mem_cons_of_mem _ hd))

theorem badGo'_ws : ∀ (w rest : Str) (inName : Bool), (∀ c ∈ w, isWs c = true) →
    (match rest with | [] => True | c :: _ => isWs c = false) →
    (inName = true → w ≠ [] → match rest with | [] => True | c :: _ => bsSuffix.contains c = false) →
    badGo' inName (w ++ rest) = badGo' (inName && w.isEmpty) rest
  | [], rest, inName, _, _, _ => by simp
  | c :: w, rest, inName, hw, hr, hs => by
    have hc := hw c List.mem_cons_self
    have hw' : ∀ d ∈ w, isWs d = true := fun d hd => hw d (List.mem_cons_of_mem _ hd)
    have ih := badGo'_ws w rest false hw' hr (fun h => by cases h)
    simp only [List.cons_append, badGo', hc, if_true, List.isEmpty_cons, Bool.and_false]
    rw [ih]
    simp only [Bool.false_and]
    have hsuf : (inName && wsThenSuffix (c :: (w ++ rest))) = false := by
      cases hin : inName with
      | false => rfl
      | true =>
        simp only [Bool.true_and]
        unfold wsThenSuffix
        have : (c :: (w ++ rest)).dropWhile isWs = rest := dropWhile_ws_append (c :: w) rest hw hr
        rw [this]
        have := hs hin (by simp)
        cases rest with
        | nil => rfl
        | cons d r => simpa using this
    rw [hsuf]; rfl

/-- the bad-spaces check does not fire on a laid-out segment -/
theorem seg_badGo' : ∀ (items : List (Str × Tok)) (tailWs : Str) (inName : Bool),
    (∀ it ∈ items, WsOk it.1 ∧ it.2.Ok) → WsOk tailWs →
    noAdjNodes (items.map (·.2)) = true →
    (inName = true → match items with | [] => True | it :: _ => it.2.isNode = false) →
    badGo' inName (itemsText items ++ tailWs) = false
  | [], tailWs, inName, _, ht, _, _ => by
    have := badGo'_ws tailWs [] inName (fun c hc => (ht c hc).1) trivial (fun _ _ => trivial)
    simp only [List.append_nil] at this
    simp [itemsText, this, badGo']
  | (w, t) :: rest, tailWs, inName, hi, ht, hadj, hin => by
    have hit := hi (w, t) List.mem_cons_self
    have hrest : ∀ it ∈ rest, WsOk it.1 ∧ it.2.Ok := fun it h => hi it (List.mem_cons_of_mem _ h)
    obtain ⟨c, r, hcr⟩ := List.exists_cons_of_ne_nil (Tok.text_ne_nil hit.2)
    have hnows := Tok.text_noWs hit.2
    have hcws : isWs c = false := hnows c (by rw [hcr]; exact List.mem_cons_self)
    have htext : itemsText ((w, t) :: rest) ++ tailWs = w ++ (t.text ++ (itemsText rest ++ tailWs)) := by
      simp [itemsText, List.append_assoc]
    rw [htext]
    rw [badGo'_ws w _ inName (fun d hd => (hit.1 d hd).1) (by rw [hcr]; exact hcws)
      (by
        intro h1 _
        have hnn : t.isNode = false := by simpa using hin h1
        obtain ⟨c', r', hc', hs', -⟩ := nonNode_head hnn
        rw [hc']; exact hs')]
    rw [badGo'_noWs t.text _ _ hnows]
    apply seg_badGo' rest tailWs _ hrest ht
    · cases rest with
      | nil => rfl
      | cons it2 rest2 =>
        simp only [List.map_cons, noAdjNodes, Bool.and_eq_true] at hadj
        exact hadj.2
    · intro hna
      cases rest with
      | nil => trivial
      | cons it2 rest2 =>
        simp only [List.map_cons, noAdjNodes, Bool.and_eq_true, Bool.not_eq_true', Bool.and_eq_false_iff] at hadj
        rcases hadj.1 with h | h
        · rw [nameAfter_nonNode h] at hna; cases hna
        · exact h

def CommentOk (c : Option Str) : Prop := ∀ s, c = some s → '\n' ∉ s

structure SegOk (seg : Seg) : Prop where
  nonempty : seg.items ≠ []
  items : ∀ it ∈ seg.items, WsOk it.1 ∧ it.2.Ok
  tail : WsOk seg.tailWs
  comment : CommentOk seg.comment
  blanks : ∀ b ∈ seg.blanks, WsOk b.ws ∧ CommentOk b.comment
  adj : noAdjNodes seg.toks = true

theorem takeWhile_append_stop {p : Char → Bool} (x y : Str) (hx : ∀ c ∈ x, p c = true)
    (hy : match y with | [] => True | c :: _ => p c = false) : (x ++ y).takeWhile p = x := by
  induction x with
  | nil =>
    cases y with
    | nil => rfl
    | cons c r => simp only [List.nil_append, List.takeWhile_cons, hy]; simp
  | cons c x ih =>
    simp only [List.cons_append, List.takeWhile_cons, hx c List.mem_cons_self, if_true]
    rw [ih (fun d hd => hx d (List.mem_cons_of_mem _ hd))]

theorem ws_not_hash : isWs '#' = false := by decide
theorem nl_is_ws : isWs '\n' = true := by decide

theorem itemsText_noHash (items : List (Str × Tok)) (h : ∀ it ∈ items, WsOk it.1 ∧ it.2.Ok) :
    ∀ c ∈ itemsText items, c ≠ '#' := by
  intro c hc
  unfold itemsText at hc
  obtain ⟨it, hit, hc⟩ := List.mem_flatMap.1 hc
  rcases List.mem_append.1 hc with hc | hc
  · intro he; subst he
    have := ((h it hit).1 _ hc).1
    rw [ws_not_hash] at this; cases this
  · exact Tok.text_noHash (h it hit).2 c hc

theorem ws_noHash {w : Str} (h : WsOk w) : ∀ c ∈ w, c ≠ '#' := by
  intro c hc he; subst he
  have := (h _ hc).1
  rw [ws_not_hash] at this; cases this

theorem dropComment_line (x : Str) (c : Option Str) (hx : ∀ d ∈ x, d ≠ '#') :
    dropComment (x ++ commentText c) = x := by
  unfold dropComment
  apply takeWhile_append_stop
  · intro d hd; simpa using hx d hd
  · cases c with
    | none => trivial
    | some s => simp [commentText]

theorem stripWs_items (items : List (Str × Tok)) (h : ∀ it ∈ items, WsOk it.1 ∧ it.2.Ok) :
    stripWs (itemsText items) = toksText (items.map (·.2)) := by
  induction items with
  | nil => rfl
  | cons it rest ih =>
    have hit := h it List.mem_cons_self
    have hw : it.1.filter (fun c => !isWs c) = [] := by
      rw [List.filter_eq_nil_iff]; intro c hc; simp [(hit.1 c hc).1]
    have ht : it.2.text.filter (fun c => !isWs c) = it.2.text := by
      rw [List.filter_eq_self]; intro c hc; simp [Tok.text_noWs hit.2 c hc]
    have ih' := ih (fun x hx => h x (List.mem_cons_of_mem _ hx))
    unfold stripWs at ih' ⊢
    simp only [itemsText, toksText, List.flatMap_cons, List.map_cons, List.filter_append, hw, ht,
      List.nil_append] at ih' ⊢
    rw [ih']

theorem stripWs_ws {w : Str} (h : WsOk w) : stripWs w = [] := by
  unfold stripWs
  rw [List.filter_eq_nil_iff]; intro c hc; simp [(h c hc).1]

theorem cleanLine_seg {seg : Seg} (h : SegOk seg) : cleanLine seg.text = some (true, seg.canon) := by
  have hnh : ∀ d ∈ itemsText seg.items ++ seg.tailWs, d ≠ '#' := by
    intro d hd
    rcases List.mem_append.1 hd with hd | hd
    · exact itemsText_noHash _ h.items d hd
    · exact ws_noHash h.tail d hd
  have hdc : dropComment seg.text = itemsText seg.items ++ seg.tailWs := by
    unfold Seg.text; exact dropComment_line _ _ hnh
  unfold cleanLine
  simp only [hdc]
  -- not blank: the first token has a character that is not white space
  obtain ⟨it, rest, hir⟩ := List.exists_cons_of_ne_nil h.nonempty
  have hit := h.items it (by rw [hir]; exact List.mem_cons_self)
  obtain ⟨c, r, hcr⟩ := List.exists_cons_of_ne_nil (Tok.text_ne_nil hit.2)
  have hcws : isWs c = false := Tok.text_noWs hit.2 c (by rw [hcr]; exact List.mem_cons_self)
  have hnb : isBlank (itemsText seg.items ++ seg.tailWs) = false := by
    unfold isBlank
    rw [List.all_eq_false]
    refine ⟨c, ?_, by simp [hcws]⟩
    rw [hir]; simp [itemsText, hcr]
  have hbs : badSpaces (itemsText seg.items ++ seg.tailWs) = false := by
    cases hb : badSpaces (itemsText seg.items ++ seg.tailWs) with
    | false => rfl
    | true =>
      have := badGo_le _ _ _ hb
      rw [seg_badGo' seg.items seg.tailWs false h.items h.tail h.adj (fun h => by cases h)] at this
      cases this
  simp only [hnb, hbs, Bool.false_eq_true, if_false, Option.some.injEq, Prod.mk.injEq, true_and]
  unfold stripWs at *
  rw [List.filter_append]
  have h1 := stripWs_items seg.items h.items
  have h2 := stripWs_ws h.tail
  unfold stripWs at h1 h2
  rw [h1, h2, List.append_nil]
  rfl

theorem cleanLine_blank {b : Blank} (hw : WsOk b.ws) : cleanLine b.text = none := by
  unfold cleanLine Blank.text
  rw [dropComment_line _ _ (ws_noHash hw)]
  have : isBlank b.ws = true := by
    unfold isBlank; rw [List.all_eq_true]; exact fun c hc => (hw c hc).1
  simp [this]

theorem split_noNl : ∀ (a : Str), '\n' ∉ a → splitOnChar '\n' a = [a]
  | [], _ => rfl
  | c :: r, h => by
    have hc : c ≠ '\n' := fun he => h (by rw [he]; exact List.mem_cons_self)
    have hr : '\n' ∉ r := fun hm => h (List.mem_cons_of_mem _ hm)
    simp only [splitOnChar, hc, if_false, split_noNl r hr]

theorem split_append_nl : ∀ (a rest : Str), '\n' ∉ a →
    splitOnChar '\n' (a ++ '\n' :: rest) = a :: splitOnChar '\n' rest
  | [], rest, _ => by simp [splitOnChar]
  | c :: r, rest, h => by
    have hc : c ≠ '\n' := fun he => h (by rw [he]; exact List.mem_cons_self)
    have hr : '\n' ∉ r := fun hm => h (List.mem_cons_of_mem _ hm)
    simp only [List.cons_append, splitOnChar, hc, if_false, split_append_nl r rest hr]

theorem splitOnChar_joinNl : ∀ (ls : List Str), ls ≠ [] → (∀ l ∈ ls, '\n' ∉ l) →
    splitOnChar '\n' (joinNl ls) = ls
  | [], h, _ => absurd rfl h
  | [a], _, h => by simp only [joinNl]; exact split_noNl a (h a List.mem_cons_self)
  | a :: b :: r, _, h => by
    have ih := splitOnChar_joinNl (b :: r) (by simp) (fun l hl => h l (List.mem_cons_of_mem _ hl))
    simp only [joinNl]
    rw [split_append_nl a _ (h a List.mem_cons_self), ih]

def BlankOk (b : Blank) : Prop := WsOk b.ws ∧ CommentOk b.comment

theorem commentText_noNl {c : Option Str} (h : CommentOk c) : '\n' ∉ commentText c := by
  cases c with
  | none => simp [commentText]
  | some s =>
    simp only [commentText, List.mem_cons, not_or]
    exact ⟨by decide, h s rfl⟩

theorem ws_noNl {w : Str} (h : WsOk w) : '\n' ∉ w := fun hm => (h _ hm).2 rfl

theorem blank_noNl {b : Blank} (h : BlankOk b) : '\n' ∉ b.text := by
  unfold Blank.text
  simp only [List.mem_append, not_or]
  exact ⟨ws_noNl h.1, commentText_noNl h.2⟩

theorem seg_noNl {seg : Seg} (h : SegOk seg) : '\n' ∉ seg.text := by
  unfold Seg.text
  simp only [List.mem_append, not_or]
  refine ⟨⟨?_, ws_noNl h.tail⟩, commentText_noNl h.comment⟩
  intro hm
  unfold itemsText at hm
  obtain ⟨it, hit, hc⟩ := List.mem_flatMap.1 hm
  rcases List.mem_append.1 hc with hc | hc
  · exact ws_noNl (h.items it hit).1 hc
  · have := Tok.text_noWs (h.items it hit).2 _ hc
    rw [nl_is_ws] at this; cases this

theorem cleanLine_nil : cleanLine [] = none := by decide

theorem filterMap_split_join (P : List Str) (h : ∀ l ∈ P, '\n' ∉ l) :
    (splitOnChar '\n' (joinNl P)).filterMap cleanLine = P.filterMap cleanLine := by
  cases P with
  | nil => simp [joinNl, splitOnChar, cleanLine_nil]
  | cons a r => rw [splitOnChar_joinNl _ (by simp) h]

theorem filterMap_blanks (bs : List Blank) (h : ∀ b ∈ bs, BlankOk b) :
    (bs.map Blank.text).filterMap cleanLine = [] := by
  induction bs with
  | nil => rfl
  | cons b r ih =>
    simp only [List.map_cons, List.filterMap_cons, cleanLine_blank (h b List.mem_cons_self).1]
    exact ih (fun x hx => h x (List.mem_cons_of_mem _ hx))

theorem filterMap_seg {seg : Seg} (h : SegOk seg) :
    seg.phys.filterMap cleanLine = [(true, seg.canon)] := by
  unfold Seg.phys
  simp only [List.filterMap_cons, cleanLine_seg h]
  rw [filterMap_blanks _ h.blanks]

theorem filterMap_line (l : LLine) (h : ∀ s ∈ l, SegOk s) :
    (LLine.phys l).filterMap cleanLine = l.map fun s => (true, s.canon) := by
  induction l with
  | nil => rfl
  | cons s r ih =>
    simp only [LLine.phys, List.flatMap_cons, List.filterMap_append, List.map_cons]
    rw [filterMap_seg (h s List.mem_cons_self)]
    have := ih (fun x hx => h x (List.mem_cons_of_mem _ hx))
    simp only [LLine.phys] at this
    rw [this]; rfl

/-- the cleaned physical lines of all laid-out lines -/
def segCanons (ls : List LLine) : List Str := ls.flatMap fun l => l.map Seg.canon

theorem filterMap_lines (ls : List LLine) (h : ∀ l ∈ ls, ∀ s ∈ l, SegOk s) :
    (ls.flatMap LLine.phys).filterMap cleanLine = (segCanons ls).map fun c => (true, c) := by
  induction ls with
  | nil => rfl
  | cons l r ih =>
    simp only [List.flatMap_cons, List.filterMap_append, segCanons, List.map_append, List.map_map]
    rw [filterMap_line l (h l List.mem_cons_self)]
    have := ih (fun x hx => h x (List.mem_cons_of_mem _ hx))
    simp only [segCanons, List.map_flatMap, List.map_map] at this
    rw [this]
    simp [List.map_flatMap]

/-- **text layer, first loop**: comments, blank lines and white space of a laid-out graph disappear -/
theorem nonBlankLines_render (pre : List Blank) (ls : List LLine) (hpre : ∀ b ∈ pre, BlankOk b)
    (hls : ∀ l ∈ ls, ∀ s ∈ l, SegOk s) :
    nonBlankLines (renderText pre ls) = some (segCanons ls) := by
  unfold nonBlankLines renderText
  have hnl : ∀ l ∈ pre.map Blank.text ++ ls.flatMap LLine.phys, '\n' ∉ l := by
    intro l hl
    rcases List.mem_append.1 hl with hl | hl
    · obtain ⟨b, hb, rfl⟩ := List.mem_map.1 hl
      exact blank_noNl (hpre b hb)
    · obtain ⟨ln, hln, hl⟩ := List.mem_flatMap.1 hl
      simp only [LLine.phys] at hl
      obtain ⟨sg, hsg, hl⟩ := List.mem_flatMap.1 hl
      simp only [Seg.phys, List.mem_cons] at hl
      rcases hl with rfl | hl
      · exact seg_noNl (hls ln hln sg hsg)
      · obtain ⟨b, hb, rfl⟩ := List.mem_map.1 hl
        exact blank_noNl ((hls ln hln sg hsg).blanks b hb)
  simp only [filterMap_split_join _ hnl, List.filterMap_append, filterMap_blanks pre hpre, List.nil_append,
    filterMap_lines ls hls]
  have : ((fun x : Bool × Str => x.snd) ∘ fun c => (true, c)) = id := by funext c; rfl
  simp [this]

/-! ### continuation lines -/

theorem tok_last {t : Tok} (h : t.Ok) : ∃ c, t.text.getLast? = some c ∧
    (t.isOp = false → c ≠ '>' ∧ c ≠ '&' ∧ c ≠ '|') ∧ (c = '&' → t = Tok.amp) ∧ (c = '|' → t = Tok.bar) := by
  cases t with
  | node s =>
    obtain ⟨hne, hall⟩ := h
    cases hl : s.getLast? with
    | none => exact absurd (List.getLast?_eq_none_iff.1 hl) hne
    | some c =>
      have hm := hall c (List.mem_of_getLast? hl)
      exact ⟨c, hl, fun _ => ⟨hm.2.2.2.2.2, hm.2.2.1, hm.2.2.2.1⟩, fun he => absurd he hm.2.2.1,
        fun he => absurd he hm.2.2.2.1⟩
  | arrow => exact ⟨'>', rfl, by simp [Tok.isOp], by decide, by decide⟩
  | amp => exact ⟨'&', rfl, by simp [Tok.isOp], fun _ => rfl, by decide⟩
  | bar => exact ⟨'|', rfl, by simp [Tok.isOp], by decide, fun _ => rfl⟩
  | lp => exact ⟨'(', rfl, fun _ => by decide, by decide, by decide⟩
  | rp => exact ⟨')', rfl, fun _ => by decide, by decide, by decide⟩

theorem tok_first {t : Tok} (h : t.Ok) : ∃ c r, t.text = c :: r ∧
    (t.isOp = false → c ≠ '=' ∧ c ≠ '&' ∧ c ≠ '|') ∧ (c = '&' → t = Tok.amp) ∧ (c = '|' → t = Tok.bar) := by
  cases t with
  | node s =>
    obtain ⟨hne, hall⟩ := h
    cases s with
    | nil => exact absurd rfl hne
    | cons c r =>
      have hm := hall c List.mem_cons_self
      exact ⟨c, r, rfl, fun _ => ⟨hm.2.2.2.2.1, hm.2.2.1, hm.2.2.2.1⟩, fun he => absurd he hm.2.2.1,
        fun he => absurd he hm.2.2.2.1⟩
  | arrow => exact ⟨'=', ['>'], rfl, by simp [Tok.isOp], by decide, by decide⟩
  | amp => exact ⟨'&', [], rfl, by simp [Tok.isOp], fun _ => rfl, by decide⟩
  | bar => exact ⟨'|', [], rfl, by simp [Tok.isOp], by decide, fun _ => rfl⟩
  | lp => exact ⟨'(', [], rfl, fun _ => by decide, by decide, by decide⟩
  | rp => exact ⟨')', [], rfl, fun _ => by decide, by decide, by decide⟩

theorem toksText_append (a b : List Tok) : toksText (a ++ b) = toksText a ++ toksText b := by
  simp [toksText]

theorem toksText_last {ts : List Tok} {t : Tok} (h : t.Ok) :
    (toksText (ts ++ [t])).getLast? = t.text.getLast? := by
  rw [toksText_append]
  have : toksText [t] = t.text := by simp [toksText]
  rw [this, getLast?_append_ne _ _ (Tok.text_ne_nil h)]

theorem suffix_last {q s : Str} (hq : q ≠ []) (h : q <:+ s) : s.getLast? = q.getLast? := by
  obtain ⟨x, rfl⟩ := h
  exact getLast?_append_ne x q hq

theorem prefix_head {q s : Str} (hq : q ≠ []) (h : q <+: s) : s.head? = q.head? := by
  obtain ⟨x, rfl⟩ := h
  cases q with
  | nil => exact absurd rfl hq
  | cons c r => rfl

theorem cont_consts : continuationStrs = [['=', '>'], ['&'], ['|']] ∧ badStrs = [['&', '&'], ['|', '|']] := by
  decide

/-- a line part ends with a continuation string iff its last token is one of `=> & |` -/
theorem endsAny_toks {ts : List Tok} {t : Tok} (h : t.Ok) :
    endsAny continuationStrs (toksText (ts ++ [t])) = t.isOp := by
  obtain ⟨c, hc, hnon, -, -⟩ := tok_last h
  have hl : (toksText (ts ++ [t])).getLast? = some c := by rw [toksText_last h, hc]
  cases hop : t.isOp with
  | true =>
    unfold endsAny
    rw [List.any_eq_true]
    refine ⟨t.text, ?_, ?_⟩
    · rw [cont_consts.1]; cases t <;> simp [Tok.isOp, Tok.text] at hop ⊢
    · rw [List.isSuffixOf_iff_suffix, toksText_append]
      exact ⟨toksText ts, by simp [toksText]⟩
  | false =>
    unfold endsAny
    rw [List.any_eq_false]
    intro q hq hs
    rw [List.isSuffixOf_iff_suffix] at hs
    obtain ⟨h1, h2, h3⟩ := hnon hop
    rw [cont_consts.1] at hq
    simp only [List.mem_cons, List.not_mem_nil, or_false] at hq
    rcases hq with rfl | rfl | rfl
    · have := suffix_last (by simp) hs; rw [hl] at this; simp at this; exact h1 this
    · have := suffix_last (by simp) hs; rw [hl] at this; simp at this; exact h2 this
    · have := suffix_last (by simp) hs; rw [hl] at this; simp at this; exact h3 this

theorem startsAny_toks {ts : List Tok} {t : Tok} (h : t.Ok) :
    startsAny continuationStrs (toksText (t :: ts)) = t.isOp := by
  obtain ⟨c, r, hcr, hnon, -, -⟩ := tok_first h
  have hh : (toksText (t :: ts)).head? = some c := by simp [toksText, hcr]
  cases hop : t.isOp with
  | true =>
    unfold startsAny
    rw [List.any_eq_true]
    refine ⟨t.text, ?_, ?_⟩
    · rw [cont_consts.1]; cases t <;> simp [Tok.isOp, Tok.text] at hop ⊢
    · rw [List.isPrefixOf_iff_prefix]
      exact ⟨toksText ts, by simp [toksText]⟩
  | false =>
    unfold startsAny
    rw [List.any_eq_false]
    intro q hq hs
    rw [List.isPrefixOf_iff_prefix] at hs
    obtain ⟨h1, h2, h3⟩ := hnon hop
    rw [cont_consts.1] at hq
    simp only [List.mem_cons, List.not_mem_nil, or_false] at hq
    rcases hq with rfl | rfl | rfl
    · have := prefix_head (by simp) hs; rw [hh] at this; simp at this; exact h1 this
    · have := prefix_head (by simp) hs; rw [hh] at this; simp at this; exact h2 this
    · have := prefix_head (by simp) hs; rw [hh] at this; simp at this; exact h3 this

theorem eq_nil_or_snoc {α : Type} (l : List α) : l = [] ∨ ∃ ts t, l = ts ++ [t] := by
  rcases List.eq_nil_or_concat l with h | ⟨ts, t, h⟩
  · exact Or.inl h
  · exact Or.inr ⟨ts, t, by rw [h, List.concat_eq_append]⟩

theorem noAdjOps_append_right : ∀ (a b : List Tok), noAdjOps (a ++ b) = true → noAdjOps b = true
  | [], _, h => h
  | [x], b, h => by
    cases b with
    | nil => rfl
    | cons y r => simp only [List.singleton_append, noAdjOps, Bool.and_eq_true] at h; exact h.2
  | x :: y :: r, b, h => by
    simp only [List.cons_append, noAdjOps, Bool.and_eq_true] at h
    exact noAdjOps_append_right (y :: r) b h.2

theorem noAdjOps_append_left : ∀ (a b : List Tok), noAdjOps (a ++ b) = true → noAdjOps a = true
  | [], _, _ => rfl
  | [x], _, _ => rfl
  | x :: y :: r, b, h => by
    simp only [List.cons_append, noAdjOps, Bool.and_eq_true] at h ⊢
    exact ⟨h.1, noAdjOps_append_left (y :: r) b h.2⟩

theorem noAdjOps_last2 : ∀ (ts : List Tok) (a b : Tok), noAdjOps (ts ++ [a, b]) = true →
    (a.isOp && b.isOp) = false := by
  intro ts a b h
  have := noAdjOps_append_right ts [a, b] h
  simp only [noAdjOps, Bool.and_true, Bool.not_eq_true'] at this
  exact this

/-- no line part ends with `&&` or `||` -/
theorem badSuffix_toks (toks : List Tok) (hok : ∀ t ∈ toks, t.Ok) (hadj : noAdjOps toks = true) :
    (badStrs.any fun q => q.isSuffixOf (toksText toks)) = false := by
  rw [List.any_eq_false]
  intro q hq hs
  rw [List.isSuffixOf_iff_suffix] at hs
  rw [cont_consts.2] at hq
  simp only [List.mem_cons, List.not_mem_nil, or_false] at hq
  -- the last two characters are the same operator character `c`
  have key : ∀ c : Char, (c = '&' ∨ c = '|') → [c, c] <:+ toksText toks → False := by
    intro c hc ⟨x, hx⟩
    rcases eq_nil_or_snoc toks with rfl | ⟨ts, t, rfl⟩
    · simp [toksText] at hx
    have htok := hok t (by simp)
    obtain ⟨d, hd, -, ha, hb⟩ := tok_last htok
    have h1 : (toksText (ts ++ [t])).getLast? = some c := by rw [← hx]; simp
    rw [toksText_last htok, hd] at h1
    have hdc : d = c := by simpa using h1
    subst hdc
    have htext : t.text = [d] ∧ t.isOp = true := by
      rcases hc with rfl | rfl
      · rw [ha rfl]; exact ⟨rfl, rfl⟩
      · rw [hb rfl]; exact ⟨rfl, rfl⟩
    -- drop the last character: the text of `ts` ends with `c` as well
    have h2 : toksText ts = x ++ [d] := by
      have e : toksText (ts ++ [t]) = toksText ts ++ [d] := by
        rw [toksText_append]; simp [toksText, htext.1]
      rw [e] at hx
      have : x ++ [d, d] = (x ++ [d]) ++ [d] := by simp
      rw [this] at hx
      exact (List.append_inj' hx rfl).1.symm
    rcases eq_nil_or_snoc ts with rfl | ⟨ts', t', rfl⟩
    · simp [toksText] at h2
    have htok' := hok t' (by simp)
    obtain ⟨d', hd', -, ha', hb'⟩ := tok_last htok'
    have h3 : (toksText (ts' ++ [t'])).getLast? = some d := by rw [h2]; simp
    rw [toksText_last htok', hd'] at h3
    have hdc' : d' = d := by simpa using h3
    subst hdc'
    have hop' : t'.isOp = true := by
      rcases hc with rfl | rfl
      · rw [ha' rfl]; rfl
      · rw [hb' rfl]; rfl
    have := noAdjOps_last2 ts' t' t (by simpa using hadj)
    rw [hop', htext.2] at this
    cases this
  rcases hq with rfl | rfl
  · exact key '&' (Or.inl rfl) hs
  · exact key '|' (Or.inr rfl) hs

theorem noAdjOps_mid (a : List Tok) (t t' : Tok) (b : List Tok) (h : noAdjOps (a ++ t :: t' :: b) = true) :
    (t.isOp && t'.isOp) = false := by
  have := noAdjOps_append_right a (t :: t' :: b) h
  simp only [noAdjOps, Bool.and_eq_true, Bool.not_eq_true'] at this
  exact this.1

/-- no line part starts with `&&` or `||` -/
theorem badPrefix_toks (toks : List Tok) (hok : ∀ t ∈ toks, t.Ok) (hadj : noAdjOps toks = true) :
    (badStrs.any fun q => q.isPrefixOf (toksText toks)) = false := by
  rw [List.any_eq_false]
  intro q hq hs
  rw [List.isPrefixOf_iff_prefix] at hs
  rw [cont_consts.2] at hq
  simp only [List.mem_cons, List.not_mem_nil, or_false] at hq
  have key : ∀ c : Char, (c = '&' ∨ c = '|') → [c, c] <+: toksText toks → False := by
    intro c hc ⟨x, hx⟩
    cases toks with
    | nil => simp [toksText] at hx
    | cons t ts =>
      have htok := hok t List.mem_cons_self
      obtain ⟨d, r, hdr, -, ha, hb⟩ := tok_first htok
      have e1 : toksText (t :: ts) = t.text ++ toksText ts := by simp [toksText]
      rw [e1, hdr] at hx
      simp only [List.cons_append, List.cons.injEq] at hx
      obtain ⟨hcd, hx⟩ := hx
      subst hcd
      have htext : t.text = [c] ∧ t.isOp = true := by
        rcases hc with rfl | rfl
        · rw [ha rfl]; exact ⟨rfl, rfl⟩
        · rw [hb rfl]; exact ⟨rfl, rfl⟩
      rw [htext.1] at hdr
      simp only [List.cons.injEq, true_and] at hdr
      subst hdr
      simp only [List.nil_append] at hx
      cases ts with
      | nil => simp [toksText] at hx
      | cons t' ts' =>
        have htok' := hok t' (by simp)
        obtain ⟨d', r', hdr', -, ha', hb'⟩ := tok_first htok'
        have e2 : toksText (t' :: ts') = t'.text ++ toksText ts' := by simp [toksText]
        rw [e2, hdr'] at hx
        simp only [List.cons_append, List.cons.injEq] at hx
        obtain ⟨hcd', -⟩ := hx
        subst hcd'
        have hop' : t'.isOp = true := by
          rcases hc with rfl | rfl
          · rw [ha' rfl]; rfl
          · rw [hb' rfl]; rfl
        have := noAdjOps_mid [] t t' ts' hadj
        rw [htext.2, hop'] at this
        cases this
  rcases hq with rfl | rfl
  · exact key '&' (Or.inl rfl) hs
  · exact key '|' (Or.inr rfl) hs

theorem any_or {α : Type} (l : List α) (f g : α → Bool) :
    (l.any fun q => f q || g q) = (l.any f || l.any g) := by
  induction l with
  | nil => rfl
  | cons a r ih =>
    simp only [List.any_cons, ih]
    cases f a <;> cases g a <;> cases r.any f <;> cases r.any g <;> rfl

/-- what follows a logical line: nothing, or a line part that does not start with an operator -/
def NextOk (restC : List Str) : Prop :=
  match restC with
  | [] => True
  | c :: _ => startsAny continuationStrs c = false ∧ (badStrs.any fun q => q.isPrefixOf c) = false

theorem startsAny_nil : startsAny continuationStrs [] = false := by decide
theorem badPrefix_nil : (badStrs.any fun q => q.isPrefixOf ([] : Str)) = false := by decide

/-- the parts of one logical line are joined into its canonical text -/
theorem joinGo_line : ∀ (segs : List Seg) (part : Str) (first : Bool) (restC : List Str),
    segs ≠ [] →
    (∀ s ∈ segs, s.toks ≠ [] ∧ ∀ t ∈ s.toks, t.Ok) →
    noAdjOps (segs.flatMap Seg.toks) = true →
    (first = true → ∀ t, (segs.flatMap Seg.toks).head? = some t → t.isOp = false) →
    (∀ t, (segs.flatMap Seg.toks).getLast? = some t → t.isOp = false) →
    (∀ a s s' b, segs = a ++ s :: s' :: b →
      (∃ t, s.toks.getLast? = some t ∧ t.isOp = true) ∨ (∃ t, s'.toks.head? = some t ∧ t.isOp = true)) →
    NextOk restC →
    joinGo first part (segs.map Seg.canon ++ restC) =
      (joinGo false [] restC).map fun r => (part ++ toksText (segs.flatMap Seg.toks)) :: r
  | [], _, _, _, h, _, _, _, _, _, _ => absurd rfl h
  | [s], part, first, restC, _, hok, hadj, hfirst, hlast, _, hnext => by
    obtain ⟨hne, htok⟩ := hok s List.mem_cons_self
    obtain ⟨ts, t, hts⟩ : ∃ ts t, s.toks = ts ++ [t] := by
      rcases eq_nil_or_snoc s.toks with h | h
      · exact absurd h hne
      · exact h
    obtain ⟨t0, ts0, hts0⟩ := List.exists_cons_of_ne_nil hne
    have hflat : [s].flatMap Seg.toks = s.toks := by simp
    rw [hflat] at hadj hfirst hlast ⊢
    have hends : endsAny continuationStrs s.canon = false := by
      unfold Seg.canon; rw [hts, endsAny_toks (htok t (by rw [hts]; simp))]
      exact hlast t (by rw [hts]; simp)
    have hstart : first = true → startsAny continuationStrs s.canon = false := by
      intro hf
      unfold Seg.canon; rw [hts0, startsAny_toks (htok t0 (by rw [hts0]; simp))]
      exact hfirst hf t0 (by rw [hts0]; rfl)
    have hst : (first && startsAny continuationStrs s.canon) = false := by
      cases first with
      | false => rfl
      | true => simp [hstart rfl]
    have hE : (continuationStrs.any fun q => q.isSuffixOf s.canon) = false := hends
    cases restC with
    | nil =>
      have hN : (continuationStrs.any fun q => q.isPrefixOf ([] : Str)) = false := startsAny_nil
      have hcont : (continuationStrs.any fun q => q.isSuffixOf s.canon || q.isPrefixOf ([] : Str)) = false := by
        rw [any_or, hE, hN]; rfl
      simp only [List.map_cons, List.map_nil, List.singleton_append, joinGo, hst, hends, hcont,
        Bool.false_eq_true, if_false, Bool.and_false, Bool.false_and]
      rfl
    | cons c r =>
      have hN : (continuationStrs.any fun q => q.isPrefixOf c) = false := hnext.1
      have hcont : (continuationStrs.any fun q => q.isSuffixOf s.canon || q.isPrefixOf c) = false := by
        rw [any_or, hE, hN]; rfl
      simp only [List.map_cons, List.map_nil, List.singleton_append, joinGo, hst, hends, hcont,
        Bool.false_eq_true, if_false, Bool.and_false, Bool.false_and, List.isEmpty_cons]
      rfl
  | s :: s' :: more, part, first, restC, _, hok, hadj, hfirst, hlast, hbreaks, hnext => by
    obtain ⟨hne, htok⟩ := hok s List.mem_cons_self
    obtain ⟨hne', htok'⟩ := hok s' (by simp)
    obtain ⟨ts, t, hts⟩ : ∃ ts t, s.toks = ts ++ [t] := by
      rcases eq_nil_or_snoc s.toks with h | h
      · exact absurd h hne
      · exact h
    obtain ⟨t0, ts0, hts0⟩ := List.exists_cons_of_ne_nil hne
    obtain ⟨t1, ts1, hts1⟩ := List.exists_cons_of_ne_nil hne'
    have hflat : (s :: s' :: more).flatMap Seg.toks = s.toks ++ (s' :: more).flatMap Seg.toks := by simp
    have hflat' : (s' :: more).flatMap Seg.toks = s'.toks ++ more.flatMap Seg.toks := by simp
    have ht_ok := htok t (by rw [hts]; simp)
    have ht1_ok := htok' t1 (by rw [hts1]; simp)
    -- this part and the next one
    have hends : endsAny continuationStrs s.canon = t.isOp := by
      unfold Seg.canon; rw [hts, endsAny_toks ht_ok]
    have hnextStart : startsAny continuationStrs s'.canon = t1.isOp := by
      unfold Seg.canon; rw [hts1, startsAny_toks ht1_ok]
    have hnotboth : (t.isOp && t1.isOp) = false := by
      rw [hflat, hflat', hts, hts1] at hadj
      have : (ts ++ [t] ++ (t1 :: ts1 ++ more.flatMap Seg.toks)) = ts ++ t :: t1 :: (ts1 ++ more.flatMap Seg.toks) := by
        simp
      rw [this] at hadj
      exact noAdjOps_mid _ _ _ _ hadj
    have hone : (t.isOp || t1.isOp) = true := by
      rcases hbreaks [] s s' more rfl with ⟨x, hx, hop⟩ | ⟨x, hx, hop⟩
      · rw [hts] at hx; simp at hx; subst hx; simp [hop]
      · rw [hts1] at hx; simp at hx; subst hx; simp [hop]
    have hstart : first = true → startsAny continuationStrs s.canon = false := by
      intro hf
      unfold Seg.canon; rw [hts0, startsAny_toks (htok t0 (by rw [hts0]; simp))]
      exact hfirst hf t0 (by rw [hflat, hts0]; rfl)
    have hadjS : noAdjOps s.toks = true := by rw [hflat] at hadj; exact noAdjOps_append_left _ _ hadj
    have hadjS' : noAdjOps ((s' :: more).flatMap Seg.toks) = true := by
      rw [hflat] at hadj; exact noAdjOps_append_right _ _ hadj
    have hadjS'' : noAdjOps s'.toks = true := by rw [hflat'] at hadjS'; exact noAdjOps_append_left _ _ hadjS'
    have hbadS : (badStrs.any fun q => q.isSuffixOf s.canon) = false := badSuffix_toks s.toks htok hadjS
    have hbadP : (badStrs.any fun q => q.isPrefixOf s'.canon) = false := badPrefix_toks s'.toks htok' hadjS''
    have hcont : (continuationStrs.any fun q => q.isSuffixOf s.canon || q.isPrefixOf s'.canon) = true := by
      rw [any_or]
      have h1 : (continuationStrs.any fun q => q.isSuffixOf s.canon) = t.isOp := hends
      have h2 : (continuationStrs.any fun q => q.isPrefixOf s'.canon) = t1.isOp := hnextStart
      rw [h1, h2]; exact hone
    have hbad : (badStrs.any fun q => q.isSuffixOf s.canon || q.isPrefixOf s'.canon) = false := by
      rw [any_or, hbadS, hbadP]; rfl
    have hst : (first && startsAny continuationStrs s.canon) = false := by
      cases first with
      | false => rfl
      | true => simp [hstart rfl]
    have h3 : (endsAny continuationStrs s.canon && startsAny continuationStrs s'.canon) = false := by
      rw [hends, hnextStart]; exact hnotboth
    have step : ∀ X : List Str, joinGo first part (s.canon :: s'.canon :: X) =
        joinGo false (part ++ s.canon) (s'.canon :: X) := by
      intro X
      rw [joinGo]
      simp only [hst, h3, hcont, hbad, List.isEmpty_cons, Bool.false_and, Bool.false_eq_true, if_false,
        Bool.not_false, Bool.and_self, if_true]
    simp only [List.map_cons, List.cons_append]
    rw [step]
    have ih := joinGo_line (s' :: more) (part ++ s.canon) false restC (by simp)
      (fun x hx => hok x (List.mem_cons_of_mem _ hx)) hadjS' (fun h => by cases h)
      (fun x hx => hlast x (by
        rw [hflat, getLast?_append_ne _ _ (by rw [hflat', hts1]; simp)]; exact hx))
      (fun a x x' b hab => hbreaks (s :: a) x x' b (by rw [hab]; rfl)) hnext
    simp only [List.map_cons, List.cons_append] at ih
    rw [ih, hflat]
    unfold Seg.canon
    simp [toksText_append, List.append_assoc]

/-- a well laid-out logical line: well-formed parts, no two adjacent operators, not starting or ending
with one of `=> & |`, and every line break next to one of them -/
structure LineOk (l : LLine) : Prop where
  segs : ∀ s ∈ l, SegOk s
  nonempty : l ≠ []
  adjOps : noAdjOps (LLine.toks l) = true
  firstTok : ∀ t, (LLine.toks l).head? = some t → t.isOp = false
  lastTok : ∀ t, (LLine.toks l).getLast? = some t → t.isOp = false
  breaks : ∀ a s s' b, l = a ++ s :: s' :: b →
    (∃ t, s.toks.getLast? = some t ∧ t.isOp = true) ∨ (∃ t, s'.toks.head? = some t ∧ t.isOp = true)

theorem seg_toks_ok {seg : Seg} (h : SegOk seg) : seg.toks ≠ [] ∧ ∀ t ∈ seg.toks, t.Ok := by
  unfold Seg.toks
  constructor
  · intro h0; exact h.nonempty (List.map_eq_nil_iff.1 h0)
  · intro t ht
    obtain ⟨it, hit, rfl⟩ := List.mem_map.1 ht
    exact (h.items it hit).2

theorem nextOk_segCanons (ls : List LLine) (h : ∀ l ∈ ls, LineOk l) : NextOk (segCanons ls) := by
  cases ls with
  | nil => trivial
  | cons l rest =>
    have hl := h l List.mem_cons_self
    obtain ⟨s, more, hsm⟩ := List.exists_cons_of_ne_nil hl.nonempty
    have hs := hl.segs s (by rw [hsm]; exact List.mem_cons_self)
    obtain ⟨hne, htok⟩ := seg_toks_ok hs
    obtain ⟨t, ts, hts⟩ := List.exists_cons_of_ne_nil hne
    have hhead : (LLine.toks l).head? = some t := by
      rw [hsm]; simp [LLine.toks, hts]
    have hadj : noAdjOps s.toks = true := by
      have := hl.adjOps
      rw [hsm] at this
      simp only [LLine.toks, List.flatMap_cons] at this
      exact noAdjOps_append_left _ _ this
    show NextOk (segCanons (l :: rest))
    have : segCanons (l :: rest) = s.canon :: (more.map Seg.canon ++ segCanons rest) := by
      simp [segCanons, hsm]
    rw [this]
    refine ⟨?_, badPrefix_toks s.toks htok hadj⟩
    unfold Seg.canon
    rw [hts, startsAny_toks (htok t (by rw [hts]; exact List.mem_cons_self))]
    exact hl.firstTok t hhead

theorem joinGo_lines : ∀ (ls : List LLine) (first : Bool), (∀ l ∈ ls, LineOk l) →
    joinGo first [] (segCanons ls) = some (ls.map LLine.canon)
  | [], _, _ => rfl
  | l :: rest, first, h => by
    have hl := h l List.mem_cons_self
    have hrest : ∀ x ∈ rest, LineOk x := fun x hx => h x (List.mem_cons_of_mem _ hx)
    have hsc : segCanons (l :: rest) = l.map Seg.canon ++ segCanons rest := by simp [segCanons]
    rw [hsc, joinGo_line l [] first (segCanons rest) hl.nonempty (fun s hs => seg_toks_ok (hl.segs s hs))
      hl.adjOps (fun _ => hl.firstTok) hl.lastTok hl.breaks (nextOk_segCanons rest hrest)]
    rw [joinGo_lines rest false hrest]
    simp [LLine.canon, LLine.toks]

/-- **text layer**: a graph laid out with any white space at token boundaries, comments, blank and
comment-only lines, and line breaks next to `=>`, `&`, `|` is read as its canonical lines -/
theorem fullLines_render (pre : List Blank) (ls : List LLine) (hpre : ∀ b ∈ pre, BlankOk b)
    (hls : ∀ l ∈ ls, LineOk l) :
    fullLines (renderText pre ls) = some (ls.map LLine.canon) := by
  unfold fullLines
  rw [nonBlankLines_render pre ls hpre (fun l hl => (hls l hl).segs)]
  simp only [Option.bind_some]
  exact joinGo_lines ls true hls

/-! ### the executable layout check implies the hypotheses of the text-layer theorem -/

theorem wsOk_of_B {w : Str} (h : wsOkB w = true) : WsOk w := by
  intro c hc
  unfold wsOkB at h
  rw [List.all_eq_true] at h
  have := h c hc
  simp only [Bool.and_eq_true, bne_iff_ne, ne_eq] at this
  exact this

theorem commentOk_of_B {c : Option Str} (h : commentOkB c = true) : CommentOk c := by
  intro s hs
  subst hs
  simp only [commentOkB, Bool.not_eq_true', List.contains_eq_mem, decide_eq_false_iff_not] at h
  exact h

theorem tokOk_of_B {t : Tok} (h : t.okB = true) : t.Ok := by
  cases t with
  | node s =>
    simp only [Tok.okB, nodeTextOkB, Bool.and_eq_true, Bool.not_eq_true', List.all_eq_true, bne_iff_ne, ne_eq] at h
    exact ⟨fun h0 => by rw [h0] at h; simp at h, fun c hc => by
      have := h.2 c hc
      exact ⟨this.1.1.1.1.1, this.1.1.1.1.2, this.1.1.1.2, this.1.1.2, this.1.2, this.2⟩⟩
  | arrow => trivial
  | amp => trivial
  | bar => trivial
  | lp => trivial
  | rp => trivial

theorem segOk_of_B {s : Seg} (h : segOkB s = true) : SegOk s := by
  unfold segOkB at h
  simp only [Bool.and_eq_true, Bool.not_eq_true', List.all_eq_true, List.isEmpty_eq_false_iff] at h
  obtain ⟨⟨⟨⟨⟨h1, h2⟩, h3⟩, h4⟩, h5⟩, h6⟩ := h
  exact {
    nonempty := h1
    items := fun it hit => ⟨wsOk_of_B (h2 it hit).1, tokOk_of_B (h2 it hit).2⟩
    tail := wsOk_of_B h3
    comment := commentOk_of_B h4
    blanks := fun b hb => by
      have := h5 b hb
      simp only [blankOkB, Bool.and_eq_true] at this
      exact ⟨wsOk_of_B this.1, commentOk_of_B this.2⟩
    adj := h6 }

theorem breaks_of_B : ∀ (l : List Seg), breaksB l = true → ∀ a s s' b, l = a ++ s :: s' :: b →
    (∃ t, s.toks.getLast? = some t ∧ t.isOp = true) ∨ (∃ t, s'.toks.head? = some t ∧ t.isOp = true)
  | [], _, a, s, s', b, h => by cases a <;> simp at h
  | [x], _, a, s, s', b, h => by
    cases a with
    | nil => simp at h
    | cons y a => cases a <;> simp at h
  | x :: y :: r, hb, a, s, s', b, h => by
    simp only [breaksB, Bool.and_eq_true, Bool.or_eq_true] at hb
    cases a with
    | nil =>
      simp only [List.nil_append, List.cons.injEq] at h
      obtain ⟨rfl, rfl, -⟩ := h
      rcases hb.1 with h1 | h1
      · left
        cases hl : x.toks.getLast? with
        | none => rw [hl] at h1; simp [isOpOpt] at h1
        | some t => rw [hl] at h1; exact ⟨t, rfl, h1⟩
      · right
        cases hl : y.toks.head? with
        | none => rw [hl] at h1; simp [isOpOpt] at h1
        | some t => rw [hl] at h1; exact ⟨t, rfl, h1⟩
    | cons z a =>
      simp only [List.cons_append, List.cons.injEq] at h
      exact breaks_of_B (y :: r) hb.2 a s s' b h.2

theorem lineOk_of_B {l : LLine} (h : lineOkB l = true) : LineOk l := by
  unfold lineOkB at h
  simp only [Bool.and_eq_true, Bool.not_eq_true', List.all_eq_true, List.isEmpty_eq_false_iff] at h
  obtain ⟨⟨⟨⟨⟨h1, h2⟩, h3⟩, h4⟩, h5⟩, h6⟩ := h
  exact {
    segs := fun s hs => segOk_of_B (h1 s hs)
    nonempty := h2
    adjOps := h3
    firstTok := fun t ht => by rw [ht] at h4; exact h4
    lastTok := fun t ht => by rw [ht] at h5; exact h5
    breaks := breaks_of_B l h6 }

theorem blankOk_of_B {b : Blank} (h : blankOkB b = true) : BlankOk b := by
  simp only [blankOkB, Bool.and_eq_true] at h
  exact ⟨wsOk_of_B h.1, commentOk_of_B h.2⟩

/-! ## malformed text is rejected (classes of it) -/

theorem joinGo_leading (part : Str) (l : Str) (ls : List Str) (h : startsAny continuationStrs l = true) :
    joinGo true part (l :: ls) = none := by
  simp only [joinGo, h, Bool.and_self, if_true]

theorem joinGo_dangling (l : Str) (h : endsAny continuationStrs l = true) :
    ∀ (ls : List Str) (first : Bool) (part : Str), joinGo first part (ls ++ [l]) = none
  | [], first, part => by
    simp only [List.nil_append, joinGo, List.isEmpty_nil, h, Bool.and_self, if_true]
    split_ifs <;> rfl
  | x :: ls, first, part => by
    have ih := joinGo_dangling l h ls false
    simp only [List.cons_append, joinGo, ih, Option.map_none]
    split_ifs <;> rfl

theorem parseText_of_fullLines_none {text : Str} (h : fullLines text = none) : parseText text = .error .gpe := by
  unfold parseText; rw [h]

theorem nonBlank_badSpaces {text : Str} {l : Str} (hl : l ∈ splitOnChar '\n' text)
    (hb : isBlank (dropComment l) = false) (hs : badSpaces (dropComment l) = true) :
    nonBlankLines text = none := by
  unfold nonBlankLines
  have hc : cleanLine l = some (false, dropComment l) := by
    unfold cleanLine; simp [hb, hs]
  have hm : (false, dropComment l) ∈ (splitOnChar '\n' text).filterMap cleanLine :=
    List.mem_filterMap.2 ⟨l, hl, hc⟩
  have : ((splitOnChar '\n' text).filterMap cleanLine).all (·.1) = false := by
    rw [List.all_eq_false]; exact ⟨_, hm, by simp⟩
  simp [this]

theorem parseFull_rejected {full : List Str} (h : linesRejected full = true) : parseFull full = .error .gpe := by
  unfold parseFull; simp [h]

/-! ## optionality: what an accepted graph records -/

theorem opt_decl_origin {e m : List Str} {p : SPair} {ld : List Decl} (h : pairDecls e m p = some ld)
    {n o : Str} {b : Bool} (hd : Decl.opt n o b ∈ ld) :
    ∃ r ∈ p.rights, n = r.name ∧ b = r.opt ∧ r.suicide = false ∧ ∃ f, o = rightOutput e m f r := by
  have key : ∀ (ex : Str) (ts : List Str) (r : Node), Decl.opt n o b ∈ rightDecls e m ex ts r →
      n = r.name ∧ b = r.opt ∧ r.suicide = false ∧ ∃ f, o = rightOutput e m f r := by
    intro ex ts r hdr
    unfold rightDecls rightTrigDecl rightOptDecl at hdr
    simp only [List.mem_append] at hdr
    rcases hdr with hdr | hdr
    · split_ifs at hdr
      · simp at hdr
      · cases hdr
    · split_ifs at hdr with hc
      · cases hdr
      · simp only [List.mem_singleton, Decl.opt.injEq] at hdr
        simp only [Bool.or_eq_true, not_or, Bool.not_eq_true] at hc
        exact ⟨hdr.1, hdr.2.2, hc.2, ex.isEmpty, hdr.2.1⟩
  unfold pairDecls at h
  split_ifs at h with hc
  cases hl : p.left with
  | none =>
    rw [hl] at h
    simp only [Option.some.injEq] at h
    subst h
    obtain ⟨r, hr, hdr⟩ := List.mem_flatMap.1 hd
    exact ⟨r, hr, key _ _ r hdr⟩
  | some l =>
    rw [hl] at h
    simp only at h
    split_ifs at h with hc2
    simp only [Option.some.injEq] at h
    subst h
    obtain ⟨u, -, hdu⟩ := List.mem_flatMap.1 hd
    obtain ⟨r, hr, hdr⟩ := List.mem_flatMap.1 hdu
    exact ⟨r, hr, key _ _ r hdr⟩

theorem opt_decl_of_pair {e m : List Str} {p : SPair} {ld : List Decl} (h : pairDecls e m p = some ld)
    {r : Node} (hr : r ∈ p.rights) (hs : r.suicide = false) (hq : r.qual ≠ []) :
    Decl.opt r.name (stdQual r.qual) r.opt ∈ ld ∨ stdQual r.qual = [] := by
  by_cases hz : stdQual r.qual = []
  · exact Or.inr hz
  left
  have key : ∀ (ex : Str) (ts : List Str), Decl.opt r.name (stdQual r.qual) r.opt ∈ rightDecls e m ex ts r := by
    intro ex ts
    unfold rightDecls rightOptDecl rightOutput
    apply List.mem_append_right
    have hqe : r.qual.isEmpty = false := by cases hq' : r.qual with | nil => exact absurd hq' hq | cons _ _ => rfl
    have hze : (stdQual r.qual).isEmpty = false := by
      cases hq' : stdQual r.qual with | nil => exact absurd hq' hz | cons _ _ => rfl
    simp [hqe, hze, hs]
  unfold pairDecls at h
  split_ifs at h with hc
  cases hl : p.left with
  | none =>
    rw [hl] at h
    simp only [Option.some.injEq] at h
    subst h
    exact List.mem_flatMap.2 ⟨r, hr, key _ _⟩
  | some l =>
    rw [hl] at h
    simp only at h
    split_ifs at h with hc2
    simp only [Option.some.injEq] at h
    subst h
    obtain ⟨u, us, hus⟩ := List.exists_cons_of_ne_nil (leftUnits_ne_nil l)
    exact List.mem_flatMap.2 ⟨u, by rw [hus]; exact List.mem_cons_self, List.mem_flatMap.2 ⟨r, hr, key _ _⟩⟩

/-- **optionality is what is written (1)**: in an accepted graph a right-hand or lone node `r` with an
explicit qualifier (other than `finish`) and no suicide mark records that output as optional iff `r`
carries `?` -/
theorem struct_opts_recorded {m : Bool} {L : List SLine} {st : St} (h : parseStructWith m L = some st)
    {p : SPair} (hp : p ∈ pairsOf L) {r : Node} (hr : r ∈ p.rights) (hs : r.suicide = false)
    (hq : r.qual ≠ []) (hz : stdQual r.qual ≠ []) (hf : stdQual r.qual ≠ outFinished) :
    st.opts.lookup (r.name, stdQual r.qual) = some r.opt := by
  obtain ⟨-, ds, hm, hf', -⟩ := parse_some h
  obtain ⟨hgood, hro, -⟩ := (fold_good ds.flatten).1 st hf'
  obtain ⟨ld, hld⟩ := Option.isSome_iff_exists.1 ((mapM_some_iff _ _).1 ⟨ds, hm⟩ p hp)
  rcases opt_decl_of_pair hld hr hs hq with hd | hd
  · have hdm : Decl.opt r.name (stdQual r.qual) r.opt ∈ ds.flatten := (mem_decls hm _).2 ⟨p, hp, ld, hld, hd⟩
    have hsome := hgood.1 _ hdm
    rw [hro]
    refine ⟨_, hdm, ?_⟩
    simp only [Decl.eopts] at hsome ⊢
    split_ifs at hsome ⊢ with h1
    · simp at hsome
    · exact ⟨_, rfl, List.mem_singleton.2 rfl⟩
  · exact absurd hd hz

/-- **optionality is what is written (2)**: every recorded optionality entry of an accepted graph is
declared by a right-hand or lone occurrence of that task without suicide mark: its (standardised)
qualifier or the inferred `:succeeded`, or `succeeded` / `failed` through `:finish` -/
theorem struct_opts_origin {m : Bool} {L : List SLine} {st : St} (h : parseStructWith m L = some st)
    {n o : Str} {b : Bool} (hlk : st.opts.lookup (n, o) = some b) :
    ∃ p ∈ pairsOf L, ∃ r ∈ p.rights, n = r.name ∧ r.suicide = false ∧
      ∃ f, (o = rightOutput (eocOf L) (midOf m L) f r ∧ b = r.opt) ∨
           (rightOutput (eocOf L) (midOf m L) f r = outFinished ∧ (o = outSucceeded ∨ o = outFailed) ∧ b = true) := by
  obtain ⟨-, ds, hm, hf', -⟩ := parse_some h
  obtain ⟨-, hro, -⟩ := (fold_good ds.flatten).1 st hf'
  obtain ⟨d, hd, es, hes, hx⟩ := (hro n o b).1 hlk
  cases d with
  | trig a b' c d' => simp only [Decl.eopts, Option.some.injEq] at hes; subst hes; cases hx
  | opt n' o' b' =>
    obtain ⟨p, hp, ld, hld, hdl⟩ := (mem_decls hm _).1 hd
    obtain ⟨r, hr, hn, hb, hs, f, ho⟩ := opt_decl_origin hld hdl
    refine ⟨p, hp, r, hr, ?_⟩
    simp only [Decl.eopts] at hes
    split_ifs at hes with h1 h2 h3
    · -- finished
      simp only [Option.some.injEq] at hes
      subst hes
      simp only [List.mem_cons, Prod.mk.injEq, List.not_mem_nil, or_false] at hx
      rcases hx with ⟨rfl, rfl, rfl⟩ | ⟨rfl, rfl, rfl⟩
      · exact ⟨hn, hs, f, Or.inr ⟨by rw [← ho, h2], Or.inl rfl, rfl⟩⟩
      · exact ⟨hn, hs, f, Or.inr ⟨by rw [← ho, h2], Or.inr rfl, rfl⟩⟩
    · simp only [Option.some.injEq] at hes
      subst hes
      simp only [List.mem_singleton, Prod.mk.injEq] at hx
      obtain ⟨rfl, rfl, rfl⟩ := hx
      exact ⟨hn, hs, f, Or.inl ⟨ho, hb⟩⟩

end CylcModel.Graph
