/-
Observation accessors for the judges of C29 and C08S: decoding of the observations of the REAL scheduler
(harness/sched/runner.py `Run.observe`) and of the recorded `cylc set` commands into plain structures, plus
the static facts the judges read off the instance graph (children of an output, prerequisite atoms, outputs).
No transition function of the model is used here.
-/
import CylcModel.Sched3XJson
open Lean CylcModel.Drv

namespace CylcModel.S3XObs
open CylcModel.Sched3X

abbrev Key := Int × String

def showKey (k : Key) : String := s!"{k.1}/{k.2}"

/-- a pooled proxy as observed -/
structure PO where
  key : Key
  st : String
  held : Bool
  q : Bool
  rh : Bool
  fl : List Nat
  sn : Nat
  out : List String                       -- completed outputs (triggers)
  pre : List (List (Atom × Bool))         -- prerequisites: atoms (message form) with their satisfied flag
  deriving Inhabited

/-- a row of task_states ⋈ task_outputs as observed -/
structure TsRow where
  key : Key
  fl : List Nat
  st : String
  sn : Nat
  fw : Bool
  outs : List String                      -- completed outputs (triggers)
  deriving Inhabited

/-- one processed message (runner instrumentation of `process_message`) -/
structure MsgRec where
  key : Key
  m : String
  tr : Bool
  forced : Bool
  r : Bool                                -- return value (poll requested)
  bOut : List String
  aOut : List String
  deriving Inhabited

structure Ob where
  pool : List PO
  launch : List (Key × Nat)
  fw : List Key
  ts : Option (List TsRow)
  flowCounter : Nat
  removed : List Key
  msgs : List MsgRec
  absDone : List Atom
  stop : Option String
  stopMode : Option String
  paused : Bool
  rl : Option Int
  xtr : List (Key × String × Bool)         -- xtriggers of the pooled proxies: (task, label, satisfied)
  suip : List (Key × List (List (Atom × Bool)))   -- suicide prerequisites of the pooled proxies that have any
  deriving Inhabited

def keyArr? (j : Json) : Option Key :=
  match jArr? j with
  | some (p :: n :: _) => do pure ((← jInt? p), (← jStr? n))
  | _ => none

def strList (j : Option (List Json)) : List String := (j.getD []).filterMap jStr?
def natList (j : Option (List Json)) : List Nat := (j.getD []).filterMap jNat?

def parseAtomSat (a : Json) : Option (Atom × Bool) :=
  match jArr? a with
  | some [p, n, m, s] => do pure (⟨← jInt? p, ← jStr? n, ← jStr? m⟩, ← jBool? s)
  | _ => none

def parsePO (t : Json) : PO :=
  { key := ((jIntField? t "p").getD 0, (jStrField? t "n").getD ""),
    st := (jStrField? t "st").getD "",
    held := (jBoolField? t "held").getD false, q := (jBoolField? t "q").getD false,
    rh := (jBoolField? t "rh").getD false,
    fl := natList (jArrField? t "fl"), sn := (jNatField? t "sn").getD 0,
    out := strList (jArrField? t "out"),
    pre := ((jArrField? t "pre").getD []).map fun pr => ((jArr? pr).getD []).filterMap parseAtomSat }

def parseTsRow (r : Json) : Option TsRow :=
  match jArr? r with
  | some [p, n, f, st, sn, fw, outs] => do
    let os := ((jArr? outs).getD []).filterMap fun o =>
      match jArr? o with | some (t :: _) => jStr? t | _ => none
    pure { key := (← jInt? p, ← jStr? n), fl := natList (jArr? f), st := ← jStr? st, sn := (jNat? sn).getD 0,
           fw := (jBool? fw).getD false, outs := os }
  | _ => none

def snapOuts (j : Option Json) : List String :=
  match j.bind jArr? with
  | some [_, _, outs, _] => strList (jArr? outs)
  | _ => []

def parseMsgRec (m : Json) : MsgRec :=
  { key := ((jIntField? m "p").getD 0, (jStrField? m "n").getD ""),
    m := (jStrField? m "m").getD "", tr := (jBoolField? m "tr").getD false,
    forced := (jBoolField? m "forced").getD false, r := (jBoolField? m "r").getD false,
    bOut := snapOuts (jField? m "b"), aOut := snapOuts (jField? m "a") }

def parseOb (ob : Json) : Ob :=
  { pool := ((jArrField? ob "pool").getD []).map parsePO,
    launch := ((jArrField? ob "launch").getD []).filterMap fun l =>
      match jArr? l with | some [p, n, sn] => do pure ((← jInt? p, ← jStr? n), ← jNat? sn) | _ => none,
    fw := ((jArrField? ob "fw").getD []).filterMap keyArr?,
    ts := (jOptField ob "ts").map fun t => ((jArr? t).getD []).filterMap parseTsRow,
    flowCounter := (jNatField? ob "flow_counter").getD 0,
    removed := ((jArrField? ob "removed").getD []).filterMap keyArr?,
    msgs := ((jArrField? ob "msgs").getD []).map parseMsgRec,
    absDone := ((jArrField? ob "abs_done").getD []).filterMap fun a =>
      match jArr? a with | some [p, n, m] => do pure (⟨← jInt? p, ← jStr? n, ← jStr? m⟩ : Atom) | _ => none,
    stop := jStrField? ob "stop", stopMode := jStrField? ob "stop_mode",
    paused := (jBoolField? ob "paused").getD false, rl := (jOptField ob "rl").bind jInt?,
    xtr := ((jArrField? ob "xtr").getD []).filterMap fun e =>
      match jArr? e with
      | some [p, n, l, v] => do pure ((← jInt? p, ← jStr? n), ← jStr? l, ← jBool? v)
      | _ => none,
    suip := ((jArrField? ob "suip").getD []).filterMap fun e =>
      match jArr? e with
      | some [p, n, l] => do
        pure ((← jInt? p, ← jStr? n), ((jArr? l).getD []).map fun pr => ((jArr? pr).getD []).filterMap parseAtomSat)
      | _ => none }

def Ob.get? (o : Ob) (k : Key) : Option PO := o.pool.find? (·.key == k)
def Ob.has (o : Ob) (k : Key) : Bool := (o.get? k).isSome
/-- the xtriggers (label, satisfied) of a pooled task -/
def Ob.xtrOf (o : Ob) (k : Key) : List (String × Bool) := (o.xtr.filter (·.1 == k)).map (·.2)

/-- the suicide prerequisite atoms of a pooled task (`none`: not pooled, or it has none) -/
def Ob.suiOf (o : Ob) (k : Key) : Option (List (Atom × Bool)) := (o.suip.find? (·.1 == k)).map fun e => e.2.flatMap id

def Ob.rowsOf (o : Ob) (k : Key) : List TsRow := (o.ts.getD []).filter (·.key == k)

/-- a recorded `cylc set` command (one task id) -/
structure SetCmd where
  key : Key
  outs : List String                       -- as given (triggers), `[]` = default
  pres : List String                       -- as given: "p/name:trigger" | "all"
  flow : List String
  wait : Bool
  deriving Inhabited

def parseKeyStr (s : String) : Option Key :=
  match s.splitOn "/" with
  | [p, n] => do pure (← p.toInt?, n)
  | _ => none

def parseSet? (op : Json) : Option SetCmd := do
  if jStrField? op "op" != some "cmd" then none
  if jStrField? op "name" != some "set_prereqs_and_outputs" then none
  let args ← jField? op "args"
  match strList (jArrField? args "tasks") with
  | [t] =>
    let key ← parseKeyStr t
    let outs := strList (jArrField? args "outputs")
    pure { key, outs := if outs == ["required"] then [] else outs, pres := strList (jArrField? args "prerequisites"),
           flow := strList (jArrField? args "flow"), wait := (jBoolField? args "flow_wait").getD false }
  | _ => none

def opName (op : Json) : String :=
  match jStrField? op "op" with
  | some "cmd" => "cmd:" ++ (jStrField? op "name").getD ""
  | some o => o
  | none => ""

/-! ### static facts of the instance graph -/

def instOf (g : Graph) (k : Key) : Option InstDef := (g.task? k.2).bind (·.inst? k.1)

def isInst (g : Graph) (k : Key) : Bool := (instOf g k).isSome

/-- children (valid instances) of output message `m` of instance `k` -/
def childKeys (g : Graph) (k : Key) (m : String) : List Key :=
  match instOf g k with
  | none => []
  | some d => match d.children.find? (·.1 == m) with
    | some (_, cs) => (cs.map fun c => (c.pt, c.name)).filter (isInst g)
    | none => []

def allChildKeys (g : Graph) (k : Key) : List Key :=
  match instOf g k with
  | none => []
  | some d => (d.children.flatMap fun e => e.2.map fun c => (c.pt, c.name)).filter (isInst g)

def nextOf (g : Graph) (k : Key) : List Key :=
  match (instOf g k).bind (·.nextParentless) with
  | some np => [(np, k.2)]
  | none => []

def msgOfTrigger (g : Graph) (task trg : String) : Option String :=
  (g.task? task).bind fun t => (t.outputs.find? (·.trigger == trg)).map (·.message)

def trigOfMsg (g : Graph) (task msg : String) : String :=
  match (g.task? task).bind fun t => t.outputs.find? (·.message == msg) with
  | some o => o.trigger
  | none => msg

/-- earlier outputs implied by an output (messages = triggers for the standard outputs) -/
def impliedBy (m : String) : List String :=
  if m == "succeeded" || m == "failed" then ["submitted", "started"]
  else if m == "started" then ["submitted"] else []

def dedup (l : List String) : List String := l.eraseDups

def subset {α} [BEq α] (a b : List α) : Bool := a.all (b.contains ·)

def meets (a b : List Nat) : Bool := a.any (b.contains ·)

def unionN (a b : List Nat) : List Nat := b.foldl (fun acc n => if acc.contains n then acc else acc ++ [n]) a

/-- the flow numbers a `--flow` option denotes, read from the observations: explicit numbers, the counter after
the command for `new`, nothing for `none`, all flows of the pool before the command for the default -/
def cmdFlows (c : SetCmd) (pre post : Ob) : List Nat :=
  if c.flow == ["none"] then []
  else if c.flow == ["new"] then [post.flowCounter]
  else if c.flow.isEmpty then pre.pool.foldl (fun acc t => unionN acc t.fl) []
  else c.flow.filterMap (·.toNat?)

/-- keys reachable from `k` along graph children and next-parentless edges -/
def reach (g : Graph) (k : Key) : List Key :=
  let n := (g.tasks.map (·.insts.length)).foldl (· + ·) 1
  let rec go : Nat → List Key → List Key → List Key
    | 0, seen, _ => seen
    | _ + 1, seen, [] => seen
    | fuel + 1, seen, x :: rest =>
      let nb := ((allChildKeys g x) ++ (nextOf g x)).filter fun y => !seen.contains y && !rest.contains y
      let nb := nb.eraseDups
      go fuel (seen ++ nb) (rest ++ nb)
  go (n * n + 8) [k] [k]

/-- a run in which the real scheduler raised an exception is never a behaviour of the model (like
`crashReply?`); crashes of cylc-flow that are recorded findings get their own key -/
def crashReplyKeyed? (i : Json) : Option Reply :=
  match jStrField? i "crash" with
  | some msg =>
    let key := if (msg.splitOn "graph_depth").length > 1 then "datastore-graph-depth" else "scheduler-exception"
    some { model := Json.null, holds := false, why := s!"{key}: {msg}" }
  | none => none

end CylcModel.S3XObs
