/-
Lemmas about the `Sched3Rm` model used by the C30 theorems, part 5: the pool part of a removal (`removePooled`) and
the stand-down of one downstream proxy (`standDown`), case by case.
-/
import CylcModel.Sched3RmFrame

namespace CylcModel.Sched3Rm

/-! ### The matched id itself -/

/-- some flows remain: the proxy stays, with exactly the flows to remove taken out -/
theorem removePooled_partial (g : Graph) (s : State) (x : Proxy) (fr : List Nat)
    (hin : s.get? x.pt x.name = some x) (hne : (fr == x.flows) = false) :
    (removePooled g s x fr).get? x.pt x.name = some { x with flows := diffF x.flows fr } := by
  unfold removePooled
  simp only [hne, Bool.false_eq_true, if_false]
  exact get?_put_self s { x with flows := diffF x.flows fr } (by rw [hin]; rfl)

/-- no flow remains: the proxy is out of the pool -/
theorem removePooled_all (g : Graph) (s : State) (x : Proxy) (fr : List Nat) (h : (fr == x.flows) = true) :
    (removePooled g s x fr).get? x.pt x.name = none := by
  unfold removePooled
  simp only [h, if_true]
  split
  · rw [get?_congr (storeGhost_pool _ _)]
    exact remove_get?_none g s x
  · exact remove_get?_none g s x

/-! ### A downstream proxy -/

/-- the child with the prerequisites (normal and suicide) that `k` satisfied naturally unset -/
def unsetChild (c : Proxy) (k : Key) : Proxy :=
  { c with pre := (c.pre.map fun p => p.unsetNatural k.1 k.2).map (·.1),
           sui := (c.sui.map fun p => p.unsetNatural k.1 k.2).map (·.1) }

/-- did `k` satisfy any prerequisite of the child naturally -/
def childChanged (c : Proxy) (k : Key) : Bool :=
  (c.pre.map fun p => p.unsetNatural k.1 k.2).any (·.2) || (c.sui.map fun p => p.unsetNatural k.1 k.2).any (·.2)

/-- after the unsetting the child is still ready / not to be touched further: it has started preparing, or it is in
other flows too, or all its prerequisites are still satisfied -/
def stillReady (c : Proxy) (k : Key) (F : List Nat) : Bool :=
  decide ((unsetChild c k).status.rank ≥ Status.preparing.rank) || (unsetChild c k).flows != c.matchFlows F ||
    (unsetChild c k).prereqsSatisfied

theorem standDown_not_pooled (g : Graph) (ids : List Key) (k : Key) (F : List Nat) (st : State) (any : Bool) (ck : Key)
    (h : st.get? ck.1 ck.2 = none) : standDown g ids k F (st, any) ck = (st, any) := by
  unfold standDown
  simp only [h]

theorem standDown_not_concerned (g : Graph) (ids : List Key) (k : Key) (F : List Nat) (st : State) (any : Bool) (ck : Key)
    (c : Proxy) (h : st.get? ck.1 ck.2 = some c) (hf : (c.matchFlows F).isEmpty = true) :
    standDown g ids k F (st, any) ck = (st, any) := by
  unfold standDown
  simp only [h, hf, if_true]

theorem standDown_unchanged (g : Graph) (ids : List Key) (k : Key) (F : List Nat) (st : State) (any : Bool) (ck : Key)
    (c : Proxy) (h : st.get? ck.1 ck.2 = some c) (hc : childChanged c k = false) :
    standDown g ids k F (st, any) ck = (st, any) := by
  unfold standDown
  unfold childChanged at hc
  simp only [h]
  split
  · rfl
  · simp only [hc, Bool.not_false, if_true]

/-- a concerned child with a prerequisite that `k` satisfied naturally, still ready: only the prerequisites change -/
theorem standDown_kept (g : Graph) (ids : List Key) (k : Key) (F : List Nat) (st : State) (any : Bool) (ck : Key)
    (c : Proxy) (h : st.get? ck.1 ck.2 = some c) (hf : (c.matchFlows F).isEmpty = false)
    (hc : childChanged c k = true) (hr : stillReady c k F = true) :
    standDown g ids k F (st, any) ck = (st.put (unsetChild c k), true) := by
  unfold standDown
  unfold childChanged at hc
  unfold stillReady unsetChild at hr
  simp only [h, hf, Bool.false_eq_true, if_false, hc, Bool.not_true]
  rw [if_pos hr]
  rfl

/-- ... no longer ready, but matched itself or with some prerequisite still satisfied: it leaves the queue and stays -/
theorem standDown_unqueued (g : Graph) (ids : List Key) (k : Key) (F : List Nat) (st : State) (any : Bool) (ck : Key)
    (c : Proxy) (h : st.get? ck.1 ck.2 = some c) (hf : (c.matchFlows F).isEmpty = false)
    (hc : childChanged c k = true) (hr : stillReady c k F = false)
    (hs : (ids.contains ck || ((unsetChild c k).reset (queued := some false)).anySatisfied) = true) :
    standDown g ids k F (st, any) ck =
      ((st.put (unsetChild c k)).put ((unsetChild c k).reset (queued := some false)), true) := by
  unfold standDown
  unfold childChanged at hc
  unfold stillReady unsetChild at hr
  unfold unsetChild at hs
  simp only [h, hf, Bool.false_eq_true, if_false, hc, Bool.not_true]
  rw [if_neg (by rw [hr]; decide)]
  rw [if_pos hs]
  rfl

/-- ... no longer ready, not matched, no prerequisite satisfied any more: it leaves the pool -/
theorem standDown_removed (g : Graph) (ids : List Key) (k : Key) (F : List Nat) (st : State) (any : Bool) (ck : Key)
    (c : Proxy) (h : st.get? ck.1 ck.2 = some c) (hf : (c.matchFlows F).isEmpty = false)
    (hc : childChanged c k = true) (hr : stillReady c k F = false)
    (hs : (ids.contains ck || ((unsetChild c k).reset (queued := some false)).anySatisfied) = false) :
    (standDown g ids k F (st, any) ck).1.get? ck.1 ck.2 = none := by
  unfold standDown
  unfold childChanged at hc
  unfold stillReady unsetChild at hr
  unfold unsetChild at hs
  simp only [h, hf, Bool.false_eq_true, if_false, hc, Bool.not_true]
  rw [if_neg (by rw [hr]; decide)]
  rw [if_neg (by rw [hs]; decide)]
  rw [get?_congr (removeTaskFromFlows_pool _ _ _ _)]
  have hk := get?_some_key st ck.1 ck.2 c h
  have := remove_get?_none g
    ((st.put { c with pre := (c.pre.map fun p => p.unsetNatural k.1 k.2).map (·.1),
                      sui := (c.sui.map fun p => p.unsetNatural k.1 k.2).map (·.1) }).put
      (Proxy.reset { c with pre := (c.pre.map fun p => p.unsetNatural k.1 k.2).map (·.1),
                            sui := (c.sui.map fun p => p.unsetNatural k.1 k.2).map (·.1) } (queued := some false)))
    (Proxy.reset { c with pre := (c.pre.map fun p => p.unsetNatural k.1 k.2).map (·.1),
                          sui := (c.sui.map fun p => p.unsetNatural k.1 k.2).map (·.1) } (queued := some false))
  simp only [reset_pt, reset_name] at this
  rw [← hk.1, ← hk.2]
  exact this

/-- ... and its DB history is erased in the flows it was removed in -- its own matched flows, not the flows named by
the command -/
theorem standDown_removed_eq (g : Graph) (ids : List Key) (k : Key) (F : List Nat) (st : State) (any : Bool) (ck : Key)
    (c : Proxy) (h : st.get? ck.1 ck.2 = some c) (hf : (c.matchFlows F).isEmpty = false)
    (hc : childChanged c k = true) (hr : stillReady c k F = false)
    (hs : (ids.contains ck || ((unsetChild c k).reset (queued := some false)).anySatisfied) = false) :
    standDown g ids k F (st, any) ck =
      ((removeTaskFromFlows
          (remove g ((st.put (unsetChild c k)).put ((unsetChild c k).reset (queued := some false)))
            ((unsetChild c k).reset (queued := some false)))
          ((unsetChild c k).reset (queued := some false)).name ((unsetChild c k).reset (queued := some false)).pt
          (c.matchFlows F)).1, true) := by
  unfold standDown
  unfold childChanged at hc
  unfold stillReady unsetChild at hr
  unfold unsetChild at hs
  simp only [h, hf, Bool.false_eq_true, if_false, hc, Bool.not_true]
  rw [if_neg (by rw [hr]; decide)]
  rw [if_neg (by rw [hs]; decide)]
  rfl

end CylcModel.Sched3Rm
