/-
Lemmas about the `Sched3Trig` model used by the C28 theorems: pool look-up after `put`, the manual-submission
path (`queueOrTrigger`, `releaseAndSubmit`), the per-member steps of the group trigger and the prerequisite
atoms it forces.
-/
import CylcModel.Sched3Trig

namespace CylcModel.Sched3Trig

/-! ### Pool look-up -/

def keys (s : State) : List (Int × String) := s.pool.map fun x => (x.pt, x.name)

theorem keys_put (s : State) (x : Proxy) : keys (s.put x) = keys s := by
  unfold keys State.put
  simp only [List.map_map]
  apply List.map_congr_left
  intro y _
  simp only [Function.comp]
  split
  · rename_i h
    simp only [Bool.and_eq_true, beq_iff_eq] at h
    rw [h.1, h.2]
  · rfl

theorem find_map_put (l : List Proxy) (x : Proxy) (h : (l.find? fun y => y.pt == x.pt && y.name == x.name).isSome) :
    (l.map fun y => if y.pt == x.pt && y.name == x.name then x else y).find?
      (fun y => y.pt == x.pt && y.name == x.name) = some x := by
  induction l with
  | nil => simp at h
  | cons a l ih =>
    simp only [List.map_cons]
    by_cases ha : (a.pt == x.pt && a.name == x.name) = true
    · simp [ha]
    · have ha' : (a.pt == x.pt && a.name == x.name) = false := by simpa using ha
      rw [List.find?_cons] at h
      simp only [ha'] at h
      simp only [ha', Bool.false_eq_true, if_false]
      rw [List.find?_cons]
      simp only [ha']
      exact ih h

/-- after `put x` the proxy found under `x`'s key is `x` (if the key was in the pool) -/
theorem get?_put_self (s : State) (x : Proxy) (h : (s.get? x.pt x.name).isSome) :
    (s.put x).get? x.pt x.name = some x := by
  unfold State.get? State.put at *
  exact find_map_put s.pool x h

/-- `put` leaves the other keys alone -/
theorem get?_put_other (s : State) (x : Proxy) (p : Int) (n : String) (h : ¬ (p = x.pt ∧ n = x.name)) :
    (s.put x).get? p n = s.get? p n := by
  unfold State.get? State.put
  simp only
  induction s.pool with
  | nil => rfl
  | cons a l ih =>
    simp only [List.map_cons]
    by_cases ha : (a.pt == x.pt && a.name == x.name) = true
    · simp only [ha, if_true]
      have hk : a.pt = x.pt ∧ a.name = x.name := by simpa using ha
      have h1 : (x.pt == p && x.name == n) = false := by
        apply Bool.eq_false_iff.mpr
        intro hc
        simp only [Bool.and_eq_true, beq_iff_eq] at hc
        exact h ⟨hc.1.symm, hc.2.symm⟩
      have h2 : (a.pt == p && a.name == n) = false := by rw [hk.1, hk.2]; exact h1
      rw [List.find?_cons, List.find?_cons]
      simp only [h1, h2]
      exact ih
    · have ha' : (a.pt == x.pt && a.name == x.name) = false := by simpa using ha
      simp only [ha', Bool.false_eq_true, if_false]
      rw [List.find?_cons, List.find?_cons]
      cases (a.pt == p && a.name == n) with
      | true => rfl
      | false => exact ih

theorem get?_some_key (s : State) (p : Int) (n : String) (x : Proxy) (h : s.get? p n = some x) :
    x.pt = p ∧ x.name = n := by
  unfold State.get? at h
  have := List.find?_some h
  simpa using this

theorem get?_some_mem (s : State) (p : Int) (n : String) (x : Proxy) (h : s.get? p n = some x) : x ∈ s.pool := by
  unfold State.get? at h
  exact List.mem_of_find?_eq_some h

theorem get?_isSome_of_mem (s : State) (x : Proxy) (h : x ∈ s.pool) : (s.get? x.pt x.name).isSome := by
  unfold State.get?
  rw [List.find?_isSome]
  exact ⟨x, h, by simp⟩

/-! ### `Proxy.reset` keeps the identity -/

theorem reset_pt (x : Proxy) (a : Option Status) (b c d : Option Bool) : (x.reset a b c d).pt = x.pt := by
  unfold Proxy.reset; simp only; split <;> rfl

theorem reset_name (x : Proxy) (a : Option Status) (b c d : Option Bool) : (x.reset a b c d).name = x.name := by
  unfold Proxy.reset; simp only; split <;> rfl

theorem reset_submitNum (x : Proxy) (a : Option Status) (b c d : Option Bool) :
    (x.reset a b c d).submitNum = x.submitNum := by
  unfold Proxy.reset; simp only; split <;> rfl

theorem reset_status_some (x : Proxy) (st : Status) (b c d : Option Bool) :
    (x.reset (some st) b c d).status = st := by
  unfold Proxy.reset; simp only [Option.getD_some]
  split
  · rename_i h
    simp only [Bool.and_eq_true, beq_iff_eq] at h
    exact h.1.1.1.symm
  · rfl

theorem reset_queued_some (x : Proxy) (q : Bool) (a : Option Status) (c d : Option Bool) :
    (x.reset a (some q) c d).queued = q := by
  unfold Proxy.reset; simp only [Option.getD_some]
  split
  · rename_i h
    simp only [Bool.and_eq_true, beq_iff_eq] at h
    exact h.1.1.2.symm
  · rfl

theorem reset_status_none (x : Proxy) (b c d : Option Bool) : (x.reset none b c d).status = x.status := by
  unfold Proxy.reset; simp only [Option.getD_none]; split <;> rfl

theorem reset_manual (x : Proxy) (a : Option Status) (b c d : Option Bool) : (x.reset a b c d).manual = x.manual := by
  unfold Proxy.reset; simp only; split <;> rfl

/-! ### `queue_or_trigger` -/

theorem triggeredProxy_key (x : Proxy) : (triggeredProxy x).pt = x.pt ∧ (triggeredProxy x).name = x.name := by
  unfold triggeredProxy
  simp only
  split <;> simp [reset_pt, reset_name]

theorem triggeredProxy_flags (x : Proxy) :
    (triggeredProxy x).manual = true ∧ (triggeredProxy x).wjp = true ∧ (triggeredProxy x).status = .waiting ∧
    (triggeredProxy x).queued = false := by
  unfold triggeredProxy
  simp only
  by_cases h : (({ x with manual := true } : Proxy).reset (status := some .waiting)).queued = true
  · rw [if_pos h]
    refine ⟨?_, ?_, ?_, ?_⟩
    · simp [reset_manual]
    · trivial
    · simp [reset_status_none, reset_status_some]
    · simp [reset_queued_some]
  · rw [if_neg h]
    refine ⟨?_, ?_, ?_, ?_⟩
    · simp [reset_manual]
    · trivial
    · simp [reset_status_some]
    · simpa using h

theorem queueOrTrigger_pool (s : State) (x : Proxy) : (queueOrTrigger s x).pool = (s.put (triggeredProxy x)).pool := by
  unfold queueOrTrigger
  simp only
  split <;> rfl

theorem queueOrTrigger_mem (s : State) (x : Proxy) : (x.pt, x.name) ∈ (queueOrTrigger s x).toTrigger := by
  unfold queueOrTrigger
  simp only
  split
  · rename_i h
    simpa using h
  · simp

/-! ### The submission step of a main loop -/

/-- submit number under which `submitOne` launches a proxy -/
def subSn (x : Proxy) : Nat := if x.status == .preparing then x.submitNum else x.submitNum + 1

theorem submitOne_launched (s : State) (x : Proxy) :
    (submitOne s x).launched = s.launched ++ [(x.pt, x.name, subSn x)] := by
  unfold submitOne subSn
  by_cases h : (x.status == Status.preparing) = true
  · simp [h, State.put]
  · simp [h, State.put, reset_pt, reset_name]

theorem foldl_submitOne_launched (l : List Proxy) (s : State) :
    (l.foldl submitOne s).launched = s.launched ++ l.map fun x => (x.pt, x.name, subSn x) := by
  induction l generalizing s with
  | nil => simp
  | cons a l ih => simp [List.foldl_cons, ih, submitOne_launched, List.append_assoc]

theorem foldl_phantom_launched (l : List Proxy) (s : State) :
    (l.foldl (fun (st : State) x =>
      { st with launched := st.launched ++ [(x.pt, x.name, x.submitNum + 1)],
                launchX := st.launchX ++ [(x.pt, x.name, x.submitNum + 1, x.flows, x.manual)] }) s).launched
      = s.launched ++ l.map fun x => (x.pt, x.name, x.submitNum + 1) := by
  induction l generalizing s with
  | nil => simp
  | cons a l ih => simp [List.foldl_cons, ih, List.append_assoc]

theorem keys_foldl_put (f : Proxy → Proxy) (l : List Proxy) (s : State) :
    keys (l.foldl (fun (st : State) x => st.put (f x)) s) = keys s := by
  induction l generalizing s with
  | nil => rfl
  | cons a l ih => simp only [List.foldl_cons]; rw [ih, keys_put]

/-- the pool from which the submission step picks (queued, not held proxies released unless paused) -/
def releasedState (s : State) : State :=
  let s := { s with toTrigger := [] }
  if s.paused then s else
    (s.pool.filter fun x => x.queued && !x.held).foldl (fun (st : State) x =>
      st.put { (x.reset (queued := some false)) with wjp := true }) s

theorem keys_releasedState (s : State) : keys (releasedState s) = keys s := by
  unfold releasedState
  simp only
  split
  · rfl
  · rw [keys_foldl_put (fun x => { (x.reset (queued := some false)) with wjp := true })]
    rfl

theorem foldl_put_phantoms (f : Proxy → Proxy) (l : List Proxy) (s : State) :
    (l.foldl (fun (st : State) x => st.put (f x)) s).phantoms = s.phantoms := by
  induction l generalizing s with
  | nil => rfl
  | cons a l ih => simp only [List.foldl_cons]; rw [ih]; rfl

theorem foldl_put_launched (f : Proxy → Proxy) (l : List Proxy) (s : State) :
    (l.foldl (fun (st : State) x => st.put (f x)) s).launched = s.launched := by
  induction l generalizing s with
  | nil => rfl
  | cons a l ih => simp only [List.foldl_cons]; rw [ih]; rfl

theorem releasedState_phantoms (s : State) : (releasedState s).phantoms = s.phantoms := by
  unfold releasedState
  simp only
  split
  · rfl
  · rw [foldl_put_phantoms (fun x => { (x.reset (queued := some false)) with wjp := true })]

theorem releasedState_launched (s : State) : (releasedState s).launched = s.launched := by
  unfold releasedState
  simp only
  split
  · rfl
  · rw [foldl_put_launched (fun x => { (x.reset (queued := some false)) with wjp := true })]

/-- the proxies the submission step prepares -/
def prepList (s : State) : List Proxy :=
  (releasedState s).pool.filter fun x => x.wjp || s.toTrigger.contains (x.pt, x.name)

/-- **what a submission step launches**: the launches so far, then one launch per prepared pooled proxy, then
one per phantom -/
theorem releaseAndSubmit_launched (s : State) :
    (releaseAndSubmit s).launched =
      s.launched ++ (prepList s).map (fun x => (x.pt, x.name, subSn x)) ++
        s.phantoms.map (fun x => (x.pt, x.name, x.submitNum + 1)) := by
  have h1 : releaseAndSubmit s =
      (let r := releasedState s
       let pre := prepList s
       if pre.isEmpty && r.phantoms.isEmpty then r else
       let r1 := pre.foldl submitOne r
       let r2 := r.phantoms.foldl (fun (st : State) x =>
          { st with launched := st.launched ++ [(x.pt, x.name, x.submitNum + 1)],
                    launchX := st.launchX ++ [(x.pt, x.name, x.submitNum + 1, x.flows, x.manual)] }) r1
       { r2 with schedUpd := true, phantoms := [] }) := by
    unfold releaseAndSubmit releasedState prepList releasedState
    rfl
  rw [h1]
  simp only
  split
  · rename_i h
    simp only [Bool.and_eq_true, List.isEmpty_iff] at h
    rw [releasedState_phantoms] at h
    rw [h.1, h.2, releasedState_launched]
    simp
  · simp only [foldl_phantom_launched, foldl_submitOne_launched, releasedState_launched, releasedState_phantoms]

theorem prepList_mem_of_trigger (s : State) (k : Int × String) (hk : k ∈ s.toTrigger) (hp : k ∈ keys s) :
    ∃ x ∈ prepList s, (x.pt, x.name) = k := by
  rw [← keys_releasedState s] at hp
  unfold keys at hp
  obtain ⟨x, hx, hxk⟩ := List.mem_map.mp hp
  refine ⟨x, ?_, hxk⟩
  unfold prepList
  rw [List.mem_filter]
  refine ⟨hx, ?_⟩
  simp only [Bool.or_eq_true, List.contains_iff_mem]
  right
  rw [hxk]; exact hk

/-- **a pooled proxy on the trigger-now list is launched by the submission step** -- whatever its held flag,
whether or not the workflow is paused -/
theorem triggered_launched (s : State) (k : Int × String) (hk : k ∈ s.toTrigger) (hp : k ∈ keys s) :
    ∃ sn, (k.1, k.2, sn) ∈ (releaseAndSubmit s).launched := by
  obtain ⟨x, hx, hxk⟩ := prepList_mem_of_trigger s k hk hp
  refine ⟨subSn x, ?_⟩
  rw [releaseAndSubmit_launched]
  apply List.mem_append_left
  apply List.mem_append_right
  rw [List.mem_map]
  refine ⟨x, hx, ?_⟩
  rw [← hxk]

/-- **at most one launch per pooled key and submission step** (no phantoms pending) -/
theorem launched_keys_nodup (s : State) (h0 : s.launched = []) (hph : s.phantoms = []) (hnd : (keys s).Nodup) :
    ((releaseAndSubmit s).launched.map fun l => (l.1, l.2.1)).Nodup := by
  rw [releaseAndSubmit_launched, h0, hph]
  simp only [List.nil_append, List.map_nil, List.append_nil, List.map_map]
  have hsub : ((prepList s).map ((fun l : Int × String × Nat => (l.1, l.2.1)) ∘ fun x => (x.pt, x.name, subSn x))).Sublist
      (keys (releasedState s)) := by
    unfold prepList keys
    exact (List.filter_sublist).map _
  rw [keys_releasedState] at hsub
  exact hnd.sublist hsub

/-! ### Forced prerequisite atoms -/

theorem forceSatisfy_ok (p : Pre) (which : List Atom) (setAll : Bool) :
    ∀ e ∈ (p.forceSatisfy which setAll).atoms, (setAll = true ∨ e.1 ∈ which) → e.2.ok = true := by
  intro e he hw
  unfold Pre.forceSatisfy at he
  simp only [List.mem_map] at he
  obtain ⟨⟨b, s⟩, _, hbs⟩ := he
  simp only at hbs
  by_cases hc : ((setAll || which.contains b) && !s.ok) = true
  · rw [if_pos hc] at hbs
    rw [← hbs]; rfl
  · rw [if_neg hc] at hbs
    rw [← hbs] at hw ⊢
    simp only
    simp only [Bool.and_eq_true, Bool.or_eq_true, List.contains_iff_mem, Bool.not_eq_true', not_and,
      Bool.not_eq_false] at hc
    exact hc hw

/-- an atom that is not named (and `set_all` is off) keeps its state; so does every satisfied atom -/
theorem forceSatisfy_kept (p : Pre) (which : List Atom) (setAll : Bool) :
    ∀ e ∈ p.atoms, ((setAll = false ∧ e.1 ∉ which) ∨ e.2.ok = true) → e ∈ (p.forceSatisfy which setAll).atoms := by
  intro e he hk
  unfold Pre.forceSatisfy
  simp only [List.mem_map]
  refine ⟨e, he, ?_⟩
  obtain ⟨b, s⟩ := e
  simp only
  have hc : ¬ (((setAll || which.contains b) && !s.ok) = true) := by
    simp only [Bool.and_eq_true, Bool.or_eq_true, List.contains_iff_mem, Bool.not_eq_true', not_and]
    intro h1
    rcases hk with ⟨h2, h3⟩ | h2
    · rcases h1 with h1 | h1
      · rw [h2] at h1; exact absurd h1 (by simp)
      · exact absurd h1 h3
    · simpa using h2
  rw [if_neg hc]

theorem forceSatisfy_length (p : Pre) (which : List Atom) (setAll : Bool) :
    (p.forceSatisfy which setAll).atoms.map (·.1) = p.atoms.map (·.1) := by
  unfold Pre.forceSatisfy
  simp only [List.map_map]
  apply List.map_congr_left
  intro e _
  obtain ⟨b, s⟩ := e
  simp only [Function.comp]
  split <;> rfl

theorem respawnAtoms_off (f : Bool) (group : List (Int × String)) (completed : Completed) (d : InstDef) (a : Atom)
    (ha : a ∈ d.tdefAtoms) (hg : group.contains (a.pt, a.task) = false) : a ∈ respawnAtoms f group completed d := by
  unfold respawnAtoms
  apply List.mem_append_left
  rw [List.mem_filter]
  exact ⟨ha, by simp only [hg]; rfl⟩

theorem respawnAtoms_sub (f : Bool) (group : List (Int × String)) (completed : Completed) (d : InstDef) (a : Atom)
    (ha : a ∈ respawnAtoms f group completed d) : a ∈ d.tdefAtoms := by
  unfold respawnAtoms at ha
  rcases List.mem_append.mp ha with h | h <;> exact (List.mem_filter.mp h).1

/-- whatever the flag: an in-group atom is forced only if its parent is a live group-start member that has
completed some output -/
theorem respawnAtoms_in_group (f : Bool) (group : List (Int × String)) (completed : Completed) (d : InstDef) (a : Atom)
    (ha : a ∈ respawnAtoms f group completed d) (hg : group.contains (a.pt, a.task) = true) :
    ∃ e ∈ completed, e.1 = (a.pt, a.task) := by
  unfold respawnAtoms at ha
  rcases List.mem_append.mp ha with h | h
  · have h3 := (List.mem_filter.mp h).2
    simp only [hg] at h3
    exact absurd h3 (by decide)
  · have h2 := (List.mem_filter.mp h).2
    cases hf : completed.find? (fun e => e.1 == (a.pt, a.task)) with
    | none => simp [hf] at h2
    | some e =>
      refine ⟨e, List.mem_of_find?_eq_some hf, ?_⟩
      have := List.find?_some hf
      simpa using this

/-- repaired code: an in-group atom is forced only on an output the live parent has completed -/
theorem respawnAtoms_in_group_repaired (group : List (Int × String)) (completed : Completed) (d : InstDef) (a : Atom)
    (ha : a ∈ respawnAtoms false group completed d) (hg : group.contains (a.pt, a.task) = true) :
    ∃ e ∈ completed, e.1 = (a.pt, a.task) ∧ a.out ∈ e.2 := by
  unfold respawnAtoms at ha
  rcases List.mem_append.mp ha with h | h
  · have h3 := (List.mem_filter.mp h).2
    simp only [hg] at h3
    exact absurd h3 (by decide)
  · have h2 := (List.mem_filter.mp h).2
    cases hf : completed.find? (fun e => e.1 == (a.pt, a.task)) with
    | none => simp [hf] at h2
    | some e =>
      refine ⟨e, List.mem_of_find?_eq_some hf, ?_, ?_⟩
      · have := List.find?_some hf
        simpa using this
      · simpa [hf] using h2

/-! ### Connected groups -/

theorem growGroup_mono (g : Graph) (ids comp : List (Int × String)) (k : Int × String) (h : k ∈ comp) :
    k ∈ growGroup g ids comp := by
  unfold growGroup
  induction ids generalizing comp with
  | nil => exact h
  | cons a l ih =>
    simp only [List.foldl_cons]
    apply ih
    split
    · exact List.mem_append_left _ h
    · exact h

theorem closeGroup_mono (g : Graph) (ids : List (Int × String)) (n : Nat) (comp : List (Int × String))
    (k : Int × String) (h : k ∈ comp) : k ∈ closeGroup g ids n comp := by
  induction n generalizing comp with
  | zero => exact h
  | succ n ih => unfold closeGroup; exact ih _ (growGroup_mono g ids comp k h)

theorem growGroup_sub (g : Graph) (ids comp : List (Int × String)) (k : Int × String) (h : k ∈ growGroup g ids comp) :
    k ∈ comp ∨ k ∈ ids := by
  unfold growGroup at h
  induction ids generalizing comp with
  | nil => exact Or.inl h
  | cons a l ih =>
    simp only [List.foldl_cons] at h
    rcases ih _ h with h1 | h1
    · split at h1
      · rcases List.mem_append.mp h1 with h2 | h2
        · exact Or.inl h2
        · simp only [List.mem_singleton] at h2
          exact Or.inr (by rw [h2]; exact List.mem_cons_self)
      · exact Or.inl h1
    · exact Or.inr (List.mem_cons_of_mem _ h1)

theorem closeGroup_sub (g : Graph) (ids : List (Int × String)) (n : Nat) (comp : List (Int × String))
    (k : Int × String) (h : k ∈ closeGroup g ids n comp) : k ∈ comp ∨ k ∈ ids := by
  induction n generalizing comp with
  | zero => exact Or.inl h
  | succ n ih =>
    unfold closeGroup at h
    rcases ih _ h with h1 | h1
    · exact growGroup_sub g ids comp k h1
    · exact Or.inr h1

/-- the fold of `groupsOf`: everything covered stays covered, every processed id gets covered -/
theorem groupsOf_fold_cover (g : Graph) (ids : List (Int × String)) (l : List (Int × String))
    (acc : List (List (Int × String))) :
    let r := l.foldl (fun (acc : List (List (Int × String))) k =>
      if acc.any (·.contains k) then acc else acc ++ [closeGroup g ids ids.length [k]]) acc
    (∀ grp ∈ acc, grp ∈ r) ∧ ∀ k ∈ l, ∃ grp ∈ r, k ∈ grp := by
  induction l generalizing acc with
  | nil => exact ⟨fun _ h => h, fun _ h => absurd h (by simp)⟩
  | cons a l ih =>
    simp only [List.foldl_cons]
    by_cases hc : (acc.any (·.contains a)) = true
    · rw [if_pos hc]
      obtain ⟨h1, h2⟩ := ih acc
      refine ⟨h1, ?_⟩
      intro k hk
      rcases List.mem_cons.mp hk with hk | hk
      · subst hk
        obtain ⟨grp, hg, hm⟩ := List.any_eq_true.mp hc
        exact ⟨grp, h1 grp hg, by simpa using hm⟩
      · exact h2 k hk
    · rw [if_neg hc]
      obtain ⟨h1, h2⟩ := ih (acc ++ [closeGroup g ids ids.length [a]])
      refine ⟨fun grp hg => h1 grp (List.mem_append_left _ hg), ?_⟩
      intro k hk
      rcases List.mem_cons.mp hk with hk | hk
      · subst hk
        exact ⟨_, h1 _ (List.mem_append_right _ (List.mem_singleton.mpr rfl)),
          closeGroup_mono g ids _ _ _ (List.mem_singleton.mpr rfl)⟩
      · exact h2 k hk

theorem groupsOf_fold_sub (g : Graph) (ids : List (Int × String)) (l : List (Int × String))
    (acc : List (List (Int × String))) (hl : ∀ k ∈ l, k ∈ ids) (hacc : ∀ grp ∈ acc, ∀ k ∈ grp, k ∈ ids) :
    ∀ grp ∈ l.foldl (fun (acc : List (List (Int × String))) k =>
      if acc.any (·.contains k) then acc else acc ++ [closeGroup g ids ids.length [k]]) acc, ∀ k ∈ grp, k ∈ ids := by
  induction l generalizing acc with
  | nil => exact hacc
  | cons a l ih =>
    simp only [List.foldl_cons]
    apply ih
    · exact fun k hk => hl k (List.mem_cons_of_mem _ hk)
    · split
      · exact hacc
      · intro grp hg k hk
        rcases List.mem_append.mp hg with hg | hg
        · exact hacc grp hg k hk
        · simp only [List.mem_singleton] at hg
          subst hg
          rcases closeGroup_sub g ids _ _ k hk with h | h
          · simp only [List.mem_singleton] at h
            subst h
            exact hl _ List.mem_cons_self
          · exact h

/-! ### Respawn with forced prerequisites -/

/-- a proxy respawned by `_set_prereqs_tdef` has every named prerequisite atom (all atoms with `set_all`)
satisfied -/
theorem setPrereqsTdef_forced (g : Graph) (s : State) (k : Int × String) (atoms : List Atom) (setAll : Bool)
    (flows : List Nat) (wait : Bool) (s' : State) (x : Proxy) (pooled : Bool)
    (h : setPrereqsTdef g s k atoms setAll flows wait = (s', some x, pooled)) :
    ∀ p ∈ x.pre, ∀ e ∈ p.atoms, (setAll = true ∨ e.1 ∈ atoms) → e.2.ok = true := by
  unfold setPrereqsTdef at h
  split at h
  · simp at h
  · rename_i s1 y _
    simp only at h
    have hx : x = { y with pre := y.pre.map (·.forceSatisfy atoms setAll), retryWait := false } := by
      split at h <;> (simp only [Prod.mk.injEq, Option.some.injEq] at h; exact h.2.1.symm)
    intro p hp e he hw
    rw [hx] at hp
    simp only [List.mem_map] at hp
    obtain ⟨q, _, hq⟩ := hp
    rw [← hq] at he
    exact forceSatisfy_ok q atoms setAll e he hw

/-! ### A live group-start member is left alone -/

theorem dbAddNewFlowRows_pool (s : State) (x : Proxy) : (dbAddNewFlowRows s x).pool = s.pool := rfl

theorem isFinal_false_of_live (st : Status) (h : (st == .preparing || st.isActive) = true) : st.isFinal = false := by
  cases st <;> simp [Status.isActive, Status.isFinal] at h ⊢

/-- `merge_flows` on a pooled proxy that is not finished, is in some flow and is not flow-waiting: only the
flow numbers (and the DB queue) change -/
theorem mergeFlows_unfinished (g : Graph) (s : State) (x : Proxy) (F : List Nat)
    (hin : s.get? x.pt x.name = some x) (hfin : x.status.isFinal = false) (hfl : x.flows.isEmpty = false)
    (hfw : x.flowWait = false) :
    (mergeFlows g s x F).toTrigger = s.toTrigger ∧ (mergeFlows g s x F).phantoms = s.phantoms ∧
    (mergeFlows g s x F).ghosts = s.ghosts ∧
    ∃ y, (mergeFlows g s x F).get? x.pt x.name = some y ∧ y.status = x.status ∧ y.submitNum = x.submitNum ∧
      y.done = x.done ∧ y.pre = x.pre ∧ y.wjp = x.wjp ∧ y.manual = x.manual ∧ y.queued = x.queued ∧ y.held = x.held := by
  unfold mergeFlows
  by_cases h1 : (F.isEmpty || F == x.flows) = true
  · rw [if_pos h1]
    exact ⟨rfl, rfl, rfl, x, hin, rfl, rfl, rfl, rfl, rfl, rfl, rfl, rfl⟩
  · rw [if_neg h1]
    have hc : (x.flows.isEmpty || x.flowWait) = false := by rw [hfl, hfw]; rfl
    simp only [hfin, Bool.false_and, Bool.false_eq_true, if_false, hc]
    refine ⟨rfl, rfl, rfl, { x with flows := unionF x.flows F }, ?_, rfl, rfl, rfl, rfl, rfl, rfl, rfl, rfl⟩
    have : (s.get? x.pt x.name).isSome := by rw [hin]; rfl
    exact get?_put_self s { x with flows := unionF x.flows F } this

/-- the per-member step of the command on a live (preparing / submitted / running) group-start member only
merges the flows: the member is not queued for removal -/
theorem trigActiveOne_live (g : Graph) (group : List (Int × String)) (flow : FlowSpec) (flowNums : List Nat)
    (st : State) (toRemove : List (Int × String)) (completed : Completed) (k : Int × String) (x : Proxy) (d : InstDef)
    (hx : st.get? k.1 k.2 = some x) (hd : instOf g k = some d)
    (hstart : d.trigParents.any group.contains = false)
    (hlive : (x.status == .preparing || x.status.isActive) = true)
    (hnone : (flow == .none && !x.flows.isEmpty) = false) :
    (trigActiveOne g group flow flowNums (st, toRemove, completed) k).1 = mergeFlows g st x flowNums ∧
    (trigActiveOne g group flow flowNums (st, toRemove, completed) k).2.1 = toRemove := by
  unfold trigActiveOne
  simp only [hx, hd, hstart, hnone, hlive, Bool.false_eq_true, if_false, if_true]
  refine ⟨?_, ?_⟩ <;> first | rfl | trivial

/-- a member with an in-group trigger parent is only queued for removal by the per-member step -/
theorem trigActiveOne_nonstart (g : Graph) (group : List (Int × String)) (flow : FlowSpec) (flowNums : List Nat)
    (st : State) (toRemove : List (Int × String)) (completed : Completed) (k : Int × String) (x : Proxy) (d : InstDef)
    (hx : st.get? k.1 k.2 = some x) (hd : instOf g k = some d)
    (hpar : d.trigParents.any group.contains = true) :
    trigActiveOne g group flow flowNums (st, toRemove, completed) k = (st, toRemove ++ [k], completed) := by
  unfold trigActiveOne
  simp only [hx, hd, hpar, if_true]

/-! ### The trigger releases the holds of the members it removes or finds outside the pool -/

theorem releaseHeldActive_hold (s : State) (x : Proxy) (qir : Bool) :
    (releaseHeldActive s x qir).tasksToHold = s.tasksToHold.filter (· != (x.name, x.pt)) := by
  unfold releaseHeldActive
  simp only
  split <;> rfl

/-- one step of `release_held_tasks` only filters the hold list, and drops the id it handles -/
theorem releaseOne_hold (qir : Bool) (st : State) (k : Int × String) :
    (releaseOne qir st k).tasksToHold = st.tasksToHold.filter (· != (k.2, k.1)) := by
  unfold releaseOne
  by_cases hc : st.tasksToHold.contains (k.2, k.1) = true
  · simp only [hc, Bool.not_true, Bool.false_eq_true, if_false]
    cases hg : st.get? k.1 k.2 with
    | none => rfl
    | some y =>
      have hk := get?_some_key st k.1 k.2 y hg
      simp only
      rw [releaseHeldActive_hold, hk.1, hk.2]
  · have hc' : st.tasksToHold.contains (k.2, k.1) = false := by simpa using hc
    simp only [hc', Bool.not_false, if_true]
    symm
    apply List.filter_eq_self.mpr
    intro e he
    simp only [bne_iff_ne, ne_eq]
    intro h
    rw [h] at he
    have : st.tasksToHold.contains (k.2, k.1) = true := by simpa using he
    rw [hc'] at this
    exact absurd this (by decide)

theorem releaseTasks_sub (s : State) (ids : List (Int × String)) (qir : Bool) :
    ∀ e, e ∈ (releaseTasks s ids qir).tasksToHold → e ∈ s.tasksToHold := by
  unfold releaseTasks
  induction ids generalizing s with
  | nil => intro e h; exact h
  | cons a l ih =>
    intro e h
    simp only [List.foldl_cons] at h
    have h1 := ih _ e h
    rw [releaseOne_hold] at h1
    exact (List.mem_filter.mp h1).1

/-- **`release_held_tasks(ids)`: none of the ids is on the hold list afterwards** -/
theorem releaseTasks_released (s : State) (ids : List (Int × String)) (qir : Bool) :
    ∀ k ∈ ids, (k.2, k.1) ∉ (releaseTasks s ids qir).tasksToHold := by
  induction ids generalizing s with
  | nil => intro k hk; simp at hk
  | cons a l ih =>
    intro k hk
    have hstep : releaseTasks s (a :: l) qir = releaseTasks (releaseOne qir s a) l qir := by
      unfold releaseTasks; simp only [List.foldl_cons]
    rw [hstep]
    rcases List.mem_cons.mp hk with h | h
    · subst h
      intro hm
      have := releaseTasks_sub _ l qir _ hm
      rw [releaseOne_hold] at this
      have h2 := (List.mem_filter.mp this).2
      simp at h2
    · exact ih _ k h

end CylcModel.Sched3Trig
