/-
Stop point and stop task across `cylc reload` over the `Sched3Reload` model (property C43 on reload runs, check C43R).

A generic pass over the primitives of the model for predicates `Q` on states that look only at the stop-related
fields (`fk`: stop point, `--stopcp` option, configuration, committed / queued DB stop point, stop task): `Closed Q`
(closed under changes of the other fields and under a DB flush) is enough for the reload path, `ClosedLoop Q` (also
under the stop-task bookkeeping and the forgetting of a reached stop point) for the whole main loop.  Instances:
`StopInv` (the pool's stop point is the one the configuration yields from the option / flow.cylc / final point,
and without an option the DB holds no stop point) and the constancy of the stop fields along the reload path.
-/
import CylcModel.Sched3ReloadLemmas

namespace CylcModel.Sched3Reload

/-- the stop-related fields of a state -/
def fk (s : State) : Option Int × Option Int × Graph × Option Int × Option (Option Int) × Option (Int × String) × Bool :=
  (s.stopPoint, s.optStopCp, s.g, s.dbStopCp, s.dbStopQ, s.stopTask, s.stopTaskFinished)

structure Closed (Q : State → Prop) : Prop where
  key : ∀ {s t : State}, Q s → fk t = fk s → Q t
  flush : ∀ s, Q s → Q (flushDb s)

structure ClosedLoop (Q : State → Prop) : Prop extends Closed Q where
  fin : ∀ s, Q s → Q { s with stopTaskFinished := true }
  std : ∀ s, Q s → Q { s with stopTask := none, stopTaskFinished := false }
  clr : ∀ s, Q s → Q { s with dbStopQ := if s.stopPoint.isSome then some none else s.dbStopQ }
  auto : ∀ s m, Q s → Q { s with stopMode := m }

theorem fk_spawnTask (g : Graph) (s : State) (n : String) (p : Int) : fk (spawnTask g s n p).1 = fk s := by
  unfold spawnTask
  dsimp only
  repeat' split
  all_goals first | rfl | skip
  all_goals (rename_i h; revert h; repeat' split)
  all_goals first | (intro h; injection h with h1 h2; subst h1; rfl) | skip

theorem fk_computeRunahead (g : Graph) (s : State) (f : Bool) : fk (computeRunahead g s f) = fk s := by
  unfold computeRunahead
  simp only
  split
  · rfl
  · split <;> rfl

theorem fk_putOutputs (s : State) (x : Proxy) : fk (putOutputs s x) = fk s := by
  unfold putOutputs; split <;> rfl

theorem fk_checkStalled (g : Graph) (s : State) : fk (checkStalled g s) = fk s := by
  unfold checkStalled; split
  · rfl
  · split
    · rfl
    · split <;> rfl

section reloadPath
variable {Q : State → Prop} (C : Closed Q)
include C

theorem q_put (s : State) (x : Proxy) (h : Q s) : Q (s.put x) := C.key h rfl

theorem q_add (s : State) (x : Proxy) (h : Q s) : Q (s.add x) := by
  unfold State.add
  split
  · exact h
  · exact C.key h rfl

theorem q_filter (s : State) (f : Proxy → Bool) (h : Q s) : Q { s with pool := s.pool.filter f } :=
  C.key h rfl

theorem q_flushDb (s : State) (h : Q s) : Q (flushDb s) := C.flush s h

theorem q_spawnAndAdd (g : Graph) (s : State) (n : String) (p : Int) (h : Q s) :
    Q (spawnAndAdd g s n p) := by
  unfold spawnAndAdd
  split
  · exact h
  · have hp := fk_spawnTask g s n p
    split
    · rename_i s' x heq
      have : fk s' = fk s := by rw [← hp, heq]
      exact q_add C _ _ (C.key h this)
    · rename_i s' heq
      have : fk s' = fk s := by rw [← hp, heq]
      exact C.key h this

theorem q_spawnNextParentless (g : Graph) (s : State) (x : Proxy) (h : Q s) :
    Q (spawnNextParentless g s x) := by
  unfold spawnNextParentless
  split
  · exact h
  · split
    · exact q_spawnAndAdd C _ _ _ _ h
    · exact h

theorem q_computeRunahead (g : Graph) (s : State) (f : Bool) (h : Q s) :
    Q (computeRunahead g s f) := C.key h (fk_computeRunahead g s f)

theorem q_releaseRunahead (g : Graph) (s : State) (h : Q s) : Q (releaseRunahead g s).1 := by
  unfold releaseRunahead
  split
  · exact h
  · split
    · exact h
    · simp only
      apply foldl_inv Q _ _ _ _ h
      intro st x hst
      apply q_spawnNextParentless C
      split
      · exact q_put C _ _ hst
      · exact hst

theorem q_releaseRunaheadN (g : Graph) : ∀ (n : Nat) (s : State), Q s → Q (releaseRunaheadN g n s) := by
  intro n; induction n with
  | zero => intro s h; exact h
  | succ n ih =>
    intro s h
    unfold releaseRunaheadN
    simp only
    split
    · exact ih _ (q_releaseRunahead C g s h)
    · exact q_releaseRunahead C g s h

theorem q_queueIfReady (s : State) (x : Proxy) (h : Q s) : Q (queueIfReady s x) := by
  unfold queueIfReady; split
  · exact q_put C _ _ h
  · exact h

theorem q_holdActive (s : State) (x : Proxy) (h : Q s) : Q (holdActive s x) := by
  unfold holdActive
  simp only
  split
  · exact q_put C _ _ h
  · exact C.key h rfl

theorem q_releaseHeldActive (s : State) (x : Proxy) (h : Q s) : Q (releaseHeldActive s x) := by
  unfold releaseHeldActive
  simp only
  split
  · exact C.key h rfl
  · exact C.key h rfl

theorem q_releaseAndSubmit (s : State) (h : Q s) : Q (releaseAndSubmit s) := by
  unfold releaseAndSubmit
  simp only
  split
  · exact h
  · show Q _
    refine C.key (?_ : Q (List.foldl _ s _)) rfl
    apply foldl_inv Q
    · intro st x hst
      exact C.key hst rfl
    · exact h

theorem q_remove (g : Graph) (s : State) (x : Proxy) (h : Q s) : Q (remove g s x) := by
  unfold remove
  simp only
  apply q_flushDb C
  have h0 := q_releaseHeldActive C s x h
  generalize releaseHeldActive s x = s1 at h0 ⊢
  have h1 : Q (if (!((s1.get? x.pt x.name).getD x).flows.isEmpty && ((s1.get? x.pt x.name).getD x).runahead) = true
      then spawnNextParentless g s1 ((s1.get? x.pt x.name).getD x) else s1) := by
    split
    · exact q_spawnNextParentless C _ _ _ h0
    · exact h0
  exact C.key h1 rfl

theorem q_store (s : State) (x : Proxy) (tr : Bool) (h : Q s) : Q (store s x tr) := by
  unfold store; split
  · exact C.key h rfl
  · exact q_put C _ _ h

theorem q_sweepQueue (s : State) (h : Q s) : Q (sweepQueue s) := by
  unfold sweepQueue
  apply foldl_inv Q
  · intro st x hst
    split
    · split
      · exact q_queueIfReady C _ _ (q_put C _ _ hst)
      · exact hst
    · exact hst
  · exact h

theorem q_setHoldPoint (s : State) (p : Int) (h : Q s) : Q (setHoldPoint s p) := by
  unfold setHoldPoint
  simp only
  apply foldl_inv Q
  · intro st x hst
    split
    · split
      · exact q_holdActive C _ _ hst
      · exact hst
    · exact hst
  · exact C.key h rfl

theorem q_holdTasks (s : State) (ids : List (Int × String)) (h : Q s) : Q (holdTasks s ids) := by
  unfold holdTasks
  apply foldl_inv Q
  · intro st k hst
    split
    · exact q_holdActive C _ _ hst
    · split
      · exact hst
      · exact C.key hst rfl
  · exact h

theorem q_releaseTasks (s : State) (ids : List (Int × String)) (h : Q s) : Q (releaseTasks s ids) := by
  unfold releaseTasks
  apply foldl_inv Q
  · intro st k hst
    split
    · exact hst
    · split
      · exact q_releaseHeldActive C _ _ hst
      · exact C.key hst rfl
  · exact h

theorem q_releaseHoldPoint (s : State) (h : Q s) : Q (releaseHoldPoint s) := by
  unfold releaseHoldPoint
  simp only
  refine C.key (?_ : Q (List.foldl _ _ _)) rfl
  apply foldl_inv Q
  · intro st x hst
    split
    · exact q_releaseHeldActive C _ _ hst
    · exact hst
  · exact C.key h rfl

theorem q_reloadOne (g' : Graph) (orphans : List String) (st : State) (x0 : Proxy) (h : Q st) :
    Q (reloadOne g' orphans st x0) := by
  unfold reloadOne
  split
  · exact h
  · split
    · split
      · exact q_remove C _ _ _ h
      · exact q_put C _ _ h
    · exact q_put C _ _ h

theorem q_reloadFold (g' : Graph) (orphans : List String) (l : List Proxy) (st : State) (h : Q st) :
    Q (l.foldl (reloadOne g' orphans) st) :=
  foldl_inv Q _ (fun st x hst => q_reloadOne C g' orphans st x hst) l st h

/-- the tail of the reload command: forced `compute_runahead`, `release_runahead_tasks` -/
theorem q_reloadTail (g' : Graph) (s : State) (b : Bool) (h : Q s) :
    Q (if b = true then (releaseRunahead g' (computeRunahead g' s true)).1 else computeRunahead g' s true) := by
  split
  · exact q_releaseRunahead C _ _ (q_computeRunahead C _ _ _ h)
  · exact q_computeRunahead C _ _ _ h

theorem q_eraseHistory (s : State) (p : Int) (n : String) (h : Q s) : Q (eraseHistory s p n) := C.key h rfl

theorem q_standDown (g : Graph) (p : Int) (n : String) (st : State) (c : Int × String) (h : Q st) :
    Q (standDown g p n st c).1 := by
  unfold standDown
  split
  · exact h
  · split
    · exact h
    · simp only
      split
      · exact q_put C _ _ h
      · split
        · exact q_put C _ _ (q_put C _ _ h)
        · exact q_eraseHistory C _ _ _ (q_remove C _ _ _ (q_put C _ _ (q_put C _ _ h)))

theorem q_standDownAll (g : Graph) (p : Int) (n : String) (cs : List (Int × String)) (s : State) (h : Q s) :
    Q (standDownAll g p n s cs).1 := by
  unfold standDownAll
  have hfold : ∀ (l : List (Int × String)) (acc : State × Bool), Q acc.1 →
      Q (l.foldl (fun (acc : State × Bool) c =>
        ((standDown g p n acc.1 c).1, acc.2 || (standDown g p n acc.1 c).2)) acc).1 := by
    intro l
    induction l with
    | nil => intro acc ha; exact ha
    | cons c l ih =>
      intro acc ha
      simp only [List.foldl_cons]
      apply ih
      exact q_standDown C g p n acc.1 c ha
  exact hfold cs (s, false) h

theorem q_removeTail (g : Graph) (s : State) (b : Bool) (h : Q s) : Q (removeTail g s b) := by
  unfold removeTail
  split
  · split
    · exact q_releaseRunahead C _ _ (q_computeRunahead C _ _ _ h)
    · exact q_computeRunahead C _ _ _ h
  · exact h

theorem q_removeTarget (g : Graph) (s : State) (p : Int) (n : String) (h : Q s) : Q (removeTarget g s p n) := by
  unfold removeTarget
  split
  · exact q_remove C _ _ _ h
  · exact h

theorem q_removeTask (g : Graph) (s : State) (p : Int) (n : String) (order : List (Int × String)) (h : Q s) :
    Q (removeTask g s p n order) := by
  unfold removeTask
  split
  · exact h
  · simp only
    split
    · exact h
    · apply q_removeTail C
      apply q_flushDb C
      apply q_eraseHistory C
      apply q_standDownAll C
      apply q_removeTarget C
      exact q_flushDb C _ h

theorem q_setTail (s : State) (p : Int) (n : String) (h : Q s) : Q (setTail s p n) := by
  unfold setTail
  split
  · split
    · exact q_put C _ _ h
    · exact h
  · exact h

end reloadPath

section mainLoop
variable {Q : State → Prop} (L : ClosedLoop Q)
include L

theorem q_removeIfComplete (g : Graph) (s : State) (x : Proxy) (h : Q s) :
    Q (removeIfComplete g s x) := by
  unfold removeIfComplete
  split
  · exact h
  · simp only
    have h1 : Q (if (s.stopTask == some (x.pt, x.name)) = true then { s with stopTaskFinished := true } else s) := by
      split
      · exact L.fin s h
      · exact h
    generalize (if (s.stopTask == some (x.pt, x.name)) = true then { s with stopTaskFinished := true } else s) = s1
      at h1 ⊢
    split
    · exact q_remove L.toClosed _ _ _ h1
    · exact h1

theorem q_spawnChild (g : Graph) (p : Int) (n out : String) (acc : State × List (Int × String)) (c : Child)
    (h : Q acc.1) : Q (spawnChild g p n out acc c).1 := by
  obtain ⟨st, sui⟩ := acc
  unfold spawnChild
  simp only
  have hA : Q (if c.isAbs = true then flushDb st else st) := by
    split
    · exact q_flushDb L.toClosed _ h
    · exact h
  generalize (if c.isAbs = true then flushDb st else st) = stA at hA ⊢
  have h0 : Q (if (c.isAbs && !stA.absDone.contains ⟨p, n, out⟩) = true then
      { stA with absDone := stA.absDone ++ [⟨p, n, out⟩] } else stA) := by
    split
    · exact L.key hA rfl
    · exact hA
  generalize (if (c.isAbs && !stA.absDone.contains ⟨p, n, out⟩) = true then
      { stA with absDone := stA.absDone ++ [⟨p, n, out⟩] } else stA) = st0 at h0 ⊢
  have hfold : ∀ (ks : List (Int × String)) (a : State × List (Int × String)), Q a.1 →
      Q (ks.foldl (fun (a : State × List (Int × String)) k =>
        match a.1.get? k.1 k.2 with
        | none => a
        | some z =>
          let z := z.satisfyMe ⟨p, n, out⟩
          (a.1.put z, if (z.suicideNow && !a.2.contains k) = true then a.2 ++ [k] else a.2)) a).1 := by
    intro ks; induction ks with
    | nil => intro a ha; exact ha
    | cons k ks ih =>
      intro a ha
      apply ih
      simp only
      split
      · exact ha
      · exact q_put L.toClosed _ _ ha
  cases hg : st0.get? c.pt c.name with
  | some y =>
    simp only [Option.isSome_some]
    apply hfold
    exact h0
  | none =>
    simp only [Option.isSome_none]
    generalize hsp : spawnTask g st0 c.name c.pt = R
    obtain ⟨st1, child⟩ := R
    have hp : fk st1 = fk st0 := by
      have := fk_spawnTask g st0 c.name c.pt
      rw [hsp] at this; exact this
    have h1 : Q st1 := L.key h0 hp
    dsimp only
    split
    · exact h1
    · apply hfold
      simp only [Bool.false_eq_true, if_false]
      exact q_add L.toClosed _ _ h1

theorem q_spawnOnOutput (g : Graph) (s : State) (p : Int) (n out : String) (h : Q s) :
    Q (spawnOnOutput g s p n out) := by
  unfold spawnOnOutput
  split
  · exact h
  · simp only
    have h1 : ∀ (cs : List Child) (acc : State × List (Int × String)), Q acc.1 →
        Q (cs.foldl (spawnChild g p n out) acc).1 := by
      intro cs; induction cs with
      | nil => intro acc ha; exact ha
      | cons c cs ih => intro acc ha; exact ih _ (q_spawnChild L g p n out acc c ha)
    have h2 : ∀ (ks : List (Int × String)) (st : State), Q st →
        Q (ks.foldl (fun (st : State) k => match st.get? k.1 k.2 with
          | some z => remove g st z
          | none => st) st) := by
      intro ks; induction ks with
      | nil => intro st hst; exact hst
      | cons k ks ih =>
        intro st hst
        apply ih
        simp only
        split
        · exact q_remove L.toClosed _ _ _ hst
        · exact hst
    generalize hR : (List.foldl (spawnChild g p n out) (s, []) _) = R
    have hRn : Q R.1 := by rw [← hR]; exact h1 _ _ h
    have h3 := h2 R.2 R.1 hRn
    split
    · exact q_removeIfComplete L _ _ _ h3
    · exact h3

theorem q_spawnChildren (g : Graph) (s : State) (p : Int) (n out : String) (tr : Bool) (h : Q s) :
    Q (spawnChildren g s p n out tr) := by
  unfold spawnChildren
  simp only
  have key : ∀ S : State, Q S → Q (if tr = true then S else spawnOnOutput g S p n out) := by
    intro S hS
    split
    · exact hS
    · exact q_spawnOnOutput L _ _ _ _ _ hS
  apply key
  split
  · exact L.key h (fk_putOutputs _ _)
  · exact h

theorem q_processMessage (g : Graph) : ∀ (fuel : Nat) (s : State) (p : Int) (n : String) (flag : Flag)
    (sn : Nat) (msg : String), Q s → Q (processMessage g fuel s p n flag sn msg).1 := by
  intro fuel
  induction fuel with
  | zero => intro s p n flag sn msg h; exact h
  | succ fuel ih =>
    intro s p n flag sn msg h
    unfold processMessage
    split
    · exact h
    · rename_i x tr _
      split
      · exact h
      · split
        · exact h
        · simp only
          have hstore : ∀ (y : Proxy), Q (store s y tr) := fun y => q_store L.toClosed _ _ _ h
          have himp : ∀ (l : List String) (st : State), Q st →
              Q (l.foldl (fun st m => (processMessage g fuel st p n .internal sn m).1) st) := by
            intro l; induction l with
            | nil => intro st hst; exact hst
            | cons a l ihl => intro st hst; exact ihl _ (ih _ _ _ _ _ _ hst)
          generalize hS : (List.foldl (fun st m => (processMessage g fuel st p n Flag.internal sn m).1) _ _) = S
          have hSn : Q S := by rw [← hS]; exact himp _ _ (hstore _)
          split
          · exact hSn
          · repeat' split
            all_goals first
              | exact hSn
              | exact q_store L.toClosed _ _ _ hSn
              | exact q_spawnChildren L _ _ _ _ _ _ (q_store L.toClosed _ _ _ hSn)
              | exact q_spawnChildren L _ _ _ _ _ _ hSn

theorem q_processQueue (g : Graph) (s : State) (h : Q s) : Q (processQueue g s) := by
  unfold processQueue
  apply foldl_inv Q
  · intro st grp hst
    simp only
    split
    · exact hst
    · have : ∀ (l : List Msg) (acc : State × Bool), Q acc.1 →
          Q (l.foldl (fun (acc : State × Bool) m =>
            let (st', pl) := processMessage g 4 acc.1 grp.1.1 grp.1.2 .received m.submitNum m.text
            (st', acc.2 || pl)) acc).1 := by
        intro l; induction l with
        | nil => intro acc ha; exact ha
        | cons m l ihl =>
          intro acc ha
          apply ihl
          exact q_processMessage L g 4 _ _ _ _ _ _ ha
      have h2 := this grp.2 (st, false) hst
      split
      · exact L.key h2 rfl
      · exact h2
  · exact L.key h rfl

theorem q_checkStalled (g : Graph) (s : State) (h : Q s) : Q (checkStalled g s) :=
  L.key h (fk_checkStalled g s)

theorem q_checkAutoShutdown (g : Graph) (s : State) (h : Q s) : Q (checkAutoShutdown g s).1 := by
  unfold checkAutoShutdown
  simp only
  split
  · exact h
  · split
    · exact q_checkStalled L g s h
    · split
      · exact q_checkStalled L g s h
      · exact L.clr _ (q_checkStalled L g s h)

theorem q_finishLoop (g : Graph) (s : State) (h : Q s) : Q (finishLoop g s) := by
  unfold finishLoop
  simp only
  have h4 : Q (if (s.pool.any (·.upd)) = true then { s with restartWait := false } else s) := by
    split
    · exact L.key h rfl
    · exact h
  generalize (if (s.pool.any (·.upd)) = true then { s with restartWait := false } else s) = s1 at h4 ⊢
  have key : ∀ S : State, Q S →
      Q (if (!(s.schedUpd || s.pool.any (·.upd)) && (flushDb { S with db := some S.pool }).stopMode.isNone) = true
        then checkStalled g (flushDb { S with db := some S.pool }) else flushDb { S with db := some S.pool }) := by
    intro S hS
    have hf : Q (flushDb { S with db := some S.pool }) := q_flushDb L.toClosed _ (L.key hS rfl)
    split
    · exact L.key hf (fk_checkStalled g _)
    · exact hf
  apply key
  split
  · exact L.key h4 rfl
  · exact h4

theorem q_workflowShutdown (g : Graph) (s : State) (h : Q s) : Q (workflowShutdown g s) := by
  unfold workflowShutdown
  split
  · have hst : Q (stopTaskDone s).1 := by
      unfold stopTaskDone; split
      · exact L.std s h
      · exact h
    generalize stopTaskDone s = R at hst ⊢
    obtain ⟨s2, std⟩ := R
    simp only at hst ⊢
    split
    · exact L.auto _ _ hst
    · have hc := q_checkAutoShutdown L g s2 hst
      generalize checkAutoShutdown g s2 = R2 at hc ⊢
      obtain ⟨s3, auto⟩ := R2
      simp only at hc ⊢
      split
      · exact L.auto _ _ hc
      · exact hc
  · exact h

theorem q_loopRest (s : State) (h : Q s) : Q (loopRest s) := by
  unfold loopRest
  simp only
  apply q_finishLoop L
  apply q_processQueue L
  split
  · exact q_releaseAndSubmit L.toClosed _ (q_sweepQueue L.toClosed _ h)
  · exact q_sweepQueue L.toClosed _ h

theorem q_forceOutput (g : Graph) (s : State) (x : Proxy) (msg : String) (h : Q s) :
    Q (forceOutput g s x msg) := by
  unfold forceOutput
  split
  · exact h
  · exact q_spawnChildren L _ _ _ _ _ _ (q_put L.toClosed _ _ h)

theorem q_setOut (g : Graph) (s : State) (p : Int) (n : String) (trig : String) (h : Q s) :
    Q (setOut g s p n trig) := by
  unfold setOut
  split
  · exact h
  · split
    · exact q_setTail L.toClosed _ _ _ h
    · exact q_setTail L.toClosed _ _ _ (q_forceOutput L _ _ _ _ h)

/-- the whole main-loop iteration, given that the queued reload command (if any) preserves `Q` -/
theorem q_mainLoop (s : State) (cmd : Option (Option Graph)) (h : Q s)
    (hre : ∀ ng, cmd = some ng → ∀ t, Q t → Q (reloadCmd ng t)) : Q (mainLoop s cmd) := by
  unfold mainLoop
  split
  · exact h
  · simp only
    have h2 := q_workflowShutdown L s.g _ (q_releaseRunahead L.toClosed s.g _ (q_computeRunahead L.toClosed s.g s false h))
    split
    · exact L.key h2 rfl
    · unfold loopBody
      apply q_loopRest L
      unfold applyCmd
      split
      · rename_i ng
        exact L.key (hre ng rfl _ h2) rfl
      · exact h2

end mainLoop

/-! ### Instances -/

/-- the stop fields no DB flush touches -/
def fk0 (s : State) : Option Int × Option Int × Graph × Option (Int × String) × Bool :=
  (s.stopPoint, s.optStopCp, s.g, s.stopTask, s.stopTaskFinished)

theorem fk0_of_fk {s t : State} (e : fk t = fk s) : fk0 t = fk0 s := by
  unfold fk at e
  unfold fk0
  simp only [Prod.mk.injEq] at e ⊢
  exact ⟨e.1, e.2.1, e.2.2.1, e.2.2.2.2.2.1, e.2.2.2.2.2.2⟩

theorem fk0_flushDb (s : State) : fk0 (flushDb s) = fk0 s := by
  unfold flushDb
  split <;> (dsimp only; split <;> rfl)

/-- "the flush-proof stop fields have the value `c`" is closed along the reload path -/
theorem closed_fk0 (c : Option Int × Option Int × Graph × Option (Int × String) × Bool) :
    Closed (fun s => fk0 s = c) where
  key := fun h e => (fk0_of_fk e).trans h
  flush := fun s h => (fk0_flushDb s).trans h

/-- **the stop-point state is coherent**: the configuration keeps its final point `fcp` and its flow.cylc stop
point `file`; the pool's stop point is the one the configuration yields (the `--stopcp` option, else flow.cylc,
else the final point); every recorded stop point lies within the final point; without an option the DB holds no
stop point (committed or queued) -/
def StopOK (fcp : Int) (file : Option Int) (s : State) : Prop :=
  s.g.fcp = fcp ∧ s.g.cfgStopFile = file ∧
  s.stopPoint = some ((match s.optStopCp with | some p => some p | none => file).getD fcp) ∧
  (∀ p, s.optStopCp = some p → p ≤ fcp) ∧ (∀ p, s.dbStopCp = some p → p ≤ fcp) ∧
  (∀ p, s.dbStopQ = some (some p) → p ≤ fcp) ∧
  (s.optStopCp = none → s.dbStopCp = none ∧ (s.dbStopQ = none ∨ s.dbStopQ = some none))

theorem stopOK_of_fk {fcp : Int} {file : Option Int} {s t : State} (h : StopOK fcp file s) (e : fk t = fk s) :
    StopOK fcp file t := by
  unfold fk at e
  simp only [Prod.mk.injEq] at e
  obtain ⟨e1, e2, e3, e4, e5, _, _⟩ := e
  unfold StopOK at *
  rw [e1, e2, e3, e4, e5]
  exact h

theorem stopOK_flushDb {fcp : Int} {file : Option Int} (s : State) (h : StopOK fcp file s) :
    StopOK fcp file (flushDb s) := by
  obtain ⟨h1, h2, h3, h4, h5, h6, h7⟩ := h
  have hf0 := fk0_flushDb s
  unfold fk0 at hf0
  simp only [Prod.mk.injEq] at hf0
  obtain ⟨f1, f2, f3, _, _⟩ := hf0
  have hdb : (flushDb s).dbStopQ = none ∧
      ((flushDb s).dbStopCp = s.dbStopCp ∧ s.dbStopQ = none ∨ s.dbStopQ = some (flushDb s).dbStopCp) := by
    unfold flushDb
    cases hq : s.dbStopQ with
    | none => dsimp only; split <;> simp [hq]
    | some v => dsimp only; split <;> simp
  obtain ⟨d1, d2⟩ := hdb
  refine ⟨by rw [f3]; exact h1, by rw [f3]; exact h2, by rw [f1, f2]; exact h3, by rw [f2]; exact h4, ?_, ?_, ?_⟩
  · intro p hp
    rcases d2 with ⟨d, _⟩ | d
    · exact h5 p (d ▸ hp)
    · exact h6 p (by rw [d, hp])
  · intro p hp; rw [d1] at hp; cases hp
  · intro ho
    rw [f2] at ho
    obtain ⟨a, b⟩ := h7 ho
    refine ⟨?_, Or.inl d1⟩
    rcases d2 with ⟨d, _⟩ | d
    · rw [d]; exact a
    · rcases b with b | b
      · rw [b] at d; cases d
      · rw [b] at d; injection d with d; exact d.symm

theorem closedLoop_stopOK (fcp : Int) (file : Option Int) : ClosedLoop (StopOK fcp file) where
  key := fun h e => stopOK_of_fk h e
  flush := fun s h => stopOK_flushDb s h
  fin := fun _ h => h
  std := fun _ h => h
  auto := fun _ _ h => h
  clr := fun s h => by
    obtain ⟨h1, h2, h3, h4, h5, h6, h7⟩ := h
    refine ⟨h1, h2, h3, h4, h5, ?_, ?_⟩
    · intro p hp
      simp only at hp
      split at hp
      · cases hp
      · exact h6 p hp
    · intro ho
      obtain ⟨a, b⟩ := h7 ho
      refine ⟨a, ?_⟩
      simp only
      split
      · exact Or.inr rfl
      · exact b

/-! ### The stop point through the commands -/

theorem stopOK_setStopPoint {fcp : Int} {file : Option Int} (s : State) (p : Int) (h : StopOK fcp file s)
    (hp : p ≤ fcp) : StopOK fcp file (setStopPoint s p) := by
  unfold setStopPoint
  split
  · exact h
  · obtain ⟨h1, h2, _, _, h5, _, _⟩ := h
    have base : StopOK fcp file { s with stopPoint := some p, dbStopQ := some (some p), optStopCp := some p } := by
      refine ⟨h1, h2, rfl, ?_, h5, ?_, ?_⟩
      · intro q hq; simp only at hq; cases hq; exact hp
      · intro q hq; simp only at hq; cases hq; exact hp
      · intro ho; simp only at ho; cases ho
    simp only
    split
    · split
      · exact stopOK_of_fk base rfl
      · exact base
    · exact base

/-- under the invariant `_set_workflow_params` changes no stop field: the option is set, or the DB holds no stop point -/
theorem fk_reloadParams {fcp : Int} {file : Option Int} (s : State) (h : StopOK fcp file s) :
    fk (reloadParams s) = fk s := by
  obtain ⟨_, _, _, _, _, _, h7⟩ := h
  unfold reloadParams fk
  cases ho : s.optStopCp with
  | some p => simp
  | none => simp [(h7 ho).1]

theorem stopOK_reloadPause {fcp : Int} {file : Option Int} (s : State) (h : StopOK fcp file s) :
    StopOK fcp file (reloadPause s) := by
  unfold reloadPause
  split
  · exact h
  · exact stopOK_flushDb _ (stopOK_of_fk h rfl)

theorem fk0_reloadPause (s : State) : fk0 (reloadPause s) = fk0 s := by
  unfold reloadPause
  split
  · rfl
  · rw [fk0_flushDb]; rfl

theorem fk0_reloadResume (b : Bool) (s : State) : fk0 (reloadResume b s) = fk0 s := by
  unfold reloadResume
  split
  · rfl
  · rw [fk0_flushDb]; rfl

theorem stopOK_reloadResume {fcp : Int} {file : Option Int} (b : Bool) (s : State) (h : StopOK fcp file s) :
    StopOK fcp file (reloadResume b s) := by
  unfold reloadResume
  split
  · exact h
  · exact stopOK_flushDb _ (stopOK_of_fk h rfl)

/-- the state `_reload_taskdefs` folds over: new configuration, stop point from the configuration, queue members -/
def reloadBase (g' : Graph) (s : State) : State :=
  { (reloadDbWrite s) with
    g := g', stopPoint := some ((reloadCfgStop g' s).getD g'.fcp),
    qMembers := g'.tasks.map (·.name) ++
      (if (reloadDbWrite s).fl.adoptOrphans then orphansOf (reloadDbWrite s).g g' else []) }

theorem reloadApply_eq (g' : Graph) (s : State) :
    reloadApply g' s =
      (let s1 := (reloadDbWrite s).pool.foldl (reloadOne g' (orphansOf (reloadDbWrite s).g g')) (reloadBase g' s)
       if (!s1.pool.isEmpty || (minOf (g'.seqs.filterMap fun q => q.find? (· ≥ g'.start))).isSome) = true
       then (releaseRunahead g' (computeRunahead g' s1 true)).1 else computeRunahead g' s1 true) := by
  unfold reloadApply reloadTaskdefs reloadBase
  rfl

/-- **the configuration of the reloaded definition yields the stop point in force** -/
theorem reloadBase_stop {fcp : Int} {file : Option Int} (g' : Graph) (s : State) (h : StopOK fcp file s)
    (hfile : ∀ p, file = some p → p ≤ fcp) (hg : g'.fcp = fcp ∧ g'.cfgStopFile = file) :
    (reloadBase g' s).stopPoint = s.stopPoint ∧ StopOK fcp file (reloadBase g' s) := by
  obtain ⟨h1, h2, h3, h4, h5, h6, h7⟩ := h
  have hcfg : (reloadCfgStop g' s).getD g'.fcp = (match s.optStopCp with | some p => some p | none => file).getD fcp := by
    unfold reloadCfgStop
    rw [hg.1, hg.2]
    cases ho : s.optStopCp with
    | some p =>
      have := h4 p ho
      have hn : ¬ p > fcp := by omega
      simp [hn]
    | none =>
      cases hf : file with
      | none => simp
      | some p =>
        have := hfile p hf
        have hn : ¬ p > fcp := by omega
        simp [hn]
  have hsp : (reloadBase g' s).stopPoint = s.stopPoint := by
    unfold reloadBase
    simp only
    rw [hcfg, h3]
  refine ⟨hsp, ?_⟩
  refine ⟨hg.1, hg.2, ?_, h4, ?_, ?_, ?_⟩
  · rw [hsp, h3]; rfl
  · intro p hp
    exact h4 p hp
  · intro p hp; cases hp
  · intro ho
    exact ⟨ho, Or.inl rfl⟩

theorem reloadApply_stop {fcp : Int} {file : Option Int} (g' : Graph) (s : State) (h : StopOK fcp file s)
    (hfile : ∀ p, file = some p → p ≤ fcp) (hg : g'.fcp = fcp ∧ g'.cfgStopFile = file) :
    (reloadApply g' s).stopPoint = s.stopPoint ∧ StopOK fcp file (reloadApply g' s) := by
  obtain ⟨hsp, hok⟩ := reloadBase_stop g' s h hfile hg
  rw [reloadApply_eq]
  simp only
  constructor
  · have C := closed_fk0 (fk0 (reloadBase g' s))
    have hfold := q_reloadFold C g' (orphansOf (reloadDbWrite s).g g') (reloadDbWrite s).pool (reloadBase g' s) rfl
    have := q_reloadTail C g' _
      (!((reloadDbWrite s).pool.foldl (reloadOne g' (orphansOf (reloadDbWrite s).g g')) (reloadBase g' s)).pool.isEmpty ||
        (minOf (g'.seqs.filterMap fun q => q.find? (· ≥ g'.start))).isSome) hfold
    have h1 := congrArg Prod.fst this
    simp only [fk0] at h1
    rw [← hsp]
    exact h1
  · have C := (closedLoop_stopOK fcp file).toClosed
    exact q_reloadTail C g' _ _ (q_reloadFold C g' _ _ _ hok)

/-- **`cylc reload` preserves the pool's stop point** - for EVERY state with a coherent stop-point state (`StopOK`),
every new definition that keeps the final point and the flow.cylc stop point, accepted or rejected. -/
theorem reloadCmd_stop {fcp : Int} {file : Option Int} (ng : Option Graph) (s : State) (h : StopOK fcp file s)
    (hfile : ∀ p, file = some p → p ≤ fcp) (hg : ∀ g', ng = some g' → g'.fcp = fcp ∧ g'.cfgStopFile = file) :
    (reloadCmd ng s).stopPoint = s.stopPoint ∧ StopOK fcp file (reloadCmd ng s) := by
  have h1 : StopOK fcp file (reloadParams (reloadPause s)) :=
    stopOK_of_fk (stopOK_reloadPause s h) (fk_reloadParams _ (stopOK_reloadPause s h))
  have e1 : (reloadParams (reloadPause s)).stopPoint = s.stopPoint := by
    have := fk0_reloadPause s
    unfold fk0 at this
    simp only [Prod.mk.injEq] at this
    unfold reloadParams
    exact this.1
  unfold reloadCmd
  simp only
  cases ng with
  | none =>
    simp only
    refine ⟨?_, stopOK_reloadResume _ _ h1⟩
    have := fk0_reloadResume s.paused (reloadParams (reloadPause s))
    unfold fk0 at this
    simp only [Prod.mk.injEq] at this
    rw [this.1, e1]
  | some g' =>
    simp only
    obtain ⟨a, b⟩ := reloadApply_stop g' _ h1 hfile (hg g' rfl)
    refine ⟨?_, stopOK_reloadResume _ _ b⟩
    have := fk0_reloadResume s.paused (reloadApply g' (reloadParams (reloadPause s)))
    unfold fk0 at this
    simp only [Prod.mk.injEq] at this
    rw [this.1, a, e1]

/-- **`cylc reload` preserves the stop task** (and its finished flag) - for every state, every definition. -/
theorem reloadCmd_stopTask (ng : Option Graph) (s : State) :
    (reloadCmd ng s).stopTask = s.stopTask ∧ (reloadCmd ng s).stopTaskFinished = s.stopTaskFinished := by
  have key : ∀ t : State, (t.stopTask, t.stopTaskFinished) = (s.stopTask, s.stopTaskFinished) →
      ((reloadResume s.paused t).stopTask, (reloadResume s.paused t).stopTaskFinished) =
        (s.stopTask, s.stopTaskFinished) := by
    intro t ht
    have := fk0_reloadResume s.paused t
    unfold fk0 at this
    simp only [Prod.mk.injEq] at this ht ⊢
    rw [this.2.2.2.1, this.2.2.2.2]; exact ht
  have h0 : ((reloadParams (reloadPause s)).stopTask, (reloadParams (reloadPause s)).stopTaskFinished) =
      (s.stopTask, s.stopTaskFinished) := by
    have := fk0_reloadPause s
    unfold fk0 at this
    simp only [Prod.mk.injEq] at this ⊢
    unfold reloadParams
    exact ⟨this.2.2.2.1, this.2.2.2.2⟩
  have goal : ((reloadCmd ng s).stopTask, (reloadCmd ng s).stopTaskFinished) = (s.stopTask, s.stopTaskFinished) := by
    unfold reloadCmd
    simp only
    apply key
    cases ng with
    | none => exact h0
    | some g' =>
      simp only
      rw [reloadApply_eq]
      simp only
      -- along the fold and the tail only pool, hold table, history and DB queue change
      have C : Closed (fun t : State => (t.stopTask, t.stopTaskFinished) = (s.stopTask, s.stopTaskFinished)) :=
        { key := fun {a b} h e => by
            have := fk0_of_fk e
            unfold fk0 at this
            simp only [Prod.mk.injEq] at this h ⊢
            rw [this.2.2.2.1, this.2.2.2.2]; exact h
          flush := fun a h => by
            have := fk0_flushDb a
            unfold fk0 at this
            simp only [Prod.mk.injEq] at this h ⊢
            rw [this.2.2.2.1, this.2.2.2.2]; exact h }
      exact q_reloadTail C g' _ _ (q_reloadFold C g' _ _ _ h0)
  simp only [Prod.mk.injEq] at goal
  exact goal

/-! ### Lifting over runs -/

theorem stopOK_restart {fcp : Int} {file : Option Int} (s : State) (h : StopOK fcp file s) :
    StopOK fcp file (restart s.g s) := by
  have hf := stopOK_flushDb s h
  have hg : (flushDb s).g = s.g := by
    have := fk0_flushDb s
    unfold fk0 at this
    simp only [Prod.mk.injEq] at this
    exact this.2.2.1
  obtain ⟨h1, h2, _, _, h5, _, _⟩ := hf
  rw [hg] at h1 h2
  unfold restart
  simp only
  have C := (closedLoop_stopOK fcp file).toClosed
  have base : ∀ t : State, t.g = s.g → t.optStopCp = (flushDb s).dbStopCp → t.dbStopCp = (flushDb s).dbStopCp →
      t.dbStopQ = none →
      t.stopPoint = some ((match (flushDb s).dbStopCp with | some p => some p | none => s.g.cfgStopFile).getD s.g.fcp) →
      StopOK fcp file t := by
    intro t tg to td tq tsp
    refine ⟨by rw [tg]; exact h1, by rw [tg]; exact h2, ?_, ?_, ?_, ?_, ?_⟩
    · rw [tsp, to, h1, h2]
    · intro p hp; rw [to] at hp; exact h5 p hp
    · intro p hp; rw [td] at hp; exact h5 p hp
    · intro p hp; rw [tq] at hp; cases hp
    · intro ho; rw [to] at ho; exact ⟨by rw [td]; exact ho, Or.inl tq⟩
  split
  · apply q_setHoldPoint C
    exact base _ rfl rfl rfl rfl rfl
  · exact base _ rfl rfl rfl rfl rfl

theorem stopOK_init {fcp : Int} {file : Option Int} (fl : Flags) (g : Graph)
    (hg : g.fcp = fcp ∧ g.cfgStopFile = file ∧ g.stopPoint = some (file.getD fcp)) : StopOK fcp file (init fl g) := by
  have C := (closedLoop_stopOK fcp file).toClosed
  unfold init loadFromPoint
  simp only
  apply foldl_inv (StopOK fcp file)
  · intro st x hst
    split
    · exact q_queueIfReady C _ _ hst
    · exact hst
  · apply q_releaseRunaheadN C
    apply q_computeRunahead C
    apply foldl_inv (StopOK fcp file)
    · intro st t hst
      split
      · exact q_spawnAndAdd C _ _ _ _ hst
      · exact hst
    · refine ⟨hg.1, hg.2.1, hg.2.2, ?_, ?_, ?_, ?_⟩
      · intro p hp; cases hp
      · intro p hp; cases hp
      · intro p hp; cases hp
      · intro _; exact ⟨rfl, Or.inl rfl⟩

/-- the ops of a run keep stop points within the final point and reload definitions with the same final point and
flow.cylc stop point (a reload cannot change the former; the generated definitions keep the latter) -/
def OpOK (fcp : Int) (file : Option Int) : Op → Prop
  | .stopPoint p => p ≤ fcp
  | .reload (some g') _ _ => g'.fcp = fcp ∧ g'.cfgStopFile = file
  | _ => True

theorem stopOK_mainLoop {fcp : Int} {file : Option Int} (s : State) (cmd : Option (Option Graph))
    (h : StopOK fcp file s) (hfile : ∀ p, file = some p → p ≤ fcp)
    (hc : ∀ g', cmd = some (some g') → g'.fcp = fcp ∧ g'.cfgStopFile = file) :
    StopOK fcp file (mainLoop s cmd) := by
  have L := closedLoop_stopOK fcp file
  unfold mainLoop
  split
  · exact h
  · simp only
    have h2 := q_workflowShutdown L s.g _ (q_releaseRunahead L.toClosed s.g _ (q_computeRunahead L.toClosed s.g s false h))
    split
    · exact L.key h2 rfl
    · unfold loopBody
      apply q_loopRest L
      unfold applyCmd
      split
      · rename_i ng
        have := (reloadCmd_stop ng _ h2 hfile (fun g' e => hc g' (by rw [e]))).2
        exact L.key this rfl
      · exact h2

theorem stopOK_step {fcp : Int} {file : Option Int} (s : State) (op : Op) (h : StopOK fcp file s)
    (hfile : ∀ p, file = some p → p ≤ fcp) (hop : OpOK fcp file op) : StopOK fcp file (step s op) := by
  have L := closedLoop_stopOK fcp file
  have C := L.toClosed
  unfold step
  have hc : StopOK fcp file (clearOp s) := L.key h rfl
  simp only
  cases op with
  | loop => exact stopOK_mainLoop _ _ hc hfile (fun g' e => by cases e)
  | subres p n ok sn => exact q_processMessage L _ 4 _ _ _ _ _ _ hc
  | msg p n sn text => exact L.key hc rfl
  | hold ids => exact q_holdTasks C _ _ hc
  | release ids => exact q_releaseTasks C _ _ hc
  | setHoldPoint p => exact q_setHoldPoint C _ _ hc
  | releaseHoldPoint => exact q_releaseHoldPoint C _ hc
  | stop mode => exact L.key hc rfl
  | stopPoint p => exact stopOK_setStopPoint _ _ hc hop
  | stopTask p n => exact hc
  | pause => exact L.key hc rfl
  | resume => exact L.key hc rfl
  | restart => exact stopOK_restart _ hc
  | reload ng inloop skipped =>
    have hg : ∀ g', ng = some g' → g'.fcp = fcp ∧ g'.cfgStopFile = file := by
      intro g' e; subst e; exact hop
    simp only
    split
    · exact hc
    · split
      · exact stopOK_mainLoop _ _ hc hfile (fun g' e => hg g' (by injection e))
      · exact (reloadCmd_stop ng _ hc hfile hg).2
  | rm p n order => exact q_removeTask C _ _ _ _ _ hc
  | setOut p n trig => exact q_setOut L _ _ _ _ _ hc

/-- the stop-point state is coherent in every state of every run whose start graph is well formed (its stop point
is the configured one or the final point) and whose ops are `OpOK` -/
theorem stopOK_run {fcp : Int} {file : Option Int} (fl : Flags) (g : Graph)
    (hg : g.fcp = fcp ∧ g.cfgStopFile = file ∧ g.stopPoint = some (file.getD fcp))
    (hfile : ∀ p, file = some p → p ≤ fcp) :
    ∀ (ops : List Op), (∀ op ∈ ops, OpOK fcp file op) → ∀ s ∈ run fl g ops, StopOK fcp file s := by
  intro ops hops
  unfold run
  have key : ∀ (ops : List Op) (acc : List State) (cur : State), (∀ op ∈ ops, OpOK fcp file op) →
      (∀ s ∈ acc, StopOK fcp file s) → StopOK fcp file cur →
      ∀ s ∈ (ops.foldl (fun (a : List State × State) op =>
          let s' := step a.2 op; (a.1 ++ [s'], s')) (acc, cur)).1, StopOK fcp file s := by
    intro ops
    induction ops with
    | nil => intro acc cur _ hacc _ s hm; exact hacc s hm
    | cons op ops ih =>
      intro acc cur hok hacc hcur
      simp only [List.foldl_cons]
      have hstep := stopOK_step cur op hcur hfile (hok op (List.mem_cons_self))
      apply ih
      · intro o ho; exact hok o (List.mem_cons_of_mem _ ho)
      · intro s hm
        rcases List.mem_append.mp hm with h | h
        · exact hacc s h
        · simp at h; subst h; exact hstep
      · exact hstep
  exact key ops [init fl g] (init fl g) hops
    (by intro s hm; simp at hm; subst hm; exact stopOK_init fl g hg) (stopOK_init fl g hg)

/-- `StopOK` together with a fixed value of the pool's stop point -/
theorem closedLoop_stopAt (fcp : Int) (file : Option Int) (c : Option Int) :
    ClosedLoop (fun t => StopOK fcp file t ∧ t.stopPoint = c) where
  key := fun h e => ⟨stopOK_of_fk h.1 e, by
    have := fk0_of_fk e
    unfold fk0 at this
    simp only [Prod.mk.injEq] at this
    rw [this.1]; exact h.2⟩
  flush := fun s h => ⟨stopOK_flushDb s h.1, by
    have := fk0_flushDb s
    unfold fk0 at this
    simp only [Prod.mk.injEq] at this
    rw [this.1]; exact h.2⟩
  fin := fun _ h => h
  std := fun _ h => h
  auto := fun _ _ h => h
  clr := fun s h => ⟨(closedLoop_stopOK fcp file).clr s h.1, h.2⟩

/-- **a main-loop iteration - with or without a queued reload - does not move the stop point** -/
theorem mainLoop_stop {fcp : Int} {file : Option Int} (s : State) (cmd : Option (Option Graph))
    (h : StopOK fcp file s) (hfile : ∀ p, file = some p → p ≤ fcp)
    (hc : ∀ g', cmd = some (some g') → g'.fcp = fcp ∧ g'.cfgStopFile = file) :
    (mainLoop s cmd).stopPoint = s.stopPoint := by
  have := q_mainLoop (closedLoop_stopAt fcp file s.stopPoint) s cmd ⟨h, rfl⟩ (by
    intro ng e t ht
    obtain ⟨a, b⟩ := reloadCmd_stop ng t ht.1 hfile (fun g' e' => hc g' (by rw [e, e']))
    exact ⟨b, a.trans ht.2⟩)
  exact this.2

end CylcModel.Sched3Reload
