/-
Helper lemmas for C33: the property monitor `Xtrig.Spec` accepts every run of the `Xtrig` model
(coupling invariant between the manager's state and the monitor's bookkeeping).
-/
import CylcModel.Xtrig
namespace CylcModel.Xtrig

/-! ### association lists -/

theorem mem_keys_satSet (m : List (Sig × Results)) (k : Sig) (v : Results) (x : Sig) :
    x ∈ keys (satSet m k v) ↔ x = k ∨ x ∈ keys m := by
  simp only [keys, satSet, List.map_cons, List.mem_cons, List.mem_map, List.mem_filter, bne_iff_ne]
  constructor
  · rintro (h | ⟨p, ⟨hp, _⟩, rfl⟩)
    · exact Or.inl h
    · exact Or.inr ⟨p, hp, rfl⟩
  · rintro (h | ⟨p, hp, rfl⟩)
    · exact Or.inl h
    · by_cases hk : p.1 = k
      · exact Or.inl hk
      · exact Or.inr ⟨p, ⟨hp, hk⟩, rfl⟩

theorem lookup_none_iff (m : List (Sig × Results)) (k : Sig) : m.lookup k = none ↔ k ∉ keys m := by
  induction m with
  | nil => simp [keys]
  | cons p m ih =>
    obtain ⟨a, b⟩ := p
    simp only [List.lookup, keys, List.map_cons, List.mem_cons, not_or] at ih ⊢
    by_cases h : k = a
    · subst h; simp
    · have : (k == a) = false := by simpa using h
      simp only [this, ih]
      constructor
      · intro h2; exact ⟨h, h2⟩
      · intro h2; exact h2.2

theorem lookup_some_mem (m : List (Sig × Results)) (k : Sig) (v : Results) (h : m.lookup k = some v) :
    k ∈ keys m := by
  by_cases hc : k ∈ keys m
  · exact hc
  · rw [(lookup_none_iff m k).2 hc] at h
    cases h

theorem mem_keys_filter (m : List (Sig × Results)) (f : Sig → Bool) (x : Sig) :
    x ∈ keys (m.filter fun p => f p.1) ↔ x ∈ keys m ∧ f x = true := by
  simp only [keys, List.mem_map, List.mem_filter]
  constructor
  · rintro ⟨p, ⟨hp, hf⟩, rfl⟩; exact ⟨⟨p, hp, rfl⟩, hf⟩
  · rintro ⟨⟨p, hp, rfl⟩, hf⟩; exact ⟨p, ⟨hp, hf⟩, rfl⟩

/-! ### flags -/

theorem setFlags_eq (xt ys : List (Label × Bool)) (h : ys.map (·.1) = xt.map (·.1)) :
    Spec.setFlags xt (ys.map (·.2)) = ys := by
  induction xt generalizing ys with
  | nil =>
    cases ys with
    | nil => rfl
    | cons y ys => simp at h
  | cons x xt ih =>
    cases ys with
    | nil => simp at h
    | cons y ys =>
      simp only [List.map_cons, List.cons.injEq] at h
      have := ih ys h.2
      simp only [Spec.setFlags, List.map_cons, List.zip_cons_cons] at this ⊢
      rw [this, ← h.1]

/-! ### one label of `call_xtriggers_async` -/

theorem callOne_spec (env : Env) (now : Int) (tid : Nat) (a : Acc) (l : Label) :
    (∀ x, x ∈ keys a.sat → x ∈ keys (callOne env now tid a l).1.sat) ∧
    (∀ x ∈ keys (callOne env now tid a l).1.sat,
        x ∈ keys a.sat ∨ (x = env.sigOf tid l ∧ (callOne env now tid a l).2 = true)) ∧
    ((callOne env now tid a l).2 = true → env.sigOf tid l ∈ keys (callOne env now tid a l).1.sat) ∧
    ((env.sigOf tid l ∈ keys a.sat ∨ ((env.cfg l).clock = true ∧ now > (env.cfg l).trig)) →
        (callOne env now tid a l).2 = true) ∧
    (((callOne env now tid a l).1.subs = a.subs ∧ (callOne env now tid a l).1.active = a.active ∧
        (callOne env now tid a l).1.tNext = a.tNext) ∨
     ((callOne env now tid a l).2 = false ∧ (callOne env now tid a l).1.sat = a.sat ∧
        (callOne env now tid a l).1.subs = a.subs ++ [(l, env.sigOf tid l)] ∧
        (callOne env now tid a l).1.active = a.active ++ [env.sigOf tid l] ∧
        (callOne env now tid a l).1.tNext =
          (fun k => if k = env.sigOf tid l then some (now + (env.cfg l).intvl) else a.tNext k) ∧
        (env.cfg l).clock = false ∧
        env.sigOf tid l ∉ keys a.sat ∧ env.sigOf tid l ∉ a.active ∧
        (∀ t, a.tNext (env.sigOf tid l) = some t → t ≤ now))) := by
  by_cases hc : (env.cfg l).clock = true
  · by_cases hs : (keys a.sat).contains (env.sigOf tid l) = true
    · have hs' : env.sigOf tid l ∈ keys a.sat := by simpa using hs
      have e : callOne env now tid a l = (a, true) := by simp [callOne, hc, hs']
      rw [e]
      exact ⟨fun x h => h, fun x h => Or.inl h, fun _ => hs', fun _ => rfl, Or.inl ⟨rfl, rfl, rfl⟩⟩
    · have hs' : env.sigOf tid l ∉ keys a.sat := by simpa using hs
      by_cases ht : now > (env.cfg l).trig
      · have e : callOne env now tid a l =
            ({ a with sat := satSet a.sat (env.sigOf tid l) [], db := a.db ++ [env.sigOf tid l], hk := true }, true) := by
          simp [callOne, hc, hs', ht]
        rw [e]
        refine ⟨?_, ?_, ?_, fun _ => rfl, Or.inl ⟨rfl, rfl, rfl⟩⟩
        · intro x h; exact (mem_keys_satSet _ _ _ _).2 (Or.inr h)
        · intro x h
          rcases (mem_keys_satSet _ _ _ _).1 h with h | h
          · exact Or.inr ⟨h, rfl⟩
          · exact Or.inl h
        · intro _; exact (mem_keys_satSet _ _ _ _).2 (Or.inl rfl)
      · have e : callOne env now tid a l = (a, false) := by simp [callOne, hc, hs', ht]
        rw [e]
        refine ⟨fun x h => h, fun x h => Or.inl h, (fun h => by simp at h), ?_, Or.inl ⟨rfl, rfl, rfl⟩⟩
        rintro (h | h)
        · exact absurd h hs'
        · exact absurd h.2 ht
  · have hc' : (env.cfg l).clock = false := by simpa using hc
    have hflag : (env.sigOf tid l ∈ keys a.sat ∨ ((env.cfg l).clock = true ∧ now > (env.cfg l).trig)) →
        env.sigOf tid l ∈ keys a.sat := by
      rintro (h | h)
      · exact h
      · rw [hc'] at h; cases h.1
    cases hl : a.sat.lookup (env.sigOf tid l) with
    | some res =>
      have hs' := lookup_some_mem _ _ _ hl
      have e : callOne env now tid a l =
          ({ a with bcs := a.bcs ++ res.map fun kv => (l ++ "_" ++ kv.1, kv.2) }, true) := by
        simp [callOne, hc', hl]
      rw [e]
      exact ⟨fun x h => h, fun x h => Or.inl h, fun _ => hs', fun _ => rfl, Or.inl ⟨rfl, rfl, rfl⟩⟩
    | none =>
      have hs' := (lookup_none_iff _ _).1 hl
      by_cases ha : a.active.contains (env.sigOf tid l) = true
      · have e : callOne env now tid a l = (a, false) := by
          unfold callOne
          simp only [hc', hl, Bool.false_eq_true, if_false]
          rw [if_pos ha]
        rw [e]
        exact ⟨fun x h => h, fun x h => Or.inl h, (fun h => by simp at h), fun h => absurd (hflag h) hs',
          Or.inl ⟨rfl, rfl, rfl⟩⟩
      · have ha' : env.sigOf tid l ∉ a.active := by simpa using ha
        by_cases hn : tooSoon (a.tNext (env.sigOf tid l)) now = true
        · have e : callOne env now tid a l = (a, false) := by
            unfold callOne
            simp only [hc', hl, Bool.false_eq_true, if_false]
            rw [if_neg ha, if_pos hn]
          rw [e]
          exact ⟨fun x h => h, fun x h => Or.inl h, (fun h => by simp at h), fun h => absurd (hflag h) hs',
            Or.inl ⟨rfl, rfl, rfl⟩⟩
        · have e : callOne env now tid a l =
              ({ a with tNext := fun k => if k = env.sigOf tid l then some (now + (env.cfg l).intvl) else a.tNext k,
                        active := a.active ++ [env.sigOf tid l], subs := a.subs ++ [(l, env.sigOf tid l)] }, false) := by
            unfold callOne
            simp only [hc', hl, Bool.false_eq_true, if_false]
            rw [if_neg ha, if_neg hn]
          rw [e]
          refine ⟨fun x h => h, fun x h => Or.inl h, (fun h => by simp at h), fun h => absurd (hflag h) hs',
            Or.inr ⟨rfl, rfl, rfl, rfl, rfl, hc', hs', ha', ?_⟩⟩
          intro t ht
          rw [ht] at hn
          simp only [tooSoon, decide_eq_true_eq] at hn
          omega

/-! ### coupling of the manager with the monitor while a call is being processed -/

open Spec in
structure MC (nf : Bool) (now : Int) (a : Acc) (m : Spec.Mon) : Prop where
  now_eq : m.now = now
  infl : ∀ x, x ∈ m.inflight ↔ x ∈ a.active
  nd_act : a.active.Nodup
  nd_infl : m.inflight.Nodup
  succ_sat : ∀ x ∈ m.succ, x ∈ keys a.sat
  last_next : ∀ sig p, m.last sig = some p → p.succeeded = false → a.tNext sig = some (p.time + p.intvl)
  nf_sat : nf = true → ∀ sig p, m.last sig = some p → p.succeeded = true → sig ∈ keys a.sat

/-- what a run of `onSubs` may change in the monitor -/
structure SubsDelta (sat0 : List (Sig × Results)) (m m1 : Spec.Mon) : Prop where
  succ_eq : m1.succ = m.succ
  pool_eq : m1.pool = m.pool
  now_eq : m1.now = m.now
  last_false : ∀ sig p, m1.last sig = some p → p.succeeded = false → m.last sig = some p ∨ sig ∉ keys sat0
  last_true : ∀ sig p, m1.last sig = some p → p.succeeded = true → m.last sig = some p

def IsForget : Except Spec.Fail Spec.Mon → Prop
  | .error (.intervalAfterForget _ _ _ _ _) => True
  | _ => False

theorem onSub_coupled (env : Env) (k : Nat) (nf : Bool) (now : Int) (a a' : Acc) (m : Spec.Mon)
    (l : Label) (sig : Sig) (h : MC nf now a m)
    (hsat : a'.sat = a.sat) (hact : a'.active = a.active ++ [sig])
    (hnext : a'.tNext = fun k => if k = sig then some (now + (env.cfg l).intvl) else a.tNext k)
    (h1 : sig ∉ keys a.sat) (h2 : sig ∉ a.active) (h3 : ∀ t, a.tNext sig = some t → t ≤ now) :
    (∃ m1, Spec.onSub env k m (l, sig) = .ok m1 ∧ MC nf now a' m1 ∧ SubsDelta a.sat m m1) ∨
    (nf = false ∧ IsForget (Spec.onSub env k m (l, sig))) := by
  have hi : m.inflight.contains sig = false := by
    have : sig ∉ m.inflight := fun hh => h2 ((h.infl sig).1 hh)
    simpa using this
  have hs : m.succ.contains sig = false := by
    have : sig ∉ m.succ := fun hh => h1 (h.succ_sat sig hh)
    simpa using this
  have hok : Spec.violates m.now (m.last sig) = none →
      ∃ m1, Spec.onSub env k m (l, sig) = .ok m1 ∧ MC nf now a' m1 ∧ SubsDelta a.sat m m1 := by
    intro hv
    refine ⟨{ m with inflight := sig :: m.inflight,
                     last := fun s => if s = sig then some ⟨m.now, Spec.intvlOf env l, false⟩ else m.last s }, ?_, ?_, ?_⟩
    · simp only [Spec.onSub, hi, hs, hv, Bool.false_eq_true, if_false]
    · refine ⟨h.now_eq, ?_, ?_, ?_, ?_, ?_, ?_⟩
      · intro x
        simp only [hact, List.mem_cons, List.mem_append, List.not_mem_nil, or_false]
        rw [h.infl x]
        constructor
        · rintro (hx | hx)
          · exact Or.inr hx
          · exact Or.inl hx
        · rintro (hx | hx)
          · exact Or.inr hx
          · exact Or.inl hx
      · rw [hact]
        exact List.nodup_append.2 ⟨h.nd_act, by simp, by
          intro x hx y hy; simp only [List.mem_singleton] at hy; subst hy; intro hxy; subst hxy; exact h2 hx⟩
      · exact List.nodup_cons.2 ⟨fun hh => h2 ((h.infl sig).1 hh), h.nd_infl⟩
      · intro x hx; rw [hsat]; exact h.succ_sat x hx
      · intro s p hp hf
        rw [hnext]
        by_cases hss : s = sig
        · subst hss
          simp only [if_true] at hp ⊢
          cases hp
          simp only [Spec.intvlOf, h.now_eq]
        · simp only [hss, if_false] at hp ⊢
          exact h.last_next s p hp hf
      · intro hnf s p hp ht
        rw [hsat]
        by_cases hss : s = sig
        · subst hss
          simp only [if_true] at hp
          cases hp
          cases ht
        · simp only [hss, if_false] at hp
          exact h.nf_sat hnf s p hp ht
    · refine ⟨rfl, rfl, rfl, ?_, ?_⟩
      · intro s p hp hf
        by_cases hss : s = sig
        · subst hss; exact Or.inr h1
        · simp only [hss, if_false] at hp
          exact Or.inl hp
      · intro s p hp ht
        by_cases hss : s = sig
        · subst hss
          simp only [if_true] at hp
          cases hp
          cases ht
        · simp only [hss, if_false] at hp
          exact hp
  cases hl : m.last sig with
  | none => exact Or.inl (hok (by rw [hl]; rfl))
  | some p =>
    by_cases hlt : m.now < p.time + p.intvl
    · have hv : Spec.violates m.now (m.last sig) = some p := by rw [hl]; simp [Spec.violates, hlt]
      cases hp : p.succeeded with
      | false =>
        have := h3 _ (h.last_next sig p hl hp)
        rw [h.now_eq] at hlt
        omega
      | true =>
        cases hnf : nf with
        | true => exact absurd (h.nf_sat hnf sig p hl hp) h1
        | false =>
          right
          refine ⟨rfl, ?_⟩
          simp only [Spec.onSub, hi, hs, hv, hp, Bool.false_eq_true, if_false, if_true, IsForget]
    · exact Or.inl (hok (by rw [hl]; simp [Spec.violates, hlt]))

/-! ### the loop of `call_xtriggers_async`: model-only facts -/

theorem callLoop_model (env : Env) (now : Int) (tid : Nat) : ∀ (xt : List (Label × Bool)) (a : Acc),
    (callLoop env now tid a xt).2.map (·.1) = xt.map (·.1) ∧
    (∀ x, x ∈ keys a.sat → x ∈ keys (callLoop env now tid a xt).1.sat) ∧
    (∀ x ∈ keys (callLoop env now tid a xt).1.sat, x ∈ keys a.sat ∨
        ∃ l ∈ Spec.newlyTrue xt ((callLoop env now tid a xt).2.map (·.2)), x = env.sigOf tid l) ∧
    (∀ l ∈ Spec.newlyTrue xt ((callLoop env now tid a xt).2.map (·.2)),
        env.sigOf tid l ∈ keys (callLoop env now tid a xt).1.sat) ∧
    (∀ m : Spec.Mon, m.now = now → (∀ x ∈ m.succ, x ∈ keys a.sat) →
        Spec.unsatisfiedDue env m tid xt ((callLoop env now tid a xt).2.map (·.2)) = none) := by
  intro xt
  induction xt with
  | nil =>
    intro a
    simp [callLoop, Spec.newlyTrue, Spec.unsatisfiedDue]
  | cons p rest ih =>
    intro a
    obtain ⟨l, b⟩ := p
    cases b with
    | true =>
      obtain ⟨i0, i1, i2, i3, i4⟩ := ih a
      simp only [callLoop, List.map_cons, Spec.newlyTrue, Spec.unsatisfiedDue, Bool.not_true, Bool.false_and,
        Bool.false_eq_true, if_false]
      exact ⟨by rw [i0], i1, i2, i3, i4⟩
    | false =>
      obtain ⟨c1, c2, c3, c4, _⟩ := callOne_spec env now tid a l
      obtain ⟨i0, i1, i2, i3, i4⟩ := ih (callOne env now tid a l).1
      simp only [callLoop, List.map_cons, Spec.newlyTrue, Spec.unsatisfiedDue, Bool.not_false, Bool.true_and]
      refine ⟨by rw [i0], fun x hx => i1 x (c1 x hx), ?_, ?_, ?_⟩
      · intro x hx
        rcases i2 x hx with h | ⟨l', hl', rfl⟩
        · rcases c2 x h with h | ⟨rfl, hb⟩
          · exact Or.inl h
          · right
            refine ⟨l, ?_, rfl⟩
            simp [hb]
        · right
          refine ⟨l', ?_, rfl⟩
          split
          · exact List.mem_cons_of_mem _ hl'
          · exact hl'
      · intro l' hl'
        split at hl'
        · rename_i hb
          rcases List.mem_cons.1 hl' with rfl | h
          · exact i1 _ (c3 hb)
          · exact i3 l' h
        · exact i3 l' hl'
      · intro m hnow hsucc
        have hrec := i4 m hnow (fun x hx => c1 x (hsucc x hx))
        cases hb : (callOne env now tid a l).2 with
        | true => simpa using hrec
        | false =>
          have hms : Spec.mustSatisfy env m tid l = false := by
            cases hm : Spec.mustSatisfy env m tid l with
            | false => rfl
            | true =>
              exfalso
              simp only [Spec.mustSatisfy, Bool.or_eq_true, List.contains_eq_mem, decide_eq_true_eq,
                Bool.and_eq_true] at hm
              have : (callOne env now tid a l).2 = true := by
                apply c4
                rcases hm with hm | hm
                · exact Or.inl (hsucc _ hm)
                · rw [hnow] at hm; exact Or.inr hm
              rw [hb] at this
              cases this
          simpa [hms] using hrec

/-! ### the loop of `call_xtriggers_async`: the monitor follows the submissions -/

theorem onSubs_nil (env : Env) (k : Nat) (m : Spec.Mon) : Spec.onSubs env k m [] = .ok m := rfl

theorem onSubs_cons_ok (env : Env) (k : Nat) (m m1 : Spec.Mon) (x : Label × Sig) (xs : List (Label × Sig))
    (h : Spec.onSub env k m x = .ok m1) : Spec.onSubs env k m (x :: xs) = Spec.onSubs env k m1 xs := by
  simp only [Spec.onSubs, h, bind, Except.bind]

theorem onSubs_cons_forget (env : Env) (k : Nat) (m : Spec.Mon) (x : Label × Sig) (xs : List (Label × Sig))
    (h : IsForget (Spec.onSub env k m x)) : IsForget (Spec.onSubs env k m (x :: xs)) := by
  cases hx : Spec.onSub env k m x with
  | ok m1 => rw [hx] at h; exact h.elim
  | error e =>
    rw [hx] at h
    simp only [Spec.onSubs, hx, bind, Except.bind]
    exact h

theorem SubsDelta.refl (sat0 : List (Sig × Results)) (m : Spec.Mon) : SubsDelta sat0 m m :=
  ⟨rfl, rfl, rfl, fun _ _ h _ => Or.inl h, fun _ _ h _ => h⟩

theorem SubsDelta.trans {sat0 : List (Sig × Results)} {m m1 m2 : Spec.Mon}
    (h1 : SubsDelta sat0 m m1) (h2 : SubsDelta sat0 m1 m2) : SubsDelta sat0 m m2 := by
  refine ⟨h2.succ_eq.trans h1.succ_eq, h2.pool_eq.trans h1.pool_eq, h2.now_eq.trans h1.now_eq, ?_, ?_⟩
  · intro s p hp hf
    rcases h2.last_false s p hp hf with h | h
    · exact h1.last_false s p h hf
    · exact Or.inr h
  · intro s p hp ht
    exact h1.last_true s p (h2.last_true s p hp ht) ht

theorem SubsDelta.weaken {sat0 sat1 : List (Sig × Results)} {m m1 : Spec.Mon}
    (hsub : ∀ x, x ∈ keys sat0 → x ∈ keys sat1) (h : SubsDelta sat1 m m1) : SubsDelta sat0 m m1 := by
  refine ⟨h.succ_eq, h.pool_eq, h.now_eq, ?_, h.last_true⟩
  intro s p hp hf
  rcases h.last_false s p hp hf with h' | h'
  · exact Or.inl h'
  · exact Or.inr fun hh => h' (hsub s hh)

theorem callLoop_subs_exists (env : Env) (now : Int) (tid : Nat) : ∀ (xt : List (Label × Bool)) (a : Acc),
    ∃ news, (callLoop env now tid a xt).1.subs = a.subs ++ news := by
  intro xt
  induction xt with
  | nil => intro a; exact ⟨[], by simp [callLoop]⟩
  | cons p rest ih =>
    intro a
    obtain ⟨l, b⟩ := p
    cases b with
    | true => simpa [callLoop] using ih a
    | false =>
      obtain ⟨_, _, _, _, c5⟩ := callOne_spec env now tid a l
      obtain ⟨news, hn⟩ := ih (callOne env now tid a l).1
      simp only [callLoop]
      rcases c5 with ⟨e1, _, _⟩ | ⟨_, _, e2, _⟩
      · exact ⟨news, by rw [hn, e1]⟩
      · exact ⟨(l, env.sigOf tid l) :: news, by rw [hn, e2]; simp⟩

theorem callLoop_subs (env : Env) (k : Nat) (nf : Bool) (now : Int) (tid : Nat) :
    ∀ (xt : List (Label × Bool)) (a : Acc) (m : Spec.Mon), MC nf now a m →
    ∃ news, (callLoop env now tid a xt).1.subs = a.subs ++ news ∧
      ((∃ m1, Spec.onSubs env k m news = .ok m1 ∧ MC nf now (callLoop env now tid a xt).1 m1 ∧
          SubsDelta a.sat m m1) ∨
       (nf = false ∧ IsForget (Spec.onSubs env k m news))) := by
  intro xt
  induction xt with
  | nil =>
    intro a m h
    exact ⟨[], by simp [callLoop], Or.inl ⟨m, rfl, h, SubsDelta.refl _ _⟩⟩
  | cons p rest ih =>
    intro a m h
    obtain ⟨l, b⟩ := p
    cases b with
    | true => simpa [callLoop] using ih a m h
    | false =>
      obtain ⟨c1, _, _, _, c5⟩ := callOne_spec env now tid a l
      simp only [callLoop]
      rcases c5 with ⟨e1, e2, e3⟩ | ⟨_, e1, e2, e3, e4, _, n1, n2, n3⟩
      · -- no submission for this label
        have h' : MC nf now (callOne env now tid a l).1 m := by
          refine ⟨h.now_eq, ?_, ?_, h.nd_infl, ?_, ?_, ?_⟩
          · intro x; rw [e2]; exact h.infl x
          · rw [e2]; exact h.nd_act
          · intro x hx; exact c1 x (h.succ_sat x hx)
          · intro s p hp hf; rw [e3]; exact h.last_next s p hp hf
          · intro hnf s p hp ht; exact c1 s (h.nf_sat hnf s p hp ht)
        obtain ⟨news, hn, hr⟩ := ih (callOne env now tid a l).1 m h'
        refine ⟨news, by rw [hn, e1], ?_⟩
        rcases hr with ⟨m1, ho, hmc, hd⟩ | hr
        · exact Or.inl ⟨m1, ho, hmc, SubsDelta.weaken c1 hd⟩
        · exact Or.inr hr
      · -- this label is submitted
        rcases onSub_coupled env k nf now a (callOne env now tid a l).1 m l (env.sigOf tid l) h e1 e3 e4 n1 n2 n3 with
          ⟨m1, ho, hmc, hd⟩ | ⟨hnf, hf⟩
        · obtain ⟨news, hn, hr⟩ := ih (callOne env now tid a l).1 m1 hmc
          refine ⟨(l, env.sigOf tid l) :: news, by rw [hn, e2]; simp, ?_⟩
          rw [onSubs_cons_ok env k m m1 _ _ ho]
          rcases hr with ⟨m2, ho2, hmc2, hd2⟩ | hr
          · refine Or.inl ⟨m2, ho2, hmc2, SubsDelta.trans hd ?_⟩
            rw [e1] at hd2
            exact hd2
          · exact Or.inr hr
        · obtain ⟨news, hn⟩ := callLoop_subs_exists env now tid rest (callOne env now tid a l).1
          exact ⟨(l, env.sigOf tid l) :: news, by rw [hn, e2]; simp, Or.inr ⟨hnf, onSubs_cons_forget env k m _ _ hf⟩⟩

/-! ### marking a signature as succeeded -/

theorem mark_succ_mem (m : Spec.Mon) (sig x : Sig) :
    x ∈ (Spec.markSucceeded m sig).succ ↔ x = sig ∨ x ∈ m.succ := by
  simp only [Spec.markSucceeded]
  by_cases h : m.succ.contains sig = true
  · simp only [h, if_true]
    constructor
    · exact Or.inr
    · rintro (rfl | h')
      · simpa using h
      · exact h'
  · simp only [h, Bool.false_eq_true, if_false, List.mem_cons]

theorem mark_last_false (m : Spec.Mon) (sig s : Sig) (p : Spec.Last)
    (h : (Spec.markSucceeded m sig).last s = some p) (hf : p.succeeded = false) :
    m.last s = some p ∧ s ≠ sig := by
  simp only [Spec.markSucceeded] at h
  by_cases hs : s = sig
  · subst hs
    simp only [if_true] at h
    cases hl : m.last s with
    | none => rw [hl] at h; cases h
    | some p0 =>
      rw [hl] at h
      simp only [Option.map_some, Option.some.injEq] at h
      rw [← h] at hf
      cases hf
  · simp only [hs, if_false] at h
    exact ⟨h, hs⟩

theorem mark_last_true (m : Spec.Mon) (sig s : Sig) (p : Spec.Last)
    (h : (Spec.markSucceeded m sig).last s = some p) (_ht : p.succeeded = true) :
    m.last s = some p ∨ s = sig := by
  simp only [Spec.markSucceeded] at h
  by_cases hs : s = sig
  · exact Or.inr hs
  · simp only [hs, if_false] at h
    exact Or.inl h

/-- marking the signatures of a list of labels -/
def markAll (env : Env) (id : Nat) (m : Spec.Mon) (ls : List Label) : Spec.Mon :=
  ls.foldl (fun mm l => Spec.markSucceeded mm (env.sigOf id l)) m

theorem markAll_fixed (env : Env) (id : Nat) : ∀ (ls : List Label) (m : Spec.Mon),
    (markAll env id m ls).now = m.now ∧ (markAll env id m ls).inflight = m.inflight ∧
    (markAll env id m ls).pool = m.pool := by
  intro ls
  induction ls with
  | nil => intro m; exact ⟨rfl, rfl, rfl⟩
  | cons l ls ih =>
    intro m
    simp only [markAll, List.foldl_cons]
    exact ih (Spec.markSucceeded m (env.sigOf id l))

theorem markAll_succ_mem (env : Env) (id : Nat) : ∀ (ls : List Label) (m : Spec.Mon) (x : Sig),
    x ∈ (markAll env id m ls).succ ↔ x ∈ m.succ ∨ ∃ l ∈ ls, x = env.sigOf id l := by
  intro ls
  induction ls with
  | nil => intro m x; simp [markAll]
  | cons l ls ih =>
    intro m x
    simp only [markAll, List.foldl_cons]
    have := ih (Spec.markSucceeded m (env.sigOf id l)) x
    simp only [markAll] at this
    rw [this, mark_succ_mem]
    simp only [List.mem_cons, exists_eq_or_imp]
    constructor
    · rintro ((h | h) | h)
      · exact Or.inr (Or.inl h)
      · exact Or.inl h
      · exact Or.inr (Or.inr h)
    · rintro (h | h | h)
      · exact Or.inl (Or.inr h)
      · exact Or.inl (Or.inl h)
      · exact Or.inr h

theorem markAll_last_false (env : Env) (id : Nat) : ∀ (ls : List Label) (m : Spec.Mon) (s : Sig) (p : Spec.Last),
    (markAll env id m ls).last s = some p → p.succeeded = false →
    m.last s = some p ∧ ∀ l ∈ ls, s ≠ env.sigOf id l := by
  intro ls
  induction ls with
  | nil => intro m s p h _; exact ⟨h, by simp⟩
  | cons l ls ih =>
    intro m s p h hf
    simp only [markAll, List.foldl_cons] at h
    obtain ⟨h1, h2⟩ := ih (Spec.markSucceeded m (env.sigOf id l)) s p h hf
    obtain ⟨h3, h4⟩ := mark_last_false m _ s p h1 hf
    refine ⟨h3, ?_⟩
    intro l' hl'
    rcases List.mem_cons.1 hl' with rfl | hl'
    · exact h4
    · exact h2 l' hl'

theorem markAll_last_true (env : Env) (id : Nat) : ∀ (ls : List Label) (m : Spec.Mon) (s : Sig) (p : Spec.Last),
    (markAll env id m ls).last s = some p → p.succeeded = true →
    m.last s = some p ∨ ∃ l ∈ ls, s = env.sigOf id l := by
  intro ls
  induction ls with
  | nil => intro m s p h _; exact Or.inl h
  | cons l ls ih =>
    intro m s p h ht
    simp only [markAll, List.foldl_cons] at h
    rcases ih (Spec.markSucceeded m (env.sigOf id l)) s p h ht with h1 | ⟨l', hl', rfl⟩
    · rcases mark_last_true m _ s p h1 ht with h2 | h2
      · exact Or.inl h2
      · exact Or.inr ⟨l, by simp, h2⟩
    · exact Or.inr ⟨l', List.mem_cons_of_mem _ hl', rfl⟩

/-! ### the coupling invariant between the manager and the monitor -/

def accOf (s : State) : Acc := ⟨s.tNext, s.sat, s.active, s.hk, [], [], []⟩

theorem MC.congr {nf : Bool} {now : Int} {a a' : Acc} {m : Spec.Mon} (h : MC nf now a m)
    (h1 : a'.tNext = a.tNext) (h2 : a'.sat = a.sat) (h3 : a'.active = a.active) : MC nf now a' m :=
  ⟨h.now_eq, by intro x; rw [h3]; exact h.infl x, by rw [h3]; exact h.nd_act, h.nd_infl,
   by intro x hx; rw [h2]; exact h.succ_sat x hx, by intro s p hp hf; rw [h1]; exact h.last_next s p hp hf,
   by intro hnf s p hp ht; rw [h2]; exact h.nf_sat hnf s p hp ht⟩

structure Coupled (env : Env) (nf : Bool) (s : State) (m : Spec.Mon) : Prop where
  mc : MC nf s.now (accOf s) m
  pool_eq : m.pool = s.pool
  last_sat : ∀ sig p, m.last sig = some p → p.succeeded = false → sig ∉ keys s.sat
  succ_needed : ∀ x ∈ m.succ, x ∈ needed env m.pool

/-- everything but `succ_needed`: what must be shown before the final `prune` -/
structure CoupledPre (nf : Bool) (s : State) (m : Spec.Mon) : Prop where
  mc : MC nf s.now (accOf s) m
  pool_eq : m.pool = s.pool
  last_sat : ∀ sig p, m.last sig = some p → p.succeeded = false → sig ∉ keys s.sat

theorem prune_coupled (env : Env) (nf : Bool) (s : State) (m : Spec.Mon) (h : CoupledPre nf s m) :
    Coupled env nf s (Spec.prune env m) := by
  have hsub : ∀ x ∈ (Spec.prune env m).succ, x ∈ m.succ ∧ x ∈ needed env m.pool := by
    intro x hx
    simp only [Spec.prune, List.mem_filter, List.contains_eq_mem, decide_eq_true_eq] at hx
    exact hx
  refine ⟨⟨h.mc.now_eq, h.mc.infl, h.mc.nd_act, h.mc.nd_infl, ?_, h.mc.last_next, h.mc.nf_sat⟩, h.pool_eq,
    h.last_sat, ?_⟩
  · intro x hx; exact h.mc.succ_sat x (hsub x hx).1
  · intro x hx; exact (hsub x hx).2

theorem Coupled.pre {env : Env} {nf : Bool} {s : State} {m : Spec.Mon} (h : Coupled env nf s m) :
    CoupledPre nf s m := ⟨h.mc, h.pool_eq, h.last_sat⟩

theorem coupled_init (env : Env) (nf : Bool) : Coupled env nf init {} := by
  refine ⟨⟨rfl, by simp [accOf, init], by simp [accOf, init], by simp, by simp, by simp, by simp⟩, rfl, by simp, by simp⟩

/-! ### one operation -/

def isHousekeep : Op → Bool
  | .housekeep _ => true
  | _ => false

/-- the verdict of one monitor step on the model's own output: accepted with the coupling kept, or
(only when forgetting is allowed) the recorded finding -/
def StepOk (env : Env) (k : Nat) (nf : Bool) (s : State) (m : Spec.Mon) (op : Op) : Prop :=
  (∃ m', Spec.onOp env k m op (step env s op).2 = .ok m' ∧ Coupled env nf (step env s op).1 m') ∨
  (nf = false ∧ IsForget (Spec.onOp env k m op (step env s op).2))

theorem step_advance (env : Env) (k : Nat) (nf : Bool) (s : State) (m : Spec.Mon) (dt : Nat)
    (h : Coupled env nf s m) : StepOk env k nf s m (.advance dt) := by
  refine Or.inl ⟨{ m with now := m.now + dt }, rfl, ?_⟩
  refine ⟨⟨?_, h.mc.infl, h.mc.nd_act, h.mc.nd_infl, h.mc.succ_sat, h.mc.last_next, h.mc.nf_sat⟩,
    h.pool_eq, h.last_sat, h.succ_needed⟩
  show m.now + dt = s.now + dt
  rw [h.mc.now_eq]

theorem setFlags_fresh (labels : List Label) :
    Spec.setFlags (labels.map fun l => (l, false)) (((labels.map fun l => (l, false))).map (·.2))
      = labels.map fun l => (l, false) :=
  setFlags_eq _ _ rfl

theorem step_spawn (env : Env) (k : Nat) (nf : Bool) (s : State) (m : Spec.Mon) (id : Nat) (labels : List Label)
    (h : Coupled env nf s m) : StepOk env k nf s m (.spawn id labels) := by
  left
  cases hf : findTask s.pool id with
  | some t =>
    refine ⟨m, ?_, ?_⟩
    · simp only [Spec.onOp, h.pool_eq, hf]
    · simp only [step, hf]; exact h
  | none =>
    refine ⟨Spec.prune env { m with pool := m.pool ++ [⟨id, labels.map fun l => (l, false)⟩] }, ?_, ?_⟩
    · simp only [Spec.onOp, h.pool_eq, hf, step, List.length_map, bne_self_eq_false, Bool.false_eq_true, if_false,
        setFlags_fresh]
    · simp only [step, hf]
      apply prune_coupled
      exact ⟨⟨h.mc.now_eq, h.mc.infl, h.mc.nd_act, h.mc.nd_infl, h.mc.succ_sat, h.mc.last_next, h.mc.nf_sat⟩,
        by show m.pool ++ _ = s.pool ++ _; rw [h.pool_eq], h.last_sat⟩

theorem step_remove (env : Env) (k : Nat) (nf : Bool) (s : State) (m : Spec.Mon) (id : Nat)
    (h : Coupled env nf s m) : StepOk env k nf s m (.remove id) := by
  refine Or.inl ⟨Spec.prune env { m with pool := m.pool.filter (·.id != id) }, rfl, ?_⟩
  simp only [step]
  apply prune_coupled
  exact ⟨⟨h.mc.now_eq, h.mc.infl, h.mc.nd_act, h.mc.nd_infl, h.mc.succ_sat, h.mc.last_next, h.mc.nf_sat⟩,
    by show m.pool.filter _ = s.pool.filter _; rw [h.pool_eq], h.last_sat⟩

theorem step_force (env : Env) (k : Nat) (nf : Bool) (s : State) (m : Spec.Mon) (id : Nat) (label : Label) (val : Bool)
    (h : Coupled env nf s m) : StepOk env k nf s m (.force id label val) := by
  left
  cases hf : findTask s.pool id with
  | none =>
    refine ⟨m, ?_, ?_⟩
    · simp only [Spec.onOp, h.pool_eq, hf]
    · simp only [step, hf]; exact h
  | some t =>
    have hfl : Spec.setFlags t.xt ((t.xt.map fun p => if p.1 == label then (p.1, val) else p).map (·.2))
        = t.xt.map fun p => if p.1 == label then (p.1, val) else p := by
      apply setFlags_eq
      rw [List.map_map]
      apply List.map_congr_left
      intro p _
      simp only [Function.comp]
      split <;> rfl
    refine ⟨Spec.prune env { m with pool := setTask m.pool (Task.mk id (t.xt.map fun p => if p.1 == label then (p.1, val) else p)) }, ?_, ?_⟩
    · simp only [Spec.onOp, h.pool_eq, hf, step, List.length_map, bne_self_eq_false, Bool.false_eq_true, if_false, hfl]
    · simp only [step, hf]
      apply prune_coupled
      exact ⟨⟨h.mc.now_eq, h.mc.infl, h.mc.nd_act, h.mc.nd_infl, h.mc.succ_sat, h.mc.last_next, h.mc.nf_sat⟩,
        by show setTask m.pool _ = setTask s.pool _; rw [h.pool_eq], h.last_sat⟩

theorem step_housekeep (env : Env) (k : Nat) (nf : Bool) (s : State) (m : Spec.Mon) (force : Bool)
    (h : Coupled env nf s m) (hnf : nf = false) : StepOk env k nf s m (.housekeep force) := by
  refine Or.inl ⟨m, rfl, ?_⟩
  simp only [step]
  split
  · refine ⟨⟨h.mc.now_eq, h.mc.infl, h.mc.nd_act, h.mc.nd_infl, ?_, ?_, ?_⟩, h.pool_eq, ?_, h.succ_needed⟩
    · intro x hx
      show x ∈ keys (s.sat.filter fun p => (needed env s.pool).contains p.1)
      rw [mem_keys_filter s.sat (fun k => (needed env s.pool).contains k) x]
      refine ⟨h.mc.succ_sat x hx, ?_⟩
      have := h.succ_needed x hx
      rw [h.pool_eq] at this
      simpa using this
    · intro sg p hp hf
      have hns : sg ∉ keys s.sat := h.last_sat sg p hp hf
      have hc : (keys s.sat).contains sg = false := by simpa using hns
      show (if (keys s.sat).contains sg && !(needed env s.pool).contains sg then none else s.tNext sg) = _
      simp only [hc, Bool.false_and, Bool.false_eq_true, if_false]
      exact h.mc.last_next sg p hp hf
    · intro hh; rw [hnf] at hh; cases hh
    · intro sg p hp hf hmem
      have : sg ∈ keys s.sat := ((mem_keys_filter s.sat (fun k => (needed env s.pool).contains k) sg).1 hmem).1
      exact h.last_sat sg p hp hf this
  · exact h

/-- marking `sig` together with a state change that adds `sig` to `sat_xtrig` -/
theorem mark_pre (nf : Bool) (s s' : State) (m : Spec.Mon) (sig : Sig) (h : CoupledPre nf s m)
    (hnow : s'.now = s.now) (htn : s'.tNext = s.tNext) (hact : s'.active = s.active) (hpool : s'.pool = s.pool)
    (hsat : ∀ x, x ∈ keys s'.sat ↔ x = sig ∨ x ∈ keys s.sat) :
    CoupledPre nf s' (Spec.markSucceeded m sig) := by
  refine ⟨⟨?_, ?_, ?_, h.mc.nd_infl, ?_, ?_, ?_⟩, ?_, ?_⟩
  · rw [hnow]; exact h.mc.now_eq
  · intro x; show x ∈ m.inflight ↔ x ∈ s'.active; rw [hact]; exact h.mc.infl x
  · show s'.active.Nodup; rw [hact]; exact h.mc.nd_act
  · intro x hx
    show x ∈ keys s'.sat
    rw [hsat]
    rcases (mark_succ_mem m sig x).1 hx with hx | hx
    · exact Or.inl hx
    · exact Or.inr (h.mc.succ_sat x hx)
  · intro sg p hp hf
    show s'.tNext sg = _
    rw [htn]
    exact h.mc.last_next sg p (mark_last_false m sig sg p hp hf).1 hf
  · intro hnf sg p hp ht
    show sg ∈ keys s'.sat
    rw [hsat]
    rcases mark_last_true m sig sg p hp ht with h1 | h1
    · exact Or.inr (h.mc.nf_sat hnf sg p h1 ht)
    · exact Or.inl h1
  · show m.pool = s'.pool; rw [hpool]; exact h.pool_eq
  · intro sg p hp hf hmem
    obtain ⟨h1, h2⟩ := mark_last_false m sig sg p hp hf
    rcases (hsat sg).1 hmem with h3 | h3
    · exact h2 h3
    · exact h.last_sat sg p h1 hf h3

theorem step_load (env : Env) (k : Nat) (nf : Bool) (s : State) (m : Spec.Mon) (sig : Sig) (res : Results)
    (h : Coupled env nf s m) : StepOk env k nf s m (.load sig res) := by
  refine Or.inl ⟨Spec.prune env (Spec.markSucceeded m sig), rfl, ?_⟩
  simp only [step]
  apply prune_coupled
  exact mark_pre nf s _ m sig h.pre rfl rfl rfl rfl (fun x => mem_keys_satSet s.sat sig res x)

theorem step_callback (env : Env) (k : Nat) (nf : Bool) (s : State) (m : Spec.Mon) (sig : Sig) (ok : Bool)
    (res : Results) (h : Coupled env nf s m) : StepOk env k nf s m (.callback sig ok res) := by
  left
  by_cases ha : s.active.contains sig = true
  · have hi : m.inflight.contains sig = true := by
      have : sig ∈ s.active := by simpa using ha
      have := (h.mc.infl sig).2 this
      simpa using this
    -- the answered call leaves `active` / `inflight`
    have hpre1 : CoupledPre nf { s with active := s.active.erase sig } { m with inflight := m.inflight.erase sig } := by
      refine ⟨⟨h.mc.now_eq, ?_, ?_, ?_, h.mc.succ_sat, h.mc.last_next, h.mc.nf_sat⟩, h.pool_eq, h.last_sat⟩
      · intro x
        show x ∈ m.inflight.erase sig ↔ x ∈ s.active.erase sig
        have hact : s.active.Nodup := h.mc.nd_act
        have hix : x ∈ m.inflight ↔ x ∈ s.active := h.mc.infl x
        rw [h.mc.nd_infl.mem_erase_iff, hact.mem_erase_iff, hix]
      · exact h.mc.nd_act.erase sig
      · exact h.mc.nd_infl.erase sig
    cases ok with
    | false =>
      refine ⟨Spec.prune env { m with inflight := m.inflight.erase sig }, ?_, ?_⟩
      · simp only [Spec.onOp, hi, if_true, Bool.false_eq_true, if_false]
      · simp only [step, ha, if_true, Bool.false_eq_true, if_false]
        exact prune_coupled env nf _ _ hpre1
    | true =>
      refine ⟨Spec.prune env (Spec.markSucceeded { m with inflight := m.inflight.erase sig } sig), ?_, ?_⟩
      · simp only [Spec.onOp, hi, if_true]
      · simp only [step, ha, if_true]
        apply prune_coupled
        exact mark_pre nf _ _ _ sig hpre1 rfl rfl rfl rfl (fun x => mem_keys_satSet s.sat sig res x)
  · have hi : m.inflight.contains sig = false := by
      have : sig ∉ s.active := by simpa using ha
      have : sig ∉ m.inflight := fun hh => this ((h.mc.infl sig).1 hh)
      simpa using this
    refine ⟨m, ?_, ?_⟩
    · simp only [Spec.onOp, hi, Bool.false_eq_true, if_false]
    · simp only [step, ha]; exact h

theorem step_call_eq (env : Env) (s : State) (id : Nat) (t : Task) (hf : findTask s.pool id = some t) :
    step env s (.call id) =
      ({ s with tNext := (callLoop env s.now id (accOf s) t.xt).1.tNext,
                sat := (callLoop env s.now id (accOf s) t.xt).1.sat,
                active := (callLoop env s.now id (accOf s) t.xt).1.active,
                hk := (callLoop env s.now id (accOf s) t.xt).1.hk,
                pool := setTask s.pool ⟨id, (callLoop env s.now id (accOf s) t.xt).2⟩ },
       { subs := (callLoop env s.now id (accOf s) t.xt).1.subs, bcs := (callLoop env s.now id (accOf s) t.xt).1.bcs,
         db := (callLoop env s.now id (accOf s) t.xt).1.db,
         xt := (callLoop env s.now id (accOf s) t.xt).2.map (·.2) }) := by
  simp only [step, hf, accOf]

theorem step_call (env : Env) (k : Nat) (nf : Bool) (s : State) (m : Spec.Mon) (id : Nat)
    (h : Coupled env nf s m) : StepOk env k nf s m (.call id) := by
  cases hf : findTask s.pool id with
  | none =>
    refine Or.inl ⟨m, ?_, ?_⟩
    · simp [Spec.onOp, h.pool_eq, hf, step]
    · simp only [step, hf]; exact h
  | some t =>
    obtain ⟨a0, a1, a1', a2, a3⟩ := callLoop_model env s.now id t.xt (accOf s)
    obtain ⟨news, hn, hr⟩ := callLoop_subs env k nf s.now id t.xt (accOf s) m h.mc
    unfold StepOk
    rw [step_call_eq env s id t hf]
    generalize hR : callLoop env s.now id (accOf s) t.xt = r at a0 a1 a1' a2 a3 hn hr
    have hsubs : r.1.subs = news := by simpa [accOf] using hn
    have hlen : (r.2.map (·.2)).length = t.xt.length := by
      have := congrArg List.length a0
      simpa using this
    have hdue := a3 m h.mc.now_eq (fun x hx => h.mc.succ_sat x hx)
    rcases hr with ⟨m1, ho, hmc, hd⟩ | ⟨hnf, hforget⟩
    · left
      refine ⟨Spec.prune env { markAll env id m1 (Spec.newlyTrue t.xt (r.2.map (·.2))) with
          pool := setTask (markAll env id m1 (Spec.newlyTrue t.xt (r.2.map (·.2)))).pool ⟨id, Spec.setFlags t.xt (r.2.map (·.2))⟩ }, ?_, ?_⟩
      · simp only [Spec.onOp, h.pool_eq, hf, hlen, bne_self_eq_false, Bool.false_eq_true, if_false, hsubs, ho, bind,
          Except.bind, hdue]
        rfl
      · apply prune_coupled
        obtain ⟨f1, f2, f3⟩ := markAll_fixed env id (Spec.newlyTrue t.xt (r.2.map (·.2))) m1
        refine ⟨⟨?_, ?_, hmc.nd_act, ?_, ?_, ?_, ?_⟩, ?_, ?_⟩
        · show (markAll env id m1 _).now = s.now
          rw [f1, hd.now_eq]; exact h.mc.now_eq
        · intro x
          show x ∈ (markAll env id m1 _).inflight ↔ x ∈ r.1.active
          rw [f2]; exact hmc.infl x
        · show (markAll env id m1 _).inflight.Nodup
          rw [f2]; exact hmc.nd_infl
        · intro x hx
          show x ∈ keys r.1.sat
          rcases (markAll_succ_mem env id _ m1 x).1 hx with hx | ⟨l, hl, rfl⟩
          · exact hmc.succ_sat x hx
          · exact a2 l hl
        · intro sg p hp hfl
          show r.1.tNext sg = _
          exact hmc.last_next sg p (markAll_last_false env id _ m1 sg p hp hfl).1 hfl
        · intro hnf sg p hp ht
          show sg ∈ keys r.1.sat
          rcases markAll_last_true env id _ m1 sg p hp ht with h1 | ⟨l, hl, rfl⟩
          · exact hmc.nf_sat hnf sg p h1 ht
          · exact a2 l hl
        · show setTask (markAll env id m1 _).pool _ = setTask s.pool _
          rw [f3, hd.pool_eq, h.pool_eq, setFlags_eq t.xt r.2 a0]
        · intro sg p hp hfl hmem
          obtain ⟨h1, h2⟩ := markAll_last_false env id _ m1 sg p hp hfl
          have hns : sg ∉ keys s.sat := by
            rcases hd.last_false sg p h1 hfl with h3 | h3
            · exact h.last_sat sg p h3 hfl
            · exact h3
          rcases a1' sg hmem with h4 | ⟨l, hl, h4⟩
          · exact hns h4
          · exact h2 l hl h4
    · right
      refine ⟨hnf, ?_⟩
      simp only [Spec.onOp, h.pool_eq, hf, hlen, bne_self_eq_false, Bool.false_eq_true, if_false, hsubs, bind,
        Except.bind]
      cases hx : Spec.onSubs env k m news with
      | ok m1 => rw [hx] at hforget; exact hforget.elim
      | error e =>
        rw [hx] at hforget
        exact hforget

theorem step_coupled (env : Env) (k : Nat) (nf : Bool) (s : State) (m : Spec.Mon) (op : Op)
    (h : Coupled env nf s m) (hop : nf = true → isHousekeep op = false) : StepOk env k nf s m op := by
  cases op with
  | advance dt => exact step_advance env k nf s m dt h
  | spawn id labels => exact step_spawn env k nf s m id labels h
  | remove id => exact step_remove env k nf s m id h
  | call id => exact step_call env k nf s m id h
  | callback sig ok res => exact step_callback env k nf s m sig ok res h
  | housekeep force =>
    cases nf with
    | false => exact step_housekeep env k false s m force h rfl
    | true => simp [isHousekeep] at hop
  | load sig res => exact step_load env k nf s m sig res h
  | force id label val => exact step_force env k nf s m id label val h

/-! ### whole histories -/

theorem monitor_run (env : Env) (nf : Bool) : ∀ (ops : List Op) (k : Nat) (s : State) (m : Spec.Mon),
    Coupled env nf s m → (nf = true → ∀ op ∈ ops, isHousekeep op = false) →
    (∃ m', Spec.monitor env k m ops (run env s ops).2 = .ok m' ∧ Coupled env nf (run env s ops).1 m') ∨
    (nf = false ∧ IsForget (Spec.monitor env k m ops (run env s ops).2)) := by
  intro ops
  induction ops with
  | nil => intro k s m h _; exact Or.inl ⟨m, rfl, h⟩
  | cons op ops ih =>
    intro k s m h hops
    have hop : nf = true → isHousekeep op = false := fun hnf => hops hnf op (by simp)
    have hrest : nf = true → ∀ op' ∈ ops, isHousekeep op' = false :=
      fun hnf op' hm => hops hnf op' (List.mem_cons_of_mem _ hm)
    simp only [run, Spec.monitor, List.headD_cons, List.tail_cons, bind, Except.bind]
    rcases step_coupled env k nf s m op h hop with ⟨m1, ho, hc⟩ | ⟨hnf, hfg⟩
    · rw [ho]
      exact ih (k + 1) (step env s op).1 m1 hc hrest
    · right
      refine ⟨hnf, ?_⟩
      cases hx : Spec.onOp env k m op (step env s op).2 with
      | ok m1 => rw [hx] at hfg; exact hfg.elim
      | error e => rw [hx] at hfg; exact hfg

/-! ### direct (one operation) facts -/

theorem callLoop_fresh (env : Env) (now : Int) (tid : Nat) : ∀ (xt : List (Label × Bool)) (a : Acc),
    (∀ x ∈ a.active, x ∈ (callLoop env now tid a xt).1.active) ∧
    ∀ ls ∈ (callLoop env now tid a xt).1.subs, ls ∈ a.subs ∨ (ls.2 ∉ keys a.sat ∧ ls.2 ∉ a.active) := by
  intro xt
  induction xt with
  | nil => intro a; exact ⟨fun x h => h, fun ls h => Or.inl h⟩
  | cons p rest ih =>
    intro a
    obtain ⟨l, b⟩ := p
    cases b with
    | true => simpa [callLoop] using ih a
    | false =>
      obtain ⟨c1, _, _, _, c5⟩ := callOne_spec env now tid a l
      obtain ⟨i1, i2⟩ := ih (callOne env now tid a l).1
      simp only [callLoop]
      rcases c5 with ⟨e1, e2, _⟩ | ⟨_, e1, e2, e3, _, _, n1, n2, _⟩
      · refine ⟨fun x hx => i1 x (by rw [e2]; exact hx), ?_⟩
        intro ls hls
        rcases i2 ls hls with h | ⟨h1, h2⟩
        · exact Or.inl (by rw [e1] at h; exact h)
        · exact Or.inr ⟨fun hh => h1 (c1 _ hh), by rw [e2] at h2; exact h2⟩
      · refine ⟨fun x hx => i1 x (by rw [e3]; exact List.mem_append_left _ hx), ?_⟩
        intro ls hls
        rcases i2 ls hls with h | ⟨h1, h2⟩
        · rw [e2] at h
          rcases List.mem_append.1 h with h | h
          · exact Or.inl h
          · simp only [List.mem_singleton] at h
            subst h
            exact Or.inr ⟨n1, n2⟩
        · exact Or.inr ⟨by rw [e1] at h1; exact h1, fun hh => h2 (by rw [e3]; exact List.mem_append_left _ hh)⟩

/-- submissions happen only in `call`, and only of signatures that are neither in progress nor succeeded -/
theorem step_subs_fresh (env : Env) (s : State) (op : Op) (ls : Label × Sig)
    (h : ls ∈ (step env s op).2.subs) : ls.2 ∉ keys s.sat ∧ ls.2 ∉ s.active := by
  cases op with
  | call id =>
    cases hf : findTask s.pool id with
    | none => simp [step, hf] at h
    | some t =>
      rw [step_call_eq env s id t hf] at h
      rcases (callLoop_fresh env s.now id t.xt (accOf s)).2 ls h with h' | h'
      · simp [accOf] at h'
      · exact h'
  | advance dt => simp [step] at h
  | spawn id labels =>
    simp only [step] at h
    split at h <;> simp at h
  | remove id => simp [step] at h
  | callback sig ok res =>
    simp only [step] at h
    split at h
    · split at h <;> simp at h
    · simp at h
  | housekeep force =>
    simp only [step] at h
    split at h <;> simp at h
  | load sig res => simp [step] at h
  | force id label val =>
    simp only [step] at h
    split at h <;> simp at h

/-- a succeeded signature stays recorded: housekeeping is the only operation that forgets, and only
signatures no pool task is waiting for -/
theorem step_sat_kept (env : Env) (s : State) (op : Op) (sig : Sig) (h : sig ∈ keys s.sat)
    (hk : isHousekeep op = false ∨ sig ∈ needed env s.pool) : sig ∈ keys (step env s op).1.sat := by
  cases op with
  | call id =>
    cases hf : findTask s.pool id with
    | none => simp only [step, hf]; exact h
    | some t =>
      rw [step_call_eq env s id t hf]
      exact (callLoop_model env s.now id t.xt (accOf s)).2.1 sig h
  | advance dt => exact h
  | spawn id labels =>
    simp only [step]
    split <;> exact h
  | remove id => exact h
  | callback sg ok res =>
    simp only [step]
    split
    · split
      · exact (mem_keys_satSet _ _ _ _).2 (Or.inr h)
      · exact h
    · exact h
  | housekeep force =>
    rcases hk with hk | hk
    · simp [isHousekeep] at hk
    · simp only [step]
      split
      · show sig ∈ keys (s.sat.filter fun p => (needed env s.pool).contains p.1)
        rw [mem_keys_filter s.sat (fun k => (needed env s.pool).contains k) sig]
        exact ⟨h, by simpa using hk⟩
      · exact h
  | load sg res => exact (mem_keys_satSet _ _ _ _).2 (Or.inr h)
  | force id label val =>
    simp only [step]
    split <;> exact h

end CylcModel.Xtrig
