/-
C04F — release soundness over `Sched3Fut`: a proxy leaves the runahead pool (`is_runahead` true → false) only in
the release step of a main loop, and only if its cycle point is at or before the limit `compute_runahead` left at
the start of that loop (or, on restart, if it is finished).  Stated per op for ANY state (no reachability needed):
an instance of the generic `Frame` pass with `J := True`.
-/
import CylcModel.Sched3FutFrame

namespace CylcModel.Sched3Fut

/-- released proxies are the ones of `R` (released before) or lie at or before the limit `lim` -/
def RelQ (R : List (Int × String)) (lim : Option Int) (x : Proxy) : Prop :=
  x.runahead = false → (x.pt, x.name) ∈ R ∨ ∃ L, lim = some L ∧ x.pt ≤ L

theorem reset_runahead_none (x : Proxy) (a : Option Status) (b d : Option Bool) :
    (x.reset a b none d).runahead = x.runahead := reset_runahead_of_none x a b d

theorem launchProxy_key (x : Proxy) :
    (launchProxy x).pt = x.pt ∧ (launchProxy x).name = x.name ∧ (launchProxy x).runahead = x.runahead := by
  unfold launchProxy
  refine ⟨?_, ?_, ?_⟩
  · show ((x.reset (queued := some false)).reset (status := some .preparing)).pt = x.pt
    rw [reset_pt, reset_pt]
  · show ((x.reset (queued := some false)).reset (status := some .preparing)).name = x.name
    rw [reset_name, reset_name]
  · show ((x.reset (queued := some false)).reset (status := some .preparing)).runahead = x.runahead
    rw [reset_runahead_none, reset_runahead_none]

theorem relFrame (g : Graph) (R : List (Int × String)) (lim : Option Int) :
    Frame g (RelQ R lim) (fun _ => True) where
  qupd := by
    intro x y hx hu hr
    obtain ⟨hp, hn, _, hrh, _⟩ := hu
    rw [hp, hn]
    exact hx (hrh ▸ hr)
  qspawn := by
    intro s n p y _ hy hr
    have := (spawnTask_fresh hy).1
    rw [this] at hr
    exact absurd hr (by decide)
  qqueue := by
    intro x hx _ _ hr
    rw [reset_pt, reset_name]
    rw [reset_runahead_none] at hr
    exact hx hr
  qlaunch := by
    intro x hx _ hr
    obtain ⟨h1, h2, h3⟩ := launchProxy_key x
    rw [h1, h2]
    rw [h3] at hr
    exact hx hr
  jcongr := fun _ _ _ _ => trivial
  jtouch := fun _ _ _ _ => trivial
  jadd := fun _ _ _ _ => trivial
  jdrop := fun _ _ _ => trivial
  jcompute := fun _ _ _ => trivial
  jlaunch := fun _ _ _ _ _ => trivial
  jclear := fun _ _ => trivial

/-- the keys of the proxies of `s` that are already released -/
def releasedKeys (s : State) : List (Int × String) :=
  (s.pool.filter fun x => !x.runahead).map fun x => (x.pt, x.name)

theorem holds_rel_self (s : State) (lim : Option Int) : Holds (RelQ (releasedKeys s) lim) (fun _ => True) s := by
  refine ⟨?_, trivial⟩
  intro x hx hr
  left
  unfold releasedKeys
  exact List.mem_map.mpr ⟨x, List.mem_filter.mpr ⟨hx, by simp [hr]⟩, rfl⟩

theorem mem_releasedKeys {s : State} {k : Int × String} (h : k ∈ releasedKeys s) :
    ∃ x ∈ s.pool, x.pt = k.1 ∧ x.name = k.2 ∧ x.runahead = false := by
  unfold releasedKeys at h
  obtain ⟨x, hx, hk⟩ := List.mem_map.mp h
  have := List.mem_filter.mp hx
  refine ⟨x, this.1, ?_, ?_, by simpa using this.2⟩
  · rw [← hk]
  · rw [← hk]

theorem reset_runahead_false (x : Proxy) : (x.reset (runahead := some false)).pt = x.pt ∧
    (x.reset (runahead := some false)).name = x.name := ⟨reset_pt _ _ _ _ _, reset_name _ _ _ _ _⟩

/-- **a main loop releases only at or before the limit it computed** -/
theorem release_sound_loop (g : Graph) (s : State) :
    ∀ x' ∈ (step g s .loop).pool, x'.runahead = false →
      (∃ x ∈ s.pool, x.pt = x'.pt ∧ x.name = x'.name ∧ x.runahead = false) ∨
      (∃ L, (computeRunahead g (clearOp s)).rhLimit = some L ∧ x'.pt ≤ L) := by
  intro x' hx' hr
  have h0 := holds_rel_self (clearOp s) (computeRunahead g (clearOp s)).rhLimit
  have h1 := holds_mainLoop (relFrame g (releasedKeys (clearOp s)) (computeRunahead g (clearOp s)).rhLimit)
    (clearOp s) h0 (by
      intro lim y hl hy _ _
      right
      rw [(reset_runahead_false y).1]
      exact ⟨lim, hl, hy⟩)
  rcases h1.1 x' hx' hr with hk | hk
  · left
    obtain ⟨x, hx, h2, h3, h4⟩ := mem_releasedKeys hk
    exact ⟨x, hx, h2, h3, h4⟩
  · exact Or.inr hk

theorem reset_runahead_true (x : Proxy) : (x.reset (runahead := some true)).runahead = true := by
  unfold Proxy.reset
  simp only [Option.getD_some, Option.getD_none]
  split
  · rename_i h
    simp only [Bool.and_eq_true, beq_iff_eq] at h
    exact h.1.2.symm
  · rfl

theorem holds_rel_setStopPoint (R : List (Int × String)) (s : State) (p : Int)
    (h : Holds (RelQ R none) (fun _ => True) s) : Holds (RelQ R none) (fun _ => True) (setStopPoint s p) := by
  refine ⟨?_, trivial⟩
  unfold setStopPoint
  split
  · exact h.1
  · simp only
    split
    · split
      · intro y hy
        simp only [List.mem_map] at hy
        obtain ⟨z, hz, rfl⟩ := hy
        split
        · intro hr
          rw [reset_runahead_true] at hr
          exact absurd hr (by decide)
        · exact h.1 z hz
      · exact h.1
    · exact h.1

/-- **no other op releases anything** (restart excepted, see `restart_release_final`) -/
theorem release_sound_other (g : Graph) (s : State) (op : Op) (h1 : op ≠ .loop) (h3 : op ≠ .restart) :
    ∀ x' ∈ (step g s op).pool, x'.runahead = false →
      ∃ x ∈ s.pool, x.pt = x'.pt ∧ x.name = x'.name ∧ x.runahead = false := by
  intro x' hx' hr
  have h0 := holds_rel_self s none
  have hh : Holds (RelQ (releasedKeys s) none) (fun _ => True) (step g s op) := by
    by_cases h2 : ∃ p, op = .stopPoint p
    · obtain ⟨p, rfl⟩ := h2
      unfold step
      simp only
      exact holds_rel_setStopPoint _ _ p (holds_clearOp (relFrame g _ none) s h0)
    · exact holds_step_plain (relFrame g _ none) s op h0 h1 (fun p hp => h2 ⟨p, hp⟩) h3
  rcases hh.1 x' hx' hr with hk | ⟨L, hL, _⟩
  · obtain ⟨x, hx, h2, h3, h4⟩ := mem_releasedKeys hk
    exact ⟨x, hx, h2, h3, h4⟩
  · simp at hL

/-! ### restart: everything is loaded runahead-limited, finished tasks are released at once -/

def FinalOrLimited (x : Proxy) : Prop := x.runahead = false → x.status.isFinal = true

theorem restoreProxy_finalOrLimited (x : Proxy) : FinalOrLimited (restoreProxy x) := by
  unfold FinalOrLimited restoreProxy
  simp only
  intro h
  generalize (if (x.status == Status.preparing) = true then Status.waiting else x.status) = st at h ⊢
  cases st <;> simp_all [Status.isFinal]

theorem finalOrLimited_holdActive (s : State) (x : Proxy) (h : ∀ y ∈ s.pool, FinalOrLimited y) (hx : FinalOrLimited x) :
    ∀ y ∈ (holdActive s x).pool, FinalOrLimited y := by
  unfold holdActive
  simp only
  have h1 : ∀ y ∈ (s.put (x.reset (held := some true))).pool, FinalOrLimited y := by
    intro y hy
    rcases mem_put hy with rfl | hy
    · intro hr
      have hs : (x.reset (held := some true)).status = x.status := by
        unfold Proxy.reset; simp only; split <;> rfl
      rw [hs]
      rw [reset_held_runahead] at hr
      exact hx hr
    · exact h y hy
  split
  · exact h1
  · exact h1

theorem restart_release_final (g : Graph) (s : State) :
    ∀ x' ∈ (restart g s).pool, x'.runahead = false → x'.status.isFinal = true := by
  have h1 : ∀ y ∈ (s.pool.foldl (loadRow g) (restartBase g s)).pool, FinalOrLimited y := by
    refine foldl_inv (fun st : State => ∀ y ∈ st.pool, FinalOrLimited y) _ ?_ _ _ ?_
    · intro st x hst y hy
      unfold loadRow at hy
      simp only at hy
      rcases mem_put hy with rfl | hy
      · exact restoreProxy_finalOrLimited x
      · rcases mem_add hy with rfl | hy
        · intro hr; simp at hr
        · rw [pool_touch] at hy
          exact hst y hy
    · intro y hy
      unfold restartBase at hy
      simp at hy
  unfold restart
  simp only
  split
  · rename_i hp _
    unfold setHoldPoint
    simp only
    refine foldl_inv (fun st : State => ∀ y ∈ st.pool, FinalOrLimited y) _ ?_ _ _ h1
    intro st x hst
    split
    · split
      · rename_i y hy
        exact finalOrLimited_holdActive st y hst (hst y (get?_mem hy))
      · exact hst
    · exact hst
  · exact h1

end CylcModel.Sched3Fut
