/-
Helper lemmas for C41: how the bash fragment of `Bash.lean` (a fold of `step` over the text)
reads the pieces `JobFileWriter` writes: indentation, `NAME=`, a double-quoted word, the newline.
-/
import CylcModel.Bash

namespace CylcModel.Bash

/-- the state between two commands -/
def idle (e : Env) : St := ⟨.start, [], [], e, .run⟩

/-- a shell variable name -/
def ValidName (n : Str) : Prop :=
  ∃ c r, n = c :: r ∧ isNameStart c = true ∧ ∀ x ∈ r, isNameChar x = true

theorem nameStart_ne {c : Char} (h : isNameStart c = true) :
    c ≠ ' ' ∧ c ≠ '\t' ∧ c ≠ '\n' ∧ c ≠ '#' := by
  refine ⟨?_, ?_, ?_, ?_⟩ <;> (intro hc; subst hc; revert h; decide)

theorem nameChar_ne {c : Char} (h : isNameChar c = true) : c ≠ '=' ∧ c ≠ '}' := by
  refine ⟨?_, ?_⟩ <;> (intro hc; subst hc; revert h; decide)

theorem fold_indent (homes : Env) (e : Env) :
    ("    ".toList).foldl (step homes) (idle e) = idle e := by
  simp [idle, step]

theorem fold_lhs_rest (homes : Env) (e : Env) (a r : Str) (hr : ∀ x ∈ r, isNameChar x = true) :
    r.foldl (step homes) ⟨.lhs a, [], [], e, .run⟩ = ⟨.lhs (a ++ r), [], [], e, .run⟩ := by
  induction r generalizing a with
  | nil => simp
  | cons c r ih =>
    have hc : isNameChar c = true := hr c (by simp)
    rw [List.foldl_cons]
    have : step homes ⟨.lhs a, [], [], e, .run⟩ c = ⟨.lhs (a ++ [c]), [], [], e, .run⟩ := by
      simp [step, hc]
    rw [this, ih (a ++ [c]) (fun x hx => hr x (by simp [hx]))]
    simp

/-- `NAME=` at the start of a command -/
theorem fold_lhs (homes : Env) (e : Env) (n : Str) (hn : ValidName n) :
    (n ++ ['=']).foldl (step homes) (idle e) = ⟨.vstart, n, [], e, .run⟩ := by
  obtain ⟨c, r, rfl, hc, hr⟩ := hn
  obtain ⟨h1, h2, h3, h4⟩ := nameStart_ne hc
  have h0 : step homes (idle e) c = ⟨.lhs [c], [], [], e, .run⟩ := by
    simp [idle, step, h1, h2, h3, h4, hc]
  rw [List.cons_append, List.foldl_cons, h0, List.foldl_append, fold_lhs_rest homes e [c] r hr]
  have : isNameChar '=' = false := by decide
  simp [step, this]

/-- literal text inside double quotes -/
theorem fold_dq_lit (homes : Env) (n : Str) (e : Env) (t a : Str)
    (h1 : '"' ∉ t) (h2 : '\\' ∉ t) (h3 : '$' ∉ t) (h4 : '`' ∉ t) :
    t.foldl (step homes) ⟨.dq, n, a, e, .run⟩ = ⟨.dq, n, a ++ t, e, .run⟩ := by
  induction t generalizing a with
  | nil => simp
  | cons c r ih =>
    simp only [List.mem_cons, not_or] at h1 h2 h3 h4
    have : step homes ⟨.dq, n, a, e, .run⟩ c = ⟨.dq, n, a ++ [c], e, .run⟩ := by
      simp [step, dqChar, push, Ne.symm h1.1, Ne.symm h2.1, Ne.symm h3.1, Ne.symm h4.1]
    rw [List.foldl_cons, this, ih (a ++ [c]) h1.2 h2.2 h3.2 h4.2]
    simp

/-- text with escaped double quotes inside double quotes reads as the unescaped text -/
theorem fold_dq_escaped (homes : Env) (n : Str) (e : Env) (t a : Str)
    (h2 : '\\' ∉ t) (h3 : '$' ∉ t) (h4 : '`' ∉ t) :
    (t.flatMap esc1).foldl (step homes) ⟨.dq, n, a, e, .run⟩ = ⟨.dq, n, a ++ t, e, .run⟩ := by
  induction t generalizing a with
  | nil => simp
  | cons c r ih =>
    simp only [List.mem_cons, not_or] at h2 h3 h4
    rw [List.flatMap_cons, List.foldl_append]
    have : (esc1 c).foldl (step homes) ⟨.dq, n, a, e, .run⟩ = ⟨.dq, n, a ++ [c], e, .run⟩ := by
      by_cases hq : c = '"'
      · subst hq
        simp [esc1, step, dqChar, push]
      · simp [esc1, hq, step, dqChar, push, Ne.symm h2.1, Ne.symm h3.1, Ne.symm h4.1]
    rw [this, ih (a ++ [c]) h2.2 h3.2 h4.2]
    simp

theorem fold_brace_rest (homes : Env) (n : Str) (e : Env) (a v r : Str) (hv : v ≠ [])
    (hr : ∀ x ∈ r, isNameChar x = true) :
    r.foldl (step homes) ⟨.dqBrace v, n, a, e, .run⟩ = ⟨.dqBrace (v ++ r), n, a, e, .run⟩ := by
  induction r generalizing v with
  | nil => simp
  | cons c r ih =>
    have hc : isNameChar c = true := hr c (by simp)
    obtain ⟨hc1, hc2⟩ := nameChar_ne hc
    have hve : v.isEmpty = false := by cases v <;> simp_all
    have : step homes ⟨.dqBrace v, n, a, e, .run⟩ c = ⟨.dqBrace (v ++ [c]), n, a, e, .run⟩ := by
      simp [step, hc, hc2, hve]
    rw [List.foldl_cons, this, ih (v ++ [c]) (by simp) (fun x hx => hr x (by simp [hx]))]
    simp

/-- `${NAME}` inside double quotes -/
theorem fold_dq_ref (homes : Env) (n : Str) (e : Env) (m a : Str) (hm : ValidName m) :
    (['$', '{'] ++ m ++ ['}']).foldl (step homes) ⟨.dq, n, a, e, .run⟩
      = ⟨.dq, n, a ++ (e.get m).getD [], e, .run⟩ := by
  obtain ⟨c, r, rfl, hc, hr⟩ := hm
  have hc2 : c ≠ '}' := by
    intro h; subst h; revert hc; decide
  have s1 : step homes ⟨.dq, n, a, e, .run⟩ '$' = ⟨.dqDollar, n, a, e, .run⟩ := by
    simp [step, dqChar]
  have s2 : step homes ⟨.dqDollar, n, a, e, .run⟩ '{' = ⟨.dqBrace [], n, a, e, .run⟩ := by
    have : isNameStart '{' = false := by decide
    simp [step, this]
  have s3 : step homes ⟨.dqBrace [], n, a, e, .run⟩ c = ⟨.dqBrace [c], n, a, e, .run⟩ := by
    simp [step, hc, hc2]
  have s4 : step homes ⟨.dqBrace (c :: r), n, a, e, .run⟩ '}' = ⟨.dq, n, a ++ (e.get (c :: r)).getD [], e, .run⟩ := by
    simp [step, pushs, lookupVar]
  simp only [List.cons_append, List.nil_append, List.foldl_cons, s1, s2, s3, List.foldl_append, List.foldl_nil]
  rw [fold_brace_rest homes n e a [c] r (by simp) hr]
  simpa using s4

/-- a double-quoted word right after `NAME=`, given what its content reads as -/
theorem fold_word (homes : Env) (n : Str) (e : Env) (content w : Str)
    (hc : content.foldl (step homes) ⟨.dq, n, [], e, .run⟩ = ⟨.dq, n, w, e, .run⟩) :
    (['"'] ++ content ++ ['"'] ++ ['\n']).foldl (step homes) ⟨.vstart, n, [], e, .run⟩ = idle (e.set n w) := by
  have s1 : step homes ⟨.vstart, n, [], e, .run⟩ '"' = ⟨.dq, n, [], e, .run⟩ := by
    simp [step, plainChar]
  have s2 : step homes ⟨.dq, n, w, e, .run⟩ '"' = ⟨.plain, n, w, e, .run⟩ := by
    simp [step, dqChar]
  have s3 : step homes ⟨.plain, n, w, e, .run⟩ '\n' = idle (e.set n w) := by
    simp [step, plainChar, endWord, commit, idle]
  simp only [List.cons_append, List.nil_append, List.foldl_cons, s1, List.foldl_append, hc, List.foldl_nil, s2, s3]

/-- value not starting with `~`: the definition is the whole value in double quotes -/
theorem define_quoted (esc : Bool) (v : Str) (h : (escape esc v).head? ≠ some '~') :
    define esc v = ['"'] ++ escape esc v ++ ['"'] := by
  unfold define
  cases hv : escape esc v with
  | nil => simp [tildeSlash, tildeBare]
  | cons c r =>
    have : c ≠ '~' := by
      intro hc; rw [hv] at h; simp [hc] at h
    have h1 : tildeSlash (c :: r) = none := by
      unfold tildeSlash
      split
      · rename_i heq; simp at heq; exact absurd heq.1 this
      · rfl
    have h2 : tildeBare (c :: r) = false := by
      unfold tildeBare
      split
      · rename_i heq; simp at heq; exact absurd heq.1 this
      · rfl
    simp [h1, h2]

theorem flatMap_esc1_noquote (v : Str) (h : '"' ∉ v) : v.flatMap esc1 = v := by
  induction v with
  | nil => rfl
  | cons c r ih =>
    simp only [List.mem_cons, not_or] at h
    rw [List.flatMap_cons, ih h.2]
    simp [esc1, Ne.symm h.1]

theorem escape_noquote (esc : Bool) (v : Str) (h : '"' ∉ v) : escape esc v = v := by
  unfold escape
  split
  · exact flatMap_esc1_noquote v h
  · rfl

theorem escape_true (v : Str) (h2 : '\\' ∉ v) (h3 : '$' ∉ v) (h4 : '`' ∉ v) :
    escape true v = v.flatMap esc1 := by
  unfold escape
  have : v.any isExpChar = false := by
    rw [List.any_eq_false]
    intro x hx
    have a1 : x ≠ '\\' := fun h => h2 (h ▸ hx)
    have a2 : x ≠ '$' := fun h => h3 (h ▸ hx)
    have a3 : x ≠ '`' := fun h => h4 (h ▸ hx)
    simp [isExpChar, a1, a2, a3]
  simp [this]

theorem escape_head (v : Str) (h : v.head? ≠ some '~') : (v.flatMap esc1).head? ≠ some '~' := by
  cases v with
  | nil => simp
  | cons c r =>
    have hc : c ≠ '~' := by intro hc; simp [hc] at h
    by_cases hq : c = '"'
    · subst hq; simp [esc1]
    · simp [esc1, hq, hc]

/-- **Section induction.**  If every definition's value is written as a word that reads as
`W e d` in environment `e`, the body of the function is the definitions applied in order. -/
theorem fold_section (homes : Env) (esc : Bool) (W : Env → Str × Str → Str) (defs : List (Str × Str))
    (hn : ∀ d ∈ defs, ValidName d.1)
    (hw : ∀ d ∈ defs, ∀ e, (define esc d.2 ++ ['\n']).foldl (step homes) ⟨.vstart, d.1, [], e, .run⟩
            = idle (e.set d.1 (W e d)))
    (e : Env) :
    (defs.flatMap (line esc)).foldl (step homes) (idle e)
      = idle (defs.foldl (fun e d => e.set d.1 (W e d)) e) := by
  induction defs generalizing e with
  | nil => simp
  | cons d r ih =>
    rw [List.flatMap_cons, List.foldl_append, List.foldl_cons]
    have hl : (line esc d).foldl (step homes) (idle e) = idle (e.set d.1 (W e d)) := by
      unfold line
      have : "    ".toList ++ d.1 ++ ['='] ++ define esc d.2 ++ ['\n']
          = "    ".toList ++ ((d.1 ++ ['=']) ++ (define esc d.2 ++ ['\n'])) := by simp
      rw [this, List.foldl_append, fold_indent, List.foldl_append, fold_lhs homes e d.1 (hn d (by simp))]
      exact hw d (by simp) e
    rw [hl]
    exact ih (fun d hd => hn d (by simp [hd])) (fun d hd => hw d (by simp [hd])) _

theorem run_section (homes : Env) (esc : Bool) (W : Env → Str × Str → Str) (defs : List (Str × Str))
    (hn : ∀ d ∈ defs, ValidName d.1)
    (hw : ∀ d ∈ defs, ∀ e, (define esc d.2 ++ ['\n']).foldl (step homes) ⟨.vstart, d.1, [], e, .run⟩
            = idle (e.set d.1 (W e d)))
    (e : Env) :
    exportEnv esc homes defs e = .ok (defs.foldl (fun e d => e.set d.1 (W e d)) e) := by
  unfold exportEnv run bodyText
  have h0 : step homes { env := e } '\n' = idle e := by simp [step, idle]
  rw [List.foldl_cons, h0, fold_section homes esc W defs hn hw e]
  simp [finish, idle]

/-- not one of the two tilde shapes `_get_variable_value_definition` leaves (partly) unquoted -/
def NotTildeForm (u : Str) : Prop := tildeSlash u = none ∧ tildeBare u = false

theorem define_of_notTildeForm (esc : Bool) (v : Str) (h : NotTildeForm (escape esc v)) :
    define esc v = ['"'] ++ escape esc v ++ ['"'] := by
  unfold define
  simp [h.1, h.2]

theorem notTildeForm_of_head (u : Str) (h : u.head? ≠ some '~') : NotTildeForm u := by
  cases u with
  | nil => exact ⟨by simp [tildeSlash], by simp [tildeBare]⟩
  | cons c r =>
    have hc : c ≠ '~' := by intro hc; simp [hc] at h
    constructor
    · unfold tildeSlash
      split
      · rename_i heq; simp at heq; exact absurd heq.1 hc
      · rfl
    · unfold tildeBare
      split
      · rename_i heq; simp at heq; exact absurd heq.1 hc
      · rfl

/-- literal text that merely starts with a tilde: a whitespace character (not the last character)
occurs before the first slash, so the text up to the slash cannot be a login name -/
def BlankTilde (v : Str) : Prop :=
  ∃ p w rest, v = '~' :: (p ++ w :: rest) ∧ (∀ c ∈ p, c ≠ '/' ∧ isPySpace c = false) ∧
    isPySpace w = true ∧ rest ≠ []

theorem dropWhile_prefix (f : Char → Bool) (p l : Str) (h : ∀ c ∈ p, f c = true) :
    (p ++ l).dropWhile f = l.dropWhile f := by
  induction p with
  | nil => rfl
  | cons c r ih =>
    simp [h c (by simp), ih (fun x hx => h x (by simp [hx]))]

theorem notTildeForm_of_blankTilde (u : Str) (h : BlankTilde u) : NotTildeForm u := by
  obtain ⟨p, w, rest, rfl, hp, hw, hr⟩ := h
  have hws : w ≠ '/' := by
    intro e; subst e; revert hw; decide
  constructor
  · unfold tildeSlash
    simp only
    have hd : (p ++ w :: rest).dropWhile (fun c => !(c == '/' || isPySpace c)) = w :: rest := by
      rw [dropWhile_prefix _ p _ (by intro c hc; simp [(hp c hc).1, (hp c hc).2])]
      simp [hw]
    rw [hd]
    split
    · rename_i heq; simp at heq; exact absurd heq.1 hws
    · rfl
  · unfold tildeBare
    simp only
    have hmem : w ∈ (p ++ w :: rest).dropLast := by
      rw [List.dropLast_append_of_ne_nil (by simp), List.dropLast_cons_of_ne_nil hr]
      simp
    have hmem2 : w ∈ p ++ w :: rest := by simp
    split <;> simp only [Bool.not_eq_false', List.any_eq_true]
    · exact ⟨w, hmem, hw⟩
    · exact ⟨w, hmem2, hw⟩

theorem esc1_ne_nil (c : Char) : esc1 c ≠ [] := by
  unfold esc1; split <;> simp

theorem blankTilde_escaped (v : Str) (h : BlankTilde v) : BlankTilde (v.flatMap esc1) := by
  obtain ⟨p, w, rest, rfl, hp, hw, hr⟩ := h
  have hwq : w ≠ '"' := by intro e; subst e; revert hw; decide
  refine ⟨p.flatMap esc1, w, rest.flatMap esc1, ?_, ?_, hw, ?_⟩
  · simp [List.flatMap_cons, List.flatMap_append, esc1, hwq]
  · intro c hc
    obtain ⟨a, ha, hca⟩ := List.mem_flatMap.1 hc
    unfold esc1 at hca
    split at hca
    · simp only [List.mem_cons, List.not_mem_nil, or_false] at hca
      rcases hca with rfl | rfl <;> exact ⟨by decide, by decide⟩
    · simp only [List.mem_singleton] at hca
      subst hca; exact hp c ha
  · cases rest with
    | nil => exact absurd rfl hr
    | cons a r =>
      intro e
      simp only [List.flatMap_cons, List.append_eq_nil_iff] at e
      exact esc1_ne_nil a e.1

end CylcModel.Bash
