/-
Flow lemmas over the `Sched3Set` model: flow sets, `mergeFlows` gives the union at the key, the child of
`spawn_on_output` carries the parent's flows.
-/
import CylcModel.Sched3XSpawn

namespace CylcModel.Sched3X

/-! ### flow sets -/

theorem mem_fInsert (n : Nat) : ∀ (l : Flows) (m : Nat), m ∈ fInsert n l ↔ m = n ∨ m ∈ l := by
  intro l
  induction l with
  | nil => intro m; simp [fInsert]
  | cons a l ih =>
    intro m
    unfold fInsert
    split
    · simp
    · split
      · rename_i h
        have : n = a := by simpa using h
        subst this
        simp
      · simp only [List.mem_cons, ih]
        constructor
        · rintro (h | h | h)
          · exact Or.inr (Or.inl h)
          · exact Or.inl h
          · exact Or.inr (Or.inr h)
        · rintro (h | h | h)
          · exact Or.inr (Or.inl h)
          · exact Or.inl h
          · exact Or.inr (Or.inr h)

theorem mem_fUnion (a b : Flows) (m : Nat) : m ∈ fUnion a b ↔ m ∈ a ∨ m ∈ b := by
  unfold fUnion
  induction b generalizing a with
  | nil => simp
  | cons n b ih =>
    simp only [List.foldl_cons]
    rw [ih, mem_fInsert]
    simp only [List.mem_cons]
    constructor
    · rintro ((h | h) | h)
      · exact Or.inr (Or.inl h)
      · exact Or.inl h
      · exact Or.inr (Or.inr h)
    · rintro (h | h | h)
      · exact Or.inl (Or.inr h)
      · exact Or.inl (Or.inl h)
      · exact Or.inr h

/-! ### `mergeFlows` -/

@[simp] theorem merged_pt (x : Proxy) (f : Flows) : (x.merged f).pt = x.pt := rfl
@[simp] theorem merged_name (x : Proxy) (f : Flows) : (x.merged f).name = x.name := rfl
@[simp] theorem merged_flows (x : Proxy) (f : Flows) : (x.merged f).flows = fUnion x.flows f := rfl
@[simp] theorem noWait_pt (x : Proxy) : x.noWait.pt = x.pt := rfl
@[simp] theorem noWait_name (x : Proxy) : x.noWait.name = x.name := rfl
@[simp] theorem noWait_flows (x : Proxy) : x.noWait.flows = x.flows := rfl
@[simp] theorem queueTask_pt (x : Proxy) : (queueTask x).pt = x.pt := by unfold queueTask; simp
@[simp] theorem queueTask_name (x : Proxy) : (queueTask x).name = x.name := by unfold queueTask; simp
@[simp] theorem queueTask_flows (x : Proxy) : (queueTask x).flows = x.flows := by unfold queueTask; simp

/-- merging nothing, or the flows the proxy has already, does nothing -/
theorem mergeFlows_noop (g : Graph) (s : State) (x : Proxy) (f : Flows) (h : (f.isEmpty || f == x.flows) = true) :
    mergeFlows g s x f = s := by
  unfold mergeFlows
  simp [h]

/-- what `mergeFlows` does at the key of the proxy, given the merged proxy `y` (same key) -/
theorem mergeFlows_at (g : Graph) (s : State) (x : Proxy) (f : Flows)
    (hx : s.get? x.pt x.name = some x) (h : (f.isEmpty || f == x.flows) = false) :
    (∃ z, (mergeFlows g s x f).get? x.pt x.name = some z ∧ z.flows = fUnion x.flows f) ∧
    (∀ p n w, s.get? p n = some w → ¬ (p = x.pt ∧ n = x.name) → (mergeFlows g s x f).get? p n = some w) := by
  unfold mergeFlows
  simp only [h, Bool.false_eq_true, if_false]
  have hsome : (s.get? x.pt x.name).isSome = true := by rw [hx]; rfl
  generalize hy : x.merged f = y
  have hyp : y.pt = x.pt := by rw [← hy]; rfl
  have hyn : y.name = x.name := by rw [← hy]; rfl
  have hyf : y.flows = fUnion x.flows f := by rw [← hy]; rfl
  have h1 : (dbInsert (s.put y) y).get? x.pt x.name = some y := by
    rw [get?_of_pool_eq (pool_dbInsert _ _), ← hyp, ← hyn]
    apply get?_put_self
    rw [hyp, hyn]; exact hsome
  have ho1 : ∀ p n w, s.get? p n = some w → ¬ (p = x.pt ∧ n = x.name) → (dbInsert (s.put y) y).get? p n = some w := by
    intro p n w hw hk
    rw [get?_of_pool_eq (pool_dbInsert _ _), get?_put_other s y p n (by rw [hyp, hyn]; intro hc; exact hk ⟨hc.1.symm, hc.2.symm⟩)]
    exact hw
  generalize dbInsert (s.put y) y = s1 at h1 ho1
  have hsome1 : (s1.get? x.pt x.name).isSome = true := by rw [h1]; rfl
  split
  · constructor
    · refine ⟨queueTask (y.reset (status := some .waiting)), ?_, by simp [hyf]⟩
      have := get?_put_self s1 (queueTask (y.reset (status := some .waiting))) (by simpa [hyp, hyn] using hsome1)
      simpa [hyp, hyn] using this
    · intro p n w hw hk
      rw [get?_put_other s1 _ p n (by simp [hyp, hyn]; intro h1 h2; exact hk ⟨h1.symm, h2.symm⟩)]
      exact ho1 p n w hw hk
  · split
    · have hpres := (spawnOnAllOutputs_ok g (s1.put y.noWait) y.noWait).1
      constructor
      · refine ⟨y.noWait, ?_, by simp [hyf]⟩
        apply hpres
        have := get?_put_self s1 y.noWait (by simpa [hyp, hyn] using hsome1)
        simpa [hyp, hyn] using this
      · intro p n w hw hk
        apply hpres
        rw [get?_put_other s1 _ p n (by simp [hyp, hyn]; intro h1 h2; exact hk ⟨h1.symm, h2.symm⟩)]
        exact ho1 p n w hw hk
    · exact ⟨⟨y, h1, hyf⟩, ho1⟩

/-- C08 "merged into any existing instance, which then belongs to the union": after `merge_flows` of `f` into the
pooled proxy `x` the proxy at that key has exactly the flows `x.flows ∪ f` -/
theorem mergeFlows_union (g : Graph) (s : State) (x : Proxy) (f : Flows)
    (hx : s.get? x.pt x.name = some x) (h : (f.isEmpty || f == x.flows) = false) :
    ∃ y, (mergeFlows g s x f).get? x.pt x.name = some y ∧ y.flows = fUnion x.flows f :=
  (mergeFlows_at g s x f hx h).1

/-- flows of pooled proxies only grow, and pooled proxies stay pooled -/
def FlowsMono (s s' : State) : Prop :=
  ∀ p n y, s.get? p n = some y → ∃ y', s'.get? p n = some y' ∧ ∀ f ∈ y.flows, f ∈ y'.flows

theorem FlowsMono.refl (s : State) : FlowsMono s s := fun _ _ y h => ⟨y, h, fun _ hf => hf⟩

theorem FlowsMono.trans {a b c : State} (h1 : FlowsMono a b) (h2 : FlowsMono b c) : FlowsMono a c := by
  intro p n y hy
  obtain ⟨y1, hy1, hf1⟩ := h1 p n y hy
  obtain ⟨y2, hy2, hf2⟩ := h2 p n y1 hy1
  exact ⟨y2, hy2, fun f hf => hf2 f (hf1 f hf)⟩

theorem flowsMono_of_preserve {s s' : State} (h : Preserve s s') : FlowsMono s s' :=
  fun p n y hy => ⟨y, h p n y hy, fun _ hf => hf⟩

theorem mergeFlows_mono (g : Graph) (s : State) (x : Proxy) (f : Flows) (hx : s.get? x.pt x.name = some x) :
    FlowsMono s (mergeFlows g s x f) := by
  cases h : (f.isEmpty || f == x.flows) with
  | true => rw [mergeFlows_noop g s x f h]; exact FlowsMono.refl s
  | false =>
    obtain ⟨⟨z, hz, hzf⟩, hother⟩ := mergeFlows_at g s x f hx h
    intro p n w hw
    by_cases hk : p = x.pt ∧ n = x.name
    · obtain ⟨h1, h2⟩ := hk
      subst h1; subst h2
      rw [hx] at hw
      have : x = w := Option.some.inj hw
      subst this
      exact ⟨z, hz, fun fl hfl => by rw [hzf]; exact (mem_fUnion _ _ _).mpr (Or.inl hfl)⟩
    · exact ⟨w, hother p n w hw hk, fun _ h => h⟩

/-! ### one child of `spawn_on_output` -/

/-- same flows at every key (and the same keys) -/
def SameFlows (s s' : State) : Prop := ∀ p n, (s'.get? p n).map (·.flows) = (s.get? p n).map (·.flows)

theorem SameFlows.refl (s : State) : SameFlows s s := fun _ _ => rfl

theorem SameFlows.trans {a b c : State} (h1 : SameFlows a b) (h2 : SameFlows b c) : SameFlows a c :=
  fun p n => (h2 p n).trans (h1 p n)

theorem sameFlows_put (s : State) (z z' : Proxy) (hz : s.get? z'.pt z'.name = some z) (hf : z'.flows = z.flows) :
    SameFlows s (s.put z') := by
  intro p n
  rw [get?_put]
  by_cases hk : z'.pt = p ∧ z'.name = n
  · obtain ⟨h1, h2⟩ := hk
    subst h1; subst h2
    simp [hz, hf]
  · simp [hk]

theorem satisfyTargets_sameFlows (atom : Atom) : ∀ (targets : List (Int × String)) (acc : State × List (Int × String)),
    SameFlows acc.1 (satisfyTargets atom targets acc).1 := by
  intro targets
  induction targets with
  | nil => intro acc; exact SameFlows.refl _
  | cons k ks ih =>
    intro acc
    unfold satisfyTargets
    simp only [List.foldl_cons]
    have hstep : SameFlows acc.1 (match acc.1.get? k.1 k.2 with
        | none => acc
        | some z => (acc.1.put (z.satisfyMe atom),
            if ((z.satisfyMe atom).suicideNow && !acc.2.contains k) = true then acc.2 ++ [k] else acc.2)).1 := by
      split
      · exact SameFlows.refl _
      · rename_i z hz
        have hk := get?_key hz
        apply sameFlows_put acc.1 z (z.satisfyMe atom)
        · simpa [hk.1, hk.2] using hz
        · rfl
    exact hstep.trans (ih _)

theorem pool_recordAbs (st : State) (atom : Atom) (b : Bool) : (recordAbs st atom b).pool = st.pool := by
  unfold recordAbs
  dsimp only
  split
  · split <;> rfl
  · split <;> rfl

theorem flows_subset_of_beq {a b : Flows} (h : (a == b) = true) : ∀ f ∈ a, f ∈ b := by
  have : a = b := by simpa using h
  subst this
  exact fun _ hf => hf

/-- the child of `spawn_on_output` found in the pool gets the parent's flows merged in -/
theorem findOrSpawnChild_pooled (g : Graph) (st : State) (p : Int) (n : String) (pf : Flows) (c : Child)
    (hne : ¬ (c.pt = p ∧ c.name = n)) (y0 : Proxy) (h0 : st.get? c.pt c.name = some y0) :
    (findOrSpawnChild g st p n pf c).2 = (findOrSpawnChild g st p n pf c).1.get? c.pt c.name ∧
    (∃ z, (findOrSpawnChild g st p n pf c).1.get? c.pt c.name = some z ∧ (∀ f ∈ pf, f ∈ z.flows) ∧
      (∀ f ∈ y0.flows, f ∈ z.flows)) ∧
    FlowsMono st (findOrSpawnChild g st p n pf c).1 := by
  unfold findOrSpawnChild
  simp only [h0]
  have hkey := get?_key h0
  have hcond : (c.pt == p && c.name == n) = false := by
    cases hc : (c.pt == p && c.name == n) with
    | false => rfl
    | true => simp only [Bool.and_eq_true, beq_iff_eq] at hc; exact absurd hc hne
  simp only [hcond, Bool.false_eq_true, if_false, true_and]
  have h0' : st.get? y0.pt y0.name = some y0 := by rw [hkey.1, hkey.2]; exact h0
  refine ⟨?_, mergeFlows_mono g st y0 pf h0'⟩
  cases hm : (pf.isEmpty || pf == y0.flows) with
  | true =>
    rw [mergeFlows_noop g st y0 pf hm]
    refine ⟨y0, h0, ?_, fun _ h => h⟩
    simp only [Bool.or_eq_true] at hm
    rcases hm with hm | hm
    · have : pf = [] := by simpa using hm
      subst this
      intro f hf; cases hf
    · exact flows_subset_of_beq hm
  | false =>
    obtain ⟨z, hz, hzf⟩ := mergeFlows_union g st y0 pf h0' hm
    rw [hkey.1, hkey.2] at hz
    exact ⟨z, hz, fun f hf => by rw [hzf]; exact (mem_fUnion _ _ _).mpr (Or.inr hf),
      fun f hf => by rw [hzf]; exact (mem_fUnion _ _ _).mpr (Or.inl hf)⟩

/-- the child of `spawn_on_output` that is not in the pool is spawned in exactly the parent's flows -/
theorem findOrSpawnChild_new (g : Graph) (st : State) (p : Int) (n : String) (pf : Flows) (c : Child)
    (h0 : st.get? c.pt c.name = none) :
    Preserve st (findOrSpawnChild g st p n pf c).1 ∧ NewHave pf st (findOrSpawnChild g st p n pf c).1 ∧
    ∀ y, (findOrSpawnChild g st p n pf c).2 = some y → y.flows = pf ∧ y.pt = c.pt ∧ y.name = c.name := by
  unfold findOrSpawnChild
  simp only [h0]
  split
  · exact ⟨Preserve.refl st, NewHave.refl _ st, by intro y hy; cases hy⟩
  · exact spawnTask_ok g spawnFuel st c.name c.pt pf false

/-- **child_inherits** (one child of `spawn_on_output`): if the child `c` of output `out` of the parent `(p, n)`
is in the pool after `spawnChild`, it carries every flow number of the parent; if it was not in the pool before,
it carries exactly the parent's flows.  (The parent itself as its own child - `a => !a` - is skipped by the code.) -/
theorem spawnChild_child_flows (g : Graph) (p : Int) (n out : String) (acc : State × List (Int × String)) (c : Child)
    (hne : ¬ (c.pt = p ∧ c.name = n)) (y : Proxy)
    (hy : (spawnChild g p n out acc c).1.get? c.pt c.name = some y) :
    (∀ f ∈ parentFlows acc.1 p n, f ∈ y.flows) ∧
    (acc.1.get? c.pt c.name = none → y.flows = parentFlows acc.1 p n) ∧
    (∀ y0, acc.1.get? c.pt c.name = some y0 → ∀ f ∈ y0.flows, f ∈ y.flows) := by
  unfold spawnChild at hy
  dsimp only at hy
  generalize parentFlows acc.1 p n = pf at hy ⊢
  have hpool0 := pool_recordAbs acc.1 ⟨p, n, out⟩ c.isAbs
  have hget0 : ∀ q m, (recordAbs acc.1 ⟨p, n, out⟩ c.isAbs).get? q m = acc.1.get? q m := fun q m => get?_of_pool_eq hpool0 q m
  generalize recordAbs acc.1 ⟨p, n, out⟩ c.isAbs = st0 at hy hget0
  rw [← hget0 c.pt c.name]
  cases h0 : st0.get? c.pt c.name with
  | some y0 =>
    obtain ⟨hR2, ⟨z, hz, hzpf, hzy0⟩, _⟩ := findOrSpawnChild_pooled g st0 p n pf c hne y0 h0
    generalize findOrSpawnChild g st0 p n pf c = R at hy hR2 hz
    rw [hR2, hz] at hy
    simp only [h0, Option.isSome_some, if_true] at hy
    have hsf := satisfyTargets_sameFlows ⟨p, n, out⟩
      (if c.isAbs = true then
        (if ((R.1.pool.filter fun z => z.name == c.name).map fun z => (z.pt, z.name)).contains (c.pt, c.name) = true then
          (R.1.pool.filter fun z => z.name == c.name).map fun z => (z.pt, z.name)
         else ((R.1.pool.filter fun z => z.name == c.name).map fun z => (z.pt, z.name)) ++ [(c.pt, c.name)])
       else [(c.pt, c.name)]) (R.1, acc.2) c.pt c.name
    rw [hy, hz] at hsf
    have hfl : y.flows = z.flows := by simpa using hsf
    refine ⟨fun f hf => by rw [hfl]; exact hzpf f hf, (fun hc => by cases hc), ?_⟩
    intro y0' hy0'
    have : y0 = y0' := Option.some.inj hy0'
    subst this
    intro f hf; rw [hfl]; exact hzy0 f hf
  | none =>
    obtain ⟨_, hnew, hres⟩ := findOrSpawnChild_new g st0 p n pf c h0
    generalize findOrSpawnChild g st0 p n pf c = R at hy hnew hres
    have key : y.flows = pf := by
      cases hR : R.2 with
      | none =>
        rw [hR] at hy
        simp only at hy
        rcases hnew _ _ _ hy with h | h
        · rw [h0] at h; cases h
        · exact h
      | some y' =>
        rw [hR] at hy
        simp only [h0, Option.isSome_none, Bool.false_eq_true, if_false] at hy
        have hy'f := hres y' hR
        generalize hst : R.1.add (y'.satisfyMe ⟨p, n, out⟩) = st at hy
        have hsf := satisfyTargets_sameFlows ⟨p, n, out⟩
          (if c.isAbs = true then
            (if ((st.pool.filter fun z => z.name == c.name).map fun z => (z.pt, z.name)).contains (c.pt, c.name) = true then
              (st.pool.filter fun z => z.name == c.name).map fun z => (z.pt, z.name)
             else ((st.pool.filter fun z => z.name == c.name).map fun z => (z.pt, z.name)) ++ [(c.pt, c.name)])
           else [(c.pt, c.name)]) (st, acc.2) c.pt c.name
        rw [hy] at hsf
        -- the proxy at the key before the prerequisites were satisfied
        cases hw : st.get? c.pt c.name with
        | none => rw [hw] at hsf; simp at hsf
        | some w =>
          rw [hw] at hsf
          have hfl : y.flows = w.flows := by simpa using hsf
          rw [hfl]
          rw [← hst] at hw
          rcases get?_add_cases R.1 _ _ _ _ hw with h | h
          · rcases hnew _ _ _ h with h' | h'
            · rw [h0] at h'; cases h'
            · exact h'
          · rw [h]; simpa using hy'f.1
    exact ⟨fun f hf => by rw [key]; exact hf, fun _ => key, fun y0 hc => by cases hc⟩

/-! ### the whole child loop of `spawn_on_output` -/

theorem flowsMono_of_sameFlows {s s' : State} (h : SameFlows s s') : FlowsMono s s' := by
  intro p n y hy
  have := h p n
  rw [hy] at this
  cases hs : s'.get? p n with
  | none => rw [hs] at this; simp at this
  | some y' =>
    rw [hs] at this
    have hf : y'.flows = y.flows := by simpa using this
    exact ⟨y', rfl, fun f hf' => by rw [hf]; exact hf'⟩

theorem spawnChild_mono (g : Graph) (p : Int) (n out : String) (acc : State × List (Int × String)) (c : Child) :
    FlowsMono acc.1 (spawnChild g p n out acc c).1 := by
  unfold spawnChild
  dsimp only
  generalize parentFlows acc.1 p n = pf
  have hpool0 := pool_recordAbs acc.1 ⟨p, n, out⟩ c.isAbs
  have hm0 : FlowsMono acc.1 (recordAbs acc.1 ⟨p, n, out⟩ c.isAbs) := flowsMono_of_preserve (preserve_of_pool_eq hpool0)
  generalize recordAbs acc.1 ⟨p, n, out⟩ c.isAbs = st0 at hm0
  apply hm0.trans
  have hR : FlowsMono st0 (findOrSpawnChild g st0 p n pf c).1 := by
    cases h0 : st0.get? c.pt c.name with
    | some y0 =>
      by_cases hne : c.pt = p ∧ c.name = n
      · unfold findOrSpawnChild
        simp only [h0]
        have : (c.pt == p && c.name == n) = true := by simp [hne.1, hne.2]
        simp only [this, if_true]
        exact FlowsMono.refl st0
      · exact (findOrSpawnChild_pooled g st0 p n pf c hne y0 h0).2.2
    | none => exact flowsMono_of_preserve (findOrSpawnChild_new g st0 p n pf c h0).1
  generalize findOrSpawnChild g st0 p n pf c = R at hR
  split
  · exact hR
  · apply hR.trans
    rename_i y _
    have hadd : FlowsMono R.1 (if (st0.get? c.pt c.name).isSome = true then R.1 else R.1.add (y.satisfyMe ⟨p, n, out⟩)) := by
      split
      · exact FlowsMono.refl _
      · exact flowsMono_of_preserve (preserve_add _ _)
    apply hadd.trans
    exact flowsMono_of_sameFlows (satisfyTargets_sameFlows _ _ _)

theorem spawnChildren_fold_mono (g : Graph) (p : Int) (n out : String) :
    ∀ (cs : List Child) (acc : State × List (Int × String)),
      FlowsMono acc.1 (cs.foldl (spawnChild g p n out) acc).1 := by
  intro cs
  induction cs with
  | nil => intro acc; exact FlowsMono.refl _
  | cons c cs ih => intro acc; exact (spawnChild_mono g p n out acc c).trans (ih _)

theorem parentFlows_pooled {st : State} {p : Int} {n : String} {x : Proxy} (h : st.get? p n = some x) :
    parentFlows st p n = x.flows := by
  unfold parentFlows lookup
  simp [h]

/-- **child_inherits** over the whole child loop of `spawn_on_output`: a child that is in the pool once its turn
is over is in the pool at the end of the loop and carries every flow number the parent had at its turn -/
theorem children_inherit (g : Graph) (p : Int) (n out : String) (l1 l2 : List Child) (c : Child)
    (acc : State × List (Int × String)) (hne : ¬ (c.pt = p ∧ c.name = n)) (y1 : Proxy)
    (h1 : ((l1 ++ [c]).foldl (spawnChild g p n out) acc).1.get? c.pt c.name = some y1) :
    ∃ y, ((l1 ++ c :: l2).foldl (spawnChild g p n out) acc).1.get? c.pt c.name = some y ∧
      ∀ f ∈ parentFlows (l1.foldl (spawnChild g p n out) acc).1 p n, f ∈ y.flows := by
  rw [List.foldl_append] at h1
  simp only [List.foldl_cons, List.foldl_nil] at h1
  rw [List.foldl_append]
  simp only [List.foldl_cons]
  have hstep := (spawnChild_child_flows g p n out _ c hne y1 h1).1
  obtain ⟨y, hy, hf⟩ := spawnChildren_fold_mono g p n out l2 _ _ _ _ h1
  exact ⟨y, hy, fun f hfp => hf f (hstep f hfp)⟩

/-- ... for a parent that is in the pool: every flow number the parent had before the loop -/
theorem children_inherit_pooled (g : Graph) (p : Int) (n out : String) (l1 l2 : List Child) (c : Child)
    (acc : State × List (Int × String)) (hne : ¬ (c.pt = p ∧ c.name = n)) (x y1 : Proxy)
    (hx : acc.1.get? p n = some x)
    (h1 : ((l1 ++ [c]).foldl (spawnChild g p n out) acc).1.get? c.pt c.name = some y1) :
    ∃ y, ((l1 ++ c :: l2).foldl (spawnChild g p n out) acc).1.get? c.pt c.name = some y ∧
      ∀ f ∈ x.flows, f ∈ y.flows := by
  obtain ⟨y, hy, hf⟩ := children_inherit g p n out l1 l2 c acc hne y1 h1
  obtain ⟨x', hx', hxf⟩ := spawnChildren_fold_mono g p n out l1 acc _ _ _ hx
  rw [parentFlows_pooled hx'] at hf
  exact ⟨y, hy, fun f hfx => hf f (hxf f hfx)⟩

/-! ### no re-run in a flow -/

/-- **no_rerun_in_flow**: `spawn_task` returns no proxy when the database history of the instance in the given
flows ends in a final status and the outputs recorded for these flows satisfy the completion condition -/
theorem spawnTask_no_rerun (g : Graph) (fuel : Nat) (s : State) (name : String) (p : Int) (F : Flows) (fw : Bool)
    (x0 : Proxy) (t : TaskDefn) (hmk : mkProxy g name p = some x0) (ht : g.task? name = some t)
    (st : Status) (hprev : (taskHistory s name p F).2.1 = some st) (hfin : st.isFinal = true)
    (hcomp : isComplete t (loadHistoricalOutputs g s
      { x0 with flows := F, status := st, submitNum := (taskHistory s name p F).1, flowWait := fw }).2.done = true) :
    (spawnTask g (fuel + 1) s name p F fw).2 = none := by
  unfold spawnTask
  dsimp only
  simp only [hprev, Option.isNone_some, Bool.false_and, Bool.false_eq_true, if_false, hmk, ht, Option.getD_some,
    Option.isSome_some, Bool.true_and]
  split
  · rfl
  · have hf : histFinal (some st) = true := by unfold histFinal; exact hfin
    simp only [hf, Bool.true_and, hcomp, if_true]

end CylcModel.Sched3X
