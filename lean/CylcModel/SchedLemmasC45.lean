/-
C45 helper lemmas: the absolute-trigger invariant of the `Sched` model.

  AbsInv:  for every recorded absolute output `a ∈ absDone` and every pooled proxy `x` of a task that
           depends on `a` through an absolute trigger:  all prerequisites of `x` are satisfied, or
           every occurrence of atom `a` in `x` is satisfied, or the *first child* of the trigger (the
           instance listed in the graph children, at the start of the child's sequence) is neither in
           the pool nor spawnable (`Unavail` — the case in which `spawn_on_output` skips the update of
           the pooled instances; it is stable: such an instance can never enter the pool again).

It is an instance of `Frame` for every *exemption* `E` (pairs (atom, task) not yet served while
`spawnOnOutput` walks through the children of the completed output).
-/
import CylcModel.SchedFrame
import CylcModel.SchedAbsStart

namespace CylcModel.Sched

/-! ### monotonicity of satisfaction -/

theorem BE.eval_mono (sat sat' : Nat → Bool) (h : ∀ i, sat i = true → sat' i = true) :
    ∀ e : BE, e.eval sat = true → e.eval sat' = true := by
  intro e; induction e with
  | atom i => exact h i
  | and l r ihl ihr =>
    intro he
    simp only [BE.eval, Bool.and_eq_true] at he ⊢
    exact ⟨ihl he.1, ihr he.2⟩
  | or l r ihl ihr =>
    intro he
    simp only [BE.eval, Bool.or_eq_true] at he ⊢
    rcases he with he | he
    · exact Or.inl (ihl he)
    · exact Or.inr (ihr he)

theorem Pre.isSatisfied_satisfy (pr : Pre) (a : Atom) (h : pr.isSatisfied = true) :
    (pr.satisfy a).isSatisfied = true := by
  unfold Pre.isSatisfied at h ⊢
  have hexpr : (pr.satisfy a).expr = pr.expr := rfl
  rw [hexpr]
  cases he : pr.expr with
  | none =>
    simp only [he] at h ⊢
    apply List.all_eq_true.mpr
    intro e hm
    obtain ⟨e0, he0, _, h2⟩ := mem_satisfy_atoms hm
    exact h2 (List.all_eq_true.mp h e0 he0)
  | some ex =>
    simp only [he] at h ⊢
    refine BE.eval_mono _ _ ?_ ex h
    intro i hi
    unfold Pre.satisfy
    simp only [List.getElem?_map]
    cases hg : pr.atoms[i]? with
    | none => simp [hg] at hi
    | some e =>
      simp only [hg, Option.map_some] at hi ⊢
      obtain ⟨b, s⟩ := e
      simp only at hi ⊢
      split
      · rfl
      · exact hi

theorem prereqsSatisfied_satisfyMe (x : Proxy) (a : Atom) (h : x.prereqsSatisfied = true) :
    (x.satisfyMe a).prereqsSatisfied = true := by
  unfold Proxy.prereqsSatisfied at h ⊢
  unfold Proxy.satisfyMe
  simp only
  apply List.all_eq_true.mpr
  intro pr hpr
  obtain ⟨pr0, hpr0, rfl⟩ := List.mem_map.mp hpr
  exact Pre.isSatisfied_satisfy pr0 a (List.all_eq_true.mp h pr0 hpr0)

theorem atomSat_iff (x : Proxy) (a : Atom) :
    x.atomSat a = true ↔ ∀ pr ∈ x.pre, ∀ e ∈ pr.atoms, e.1 = a → e.2 = true := by
  unfold Proxy.atomSat
  constructor
  · intro h pr hpr e he hea
    have h1 := List.all_eq_true.mp (List.all_eq_true.mp h pr hpr) e he
    simp only [Bool.or_eq_true, Bool.not_eq_true', beq_eq_false_iff_ne, ne_eq] at h1
    rcases h1 with h1 | h1
    · exact absurd hea h1
    · exact h1
  · intro h
    apply List.all_eq_true.mpr
    intro pr hpr
    apply List.all_eq_true.mpr
    intro e he
    simp only [Bool.or_eq_true, Bool.not_eq_true', beq_eq_false_iff_ne, ne_eq]
    by_cases hea : e.1 = a
    · exact Or.inr (h pr hpr e he hea)
    · exact Or.inl hea

theorem atomSat_satisfyMe_mono (x : Proxy) (a b : Atom) (h : x.atomSat a = true) :
    (x.satisfyMe b).atomSat a = true := by
  rw [atomSat_iff] at h ⊢
  intro pr hpr e he hea
  unfold Proxy.satisfyMe at hpr
  simp only at hpr
  obtain ⟨pr0, hpr0, rfl⟩ := List.mem_map.mp hpr
  obtain ⟨e0, he0, h1, h2⟩ := mem_satisfy_atoms he
  exact h2 (h pr0 hpr0 e0 he0 (by rw [← h1]; exact hea))

theorem atomSat_satisfyMe_self (x : Proxy) (a : Atom) : (x.satisfyMe a).atomSat a = true := by
  rw [atomSat_iff]
  intro pr hpr e he hea
  unfold Proxy.satisfyMe at hpr
  simp only at hpr
  obtain ⟨pr0, hpr0, rfl⟩ := List.mem_map.mp hpr
  unfold Pre.satisfy at he
  simp only at he
  obtain ⟨e0, he0, rfl⟩ := List.mem_map.mp he
  obtain ⟨b, s⟩ := e0
  simp only at hea ⊢
  split
  · rfl
  · rename_i hne
    exfalso
    apply hne
    split at hea
    · simp only at hea; simp [hea]
    · simp only at hea; simp [hea]

theorem foldl_satisfyMe_prereqs (l : List Atom) (y : Proxy) (h : y.prereqsSatisfied = true) :
    (l.foldl (fun z a => z.satisfyMe a) y).prereqsSatisfied = true := by
  induction l generalizing y with
  | nil => exact h
  | cons a l ih => simp only [List.foldl_cons]; exact ih _ (prereqsSatisfied_satisfyMe y a h)

theorem foldl_satisfyMe_atomSat_mono (l : List Atom) (y : Proxy) (a : Atom) (h : y.atomSat a = true) :
    (l.foldl (fun z b => z.satisfyMe b) y).atomSat a = true := by
  induction l generalizing y with
  | nil => exact h
  | cons b l ih => simp only [List.foldl_cons]; exact ih _ (atomSat_satisfyMe_mono y a b h)

theorem foldl_satisfyMe_atomSat (l : List Atom) (y : Proxy) (a : Atom) (ha : a ∈ l) :
    (l.foldl (fun z b => z.satisfyMe b) y).atomSat a = true := by
  induction l generalizing y with
  | nil => simp at ha
  | cons b l ih =>
    simp only [List.foldl_cons]
    rcases List.mem_cons.mp ha with rfl | hm
    · exact foldl_satisfyMe_atomSat_mono l _ a (atomSat_satisfyMe_self y a)
    · exact ih _ hm

/-! ### dependents and the unavailable first child -/

def Dependent (g : Graph) (a : Atom) (d : String) : Prop := dependentB g a d = true

theorem dependent_iff (g : Graph) (a : Atom) (d : String) :
    Dependent g a d ↔ ∃ c ∈ absChildren g a, c.name = d := by
  unfold Dependent dependentB
  simp only [List.any_eq_true, beq_iff_eq]

/-- the first child of the absolute trigger `a → d` is not in the pool and `spawnTask` refuses it -/
def Unavail (g : Graph) (s : State) (a : Atom) (d : String) : Prop :=
  ∃ c ∈ absChildren g a, c.name = d ∧ s.get? c.pt c.name = none ∧ spawnTask g s c.name c.pt = none

theorem childrenOf_mem_graph {g : Graph} {x : Proxy} {out : String} {c : Child} (h : c ∈ childrenOf g x out) :
    ∃ t ∈ g.tasks, ∃ pd ∈ t.insts, ∃ oc ∈ pd.2.children, c ∈ oc.2 := by
  unfold childrenOf at h
  cases ht : g.task? x.name with
  | none => simp [ht] at h
  | some t =>
    cases hd : t.inst? x.pt with
    | none => simp [ht, hd] at h
    | some d =>
      simp only [ht, hd, Option.bind_some] at h
      cases hf : d.children.find? (·.1 == out) with
      | none => simp [hf] at h
      | some oc =>
        simp only [hf] at h
        exact ⟨t, task?_mem ht, (x.pt, d), inst?_mem hd, oc, List.mem_of_find?_eq_some hf, h⟩

/-- under `absWfB`, a task that depends on some output through an absolute trigger has `hasAbs` -/
theorem hasAbs_of_dependent {g : Graph} (hwf : absWfB g = true) {a : Atom} {d : String} (h : Dependent g a d) :
    ∃ t, g.task? d = some t ∧ t.hasAbs = true := by
  obtain ⟨c, hc, rfl⟩ := (dependent_iff g a d).mp h
  unfold absChildren at hc
  obtain ⟨hc1, hc2⟩ := List.mem_filter.mp hc
  obtain ⟨t, ht, pd, hpd, oc, hoc, hco⟩ := childrenOf_mem_graph hc1
  unfold absWfB at hwf
  have h1 := List.all_eq_true.mp (List.all_eq_true.mp (List.all_eq_true.mp (List.all_eq_true.mp hwf t ht) pd hpd) oc hoc) c hco
  simp only [hc2, Bool.not_true, Bool.false_or] at h1
  cases ht' : g.task? c.name with
  | none => simp [ht'] at h1
  | some t' =>
    simp only [ht'] at h1
    exact ⟨t', rfl, h1⟩

/-! ### the invariant as a frame -/

def QAbs (g : Graph) (E : Atom → String → Prop) (s : State) (x : Proxy) : Prop :=
  ∀ a ∈ s.absDone, Dependent g a x.name →
    E a x.name ∨ x.prereqsSatisfied = true ∨ x.atomSat a = true ∨ Unavail g s a x.name

def JTrue (_ : State) : Prop := True

/-- `Unavail` is stable under state changes that keep the first child out of the pool and unspawnable -/
theorem unavail_of {g : Graph} {s s' : State} {a : Atom} {d : String}
    (hget : ∀ p n, s.get? p n = none → spawnTask g s n p = none → s'.get? p n = none)
    (hsp : ∀ p n, s.get? p n = none → spawnTask g s n p = none → spawnTask g s' n p = none)
    (h : Unavail g s a d) : Unavail g s' a d := by
  obtain ⟨c, hc, hn, hg, hs⟩ := h
  exact ⟨c, hc, hn, hget _ _ hg hs, hsp _ _ hg hs⟩

theorem qabs_of {g : Graph} {E : Atom → String → Prop} {s s' : State} {x : Proxy}
    (ha : s'.absDone = s.absDone)
    (hget : ∀ p n, s.get? p n = none → spawnTask g s n p = none → s'.get? p n = none)
    (hsp : ∀ p n, s.get? p n = none → spawnTask g s n p = none → spawnTask g s' n p = none)
    (h : QAbs g E s x) : QAbs g E s' x := by
  intro a hm hd
  rw [ha] at hm
  rcases h a hm hd with h1 | h1 | h1 | h1
  · exact Or.inl h1
  · exact Or.inr (Or.inl h1)
  · exact Or.inr (Or.inr (Or.inl h1))
  · exact Or.inr (Or.inr (Or.inr (unavail_of hget hsp h1)))

theorem lastHist_append_ne (hist : List Hist) (e : Hist) (n : String) (p : Int)
    (hne : ¬ (e.pt = p ∧ e.name = n)) : lastHist (hist ++ [e]) n p = lastHist hist n p := by
  unfold lastHist
  rw [List.filter_append]
  have : List.filter (fun h => h.pt == p && h.name == n) [e] = [] := by
    simp only [List.filter_cons, List.filter_nil]
    split
    · rename_i hc
      simp only [Bool.and_eq_true, beq_iff_eq] at hc
      exact absurd hc hne
    · rfl
  rw [this, List.append_nil]

theorem spawnCore_append_ne (g : Graph) (hist : List Hist) (e : Hist) (n : String) (p : Int)
    (hne : ¬ (e.pt = p ∧ e.name = n)) : spawnCore g (hist ++ [e]) n p = spawnCore g hist n p := by
  unfold spawnCore
  rw [lastHist_append_ne hist e n p hne]

theorem get?_none_of_sub {s s' : State} (hsub : ∀ x ∈ s'.pool, x ∈ s.pool) {p : Int} {n : String}
    (h : s.get? p n = none) : s'.get? p n = none := by
  cases hg : s'.get? p n with
  | none => rfl
  | some x =>
    exfalso
    obtain ⟨hx, hp, hn⟩ := get?_mem hg
    exact get?_none_forall h x (hsub x hx) ⟨hp, hn⟩

theorem frameAbs (g : Graph) (hwf : absWfB g = true) (E : Atom → String → Prop) :
    Frame g (fun _ => True) (QAbs g E) JTrue where
  qcongr := by
    intro s s' x hk hh ha h
    refine qabs_of ha ?_ ?_ h
    · intro p n hg _
      exact get?_eq_none_of_keys hk p n hg
    · intro p n _ hs
      rw [spawnTask_congr g hh ha]; exact hs
  jcongr := fun _ _ _ _ _ _ _ => trivial
  upd := by
    intro s x x' h hs a hm hd
    rw [hs.2.1] at hd ⊢
    have hp : x'.prereqsSatisfied = x.prereqsSatisfied := by unfold Proxy.prereqsSatisfied; rw [hs.2.2]
    have hq : x'.atomSat a = x.atomSat a := by unfold Proxy.atomSat; rw [hs.2.2]
    rw [hp, hq]
    exact h a hm hd
  sat := by
    intro s x b h a hm hd
    rcases h a hm hd with h1 | h1 | h1 | h1
    · exact Or.inl h1
    · exact Or.inr (Or.inl (prereqsSatisfied_satisfyMe x b h1))
    · exact Or.inr (Or.inr (Or.inl (atomSat_satisfyMe_mono x a b h1)))
    · exact Or.inr (Or.inr (Or.inr h1))
  child := fun _ _ _ _ _ _ => trivial
  nextp := fun _ _ _ _ _ => trivial
  spawn := by
    intro s n p z _ _ hz a hm hd
    have hk := spawnTask_key hz
    rw [hk.2] at hd ⊢
    obtain ⟨t, ht, habs⟩ := hasAbs_of_dependent hwf hd
    rw [spawnTask_eq] at hz
    cases hc : spawnCore g s.hist n p with
    | none => simp [hc] at hz
    | some y =>
      simp only [hc, Option.map_some, Option.some.injEq] at hz
      subst hz
      by_cases hy : y.prereqsSatisfied = true
      · have he : absFinish g s.absDone n y = y := by
          unfold absFinish
          simp [ht, hy]
        rw [he]
        exact Or.inr (Or.inl hy)
      · have he : absFinish g s.absDone n y = s.absDone.foldl (fun z a => z.satisfyMe a) y := by
          unfold absFinish
          simp [ht, habs, hy]
        rw [he]
        exact Or.inr (Or.inr (Or.inl (foldl_satisfyMe_atomSat _ _ _ hm)))
  add := by
    intro s z h hz hsome hnone
    have hget : ∀ p n, s.get? p n = none → spawnTask g s n p = none →
        State.get? { s with pool := s.pool ++ [z] } p n = none := by
      intro p n hg hs
      cases hg' : State.get? { s with pool := s.pool ++ [z] } p n with
      | none => rfl
      | some x =>
        exfalso
        obtain ⟨hx, hp, hn⟩ := get?_mem hg'
        rcases List.mem_append.mp hx with hx | hx
        · exact get?_none_forall hg x hx ⟨hp, hn⟩
        · simp at hx; subst hx
          rw [hp, hn, hs] at hsome
          simp at hsome
    refine ⟨?_, trivial⟩
    intro x hx
    have hq : QAbs g E s x := by
      rcases List.mem_append.mp hx with hx | hx
      · exact h.1 x hx
      · simp at hx; subst hx; exact hz
    exact qabs_of (s := s) (s' := { s with pool := s.pool ++ [z] }) rfl hget
      (fun p n _ hs => (spawnTask_congr (s := s) (s' := { s with pool := s.pool ++ [z] }) g rfl rfl n p).trans hs) hq
  remove := by
    intro s x gh h hx
    refine ⟨?_, trivial⟩
    intro y hy
    have hy' := (List.mem_filter.mp hy).1
    refine qabs_of (s := s) rfl ?_ ?_ (h.1 y hy')
    · intro p n hg _
      exact get?_none_of_sub (s := s) (fun z hz => (List.mem_filter.mp hz).1) hg
    · intro p n hg hs
      rw [spawnTask_none_iff] at hs ⊢
      show spawnCore g (s.hist ++ [⟨x.pt, x.name, x.status, x.submitNum, x.done⟩]) n p = none
      rw [spawnCore_append_ne]
      · exact hs
      · exact get?_none_forall hg x hx
  launch := by
    intro s x n h _
    refine ⟨?_, trivial⟩
    intro y hy
    exact qabs_of (s := s) rfl (fun p n hg _ => hg) (fun p n _ hs => hs) (h.1 y hy)
  clear := by
    intro s h
    refine ⟨?_, trivial⟩
    intro y hy
    exact qabs_of (s := s) rfl (fun p n hg _ => hg) (fun p n _ hs => hs) (h.1 y hy)

/-! ### one child of `spawn_on_output` -/

theorem mem_put' {s : State} {z x : Proxy} (h : x ∈ (s.put z).pool) :
    x = z ∨ (x ∈ s.pool ∧ ¬ (x.pt = z.pt ∧ x.name = z.name)) := by
  unfold State.put at h
  simp only at h
  obtain ⟨y, hy, rfl⟩ := List.mem_map.mp h
  split
  · exact Or.inl rfl
  · rename_i hc
    simp only [Bool.and_eq_true, beq_iff_eq] at hc
    exact Or.inr ⟨hy, hc⟩

/-- after the satisfaction fold every pooled proxy whose key is among the targets has the atom -/
theorem targets_atomSat (a : Atom) (nm : String) :
    ∀ (ks : List (Int × String)) (acc : State × List (Int × String)),
      (∀ x ∈ acc.1.pool, x.name = nm → (x.pt, x.name) ∈ ks ∨ x.atomSat a = true) →
      ∀ x ∈ (ks.foldl (fun (acc : State × List (Int × String)) (k : Int × String) =>
        match acc.1.get? k.1 k.2 with
        | none => acc
        | some z =>
          let z := z.satisfyMe a
          (acc.1.put z, if z.suicideNow && !acc.2.contains k then acc.2 ++ [k] else acc.2)) acc).1.pool,
        x.name = nm → x.atomSat a = true := by
  intro ks; induction ks with
  | nil =>
    intro acc h x hx hn
    rcases h x hx hn with h1 | h1
    · simp at h1
    · exact h1
  | cons k ks ih =>
    intro acc h
    simp only [List.foldl_cons]
    apply ih
    intro x hx hn
    split at hx
    · rename_i hg
      rcases h x hx hn with h1 | h1
      · rcases List.mem_cons.mp h1 with h2 | h2
        · exfalso
          have := get?_none_forall hg x hx
          apply this
          rw [← h2]; exact ⟨rfl, rfl⟩
        · exact Or.inl h2
      · exact Or.inr h1
    · rename_i z hz
      simp only at hx
      obtain ⟨_, hzp, hzn⟩ := get?_mem hz
      rcases mem_put' hx with h1 | ⟨h1, hne⟩
      · rw [h1]; exact Or.inr (atomSat_satisfyMe_self z a)
      · rcases h x h1 hn with h2 | h2
        · rcases List.mem_cons.mp h2 with h3 | h3
          · exfalso
            apply hne
            simp only [satisfyMe_pt, satisfyMe_name, hzp, hzn]
            rw [← h3]; exact ⟨rfl, rfl⟩
          · exact Or.inl h3
        · exact Or.inr h2

theorem mem_targets (l : List (Int × String)) (k a : Int × String) (h : a ∈ l) :
    a ∈ (if l.contains k = true then l else l ++ [k]) := by
  split
  · exact h
  · exact List.mem_append_left _ h

/-- when the first child of an absolute trigger is found or spawned, every pooled proxy of the child
task has the atom afterwards -/
theorem spawnChildCore_abs_sat (g : Graph) (p : Int) (n out : String) (st0 : State) (sui : List (Int × String))
    (c : Child) (habs : c.isAbs = true)
    (hsome : (match st0.get? c.pt c.name with
      | some y => some y
      | none => spawnTask g st0 c.name c.pt) ≠ none) :
    ∀ x ∈ (spawnChildCore g p n out st0 sui c).1.pool, x.name = c.name → x.atomSat ⟨p, n, out⟩ = true := by
  unfold spawnChildCore
  split
  · rename_i hnone
    exact absurd hnone hsome
  · rename_i y _
    simp only [habs, if_true]
    apply targets_atomSat
    intro x hx hn
    left
    have hmem : (x.pt, x.name) ∈ (List.filter (fun (z : Proxy) => z.name == c.name)
        (if (st0.get? c.pt c.name).isSome = true then st0
          else st0.add (y.satisfyMe ⟨p, n, out⟩)).pool).map fun (z : Proxy) => (z.pt, z.name) := by
      apply List.mem_map.mpr
      exact ⟨x, List.mem_filter.mpr ⟨hx, by simp [hn]⟩, rfl⟩
    exact mem_targets _ _ _ hmem

theorem spawnChildCore_none (g : Graph) (p : Int) (n out : String) (st0 : State) (sui : List (Int × String))
    (c : Child)
    (hnone : (match st0.get? c.pt c.name with
      | some y => some y
      | none => spawnTask g st0 c.name c.pt) = none) :
    spawnChildCore g p n out st0 sui c = (st0, sui) := by
  unfold spawnChildCore
  split
  · rfl
  · rename_i y hy
    exact absurd (hnone.symm.trans hy) (by simp)

theorem absDone_targets (a : Atom) :
    ∀ (ks : List (Int × String)) (acc : State × List (Int × String)),
      (ks.foldl (fun (acc : State × List (Int × String)) (k : Int × String) =>
        match acc.1.get? k.1 k.2 with
        | none => acc
        | some z =>
          let z := z.satisfyMe a
          (acc.1.put z, if z.suicideNow && !acc.2.contains k then acc.2 ++ [k] else acc.2)) acc).1.absDone
        = acc.1.absDone := by
  intro ks; induction ks with
  | nil => intro acc; rfl
  | cons k ks ih =>
    intro acc
    simp only [List.foldl_cons]
    rw [ih]
    split <;> rfl

theorem absDone_add (s : State) (z : Proxy) : (s.add z).absDone = s.absDone := by
  unfold State.add; split <;> rfl

theorem absDone_spawnChildCore (g : Graph) (p : Int) (n out : String) (st0 : State) (sui : List (Int × String))
    (c : Child) : (spawnChildCore g p n out st0 sui c).1.absDone = st0.absDone := by
  unfold spawnChildCore
  split
  · rfl
  · refine (absDone_targets ⟨p, n, out⟩ _ _).trans ?_
    dsimp only
    split
    · rfl
    · exact absDone_add _ _

/-- weakening of the exemption -/
theorem holdsAbs_mono {g : Graph} {E E' : Atom → String → Prop} {s : State}
    (hE : ∀ a d, E a d → E' a d) (h : Holds (QAbs g E) JTrue s) : Holds (QAbs g E') JTrue s := by
  refine ⟨?_, trivial⟩
  intro x hx a hm hd
  rcases h.1 x hx a hm hd with h1 | h1
  · exact Or.inl (hE _ _ h1)
  · exact Or.inr h1

/-- exemption after serving child `c` -/
def Minus (E : Atom → String → Prop) (c : Child) : Atom → String → Prop :=
  fun a d => E a d ∧ ¬ (c.isAbs = true ∧ c.name = d)

/-- **one child**: the invariant with exemption `E` (covering the atom being completed while it is not
yet recorded) becomes the invariant with `c`'s task no longer exempt -/
theorem holdsAbs_spawnChild (g : Graph) (hwf : absWfB g = true) (p : Int) (n out : String)
    (E : Atom → String → Prop) (acc : State × List (Int × String)) (c : Child)
    (hc : c.isAbs = true → c ∈ absChildren g ⟨p, n, out⟩)
    (h : Holds (QAbs g E) JTrue acc.1)
    (hE : (⟨p, n, out⟩ : Atom) ∉ acc.1.absDone → ∀ d, E ⟨p, n, out⟩ d)
    (hE' : ∀ a d, E a d → a = ⟨p, n, out⟩) :
    Holds (QAbs g (Minus E c)) JTrue (spawnChild g p n out acc c).1 ∧
      ((⟨p, n, out⟩ : Atom) ∉ (spawnChild g p n out acc c).1.absDone → ∀ d, Minus E c ⟨p, n, out⟩ d) := by
  obtain ⟨st, sui⟩ := acc
  rw [spawnChild_eq]
  simp only at h hE
  -- the state after the recording step
  have h0 : Holds (QAbs g E) JTrue (if (c.isAbs && !st.absDone.contains ⟨p, n, out⟩) = true then
      { st with absDone := st.absDone ++ [⟨p, n, out⟩] } else st) := by
    split
    · rename_i hcond
      simp only [Bool.and_eq_true, Bool.not_eq_true', List.contains_eq_mem, decide_eq_false_iff_not] at hcond
      refine ⟨?_, trivial⟩
      intro x hx a hm hd
      rcases List.mem_append.mp hm with hm | hm
      · rcases h.1 x hx a hm hd with h1 | h1 | h1 | h1
        · exact Or.inl h1
        · exact Or.inr (Or.inl h1)
        · exact Or.inr (Or.inr (Or.inl h1))
        · refine Or.inr (Or.inr (Or.inr (unavail_of (s := st) (fun _ _ hg _ => hg) ?_ h1)))
          intro p' n' _ hs
          rw [spawnTask_none_iff] at hs ⊢
          exact hs
      · simp at hm; subst hm
        exact Or.inl (hE hcond.2 _)
    · exact h
  have hrec : c.isAbs = true → (⟨p, n, out⟩ : Atom) ∈ (if (c.isAbs && !st.absDone.contains ⟨p, n, out⟩) = true then
      { st with absDone := st.absDone ++ [⟨p, n, out⟩] } else st).absDone := by
    intro habs
    split
    · simp
    · rename_i hcond
      simp only [habs, Bool.true_and, Bool.not_eq_true', Bool.not_eq_false, List.contains_eq_mem,
        decide_eq_true_eq] at hcond
      exact hcond
  have hsub : ∀ a ∈ st.absDone, a ∈ (if (c.isAbs && !st.absDone.contains ⟨p, n, out⟩) = true then
      { st with absDone := st.absDone ++ [⟨p, n, out⟩] } else st).absDone := by
    intro a ha
    split
    · exact List.mem_append_left _ ha
    · exact ha
  generalize (if (c.isAbs && !st.absDone.contains ⟨p, n, out⟩) = true then
      { st with absDone := st.absDone ++ [⟨p, n, out⟩] } else st) = st0 at h0 hrec hsub ⊢
  have hcore := (frameAbs g hwf E).holds_spawnChild_core p n out st0 sui c trivial h0
  have hdone := absDone_spawnChildCore g p n out st0 sui c
  constructor
  · refine ⟨?_, trivial⟩
    intro x hx a hm hd
    rcases hcore.1 x hx a hm hd with h1 | h1
    · -- exempt under `E`: either still exempt, or served now
      by_cases hcd : c.isAbs = true ∧ c.name = x.name
      · have ha : a = ⟨p, n, out⟩ := hE' _ _ h1
        subst ha
        right
        cases hch : (match st0.get? c.pt c.name with
            | some y => some y
            | none => spawnTask g st0 c.name c.pt) with
        | none =>
          -- the first child is unavailable
          rw [spawnChildCore_none g p n out st0 sui c hch] at hx ⊢
          right; right
          refine ⟨c, hc hcd.1, hcd.2, ?_, ?_⟩
          · cases hg : st0.get? c.pt c.name with
            | none => rfl
            | some y => simp [hg] at hch
          · cases hg : st0.get? c.pt c.name with
            | none => simpa [hg] using hch
            | some y => simp [hg] at hch
        | some y =>
          right; left
          exact spawnChildCore_abs_sat g p n out st0 sui c hcd.1 (by rw [hch]; simp) x hx hcd.2.symm
      · exact Or.inl ⟨h1, hcd⟩
    · exact Or.inr h1
  · intro hnot d
    rw [hdone] at hnot
    have hnot' : (⟨p, n, out⟩ : Atom) ∉ st.absDone := fun hm => hnot (hsub _ hm)
    refine ⟨hE hnot' d, ?_⟩
    intro hcd
    exact hnot (hrec hcd.1)

/-- exemption after serving a list of children -/
def MinusL (E : Atom → String → Prop) (cs : List Child) : Atom → String → Prop :=
  fun a d => E a d ∧ ∀ c ∈ cs, ¬ (c.isAbs = true ∧ c.name = d)

theorem holdsAbs_children (g : Graph) (hwf : absWfB g = true) (p : Int) (n out : String) :
    ∀ (cs : List Child) (E : Atom → String → Prop) (acc : State × List (Int × String)),
      (∀ c ∈ cs, c.isAbs = true → c ∈ absChildren g ⟨p, n, out⟩) →
      Holds (QAbs g E) JTrue acc.1 →
      ((⟨p, n, out⟩ : Atom) ∉ acc.1.absDone → ∀ d, E ⟨p, n, out⟩ d) →
      (∀ a d, E a d → a = ⟨p, n, out⟩) →
      Holds (QAbs g (MinusL E cs)) JTrue (cs.foldl (spawnChild g p n out) acc).1 := by
  intro cs; induction cs with
  | nil =>
    intro E acc _ h _ _
    exact holdsAbs_mono (fun a d he => ⟨he, by intro c hc; simp at hc⟩) h
  | cons c cs ih =>
    intro E acc hcs h hE hE'
    simp only [List.foldl_cons]
    obtain ⟨h1, h2⟩ := holdsAbs_spawnChild g hwf p n out E acc c (hcs c (List.mem_cons_self ..)) h hE hE'
    have h3 := ih (Minus E c) _ (fun c' hc' => hcs c' (List.mem_cons_of_mem _ hc')) h1 h2
      (fun a d he => hE' a d he.1)
    refine holdsAbs_mono ?_ h3
    intro a d he
    refine ⟨he.1.1, ?_⟩
    intro c' hc'
    rcases List.mem_cons.mp hc' with rfl | hc'
    · exact he.1.2
    · exact he.2 c' hc'

def NoExempt : Atom → String → Prop := fun _ _ => False

/-- the C45 invariant -/
def AbsInv (g : Graph) (s : State) : Prop := Holds (QAbs g NoExempt) JTrue s

/-- **`spawn_on_output` keeps the invariant** -/
theorem absInv_spawnOnOutput (g : Graph) (hwf : absWfB g = true) (s : State) (p : Int) (n out : String)
    (h : AbsInv g s) : AbsInv g (spawnOnOutput g s p n out) := by
  apply (frameAbs g hwf NoExempt).holds_spawnOnOutput_of_children s p n out h
  intro x hx
  obtain ⟨_, hxp, hxn⟩ := get?_mem hx
  split
  · exact h
  · -- exemption: the atom being completed, while it is not yet recorded
    let E0 : Atom → String → Prop := fun a _ => a = ⟨p, n, out⟩ ∧ (⟨p, n, out⟩ : Atom) ∉ s.absDone
    have hchildren : childrenOf g x out = childrenOf g { pt := p, name := n } out :=
      childrenOf_congr g x _ out hxp hxn
    have hfold := holdsAbs_children g hwf p n out (childrenOf g x out) E0 (s, [])
      (by
        intro c hc habs
        unfold absChildren
        rw [hchildren] at hc
        exact List.mem_filter.mpr ⟨hc, habs⟩)
      (holdsAbs_mono (fun a d he => absurd he id) h)
      (fun hnot _ => ⟨rfl, hnot⟩)
      (fun a d he => he.1)
    refine ⟨?_, trivial⟩
    intro y hy a hm hd
    rcases hfold.1 y hy a hm hd with h1 | h1
    · exfalso
      obtain ⟨⟨ha, _⟩, hall⟩ := h1
      subst ha
      obtain ⟨c, hc, hcn⟩ := (dependent_iff g _ _).mp hd
      unfold absChildren at hc
      obtain ⟨hc1, hc2⟩ := List.mem_filter.mp hc
      rw [← hchildren] at hc1
      exact hall c hc1 ⟨hc2, hcn⟩
    · exact Or.inr h1

theorem absInv_empty (g : Graph) : AbsInv g ({} : State) := by
  refine ⟨?_, trivial⟩
  intro x hx
  simp at hx

/-- the invariant holds in every state of every run -/
theorem absInv_run (g : Graph) (hwf : absWfB g = true) (ops : List Op) : ∀ s ∈ run g ops, AbsInv g s :=
  (frameAbs g hwf NoExempt).holds_run (absInv_spawnOnOutput g hwf) (absInv_empty g) (fun _ _ _ _ => trivial) ops

/-! ### a recorded absolute output stays recorded -/

def QTrue (_ : State) (_ : Proxy) : Prop := True

theorem frameRec (g : Graph) (a : Atom) : Frame g (fun _ => True) QTrue (fun s => a ∈ s.absDone) where
  child := fun _ _ _ _ _ _ => trivial
  nextp := fun _ _ _ _ _ => trivial
  qcongr := fun _ _ _ _ _ _ _ => trivial
  jcongr := by intro s s' _ _ ha _ h; rw [ha]; exact h
  upd := fun _ _ _ _ _ => trivial
  sat := fun _ _ _ _ => trivial
  spawn := fun _ _ _ _ _ _ _ => trivial
  add := fun _ _ h _ _ _ => ⟨fun _ _ => trivial, h.2⟩
  remove := fun _ _ _ h _ => ⟨fun _ _ => trivial, h.2⟩
  launch := fun _ _ _ h _ => ⟨fun _ _ => trivial, h.2⟩
  clear := fun _ h => ⟨fun _ _ => trivial, h.2⟩

theorem absClosedRec (a : Atom) : AbsClosed QTrue (fun s => a ∈ s.absDone) := by
  intro s b h
  exact ⟨fun _ _ => trivial, List.mem_append_left _ h.2⟩

theorem absDone_step (g : Graph) (s : State) (op : Op) (a : Atom) (h : a ∈ s.absDone) :
    a ∈ (step g s op).absDone :=
  ((frameRec g a).holds_step ((frameRec g a).holds_spawnOnOutput (absClosedRec a)) s op
    ⟨fun _ _ => trivial, h⟩).2

/-! ### completing an absolute output records it -/

theorem absDone_spawnChild_sub (g : Graph) (p : Int) (n out : String) (acc : State × List (Int × String))
    (c : Child) (a : Atom) (h : a ∈ acc.1.absDone) : a ∈ (spawnChild g p n out acc c).1.absDone :=
  ((frameRec g a).holds_spawnChild (absClosedRec a) p n out acc c trivial ⟨fun _ _ => trivial, h⟩).2

theorem absDone_spawnChild_records (g : Graph) (p : Int) (n out : String) (acc : State × List (Int × String))
    (c : Child) (habs : c.isAbs = true) : (⟨p, n, out⟩ : Atom) ∈ (spawnChild g p n out acc c).1.absDone := by
  obtain ⟨st, sui⟩ := acc
  rw [spawnChild_eq, absDone_spawnChildCore]
  split
  · simp
  · rename_i hcond
    simp only [habs, Bool.true_and, Bool.not_eq_true', Bool.not_eq_false, List.contains_eq_mem,
      decide_eq_true_eq] at hcond
    exact hcond

theorem absDone_children_records (g : Graph) (p : Int) (n out : String) :
    ∀ (cs : List Child) (acc : State × List (Int × String)), (∃ c ∈ cs, c.isAbs = true) →
      (⟨p, n, out⟩ : Atom) ∈ (cs.foldl (spawnChild g p n out) acc).1.absDone := by
  intro cs; induction cs with
  | nil => intro acc h; obtain ⟨c, hc, _⟩ := h; simp at hc
  | cons c cs ih =>
    intro acc h
    simp only [List.foldl_cons]
    by_cases habs : c.isAbs = true
    · have h1 := absDone_spawnChild_records g p n out acc c habs
      have : ∀ (cs : List Child) (acc : State × List (Int × String)), (⟨p, n, out⟩ : Atom) ∈ acc.1.absDone →
          (⟨p, n, out⟩ : Atom) ∈ (cs.foldl (spawnChild g p n out) acc).1.absDone := by
        intro cs; induction cs with
        | nil => intro acc h; exact h
        | cons c cs ih2 => intro acc h; exact ih2 _ (absDone_spawnChild_sub g p n out acc c _ h)
      exact this cs _ h1
    · apply ih
      obtain ⟨c', hc', habs'⟩ := h
      rcases List.mem_cons.mp hc' with rfl | hc'
      · exact absurd habs' habs
      · exact ⟨c', hc', habs'⟩

/-- `spawn_on_output` for an output of a pooled (flowing) instance that has an absolute child records
the output in `absDone` -/
theorem spawnOnOutput_records (g : Graph) (s : State) (p : Int) (n out : String) (x : Proxy)
    (hx : s.get? p n = some x) (hfl : x.flows.isEmpty = false)
    (habs : ∃ c ∈ childrenOf g x out, c.isAbs = true) :
    (⟨p, n, out⟩ : Atom) ∈ (spawnOnOutput g s p n out).absDone := by
  unfold spawnOnOutput
  simp only [hx, hfl, Bool.false_eq_true, if_false]
  generalize hR : (List.foldl (spawnChild g p n out) (s, []) _) = R
  have hRn : (⟨p, n, out⟩ : Atom) ∈ R.1.absDone := by
    rw [← hR]; exact absDone_children_records g p n out _ _ habs
  have F := frameRec g ⟨p, n, out⟩
  have h3 := F.holds_suicides R.2 R.1 ⟨fun _ _ => trivial, hRn⟩
  split
  · rename_i x' hx'
    exact (F.holds_removeIfComplete _ _ h3 (get?_mem hx').1).2
  · exact h3.2

end CylcModel.Sched
