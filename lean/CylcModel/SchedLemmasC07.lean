/-
Helper lemmas for C07 (cycle bounds / sequences / stop point): the inductive invariant `Inv07`
of the `Sched` model, one lemma per primitive, lifted with `run_inv`.
-/
import CylcModel.SchedLemmas

namespace CylcModel.Sched

/-- `(p, n)` is an instance of the graph: within `[icp, fcp]` and a valid point of task `n` -/
def ValidKey (g : Graph) (p : Int) (n : String) : Prop :=
  g.icp ≤ p ∧ p ≤ g.fcp ∧ ∃ t, g.task? n = some t ∧ (t.inst? p).isSome = true

/-- `p` lies beyond the stop point in effect -/
def beyondStop (g : Graph) (p : Int) : Prop := ∃ sp, g.stopPoint = some sp ∧ sp < p

/-- a proxy is a valid instance, and when beyond the stop point it is runahead-limited and not queued -/
def Good (g : Graph) (x : Proxy) : Prop :=
  ValidKey g x.pt x.name ∧ (beyondStop g x.pt → x.runahead = true ∧ x.queued = false)

structure Inv07 (g : Graph) (s : State) : Prop where
  pool : ∀ x ∈ s.pool, Good g x
  ghosts : ∀ x ∈ s.ghosts, Good g x
  hist : ∀ h ∈ s.hist, ValidKey g h.pt h.name
  limit : ∀ lim, s.rhLimit = some lim → ¬ beyondStop g lim
  launched : ∀ l ∈ s.launched, ¬ beyondStop g l.1 ∧ ValidKey g l.1 l.2.1

theorem foldl_inv_mem {α σ} (P : σ → Prop) (f : σ → α → σ) :
    ∀ (l : List α) (s : σ), (∀ s a, a ∈ l → P s → P (f s a)) → P s → P (l.foldl f s) := by
  intro l; induction l with
  | nil => intro s _ hs; exact hs
  | cons a l ih =>
    intro s h hs
    exact ih _ (fun s b hb => h s b (List.mem_cons_of_mem _ hb)) (h s a (List.mem_cons_self ..) hs)

theorem beyond_mono (g : Graph) {p q : Int} (hpq : p ≤ q) (h : ¬ beyondStop g q) : ¬ beyondStop g p := by
  intro ⟨sp, h1, h2⟩
  exact h ⟨sp, h1, by omega⟩

/-! ### field lemmas for the proxy updates used by the model -/

theorem reset_pt (x : Proxy) (st : Option Status) (q r : Option Bool) : (x.reset st q r).pt = x.pt := by
  unfold Proxy.reset; simp only; split <;> rfl

theorem reset_name (x : Proxy) (st : Option Status) (q r : Option Bool) : (x.reset st q r).name = x.name := by
  unfold Proxy.reset; simp only; split <;> rfl

theorem reset_queued (x : Proxy) (st : Option Status) (q r : Option Bool) :
    (x.reset st q r).queued = q.getD x.queued := by
  unfold Proxy.reset; simp only; split
  · rename_i h
    simp only [Bool.and_eq_true, beq_iff_eq] at h
    exact h.1.2.symm
  · rfl

theorem reset_runahead (x : Proxy) (st : Option Status) (q r : Option Bool) :
    (x.reset st q r).runahead = r.getD x.runahead := by
  unfold Proxy.reset; simp only; split
  · rename_i h
    simp only [Bool.and_eq_true, beq_iff_eq] at h
    exact h.2.symm
  · rfl

theorem reset_status (x : Proxy) (st : Option Status) (q r : Option Bool) :
    (x.reset st q r).status = st.getD x.status := by
  unfold Proxy.reset; simp only; split
  · rename_i h
    simp only [Bool.and_eq_true, beq_iff_eq] at h
    exact h.1.1.symm
  · rfl

theorem reset_submitNum (x : Proxy) (st : Option Status) (q r : Option Bool) :
    (x.reset st q r).submitNum = x.submitNum := by
  unfold Proxy.reset; simp only; split <;> rfl

theorem reset_done (x : Proxy) (st : Option Status) (q r : Option Bool) : (x.reset st q r).done = x.done := by
  unfold Proxy.reset; simp only; split <;> rfl

theorem reset_pre (x : Proxy) (st : Option Status) (q r : Option Bool) : (x.reset st q r).pre = x.pre := by
  unfold Proxy.reset; simp only; split <;> rfl

theorem reset_held (x : Proxy) (st : Option Status) (q r : Option Bool) : (x.reset st q r).held = x.held := by
  unfold Proxy.reset; simp only; split <;> rfl

theorem setComplete_fields (g : Graph) (x : Proxy) (m : String) :
    (setComplete g x m).1.pt = x.pt ∧ (setComplete g x m).1.name = x.name ∧
    (setComplete g x m).1.runahead = x.runahead ∧ (setComplete g x m).1.queued = x.queued ∧
    (setComplete g x m).1.status = x.status := by
  unfold setComplete; split
  · simp
  · split <;> simp

/-- a proxy with the same key whose control flags are at least as restrictive stays `Good` -/
theorem good_mod {g : Graph} {x : Proxy} (hx : Good g x) (y : Proxy) (h1 : y.pt = x.pt) (h2 : y.name = x.name)
    (h3 : beyondStop g x.pt → y.runahead = true ∧ y.queued = false) : Good g y := by
  refine ⟨by rw [h1, h2]; exact hx.1, ?_⟩
  intro hb; rw [h1] at hb; exact h3 hb

theorem good_same {g : Graph} {x : Proxy} (hx : Good g x) (y : Proxy) (h1 : y.pt = x.pt) (h2 : y.name = x.name)
    (h3 : y.runahead = x.runahead) (h4 : y.queued = x.queued ∨ y.queued = false) : Good g y := by
  apply good_mod hx y h1 h2
  intro hb
  have := hx.2 hb
  refine ⟨by rw [h3]; exact this.1, ?_⟩
  rcases h4 with h | h
  · rw [h]; exact this.2
  · exact h

/-! ### pool primitives -/

theorem get?_mem {s : State} {p : Int} {n : String} {x : Proxy} (h : s.get? p n = some x) :
    x ∈ s.pool ∧ x.pt = p ∧ x.name = n := by
  unfold State.get? at h
  refine ⟨List.mem_of_find?_eq_some h, ?_⟩
  have := List.find?_some h
  simpa using this

theorem inv_put {g : Graph} {s : State} (h : Inv07 g s) {x : Proxy} (hx : Good g x) : Inv07 g (s.put x) := by
  refine ⟨?_, h.ghosts, h.hist, h.limit, h.launched⟩
  intro y hy
  unfold State.put at hy
  simp only at hy
  obtain ⟨z, hz, rfl⟩ := List.mem_map.mp hy
  split
  · exact hx
  · exact h.pool z hz

theorem inv_add {g : Graph} {s : State} (h : Inv07 g s) {x : Proxy} (hx : Good g x) : Inv07 g (s.add x) := by
  unfold State.add
  split
  · exact h
  · refine ⟨?_, h.ghosts, h.hist, h.limit, h.launched⟩
    intro y hy
    simp only at hy
    rcases List.mem_append.mp hy with hy | hy
    · exact h.pool y hy
    · simp at hy; subst hy; exact hx

theorem mkProxy_good {g : Graph} {n : String} {p : Int} {x : Proxy} (h : mkProxy g n p = some x) : Good g x := by
  unfold mkProxy at h
  cases ht : g.task? n with
  | none => simp [ht] at h
  | some t =>
    simp only [ht] at h
    by_cases hb : (p < g.icp || p > g.fcp) = true
    · simp [hb] at h
    · cases hd : t.inst? p with
      | none => simp [hb, hd] at h
      | some d =>
        simp [hb, hd] at h
        subst h
        simp only [Bool.or_eq_true, decide_eq_true_eq, not_or, Int.not_lt] at hb
        have h2 : p ≤ g.fcp := by omega
        refine ⟨⟨hb.1, h2, t, ht, by simp [hd]⟩, ?_⟩
        intro _; exact ⟨rfl, rfl⟩

theorem mkProxy_key {g : Graph} {n : String} {p : Int} {x : Proxy} (h : mkProxy g n p = some x) :
    x.pt = p ∧ x.name = n := by
  unfold mkProxy at h
  cases ht : g.task? n with
  | none => simp [ht] at h
  | some t =>
    simp only [ht] at h
    by_cases hb : (p < g.icp || p > g.fcp) = true
    · simp [hb] at h
    · cases hd : t.inst? p with
      | none => simp [hb, hd] at h
      | some d =>
        simp [hb, hd] at h
        subst h
        exact ⟨rfl, rfl⟩

theorem satisfyMe_fields (x : Proxy) (a : Atom) :
    (x.satisfyMe a).pt = x.pt ∧ (x.satisfyMe a).name = x.name ∧ (x.satisfyMe a).runahead = x.runahead ∧
    (x.satisfyMe a).queued = x.queued := by
  unfold Proxy.satisfyMe; simp

theorem good_satisfyMe {g : Graph} {x : Proxy} (hx : Good g x) (a : Atom) : Good g (x.satisfyMe a) := by
  have := satisfyMe_fields x a
  exact good_same hx _ this.1 this.2.1 this.2.2.1 (Or.inl this.2.2.2)

theorem good_foldl_satisfyMe {g : Graph} (l : List Atom) : ∀ {x : Proxy}, Good g x →
    Good g (l.foldl (fun z a => z.satisfyMe a) x) := by
  induction l with
  | nil => intro x hx; exact hx
  | cons a l ih => intro x hx; exact ih (good_satisfyMe hx a)

theorem spawnTask_good {g : Graph} {s : State} {n : String} {p : Int} {x : Proxy}
    (h : spawnTask g s n p = some x) : Good g x := by
  unfold spawnTask at h
  simp only at h
  split at h
  · simp at h
  · split at h
    · simp at h
    · rename_i x0 hx0
      have g0 := mkProxy_good hx0
      -- the revived proxy keeps key and control flags
      have hrev : ∀ y, (match (s.hist.filter fun h => h.pt == p && h.name == n).getLast? with
          | none => some x0
          | some h =>
            if h.done.isEmpty then none
            else
              let y := { x0 with status := h.status, submitNum := h.submitNum, done := h.done }
              if h.status.isFinal then
                match g.task? n with
                | some t => if isComplete t h.done then none else some y
                | none => none
              else some y) = some y → Good g y := by
        intro y hy
        split at hy
        · simp at hy; subst hy; exact g0
        · split at hy
          · simp at hy
          · split at hy
            · split at hy
              · split at hy
                · simp at hy
                · simp at hy; subst hy
                  exact good_same g0 _ rfl rfl rfl (Or.inl rfl)
              · simp at hy
            · simp at hy; subst hy
              exact good_same g0 _ rfl rfl rfl (Or.inl rfl)
      rw [Option.map_eq_some_iff] at h
      obtain ⟨y, hy, hxy⟩ := h
      have gy := hrev y hy
      subst hxy
      split
      · split
        · exact good_foldl_satisfyMe _ gy
        · exact gy
      · exact gy

theorem inv_spawnAndAdd {g : Graph} {s : State} (h : Inv07 g s) (n : String) (p : Int) :
    Inv07 g (spawnAndAdd g s n p) := by
  unfold spawnAndAdd
  split
  · exact h
  · split
    · rename_i x hx; exact inv_add h (spawnTask_good hx)
    · exact h

theorem inv_spawnNextParentless {g : Graph} {s : State} (h : Inv07 g s) (x : Proxy) :
    Inv07 g (spawnNextParentless g s x) := by
  unfold spawnNextParentless
  split
  · exact h
  · split
    · exact inv_spawnAndAdd h _ _
    · exact h

/-! ### runahead -/

theorem inv_computeRunahead {g : Graph} {s : State} (h : Inv07 g s) (f : Bool) :
    Inv07 g (computeRunahead g s f) := by
  unfold computeRunahead
  simp only
  split
  · exact h
  · split
    · exact ⟨h.pool, h.ghosts, h.hist, h.limit, h.launched⟩
    · refine ⟨h.pool, h.ghosts, h.hist, ?_, h.launched⟩
      intro lim hl
      simp only [Option.some.injEq] at hl
      intro ⟨sp, h1, h2⟩
      rw [h1] at hl
      simp only at hl
      omega

theorem inv_releaseRunahead {g : Graph} {s : State} (h : Inv07 g s) : Inv07 g (releaseRunahead g s).1 := by
  unfold releaseRunahead
  split
  · exact h
  · rename_i lim hlim
    split
    · exact h
    · simp only
      have hl : ¬ beyondStop g lim := h.limit lim hlim
      apply foldl_inv_mem (Inv07 g)
      · intro st x hx hst
        apply inv_spawnNextParentless
        split
        · rename_i y hy
          have hm := get?_mem hy
          have gy := hst.pool y hm.1
          have hxl : x.pt ≤ lim := by
            have := (List.mem_filter.mp hx).2
            simp only [Bool.and_eq_true, decide_eq_true_eq] at this
            exact this.1
          apply inv_put hst
          apply good_mod gy _ (reset_pt ..) (reset_name ..)
          intro hb
          exact absurd hb (beyond_mono g (by rw [hm.2.1]; exact hxl) hl)
        · exact hst
      · exact h

theorem inv_releaseRunaheadN {g : Graph} : ∀ (n : Nat) {s : State}, Inv07 g s → Inv07 g (releaseRunaheadN g n s) := by
  intro n; induction n with
  | zero => intro s h; exact h
  | succ n ih =>
    intro s h
    unfold releaseRunaheadN
    simp only
    split
    · exact ih (inv_releaseRunahead h)
    · exact inv_releaseRunahead h

/-! ### queueing, start-up, release -/

theorem inv_queueIfReady {g : Graph} {s : State} (h : Inv07 g s) {x : Proxy} (hx : Good g x) :
    Inv07 g (queueIfReady s x) := by
  unfold queueIfReady
  split
  · rename_i hc
    simp only [Bool.and_eq_true, Bool.not_eq_true'] at hc
    apply inv_put h
    apply good_mod hx _ (reset_pt ..) (reset_name ..)
    intro hb
    have := (hx.2 hb).1
    rw [hc.1.2] at this
    exact absurd this (by simp)
  · exact h

theorem inv_empty (g : Graph) : Inv07 g ({} : State) :=
  ⟨by intro x hx; simp at hx, by intro x hx; simp at hx, by intro x hx; simp at hx,
   by intro l hl; simp at hl, by intro l hl; simp at hl⟩

theorem inv_loadFromPoint (g : Graph) : Inv07 g (loadFromPoint g) := by
  unfold loadFromPoint
  simp only
  apply foldl_inv (Inv07 g)
  · intro st x hst
    split
    · rename_i y hy
      exact inv_queueIfReady hst (hst.pool y (get?_mem hy).1)
    · exact hst
  · apply inv_releaseRunaheadN
    apply inv_computeRunahead
    apply foldl_inv (Inv07 g)
    · intro st t hst
      split
      · exact inv_spawnAndAdd hst _ _
      · exact hst
    · exact inv_empty g

theorem inv_releaseAndSubmit {g : Graph} {s : State} (h : Inv07 g s) : Inv07 g (releaseAndSubmit s) := by
  unfold releaseAndSubmit
  simp only
  split
  · exact h
  · have key : ∀ (l : List Proxy) (st : State), (∀ x ∈ l, Good g x ∧ x.queued = true) → Inv07 g st →
        Inv07 g (l.foldl (fun (st : State) x =>
          let y := x.reset (queued := some false)
          let y := { (y.reset (status := some .preparing)) with submitNum := x.submitNum + 1 }
          { (st.put y) with launched := st.launched ++ [(x.pt, x.name, x.submitNum + 1)] }) st) := by
      intro l; induction l with
      | nil => intro st _ hst; exact hst
      | cons a l ih =>
        intro st hl hst
        apply ih _ (fun x hx => hl x (List.mem_cons_of_mem _ hx))
        have ha := hl a (List.mem_cons_self ..)
        have hnb : ¬ beyondStop g a.pt := by
          intro hb
          have := (ha.1.2 hb).2
          rw [ha.2] at this
          exact absurd this (by simp)
        have hy : Good g { ((a.reset (queued := some false)).reset (status := some .preparing)) with
            submitNum := a.submitNum + 1 } := by
          apply good_mod ha.1 _ (by simp [reset_pt]) (by simp [reset_name])
          intro hb; exact absurd hb hnb
        have h1 := inv_put hst hy
        refine ⟨h1.pool, h1.ghosts, h1.hist, h1.limit, ?_⟩
        intro l hl
        simp only at hl
        rcases List.mem_append.mp hl with hl | hl
        · exact hst.launched l hl
        · simp at hl; subst hl; exact ⟨hnb, ha.1.1⟩
    have := key (s.pool.filter (·.queued)) s
      (by intro x hx
          have := List.mem_filter.mp hx
          exact ⟨h.pool x this.1, this.2⟩) h
    exact ⟨this.pool, this.ghosts, this.hist, this.limit, this.launched⟩

/-! ### removal and spawning on outputs -/

theorem inv_remove {g : Graph} {s : State} (h : Inv07 g s) {x : Proxy} (hx : Good g x) : Inv07 g (remove g s x) := by
  unfold remove
  simp only
  have h1 : Inv07 g (if (!x.flows.isEmpty && x.runahead) = true then spawnNextParentless g s x else s) := by
    split
    · exact inv_spawnNextParentless h _
    · exact h
  refine ⟨?_, ?_, ?_, h1.limit, h1.launched⟩
  · intro y hy
    exact h1.pool y (List.mem_filter.mp hy).1
  · intro y hy
    rcases List.mem_append.mp hy with hy | hy
    · exact h1.ghosts y hy
    · simp at hy; subst hy; exact hx
  · intro y hy
    rcases List.mem_append.mp hy with hy | hy
    · exact h1.hist y hy
    · simp at hy; subst hy; exact hx.1

theorem inv_removeIfComplete {g : Graph} {s : State} (h : Inv07 g s) {x : Proxy} (hx : Good g x) :
    Inv07 g (removeIfComplete g s x) := by
  unfold removeIfComplete
  split
  · exact h
  · split
    · exact h
    · split
      · exact inv_remove h hx
      · exact h

theorem inv_spawnChild {g : Graph} (p : Int) (n out : String) (acc : State × List (Int × String)) (c : Child)
    (h : Inv07 g acc.1) : Inv07 g (spawnChild g p n out acc c).1 := by
  obtain ⟨st, sui⟩ := acc
  unfold spawnChild
  simp only
  have h0 : Inv07 g (if (c.isAbs && !st.absDone.contains ⟨p, n, out⟩) = true then
      { st with absDone := st.absDone ++ [⟨p, n, out⟩] } else st) := by
    split
    · exact ⟨h.pool, h.ghosts, h.hist, h.limit, h.launched⟩
    · exact h
  generalize (if (c.isAbs && !st.absDone.contains ⟨p, n, out⟩) = true then
      { st with absDone := st.absDone ++ [⟨p, n, out⟩] } else st) = st0 at h0 ⊢
  have hfold : ∀ (ks : List (Int × String)) (a : State × List (Int × String)), Inv07 g a.1 →
      Inv07 g (ks.foldl (fun (a : State × List (Int × String)) k =>
        match a.1.get? k.1 k.2 with
        | none => a
        | some z =>
          let z := z.satisfyMe ⟨p, n, out⟩
          (a.1.put z, if (z.suicideNow && !a.2.contains k) = true then a.2 ++ [k] else a.2)) a).1 := by
    intro ks; induction ks with
    | nil => intro a ha; exact ha
    | cons k ks ih =>
      intro a ha
      apply ih
      simp only
      split
      · exact ha
      · rename_i z hz
        exact inv_put ha (good_satisfyMe (ha.pool z (get?_mem hz).1) _)
  split
  · exact h0
  · rename_i y hy
    apply hfold
    simp only
    split
    · exact h0
    · apply inv_add h0
      apply good_satisfyMe
      split at hy
      · rename_i y' hy'
        simp only [Option.some.injEq] at hy; subst hy
        exact h0.pool _ (get?_mem hy').1
      · exact spawnTask_good hy

theorem inv_spawnOnOutput {g : Graph} {s : State} (h : Inv07 g s) (p : Int) (n out : String) :
    Inv07 g (spawnOnOutput g s p n out) := by
  unfold spawnOnOutput
  split
  · exact h
  · simp only
    have h1 : ∀ (cs : List Child) (acc : State × List (Int × String)), Inv07 g acc.1 →
        Inv07 g (cs.foldl (spawnChild g p n out) acc).1 := by
      intro cs; induction cs with
      | nil => intro acc ha; exact ha
      | cons c cs ih => intro acc ha; exact ih _ (inv_spawnChild p n out acc c ha)
    have h2 : ∀ (ks : List (Int × String)) (st : State), Inv07 g st →
        Inv07 g (ks.foldl (fun (st : State) k => match st.get? k.1 k.2 with
          | some z => remove g st z
          | none => st) st) := by
      intro ks; induction ks with
      | nil => intro st hst; exact hst
      | cons k ks ih =>
        intro st hst
        apply ih
        simp only
        split
        · rename_i z hz
          exact inv_remove hst (hst.pool z (get?_mem hz).1)
        · exact hst
    generalize hR : (List.foldl (spawnChild g p n out) (s, []) _) = R
    have hRn : Inv07 g R.1 := by rw [← hR]; exact h1 _ _ h
    have h3 := h2 R.2 R.1 hRn
    split
    · rename_i x' hx'
      exact inv_removeIfComplete h3 (h3.pool x' (get?_mem hx').1)
    · exact h3

/-! ### messages -/

theorem lookup_good {g : Graph} {s : State} (h : Inv07 g s) {p : Int} {n : String} {x : Proxy} {tr : Bool}
    (hl : lookup s p n = some (x, tr)) : Good g x := by
  unfold lookup at hl
  split at hl
  · rename_i y hy
    simp only [Option.some.injEq, Prod.mk.injEq] at hl
    rw [← hl.1]; exact h.pool y (get?_mem hy).1
  · rw [Option.map_eq_some_iff] at hl
    obtain ⟨y, hy, hxy⟩ := hl
    simp only [Prod.mk.injEq] at hxy
    rw [← hxy.1]; exact h.ghosts y (List.mem_of_find?_eq_some hy)

theorem inv_store {g : Graph} {s : State} (h : Inv07 g s) {x : Proxy} (hx : Good g x) (tr : Bool) :
    Inv07 g (store s x tr) := by
  unfold store
  split
  · refine ⟨h.pool, ?_, h.hist, h.limit, h.launched⟩
    intro y hy
    simp only at hy
    obtain ⟨z, hz, rfl⟩ := List.mem_map.mp hy
    split
    · exact hx
    · exact h.ghosts z hz
  · exact inv_put h hx

theorem inv_spawnChildren {g : Graph} {s : State} (h : Inv07 g s) (p : Int) (n out : String) (tr : Bool) :
    Inv07 g (spawnChildren g s p n out tr) := by
  unfold spawnChildren; split
  · exact h
  · exact inv_spawnOnOutput h _ _ _

theorem good_setComplete {g : Graph} {x : Proxy} (hx : Good g x) (m : String) : Good g (setComplete g x m).1 := by
  have := setComplete_fields g x m
  exact good_same hx _ this.1 this.2.1 this.2.2.1 (Or.inl this.2.2.2.1)

theorem good_ite_setComplete {g : Graph} {x : Proxy} (hx : Good g x) (c : Prop) [Decidable c] (m : String)
    (o : Option Bool) : Good g (if c then setComplete g x m else (x, o)).1 := by
  split
  · exact good_setComplete hx m
  · exact hx

theorem good_ite_setComplete' {g : Graph} {x : Proxy} (hx : Good g x) (c : Prop) [Decidable c] (m : String)
    (o : Option Bool) : Good g (if c then (x, o) else setComplete g x m).1 := by
  split
  · exact hx
  · exact good_setComplete hx m

theorem good_reset {g : Graph} {x : Proxy} (hx : Good g x) (st : Option Status) (q : Option Bool)
    (hq : q = none ∨ q = some false) : Good g (x.reset st q none) := by
  apply good_same hx _ (reset_pt ..) (reset_name ..) (by rw [reset_runahead]; rfl)
  rw [reset_queued]
  rcases hq with h | h <;> subst h <;> simp

attribute [local irreducible] Proxy.reset setComplete in
theorem inv_processMessage {g : Graph} : ∀ (fuel : Nat) {s : State} (p : Int) (n : String) (flag : Flag)
    (sn : Nat) (msg : String), Inv07 g s → Inv07 g (processMessage g fuel s p n flag sn msg).1 := by
  intro fuel
  induction fuel with
  | zero => intro s p n flag sn msg h; exact h
  | succ fuel ih =>
    intro s p n flag sn msg h
    unfold processMessage
    split
    · exact h
    · rename_i x tr hl
      have gx := lookup_good h hl
      split
      · exact h
      · split
        · exact h
        · simp only
          have himp : ∀ (l : List String) (st : State), Inv07 g st →
              Inv07 g (l.foldl (fun st m => (processMessage g fuel st p n .internal sn m).1) st) := by
            intro l; induction l with
            | nil => intro st hst; exact hst
            | cons a l ihl => intro st hst; exact ihl _ (ih _ _ _ _ _ hst)
          generalize hS : (List.foldl (fun st m => (processMessage g fuel st p n Flag.internal sn m).1) _ _) = S
          have hSn : Inv07 g S := by
            rw [← hS]
            exact himp _ _ (inv_store h (good_ite_setComplete' gx _ _ _) _)
          split
          · exact hSn
          · rename_i x' tr' hl'
            have gx' := lookup_good hSn hl'
            repeat' split
            all_goals try exact hSn
            all_goals dsimp only
            all_goals (repeat (first | exact hSn | apply inv_spawnChildren | apply inv_store))
            all_goals first
              | exact good_reset gx' _ _ (Or.inl rfl)
              | exact good_setComplete (good_reset gx' _ _ (Or.inl rfl)) _
              | exact good_reset (good_reset gx' _ _ (Or.inl rfl)) _ _ (Or.inr rfl)
              | exact good_same (good_reset gx' _ _ (Or.inl rfl)) _ rfl rfl rfl (Or.inl rfl)

theorem inv_processQueue {g : Graph} {s : State} (h : Inv07 g s) : Inv07 g (processQueue g s) := by
  unfold processQueue
  apply foldl_inv (Inv07 g)
  · intro st grp hst
    simp only
    split
    · exact hst
    · have : ∀ (l : List Msg) (acc : State × Bool), Inv07 g acc.1 →
          Inv07 g (l.foldl (fun (acc : State × Bool) m =>
            let (st', pl) := processMessage g 4 acc.1 grp.1.1 grp.1.2 .received m.submitNum m.text
            (st', acc.2 || pl)) acc).1 := by
        intro l; induction l with
        | nil => intro acc ha; exact ha
        | cons m l ihl =>
          intro acc ha
          apply ihl
          exact inv_processMessage 4 _ _ _ _ _ ha
      have h2 := this grp.2 (st, false) hst
      split
      · exact ⟨h2.pool, h2.ghosts, h2.hist, h2.limit, h2.launched⟩
      · exact h2
  · exact ⟨h.pool, h.ghosts, h.hist, h.limit, h.launched⟩

theorem inv_checkStalled {g : Graph} {s : State} (h : Inv07 g s) : Inv07 g (checkStalled g s) := by
  unfold checkStalled; split
  · exact h
  · split
    · exact ⟨h.pool, h.ghosts, h.hist, h.limit, h.launched⟩
    · exact h

theorem inv_checkAutoShutdown {g : Graph} {s : State} (h : Inv07 g s) : Inv07 g (checkAutoShutdown g s).1 := by
  unfold checkAutoShutdown
  simp only
  split
  · exact inv_checkStalled h
  · split <;> exact inv_checkStalled h

theorem inv_sweepQueue {g : Graph} {s : State} (h : Inv07 g s) : Inv07 g (sweepQueue s) := by
  unfold sweepQueue
  apply foldl_inv (Inv07 g)
  · intro st x hst
    split
    · rename_i y hy
      have gy := hst.pool y (get?_mem hy).1
      split
      · have gy' : Good g { y with retryWait := false } := good_same gy _ rfl rfl rfl (Or.inl rfl)
        exact inv_queueIfReady (inv_put hst gy') gy'
      · exact hst
    · exact hst
  · exact h

theorem inv_finishLoop {g : Graph} {s : State} (h : Inv07 g s) : Inv07 g (finishLoop g s) := by
  unfold finishLoop
  simp only
  have h5 : Inv07 g (if (s.schedUpd || s.pool.any (·.upd)) = true then
      { s with stalled := false, schedUpd := false, pool := s.pool.map fun x => { x with upd := false } }
    else s) := by
    split
    · refine ⟨?_, h.ghosts, h.hist, h.limit, h.launched⟩
      intro y hy
      simp only at hy
      obtain ⟨z, hz, rfl⟩ := List.mem_map.mp hy
      exact good_same (h.pool z hz) _ rfl rfl rfl (Or.inl rfl)
    · exact h
  generalize (if (s.schedUpd || s.pool.any (·.upd)) = true then
      { s with stalled := false, schedUpd := false, pool := s.pool.map fun x => { x with upd := false } }
    else s) = s5 at h5 ⊢
  have h6 : Inv07 g { s5 with db := some s5.pool } := ⟨h5.pool, h5.ghosts, h5.hist, h5.limit, h5.launched⟩
  split
  · exact inv_checkStalled h6
  · exact h6

theorem inv_mainLoop {g : Graph} {s : State} (h : Inv07 g s) : Inv07 g (mainLoop g s) := by
  unfold mainLoop
  split
  · exact h
  · simp only
    have h1 := inv_releaseRunahead (inv_computeRunahead h false)
    have h2 := inv_checkAutoShutdown h1
    split
    · exact ⟨h2.pool, h2.ghosts, h2.hist, h2.limit, h2.launched⟩
    · exact inv_finishLoop (inv_processQueue (inv_releaseAndSubmit (inv_sweepQueue h2)))

theorem inv_step {g : Graph} (s : State) (op : Op) (h : Inv07 g s) : Inv07 g (step g s op) := by
  unfold step
  have hc : Inv07 g (clearOp s) :=
    ⟨h.pool, by intro x hx; simp [clearOp] at hx, h.hist, h.limit, by intro l hl; simp [clearOp] at hl⟩
  cases op with
  | loop => exact inv_mainLoop hc
  | subres p n ok sn => exact inv_processMessage 4 _ _ _ _ _ hc
  | msg p n sn text => exact ⟨hc.pool, hc.ghosts, hc.hist, hc.limit, hc.launched⟩

/-- `Inv07` holds in every state of every run -/
theorem inv07_run (g : Graph) (ops : List Op) : ∀ s ∈ run g ops, Inv07 g s :=
  run_inv (Inv07 g) g (inv_loadFromPoint g) (fun s op h => inv_step s op h) ops

end CylcModel.Sched
