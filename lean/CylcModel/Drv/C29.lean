/-
Driver for C29 (manually set outputs behave like naturally completed outputs):
`Sched3X` (Sched3Set + retry xtriggers) correspondence + judge on the observed trace of the REAL scheduler.

The judge is written from the property text.  It reads the recorded op list (the `cylc set` commands with their
options), the static instance graph (children per output, prerequisite atoms, outputs, required outputs) and, per
operation, the observation of the real scheduler before and after (pool with status / flows / outputs /
prerequisite atoms, launches, removals, flow-wait flags, the committed rows of task_states ⋈ task_outputs).
It never calls a transition function of the model.  For every `cylc set` command on task T it demands

`set --out` (clauses of the first sentence of C29)
* `outputs-not-completed`  the requested outputs and their implied earlier outputs (no outputs given: the required
                           outputs plus submitted, started, succeeded) are complete afterwards — on the proxy when T
                           stays in the pool, else in the database rows of T in the flows of the command;
                           outputs never get lost;
* `set-submit-failed-ignored` (recorded finding) the same for the output `submit-failed`;
* `set-db-row-missing`     (recorded finding) the same when T is not in the pool afterwards and the database has
                           no row of exactly T's flows (only rows of overlapping flows): the outputs are lost;
* `child-not-spawned`      every child of a newly completed output is in the pool afterwards, unless the database
                           already has a record of that child in these flows, it lies before the start point, or
                           it was removed again during the command (T without flows, or waiting for a flow
                           merge, spawns nothing);
* `child-prereq-unsatisfied` / `prereq-changed` in every pooled child the prerequisite on a newly completed
                           output is satisfied, and nothing else changes in the prerequisites of tasks that were
                           in the pool already;
* `unrelated-spawn`        every task that enters the pool is reachable from T along graph edges;
* `spawned-prereq-wrong`   a child that enters the pool has satisfied exactly: what the graph says is satisfied
                           initially, T's outputs that are complete now, recorded absolute outputs;
* `set-made-active`        T is not put into the submitted or running state, no job is launched, the submit
                           number does not change.
`set --pre`
* `prereq-not-satisfied` / `prereq-changed`  on T exactly the requested prerequisites that T has (all with
                           `--pre=all`) become satisfied, T's prerequisites are otherwise what they were (or what
                           the graph says when T is spawned by the command), no other pooled task changes its
                           prerequisites; a command that names no prerequisite of T changes nothing in the pool;
* `set-pre-not-spawned`    T enters the pool unless the database has a record of it in these flows / pre-start.
* `suicide-prereq-satisfied` the suicide prerequisites (`... => !T`) are not prerequisites of T: no suicide prerequisite
                           atom of a pooled task, or of T when the command spawns it, becomes satisfied by the command
                           (`--pre=all` included);
* `xtrigger-not-satisfied` / `xtrigger-changed`  xtrigger prerequisites (`--pre=xtrigger/<label>`, `xtrigger/all`): the
                           named xtriggers that T carries (all of them with `xtrigger/all`) - the dynamic retry
                           xtriggers included - are satisfied afterwards, no other xtrigger of any pooled task changes;
every restart
* `restart-forgets-retry-delay` (recorded finding) a task waiting behind an unsatisfied retry xtrigger still carries it;
every main loop
* `ready-not-run`          a pooled task that is waiting with every prerequisite atom and every xtrigger satisfied, not
                           held, released (or within the runahead limit), in a scheduler that is neither paused
                           nor stopping, has been submitted when the loop ends.
-/
import CylcModel.Sched3XObs
open Lean CylcModel.Drv CylcModel.Sched3X CylcModel.S3XObs

namespace CylcModel.DrvC29

def activeSt (s : String) : Bool := s == "submitted" || s == "running"

def atomsOf (t : PO) : List (Atom × Bool) := t.pre.flatMap id

def satOf (t : PO) (a : Atom) : Bool := (atomsOf t).any fun e => e.1 == a && e.2

def hasAtom (t : PO) (a : Atom) : Bool := (atomsOf t).any fun e => e.1 == a

def showAtom (a : Atom) : String := s!"{a.pt}/{a.task}:{a.out}"

/-- first failure of a list of checks -/
def firstSome {α} (l : List α) (f : α → Option String) : Option String :=
  l.foldl (fun acc x => match acc with | some w => some w | none => f x) none

/-- the requested prerequisite atoms in message form (`_standardise_prereqs` is text level: trigger → message
through the outputs of the named task; unknown tasks / outputs are dropped) -/
def requestedAtoms (g : Graph) (pres : List String) : List Atom :=
  pres.filterMap fun q =>
    let (id, trg) := match q.splitOn ":" with
      | [id, trg] => (id, trg)
      | _ => (q, "succeeded")
    match parseKeyStr id with
    | some (p, n) => (msgOfTrigger g n trg).map fun m => (⟨p, n, m⟩ : Atom)
    | none => none

/-- other pooled tasks keep their prerequisites, except for the atoms in `allowed` which may become satisfied -/
def othersUnchanged (pre post : Ob) (tgt : Key) (allowed : Atom → Bool) : Option String :=
  firstSome post.pool fun t =>
    if t.key == tgt then none else
    match pre.get? t.key with
    | none => none
    | some t0 =>
      if (atomsOf t).map (·.1) != (atomsOf t0).map (·.1) then
        some s!"prereq-changed: the prerequisites of {showKey t.key} changed shape"
      else firstSome (atomsOf t) fun e =>
        if e.2 != satOf t0 e.1 && !(e.2 && allowed e.1) then
          some s!"prereq-changed: {showAtom e.1} of {showKey t.key} went from {satOf t0 e.1} to {e.2}"
        else none

def judgeSetOut (g : Graph) (c : SetCmd) (pre post : Ob) : Option String :=
  let k := c.key
  let x0 := pre.get? k
  let x1 := post.get? k
  match g.task? k.2 with
  | none => none
  | some t =>
  -- a no-flow set of an active task that has flows is ignored by design
  if c.flow == ["none"] && (match x0 with | some x => !x.fl.isEmpty | none => false) then none else
  let cf := cmdFlows c pre post
  -- what must be complete afterwards (messages)
  let req : List String :=
    if c.outs.isEmpty then dedup (t.required ++ ["submitted", "started", "succeeded"])
    else c.outs.filterMap fun o => msgOfTrigger g k.2 o
  let want : List String := dedup (req ++ req.flatMap impliedBy)
  let wantT := want.map (trigOfMsg g k.2)
  -- completed before / after (triggers)
  let hist (o : Ob) (fl : List Nat) : List String :=
    ((o.rowsOf k).filter fun r => if fl.isEmpty then r.fl.isEmpty else meets r.fl fl).flatMap (·.outs)
  let pf : List Nat := match x0 with | some x => unionN x.fl cf | none => cf
  let before : List String := match x0 with | some x => x.out | none => hist pre cf
  let after : Option (List String) := match x1 with
    | some x => some x.out
    | none => if post.ts.isNone then none else some (hist post pf)
  -- (A) outputs complete
  let cA : Option String := match after with
    | none => none
    | some aft =>
      let missing := wantT.filter fun o => !aft.contains o
      let lost := (match x0, x1 with | some a, some b => a.out.filter (fun o => !b.out.contains o) | _, _ => [])
      -- T is not in the pool: is there a database row of exactly T's flows to record the outputs in?
      let exactRow := (post.rowsOf k).any fun r => subset r.fl pf && subset pf r.fl
      -- (the recorded finding is about rows of OVERLAPPING flows; a row of the `none` flow overlaps no flow: outputs
      -- completed in no flow do not count in a real flow)
      if !lost.isEmpty then some s!"outputs-not-completed: {showKey k} lost outputs {lost}"
      else if x1.isNone && !exactRow && !missing.isEmpty && ((post.rowsOf k).any fun r => meets r.fl pf) then
        some s!"set-db-row-missing: {showKey k} after set {c.outs} in flows {pf}: {missing} not recorded, the database has rows of this instance for overlapping flows only ({(post.rowsOf k).map (·.fl)})"
      else if missing == ["submit-failed"] then
        some s!"set-submit-failed-ignored: cylc set --out=submit-failed on {showKey k} did not complete the output"
      else if !missing.isEmpty then
        some s!"outputs-not-completed: {showKey k} after set {c.outs}: {missing} not complete (complete: {aft})"
      else none
  -- (C) never active, no launch
  let cC : Option String :=
    if !post.launch.isEmpty then some s!"set-made-active: cylc set launched {post.launch.map (showKey ·.1)}"
    else match x1 with
      | some b =>
        let st0 := match x0 with | some a => a.st | none => ""
        if activeSt b.st && b.st != st0 then
          some s!"set-made-active: {showKey k} went from {st0} to {b.st} by cylc set"
        else if (match x0 with | some a => a.sn != b.sn | none => false) then
          some s!"set-made-active: submit number of {showKey k} changed by cylc set"
        else none
      | none => none
  -- (B) children
  -- T keeps waiting for a flow merge: the flag on the proxy, or (T gone from the pool / never in it) on its row
  let stillWaiting := post.fw.contains k || (x0.isNone && c.wait) ||
    (x1.isNone && (post.rowsOf k).any fun r => r.fw && subset r.fl pf && subset pf r.fl)
  let newly : List String := want.filter fun m => !before.contains (trigOfMsg g k.2 m)
  let completeAfter : List String := dedup (before ++ wantT ++ (match after with | some a => a | none => []))
  let cB : Option String :=
    if pf.isEmpty || stillWaiting then none else
    firstSome newly fun m =>
      firstSome (childKeys g k m) fun ck =>
        if ck == k then none else
        let atom : Atom := ⟨k.1, k.2, m⟩
        match post.get? ck with
        | some ct =>
          if hasAtom ct atom && !satOf ct atom then
            (if m == "submit-failed" then
              some s!"set-submit-failed-ignored: {showAtom atom} of {showKey ck} not satisfied"
             else some s!"child-prereq-unsatisfied: {showAtom atom} of {showKey ck} not satisfied after cylc set")
          else none
        | none =>
          let known := ((pre.rowsOf ck).any fun r => meets r.fl pf) || ((post.rowsOf ck).any fun r => meets r.fl pf)
          let preStart := ck.1 < g.start && pf.contains 1
          if known || preStart || post.removed.contains ck || post.ts.isNone then none
          else if m == "submit-failed" then
            some s!"set-submit-failed-ignored: child {showKey ck} of {showKey k}:submit-failed not spawned"
          else some s!"child-not-spawned: child {showKey ck} of {showKey k}:{m} is not in the pool after cylc set"
  -- prerequisites of tasks already pooled: only atoms on T's outputs that are complete now may flip
  let cP := othersUnchanged pre post k fun a =>
    a.pt == k.1 && a.task == k.2 && completeAfter.contains (trigOfMsg g k.2 a.out)
  -- new pool members: related to T, and satisfied exactly as expected
  let rch := reach g k
  let cN : Option String := firstSome post.pool fun ct =>
    if pre.has ct.key then none else
    if !rch.contains ct.key then
      some s!"unrelated-spawn: {showKey ct.key} entered the pool by cylc set on {showKey k}"
    else if !(allChildKeys g k).contains ct.key then none else
    match instOf g ct.key with
    | none => none
    | some d =>
      let static (a : Atom) : Bool := d.pre.any fun pr => pr.atoms.any fun e => e.1 == a && e.2
      firstSome (atomsOf ct) fun e =>
        let onT := e.1.pt == k.1 && e.1.task == k.2
        if e.2 && !(static e.1 || (onT && completeAfter.contains (trigOfMsg g k.2 e.1.out)) ||
                    post.absDone.contains e.1) then
          some s!"spawned-prereq-wrong: {showAtom e.1} of the spawned {showKey ct.key} is satisfied without cause"
        else none
  match cA with
  | some w => some w
  | none => match cC with
    | some w => some w
    | none => match cB with
      | some w => some w
      | none => match cP with
        | some w => some w
        | none => cN

def judgeSetPre (g : Graph) (c : SetCmd) (pre post : Ob) : Option String :=
  let k := c.key
  let x0 := pre.get? k
  let x1 := post.get? k
  match instOf g k with
  | none => none
  | some d =>
  if c.flow == ["none"] && (match x0 with | some x => !x.fl.isEmpty | none => false) then none else
  let setAll := c.pres == ["all"]
  let reqAtoms := requestedAtoms g c.pres
  -- xtrigger prerequisites: the requested labels, and those of them that T carries (`all` = every xtrigger of T)
  let xs : List String := (c.pres.filter (·.startsWith "xtrigger/")).map fun q =>
    ((((q.splitOn "/").getD 1 "").splitOn ":").headD "")
  let carried : List (String × Bool) := pre.xtrOf k
  let wantedX (l : String) : Bool := xs.contains l || xs == ["all"]
  let validX : List String := xs.filter fun l => l == "all" || carried.any (·.1 == l)
  -- the xtriggers of the pooled tasks: only the wanted ones of T may change, to satisfied
  let cX : Option String := firstSome post.xtr fun e =>
    let before := (pre.xtrOf e.1).find? (·.1 == e.2.1)
    match before with
    | none => if pre.has e.1 then some s!"xtrigger-changed: {showKey e.1} got an xtrigger {e.2.1} by cylc set --pre" else none
    | some b =>
      if e.1 == k && wantedX e.2.1 then
        (if e.2.2 then none
         else some s!"xtrigger-not-satisfied: xtrigger {e.2.1} of {showKey k} requested but not satisfied")
      else if e.2.2 != b.2 then
        some s!"xtrigger-changed: xtrigger {e.2.1} of {showKey e.1} went from {b.2} to {e.2.2} (not requested)"
      else none
  -- suicide prerequisites are not prerequisites for running the task: no atom of a suicide prerequisite of a task
  -- that was in the pool, or of T when the command spawns it, becomes satisfied (a spawned T starts from what the
  -- graph gives it and the recorded absolute outputs)
  let graphSui : List (Atom × Bool) := d.sui.flatMap (·.atoms)
  let cS : Option String := firstSome post.suip fun e =>
    firstSome (e.2.flatMap id) fun a =>
      let before : Bool := match pre.suiOf e.1 with
        | some l => l.any fun b => b.1 == a.1 && b.2
        | none => e.1 != k || pre.has k || (graphSui.any fun b => b.1 == a.1 && b.2) || post.absDone.contains a.1
      if a.2 && !before then
        some s!"suicide-prereq-satisfied: the suicide prerequisite {showAtom a.1} of {showKey e.1} became satisfied by cylc set --pre={c.pres}"
      else none
  let graphAtoms : List (Atom × Bool) := d.pre.flatMap (·.atoms)
  let own (a : Atom) : Bool := match x0 with
    | some x => hasAtom x a
    | none => graphAtoms.any (·.1 == a)
  -- the requested prerequisites that T has (the graph prerequisites; a sequential task's implicit dependence
  -- on its previous instance is not among them)
  let valid := reqAtoms.filter fun a => d.validPre.contains a
  let cf := cmdFlows c pre post
  if !post.launch.isEmpty then some s!"set-made-active: cylc set --pre launched a job" else
  if cS.isSome then cS else
  if !setAll && valid.isEmpty && validX.isEmpty then
    -- names no prerequisite of T: nothing happens to the pool
    if post.pool.map (fun t => (t.key, t.st, t.fl, t.out, atomsOf t)) !=
        pre.pool.map (fun t => (t.key, t.st, t.fl, t.out, atomsOf t)) || post.xtr != pre.xtr then
      some s!"prereq-changed: cylc set --pre={c.pres} names no prerequisite of {showKey k} but the pool changed"
    else none
  else
  match x1 with
  | none =>
    if x0.isSome then some s!"set-pre-not-spawned: {showKey k} left the pool by cylc set --pre" else
    let known := ((pre.rowsOf k).any fun r => meets r.fl cf) || cf.isEmpty && !(pre.rowsOf k).isEmpty
    let preStart := k.1 < g.start && cf.contains 1
    if known || preStart || post.ts.isNone || post.removed.contains k then none
    else some s!"set-pre-not-spawned: {showKey k} is not in the pool after cylc set --pre={c.pres}"
  | some b =>
    let before (a : Atom) : Bool := match x0 with
      | some x => satOf x a
      | none => graphAtoms.any fun e => e.1 == a && e.2
    let shape0 : List Atom := match x0 with | some x => (atomsOf x).map (·.1) | none => graphAtoms.map (·.1)
    -- the prerequisites of T are the ones it had / the graph gives it
    if x0.isSome && (atomsOf b).map (·.1) != shape0 then
      some s!"prereq-changed: the prerequisites of {showKey k} changed shape"
    else if x0.isNone && !((atomsOf b).all fun e => shape0.contains e.1) then
      some s!"prereq-changed: {showKey k} was spawned with a prerequisite the graph does not give it"
    else
    let cT := firstSome (atomsOf b) fun e =>
      let wanted := setAll || valid.contains e.1
      if wanted && !e.2 then some s!"prereq-not-satisfied: {showAtom e.1} of {showKey k} requested but not satisfied"
      else if e.2 && !before e.1 && !wanted && !(x0.isNone && post.absDone.contains e.1) then
        some s!"prereq-changed: {showAtom e.1} of {showKey k} became satisfied but was not requested"
      else if !e.2 && before e.1 then some s!"prereq-changed: {showAtom e.1} of {showKey k} became unsatisfied"
      else if !own e.1 then some s!"prereq-changed: {showKey k} has a prerequisite {showAtom e.1} it did not have"
      else none
    match cT with
    | some w => some w
    | none => match othersUnchanged pre post k fun _ => false with
      | some w => some w
      | none => cX

/-- `ready-not-run`: judged on a main loop -/
def judgeLoop (pre post : Ob) : Option String :=
  if post.stop.isSome || pre.paused || post.paused || pre.stopMode.isSome || post.stopMode.isSome then none else
  firstSome pre.pool fun t =>
    let allSat := (atomsOf t).all (·.2)
    let released := !t.rh || (match post.rl with | some l => t.key.1 ≤ l | none => false)
    let xSat := (pre.xtrOf t.key).all (·.2)
    if t.st == "waiting" && allSat && xSat && !t.held && released then
      match post.get? t.key with
      | none => none
      | some t1 =>
        -- (submitted = a job was launched for it in this loop; a noisy failure message may already have sent it
        -- back to waiting for a retry)
        if t1.st == "waiting" && !t1.held && !(post.launch.any fun l => l.1 == t.key) then
          some s!"ready-not-run: {showKey t.key} had all prerequisites satisfied and was not submitted by the main loop"
        else none
    else none

/-- `restart-forgets-retry-delay` (recorded finding): judged on a restart - a task that waits behind an unsatisfied
retry xtrigger still carries that xtrigger after the restart (the delay the user can end with `cylc set
--pre=xtrigger/...` is not silently cut short) -/
def judgeRestart (pre post : Ob) : Option String :=
  firstSome pre.xtr fun e =>
    if e.2.2 then none else
    match post.get? e.1 with
    | none => none
    | some t1 =>
      if t1.st == "waiting" && !((post.xtrOf e.1).any fun l => l.1 == e.2.1) then
        some s!"restart-forgets-retry-delay: {showKey e.1} was waiting for its retry xtrigger {e.2.1} before the restart and no longer carries it afterwards"
      else none

/-- keys of recorded findings (findings/C29.json) -/
def knownKeys : List String := ["set-submit-failed-ignored", "set-db-row-missing", "restart-forgets-retry-delay"]

def judge (g : Graph) (ops : List Json) (obs : List Json) : Option String :=
  let rec go (idx : Nat) : List Json → List Json → Option String
    | op :: ops, pre :: post :: rest =>
      let a := parseOb pre
      let b := parseOb post
      let r : Option String :=
        match parseSet? op with
        | some c =>
          if !isInst g c.key then none
          else if c.pres.isEmpty then judgeSetOut g c a b else judgeSetPre g c a b
        | none => if opName op == "loop" then judgeLoop a b else if opName op == "restart" then judgeRestart a b else none
      match r with
      | some w =>
        -- keep the finding key in front
        let w' := match w.splitOn ": " with
          | key :: restW => s!"{key}: op {idx} ({opName op}): {": ".intercalate restW}"
          | _ => w
        -- a failure that belongs to a recorded finding does not hide later failures of the same history
        if knownKeys.any (fun key => w.startsWith (key ++ ":")) then
          match go (idx + 1) ops (post :: rest) with
          | some later => if knownKeys.any (fun key => later.startsWith (key ++ ":")) then some w' else some later
          | none => some w'
        else some w'
      | none => go (idx + 1) ops (post :: rest)
    | _, _ => none
  go 1 ops obs

def handle (i o : Json) : Except String Reply := do
  if let some r := crashReplyKeyed? i then return r
  let c ← parseCase i
  let ops := (jArrField? i "ops").getD []
  match judge c.graph ops (obsList o) with
  | some w => return { model := modelObs c, holds := false, why := w }
  | none => return { model := modelObs c, holds := true }

end CylcModel.DrvC29

def main : IO Unit := CylcModel.Drv.run CylcModel.DrvC29.handle
