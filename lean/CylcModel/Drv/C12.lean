/-
Driver for C12 (required / optional classification, graph consistency, skip-mode outputs): runs the
`Outputs` model on a JSON case and judges the implementation's observations against the property text.

input i : {"std": {...six standard outputs: R}, "custom": [[trigger, message, R] ...],   R : true required | false optional | null
           "user": null | {"text": s, "tree": T | null},     T : {"a": name} | {"and": [T, T]} | {"or": [T, T]} | {"not": T} | {"c": word}
           "disable": null | name, "conf": [trigger ...]}
observed o / model m :
  {"expr": text,                                          the completion expression of TaskOutputs(tdef)
   "classify": [[compvar, true|false|null] ...] | E,      get_optional_outputs(expr, tdef.outputs, disable), sorted
   "required": [L | E, L | E, L | E],                     iter_required_messages(None | 'succeeded' | 'failed'), sorted messages
   "check": "accept" | "reject" | null,                   _check_completion_expression (user expressions only)
   "skip": L | E, "skipcfg": bool}                        process_outputs / check_task_skip_config with [skip]outputs = conf
  E : "invalid" | "name" | "type" | "other"
-/
import CylcModel.Util.Drv
import CylcModel.Outputs
open Lean CylcModel CylcModel.Drv CylcModel.Outputs
open CylcModel.Generated.Outputs (stdOutputs)

namespace CylcModel.DrvC12

/-- expression tree as generated (judge side): may contain `not` and constants -/
inductive JT where
  | a (s : String)
  | and (l r : JT)
  | or (l r : JT)
  | not (x : JT)
  | c (w : String)
  deriving Repr, Inhabited

partial def parseJT (j : Json) : Except String JT :=
  match jStrField? j "a", jArrField? j "and", jArrField? j "or", jField? j "not", jStrField? j "c" with
  | some s, _, _, _, _ => .ok (.a s)
  | _, some [l, r], _, _, _ => do return .and (← parseJT l) (← parseJT r)
  | _, _, some [l, r], _, _ => do return .or (← parseJT l) (← parseJT r)
  | _, _, _, some x, _ => do return .not (← parseJT x)
  | _, _, _, _, some w => .ok (.c w)
  | _, _, _, _, _ => .error "bad tree"

def JT.positive : JT → Bool
  | .a _ => true
  | .and l r => l.positive && r.positive
  | .or l r => l.positive && r.positive
  | .not _ => false
  | .c _ => false

def JT.eval (σ : String → Bool) : JT → Bool
  | .a s => σ s
  | .and l r => l.eval σ && r.eval σ
  | .or l r => l.eval σ || r.eval σ
  | .not x => !x.eval σ
  | .c w => w == "True" || (w != "False" && w != "None" && w != "0")

def JT.names : JT → List String
  | .a s => [s]
  | .and l r => l.names ++ r.names
  | .or l r => l.names ++ r.names
  | .not x => x.names
  | .c _ => []

def JT.ofB : BExpr String → JT
  | .atom s => .a s
  | .and l r => .and (ofB l) (ofB r)
  | .or l r => .or (ofB l) (ofB r)

def JT.constFree : JT → Bool
  | .a _ => true
  | .and l r => l.constFree && r.constFree
  | .or l r => l.constFree && r.constFree
  | .not x => x.constFree
  | .c _ => false

/-- evaluable by `CompletionEvaluator` as far as the whitelist allows today: names, and, or -/
def JT.valid (t : JT) : Bool := t.positive && t.names.all isPyName

structure Case where
  std : List OutDef
  custom : List OutDef
  userText : Option String
  tree : Option JT
  disable : Option String
  conf : List String

def parseCase (j : Json) : Except String Case := do
  let stdJ ← (jField? j "std").elim (.error "std") .ok
  let std := stdOutputs.map fun s => (⟨s, s, (jOptField stdJ s).bind jBool?⟩ : OutDef)
  let custom ← ((jArrField? j "custom").getD []).mapM fun c =>
    match jArr? c with
    | some [t, m, r] =>
      match jStr? t, jStr? m with
      | some t, some m => Except.ok (⟨t, m, jBool? r⟩ : OutDef)
      | _, _ => .error "custom"
    | _ => .error "custom"
  let (userText, tree) ← match jOptField j "user" with
    | none => pure (none, none)
    | some u => do
      let text ← (jStrField? u "text").elim (.error "user.text") .ok
      let tree ← match jOptField u "tree" with
        | none => pure none
        | some t => do pure (some (← parseJT t))
      pure (some text, tree)
  let disable := (jOptField j "disable").bind jStr?
  let conf := ((jArrField? j "conf").getD []).filterMap jStr?
  return ⟨std, custom, userText, tree, disable, conf⟩

def errJson : EvalErr → Json
  | .invalid => "invalid"
  | .name => "name"
  | .type => "type"

def jOB : Option Bool → Json
  | some b => Json.bool b
  | none => Json.null

def listJson : Except EvalErr (List String) → Json
  | .ok l => jOfList Json.str l
  | .error e => errJson e

def modelOut (c : Case) : Json :=
  let d := tweakOutputs ⟨c.std ++ c.custom⟩
  let text := exprText d c.userText
  let cls : Json := match optionalOutputs (parsePy text) (d.outs.map (·.trigger)) c.disable with
    | .ok l => jOfList (fun p => Json.arr #[Json.str p.1, jOB p.2]) l
    | .error e => errJson e
  let req := [none, some "succeeded", some "failed"].map fun dis => listJson (requiredMessages text d.outs dis)
  let isUser := match c.userText with | some t => !t.isEmpty | none => false
  let chk : Json := if isUser then
      (match checkCompletion d text with | .accept => "accept" | .reject => "reject")
    else Json.null
  Json.mkObj [("expr", Json.str text), ("classify", cls), ("required", Json.arr req.toArray), ("check", chk),
              ("skip", listJson (skipOutputs text d.outs c.conf)), ("skipcfg", Json.bool (skipConfigOk c.conf))]

/-! ### Judge -/

structure Verdict where
  ok : Bool
  why : String := ""

def dedup : List String → List String
  | [] => []
  | x :: xs => if xs.contains x then dedup xs else x :: dedup xs

def bit (k j : Nat) : Bool := (k >>> j) % 2 == 1

/-- "the expression is false whenever that output alone is missing (treating expired and submit-failed
as absent)", read universally: false under *every* assignment in which `v`, `expired`,
`submit_failed` (and the disabled output) are false -/
def requiredSem (t : JT) (v : String) (disable : Option String) : Bool :=
  let names := dedup t.names
  let off := [v, "expired", "submit_failed"] ++ disable.toList
  (List.range (2 ^ names.length)).all fun k =>
    let σ (x : String) : Bool :=
      if off.contains x then false
      else match names.idxOf? x with
        | some j => bit k j
        | none => false
    !t.eval σ

/-- classification demanded by the property: `some false` required, `some true` optional, `none` unreferenced -/
def classSem (t : JT) (v : String) (disable : Option String) : Option Bool :=
  if !t.names.contains v then none
  else if requiredSem t v disable then some false else some true

/-- the documented table of `_check_completion_expression` (graph_opt, expr_opt: true = optional,
false = required, none = not referenced; pre-execution outputs are submit-failed and expired) -/
def documented (g e : Option Bool) (pre : Bool) : Bool :=
  match g, e with
  | some true, some true => true
  | some true, some false => false            -- optional in the graph, required by the expression
  | some true, none => !pre                   -- a permitted pre-execution outcome must be referenced
  | some false, some true => pre              -- required in the graph, optional in the expression
  | some false, some false => true
  | some false, none => false                 -- required in the graph, not referenced
  | none, _ => true

def reqOfJ (outs : List OutDef) (t : String) : Option Bool :=
  (outs.find? (·.trigger == t)).bind (·.req)

/-- optionality declared in the graph, per completion variable: the implicit success requirement
("if neither :succeeded nor :failed is used, success is required") and "failed is implicitly optional
if succeeded is optional" included -/
def graphOptJ (outs0 : List OutDef) : List OutDef × (String → Option Bool) :=
  let implicit := (reqOfJ outs0 "succeeded").isNone && (reqOfJ outs0 "failed").isNone
  let outs := if implicit then outs0.map fun o => if o.trigger == "succeeded" then { o with req := some true } else o else outs0
  let g (v : String) : Option Bool :=
    match (outs.filter fun o => compvar o.trigger == v).getLast? with
    | some o => o.req.map (!·)
    | none => none
  (outs, fun v => if v == "failed" && g "succeeded" == some true && g "failed" == none then some true else g v)

def strList (j : Json) : Option (List String) := (jArr? j).map fun l => l.filterMap jStr?

def judge (c : Case) (o : Json) : Verdict := Id.run do
  let outs0 := c.std ++ c.custom
  let (outs, gopt) := graphOptJ outs0
  let cvs := dedup (outs.map fun x => compvar x.trigger)
  let clash := cvs.contains "expr"
  let exprText := (jStrField? o "expr").getD ""
  let isUser := match c.userText with | some t => !t.isEmpty | none => false
  -- the expression the task has: the generated tree, or the observed default expression read back
  let tree? : Option JT :=
    if isUser then c.tree
    else match parsePy exprText with
      | .ok e => some (JT.ofB e)
      | _ => none
  let some t := tree? | return ⟨true, ""⟩
  -- an expression over this task's outputs ...
  if !(t.names.all isPyName && t.names.all cvs.contains && t.constFree) then return ⟨true, ""⟩
  -- ... that the evaluator takes: and/or always; anything else (`not`) only if the implementation
  -- classified it instead of refusing it (then the classification is judged like any other)
  if !t.positive && (jArr? ((jField? o "classify").getD Json.null)).isNone then return ⟨true, ""⟩
  if isUser && exprText.contains '-' then return ⟨true, ""⟩
  let key := if clash then "evaluator-kwarg-clash: " else ""
  -- (1) classification
  let clsJ := (jField? o "classify").getD Json.null
  let disable := c.disable
  match jArr? clsJ with
  | none => return ⟨false, s!"{key}get_optional_outputs raised {clsJ.compress} on a valid expression"⟩
  | some rows =>
    let keys := rows.filterMap fun r => match jArr? r with | some [k, _] => jStr? k | _ => none
    for v in cvs do
      if !keys.contains v then return ⟨false, s!"output {v} is missing from the classification"⟩
    for r in rows do
      match jArr? r with
      | some [k, val] =>
        let v := (jStr? k).getD ""
        let want := classSem t v disable
        if val != jOB want then
          return ⟨false, s!"{v} classified {val.compress}, the expression makes it {(jOB want).compress} (true = optional, false = required, null = unreferenced)"⟩
      | _ => return ⟨false, "malformed classification row"⟩
  -- (2) required messages, for the three `disable` settings used by skip mode
  let reqJ := (jArrField? o "required").getD []
  for (dis, rj) in [none, some "succeeded", some "failed"].zip reqJ do
    let want := sortDedup ((outs.filter fun x => classSem t (compvar x.trigger) dis == some false).map (·.message))
    match strList rj with
    | none => return ⟨false, s!"{key}iter_required_messages({dis}) raised {rj.compress}"⟩
    | some got =>
      if got != want then
        return ⟨false, s!"iter_required_messages({dis}) = {got}, the expression requires {want}"⟩
  -- (3) validation accepts only expressions consistent with the graph
  if isUser && (jField? o "check").getD Json.null == Json.str "accept" then
    for v in cvs do
      let g := gopt v
      let e := classSem t v none
      if !documented g e (isPreExec v) then
        return ⟨false, s!"validation accepted the expression although {v} is {if g == some true then "optional" else "required"} in the graph and {if e == none then "not referenced" else if e == some true then "optional" else "required"} in the expression"⟩
  -- (4) skip mode
  let skipJ := (jField? o "skip").getD Json.null
  if (jBoolField? o "skipcfg").getD true then
    match strList skipJ with
    | none => return ⟨false, s!"{key}skip-mode process_outputs raised {skipJ.compress}"⟩
    | some got =>
      if !(got.contains "submitted" && got.contains "started") then
        return ⟨false, "skip mode does not generate submitted and started"⟩
      let msgOf (trig : String) : List String := (outs.filter (·.trigger == trig)).map (·.message)
      let hasS := (msgOf "succeeded").any got.contains
      let hasF := (msgOf "failed").any got.contains
      if hasS == hasF then
        return ⟨false, s!"skip mode generates {got}: not exactly one of succeeded / failed"⟩
      if c.conf.isEmpty then
        for x in outs do
          if classSem t (compvar x.trigger) none == some false && !got.contains x.message then
            let k := if x.trigger == "failed" then "skip-required-failed: " else ""
            return ⟨false, s!"{k}the default skip-mode outputs {got} lack the required output {x.trigger}"⟩
  return ⟨true, ""⟩

def handle (i o : Json) : Except String Reply := do
  let c ← parseCase i
  let v := judge c o
  return { model := modelOut c, holds := v.ok, why := v.why }

end CylcModel.DrvC12

def main : IO Unit := CylcModel.Drv.run CylcModel.DrvC12.handle
