/-
Driver for C05 at scheduler level (id C05S): `Sched3Q` correspondence + judge on the observed trace.

The judge is written from the property text and reads only what the REAL scheduler showed after every
operation (pool with status / held flag, the proxies waiting on job preparation, the contents of the internal
queues head first, the pool order, the proxies handed to job preparation) plus the queue definitions read off
the real `IndepQueueManager` (`graph.queues`: name, limit, members).  It calls no model function.

  J1  every pooled task name is a member of exactly one queue.
  J2  after every operation, for every queue with limit L > 0: the number of its pooled members that are
      preparing / submitted / running / waiting on job preparation is at most L
      (no manual triggering happens in these runs).
  J3  a queue never releases while at its limit: when a main loop hands k > 0 members of a limited queue to job
      preparation, (active members before that loop) + k <= L.
  J4  a held task is never released by its queue.
  J5  FIFO, held tasks skipped and keeping their place: (a) tasks that stay queued over an operation keep their
      relative order and newly queued tasks line up behind them; (b) whenever a task is released, every task of the
      same queue that was queued before it and is still queued afterwards is held.
-/
import CylcModel.Sched3QJson
open Lean CylcModel.Drv CylcModel.Sched3Q

namespace CylcModel.DrvC05S

abbrev Key := Int × String

structure OTask where
  key : Key
  st : String
  held : Bool

structure OQ where
  name : String
  limit : Nat
  deque : List Key

structure OObs where
  pool : List OTask
  order : List Key
  qs : List OQ
  wjp : List Key
  prep : List (Key × Bool)          -- handed to job preparation in this op (key, held flag at that moment)
  launch : List Key

def keyJ (j : Json) : Option Key :=
  match jArr? j with
  | some (p :: n :: _) => do return (← jInt? p, ← jStr? n)
  | _ => none

def parseObs (ob : Json) : OObs :=
  { pool := (poolOf ob).map fun t =>
      { key := keyOf t, st := (jStrField? t "st").getD "", held := (jBoolField? t "held").getD false },
    order := ((jArrField? ob "order").getD []).filterMap keyJ,
    qs := ((jArrField? ob "qs").getD []).filterMap fun q =>
      match jArr? q with
      | some [n, l, d] => do
        return { name := ← jStr? n, limit := ← jNat? l, deque := ((jArr? d).getD []).filterMap keyJ }
      | _ => none,
    wjp := ((jArrField? ob "wjp").getD []).filterMap keyJ,
    prep := ((jArrField? ob "prep").getD []).filterMap fun e =>
      match jArr? e with
      | some [p, n, h, m] =>
        -- manually submitted tasks do not pass through a queue
        if jBool? m == some true then none else do return ((← jInt? p, ← jStr? n), (jBool? h).getD false)
      | _ => none,
    launch := ((jArrField? ob "launch").getD []).filterMap keyJ }

def isActiveStr (st : String) : Bool := st == "preparing" || st == "submitted" || st == "running"

def showKey (k : Key) : String := s!"{k.1}/{k.2}"

/-- members of queue `q` that count against its limit -/
def activeOf (members : List String) (o : OObs) : List Key :=
  (o.pool.filter fun t => members.contains t.key.2 && (isActiveStr t.st || o.wjp.contains t.key)).map (·.key)

def firstSome {α} (l : List α) (f : α → Option String) : Option String :=
  l.foldl (fun acc x => match acc with | some w => some w | none => f x) none

def indexOf? (k : Key) : List Key → Option Nat
  | [] => none
  | x :: xs => if x == k then some 0 else (indexOf? k xs).map (· + 1)

/-- `l` restricted to the elements of `keep`, in the order of `l` -/
def restrict (l keep : List Key) : List Key := l.filter keep.contains

/-- J1 + J2 on one observation (`prev` = the observation before the operation, if any).
A limit that is exceeded because a member became active in this operation WITHOUT having been handed to job
preparation by its queue (a job message moved a waiting proxy to running) is the recorded finding
`unsolicited-message-activation`; every other excess is a plain failure. -/
def judgeState (g : Graph) (idx : Nat) (prev : Option OObs) (o : OObs) : Option String :=
  let j1 := firstSome o.pool fun t =>
    let n := (g.queues.filter fun q => q.members.contains t.key.2).length
    if n == 1 then none
    else some s!"obs {idx}: task {t.key.2} is a member of {n} queues"
  match j1 with
  | some w => some w
  | none =>
    firstSome g.queues fun q =>
      if q.limit == 0 then none else
      let act := activeOf q.members o
      if act.length > q.limit then
        let unsolicited : List Key := match prev with
          | none => []
          | some b => act.filter fun k => !(activeOf q.members b).contains k && !(o.prep.map (·.1)).contains k
        if unsolicited.isEmpty then
          some s!"obs {idx}: queue {q.name} (limit {q.limit}) has {act.length} active members: {act.map showKey}"
        else
          some s!"unsolicited-message-activation: obs {idx}: queue {q.name} (limit {q.limit}) has {act.length} active members {act.map showKey}; {unsolicited.map showKey} became active without being released by the queue"
      else none

/-- J3 - J5 on one operation (`b` = observation before, `a` = after) -/
def judgeOp (g : Graph) (idx : Nat) (isRestart : Bool) (b a : OObs) : Option String :=
  let heldBefore (k : Key) : Bool := b.pool.any fun t => t.key == k && t.held
  -- J4
  let j4 := firstSome a.prep fun (k, h) =>
    if h then some s!"op {idx}: held task {showKey k} was released to job preparation" else none
  match j4 with
  | some w => some w
  | none =>
  firstSome g.queues fun q =>
    -- released by the queue in this operation (a proxy already waiting on job preparation was released earlier)
    let rel := (a.prep.map (·.1)).filter fun k => q.members.contains k.2 && !b.wjp.contains k
    -- J3
    let actB := activeOf q.members b
    if q.limit > 0 && !rel.isEmpty && actB.length + rel.length > q.limit then
      some s!"op {idx}: queue {q.name} (limit {q.limit}) released {rel.map showKey} while {actB.length} members were active: {actB.map showKey}"
    else if isRestart then none else
    let qb := ((b.qs.find? (·.name == q.name)).map (·.deque)).getD []
    let qa := ((a.qs.find? (·.name == q.name)).map (·.deque)).getD []
    -- J5a: survivors keep their order, newcomers line up behind them
    let surv := restrict qa qb
    if surv != restrict qb qa then
      some s!"op {idx}: queue {q.name}: queued tasks changed order: before {qb.map showKey} after {qa.map showKey}"
    else if (qa.drop surv.length).any qb.contains || qa.take surv.length != surv then
      some s!"op {idx}: queue {q.name}: a newly queued task overtook a queued one: before {qb.map showKey} after {qa.map showKey}"
    else
    -- J5b: a released task leaves no earlier non-held task behind
    firstSome rel fun r =>
      let earlier : List Key :=
        match indexOf? r qb with
        | some i => (qb.take i).filter qa.contains
        | none =>
          -- queued during this very loop: behind everything queued before, and behind the newcomers
          -- that precede it in the pool order (the order in which the loop queues ready tasks)
          let newcomers := qa.filter fun t => !qb.contains t
          let before (t : Key) : Bool := match indexOf? t a.order, indexOf? r a.order with
            | some i, some j => i < j
            | _, _ => false
          (qb.filter qa.contains) ++ newcomers.filter before
      -- the held flag at release time: hold commands are separate operations, so it is the flag the proxy
      -- had before the loop (or, for a proxy spawned in this loop, the flag it was spawned with)
      let heldAtRelease (t : Key) : Bool :=
        if b.pool.any (·.key == t) then heldBefore t else a.pool.any fun x => x.key == t && x.held
      match earlier.find? fun t => !heldAtRelease t with
      | some t => some s!"op {idx}: queue {q.name}: {showKey r} was released although {showKey t} (not held) was queued before it and is still queued"
      | none => none

def opIsRestart (op : Json) : Bool := jStrField? op "op" == some "restart"

def judge (g : Graph) (ops : List Json) (o : Json) : Option String :=
  let obs := (obsList o).map parseObs
  let rec go (i : Nat) (prev : Option OObs) (ops : List Json) : List OObs → Option String
    | [] => none
    | ob :: rest =>
      match judgeState g i prev ob with
      | some w => some w
      | none =>
        match prev with
        | none => go (i + 1) (some ob) ops rest
        | some b =>
          match judgeOp g i (match ops with | op :: _ => opIsRestart op | [] => false) b ob with
          | some w => some w
          | none => go (i + 1) (some ob) (ops.drop 1) rest
  go 0 none ops obs

def handle (i o : Json) : Except String Reply := do
  if let some r := crashReply? i then return r
  let c ← parseCase i
  let ops := (jArrField? i "ops").getD []
  match judge c.graph ops o with
  | some w => return { model := modelObs c, holds := false, why := w }
  | none => return { model := modelObs c, holds := true }

end CylcModel.DrvC05S

def main : IO Unit := CylcModel.Drv.run CylcModel.DrvC05S.handle
