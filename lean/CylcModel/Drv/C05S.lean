/-
Driver for C05 at scheduler level (id C05S): `Sched3QT` correspondence + judge on the observed trace.

The judge is written from the property text and reads only what the REAL scheduler showed after every
operation (pool with status / held / queued flag, the proxies waiting on job preparation, the contents of the
internal queues head first, the pool order, the proxies handed to job preparation) plus the queue definitions read
off the real `IndepQueueManager` (`graph.queues`: name, limit, members) and the commands of the history.  It calls
no model function.

  J1  every pooled task name is a member of exactly one queue.
  J2  after every operation, for every queue with limit L > 0: the number of its pooled members that are
      preparing / submitted / running / waiting on job preparation is at most L, not counting the members that were
      triggered manually WHILE QUEUED ("triggering a queued task runs it regardless of the limit": the only legitimate
      way over a limit) for as long as they stay active.
  J3  a queue never releases while at its limit: when a main loop hands k > 0 members of a limited queue to job
      preparation out of the queue, (ALL active members before that loop) + k <= L.
  J4  a held task is never released by its queue.
  J5  FIFO, held tasks skipped and keeping their place: (a) tasks that stay queued over an operation keep their
      relative order and newly queued tasks line up behind them; (b) whenever a task is released, every task of the
      same queue that was queued before it and is still queued afterwards is held.
  J6  a queued task sits in its own queue: every entry of a deque is a member of that queue.
  J8  a task that has a job or waits on job preparation does not sit in a queue (the queue would release it again).
  J7  manual trigger of a task that is NOT queued: if its queue is full at that moment (active members before the
      command, plus the members the same command has started before it, in the order the command handled them) it
      must not start - it has to be queued.
-/
import CylcModel.Sched3QTJson
open Lean CylcModel.Drv CylcModel.Sched3QT

namespace CylcModel.DrvC05S

abbrev Key := Int × String

structure OTask where
  key : Key
  st : String
  held : Bool
  queued : Bool

structure OQ where
  name : String
  limit : Nat
  deque : List Key

structure OObs where
  pool : List OTask
  order : List Key
  qs : List OQ
  wjp : List Key
  prep : List (Key × Bool)          -- handed to job preparation in this op (key, held flag at that moment)
  launch : List Key

def keyJ (j : Json) : Option Key :=
  match jArr? j with
  | some (p :: n :: _) => do return (← jInt? p, ← jStr? n)
  | _ => none

def parseObs (ob : Json) : OObs :=
  { pool := (poolOf ob).map fun t =>
      { key := keyOf t, st := (jStrField? t "st").getD "", held := (jBoolField? t "held").getD false,
        queued := (jBoolField? t "q").getD false },
    order := ((jArrField? ob "order").getD []).filterMap keyJ,
    qs := ((jArrField? ob "qs").getD []).filterMap fun q =>
      match jArr? q with
      | some [n, l, d] => do
        return { name := ← jStr? n, limit := ← jNat? l, deque := ((jArr? d).getD []).filterMap keyJ }
      | _ => none,
    wjp := ((jArrField? ob "wjp").getD []).filterMap keyJ,
    prep := ((jArrField? ob "prep").getD []).filterMap fun e =>
      match jArr? e with
      | some (p :: n :: h :: _) => do return ((← jInt? p, ← jStr? n), (jBool? h).getD false)
      | _ => none,
    launch := ((jArrField? ob "launch").getD []).filterMap keyJ }

def isActiveStr (st : String) : Bool := st == "preparing" || st == "submitted" || st == "running"

def showKey (k : Key) : String := s!"{k.1}/{k.2}"

/-- members of queue `q` that count against its limit -/
def activeOf (members : List String) (o : OObs) : List Key :=
  (o.pool.filter fun t => members.contains t.key.2 && (isActiveStr t.st || o.wjp.contains t.key)).map (·.key)

def isActiveKey (o : OObs) (k : Key) : Bool :=
  o.wjp.contains k || o.pool.any fun t => t.key == k && isActiveStr t.st

def firstSome {α} (l : List α) (f : α → Option String) : Option String :=
  l.foldl (fun acc x => match acc with | some w => some w | none => f x) none

def indexOf? (k : Key) : List Key → Option Nat
  | [] => none
  | x :: xs => if x == k then some 0 else (indexOf? k xs).map (· + 1)

/-- `l` restricted to the elements of `keep`, in the order of `l` -/
def restrict (l keep : List Key) : List Key := l.filter keep.contains

def keyOfId (s : String) : Option Key :=
  match s.splitOn "/" with
  | [p, n] => p.toInt?.map fun q => (q, n)
  | _ => none

/-- the ids of a `cylc trigger` command, in the order in which the command handled them (hint `groups`
written back by the runner; else the order of the argument) -/
def triggerIds (op : Json) : List Key :=
  if jStrField? op "op" == some "cmd" && jStrField? op "name" == some "force_trigger_tasks" then
    let args := (jField? op "args").getD Json.null
    let given := ((jArrField? args "tasks").getD []).filterMap fun t => (jStr? t).bind keyOfId
    let hint := ((jArrField? op "groups").getD []).flatMap fun grp =>
      ((jArr? grp).getD []).filterMap fun t => (jStr? t).bind keyOfId
    hint ++ given.filter fun k => !hint.contains k
  else []

/-- J1 + J2 + J6 on one observation (`prev` = the observation before the operation, if any; `trig` = the ids the
operation triggered manually; `exempt` = members triggered while queued and active ever since).
A limit that is exceeded because a member became active in this operation WITHOUT having been handed to job
preparation by its queue and without a manual trigger (a job message moved a waiting proxy to running) is the
recorded finding `unsolicited-message-activation`; every other excess is a plain failure. -/
def judgeState (g : Graph) (idx : Nat) (prev : Option OObs) (trig exempt : List Key) (o : OObs) : Option String :=
  let j1 := firstSome o.pool fun t =>
    let n := (g.queues.filter fun q => q.members.contains t.key.2).length
    if n == 1 then none
    else some s!"obs {idx}: task {t.key.2} is a member of {n} queues"
  match j1 with
  | some w => some w
  | none =>
  -- J6
  let j6 := firstSome o.qs fun oq =>
    match g.queues.find? (·.name == oq.name) with
    | none => some s!"obs {idx}: queue {oq.name} is not a configured queue"
    | some q =>
      match oq.deque.find? fun k => !q.members.contains k.2 with
      | some k => some s!"obs {idx}: {showKey k} sits in queue {q.name} (members {q.members}), which is not its queue"
      | none => none
  match j6 with
  | some w => some w
  | none =>
  -- J8: a task with a job (or on its way to one) must not sit in a queue - the queue would release it again
  let j8 := firstSome o.qs fun oq =>
    match oq.deque.find? (isActiveKey o) with
    | none => none
    | some k =>
      let what := s!"obs {idx}: {showKey k} is active (has a job or waits on job preparation) and sits in queue {oq.name} {oq.deque.map showKey}"
      match prev with
      | some b =>
        if trig.contains k && b.wjp.contains k then
          some s!"queued-and-started: {what}: it was triggered again while already waiting on job preparation"
        else if b.wjp.contains k && (b.pool.any fun t => t.key == k && t.held) &&
            !(o.pool.any fun t => t.key == k && t.held) then
          some s!"queued-and-started: {what}: it was triggered while held and has now been released from hold"
        else if !isActiveKey b k && !(o.prep.map (·.1)).contains k && !trig.contains k then
          some s!"unsolicited-message-activation: {what}: it became active without being released by the queue"
        else some what
      | none => some what
  match j8 with
  | some w => some w
  | none =>
    firstSome g.queues fun q =>
      if q.limit == 0 then none else
      let act := activeOf q.members o
      let counted := act.filter fun k => !exempt.contains k
      if counted.length > q.limit then
        let unsolicited : List Key := match prev with
          | none => []
          | some b => counted.filter fun k =>
              !(activeOf q.members b).contains k && !(o.prep.map (·.1)).contains k && !trig.contains k
        if unsolicited.isEmpty then
          some s!"obs {idx}: queue {q.name} (limit {q.limit}) has {counted.length} active members that were not triggered while queued: {counted.map showKey}"
        else
          some s!"unsolicited-message-activation: obs {idx}: queue {q.name} (limit {q.limit}) has {counted.length} active members {counted.map showKey}; {unsolicited.map showKey} became active without being released by the queue"
      else none

/-- J7 on a manual trigger: the ids in the order the command handled them, with a running count per queue -/
def judgeTrigger (g : Graph) (idx : Nat) (trig : List Key) (b a : OObs) : Option String :=
  let step (acc : List Key × Option String) (k : Key) : List Key × Option String :=
    -- acc.1 = the ids of this command that have been started so far
    match acc.2 with
    | some _ => acc
    | none =>
      match b.pool.find? (·.key == k) with
      | none => acc
      | some t =>
        if isActiveStr t.st || b.wjp.contains k then acc             -- has a job / is being prepared: left alone
        else
          let startedNow := isActiveKey a k && !a.pool.any fun x => x.key == k && x.queued
          if t.queued then (if startedNow then (acc.1 ++ [k], none) else acc)   -- runs regardless of the limit
          else
            match g.queues.find? fun q => q.members.contains k.2 with
            | none => acc
            | some q =>
              let busy := (activeOf q.members b).length + (acc.1.filter fun j => q.members.contains j.2).length
              if q.limit > 0 && busy ≥ q.limit && startedNow then
                (acc.1, some s!"op {idx}: {showKey k} (not queued) was triggered while its queue {q.name} (limit {q.limit}) was full ({busy} active members) and started instead of being queued")
              else if startedNow then (acc.1 ++ [k], none) else acc
  (trig.foldl step ([], none)).2

/-- J3 - J5 on one operation (`b` = observation before, `a` = after) -/
def judgeOp (g : Graph) (idx : Nat) (isRestart : Bool) (b a : OObs) : Option String :=
  let heldBefore (k : Key) : Bool := b.pool.any fun t => t.key == k && t.held
  -- handed to job preparation out of a queue in this operation: a proxy that was waiting on job preparation
  -- already (released earlier, or triggered manually to run now) did not come out of a queue now
  let released := a.prep.filter fun e => !b.wjp.contains e.1
  -- J4
  let j4 := firstSome released fun (k, h) =>
    if h then some s!"op {idx}: held task {showKey k} was released to job preparation" else none
  match j4 with
  | some w => some w
  | none =>
  firstSome g.queues fun q =>
    let rel := (released.map (·.1)).filter fun k => q.members.contains k.2
    -- J3
    let actB := activeOf q.members b
    if q.limit > 0 && !rel.isEmpty && actB.length + rel.length > q.limit then
      some s!"op {idx}: queue {q.name} (limit {q.limit}) released {rel.map showKey} while {actB.length} members were active: {actB.map showKey}"
    else if isRestart then none else
    let qb := ((b.qs.find? (·.name == q.name)).map (·.deque)).getD []
    let qa := ((a.qs.find? (·.name == q.name)).map (·.deque)).getD []
    -- J5a: survivors keep their order, newcomers line up behind them
    let surv := restrict qa qb
    if surv != restrict qb qa then
      some s!"op {idx}: queue {q.name}: queued tasks changed order: before {qb.map showKey} after {qa.map showKey}"
    else if (qa.drop surv.length).any qb.contains || qa.take surv.length != surv then
      some s!"op {idx}: queue {q.name}: a newly queued task overtook a queued one: before {qb.map showKey} after {qa.map showKey}"
    else
    -- J5b: a released task leaves no earlier non-held task behind
    firstSome rel fun r =>
      let earlier : List Key :=
        match indexOf? r qb with
        | some i => (qb.take i).filter qa.contains
        | none =>
          -- queued during this very loop: behind everything queued before, and behind the newcomers
          -- that precede it in the pool order (the order in which the loop queues ready tasks)
          let newcomers := qa.filter fun t => !qb.contains t
          let before (t : Key) : Bool := match indexOf? t a.order, indexOf? r a.order with
            | some i, some j => i < j
            | _, _ => false
          (qb.filter qa.contains) ++ newcomers.filter before
      -- the held flag at release time: hold commands are separate operations, so it is the flag the proxy
      -- had before the loop (or, for a proxy spawned in this loop, the flag it was spawned with)
      let heldAtRelease (t : Key) : Bool :=
        if b.pool.any (·.key == t) then heldBefore t else a.pool.any fun x => x.key == t && x.held
      match earlier.find? fun t => !heldAtRelease t with
      | some t => some s!"op {idx}: queue {q.name}: {showKey r} was released although {showKey t} (not held) was queued before it and is still queued"
      | none => none

def opIsRestart (op : Json) : Bool := jStrField? op "op" == some "restart"

def judge (g : Graph) (ops : List Json) (o : Json) : Option String :=
  let obs := (obsList o).map parseObs
  let rec go (i : Nat) (prev : Option OObs) (exempt : List Key) (ops : List Json) : List OObs → Option String
    | [] => none
    | ob :: rest =>
      match prev with
      | none =>
        match judgeState g i none [] [] ob with
        | some w => some w
        | none => go (i + 1) (some ob) [] ops rest
      | some b =>
        let op := match ops with | op :: _ => op | [] => Json.null
        let trig := triggerIds op
        -- members triggered while queued run regardless of the limit, for as long as they stay active
        let exempt := (exempt ++ trig.filter fun k => b.pool.any fun t => t.key == k && t.queued).filter (isActiveKey ob)
        match judgeState g i (some b) trig exempt ob with
        | some w => some w
        | none =>
          match judgeTrigger g i trig b ob with
          | some w => some w
          | none =>
            match judgeOp g i (opIsRestart op) b ob with
            | some w => some w
            | none => go (i + 1) (some ob) exempt (ops.drop 1) rest
  go 0 none [] ops obs

/-- J0: queue membership against the CONFIGURATION: `expect_queue` = [[task, queue]..] is computed by the harness from
the flow.cylc text (the queue member lists with every family name expanded over the FULL inheritance of the
`[runtime]` sections - a task belongs to a family if the family is any of its ancestors, first parent or not; the
last queue that lists a task wins, else `default`); the queue manager (`graph.queues`, read off the real
`IndepQueueManager`) must put every task into exactly that queue -/
def judgeMembership (g : Graph) (i : Json) : Option String :=
  firstSome ((jArrField? i "expect_queue").getD []) fun e =>
    match jArr? e with
    | some [t, qn] =>
      match jStr? t, jStr? qn with
      | some t, some qn =>
        let got := (g.queues.filter fun q => q.members.contains t).map (·.name)
        if got == [qn] then none
        else some s!"queue membership: task {t} belongs to queue {qn} by the configuration (queue member lists with families expanded over the full inheritance), but the queue manager has it in {got}"
      | _, _ => none
    | _ => none

def handle (i o : Json) : Except String Reply := do
  if let some r := crashReply? i then return r
  let c ← parseCase i
  let ops := (jArrField? i "ops").getD []
  match (judgeMembership c.graph i).orElse fun _ => judge c.graph ops o with
  | some w => return { model := modelObs c, holds := false, why := w }
  | none => return { model := modelObs c, holds := true }

end CylcModel.DrvC05S

def main : IO Unit := CylcModel.Drv.run CylcModel.DrvC05S.handle
