/-
Driver for C19 (stop-and-restart preserves the workflow state): `Sched2B` (= `Sched2` + broadcast store and its
database queue) correspondence + two judges that read
only the REAL scheduler's observations (and the op list / instance graph of the case).

* snapshot judge — for every `restart` op: the observation of the stopped scheduler (before) against the
  observation of the new scheduler after start-up (after), item by item of the property text:
  same pooled instances; status (preparing ↦ waiting), submit number (preparing ↦ one less, and the first launch
  of that instance after the restart carries the old number), flow numbers, held state, completed outputs,
  prerequisite satisfaction; hold point, `tasks_to_hold`, stop point (requested stops), stop task, record of
  absolute outputs, flow counter, broadcasts (the whole store, item by item).
* differential judge — when the case carries the uninterrupted run of the same workflow and job outcomes
  (`base`): the set of launched instances and the final outputs of every instance are the same.

Two deviations of the unchanged code from the property text are recorded findings (findings/C19.json); their
`why` starts with the finding key.  Any other failure is reported first.
-/
import CylcModel.Sched2BJson
open Lean CylcModel.Drv CylcModel.Sched2

namespace CylcModel.DrvC19

structure Fail where
  known : Bool
  msg : String
  lostOutputs : Option (Int × String) := none     -- the instance whose outputs a restart did not reload

def isRestart (op : Json) : Bool := jStrField? op "op" == some "restart"

def fld (t : Json) (k : String) : Json := (jField? t k).getD Json.null

def findTask (pool : List Json) (k : Int × String) : Option Json := pool.find? fun t => keyOf t == k

def keyStr (k : Int × String) : String := s!"{k.1}/{k.2}"

def intPair? (j : Json) : Option (Int × String) :=
  match jArr? j with
  | some (p :: n :: _) => match jInt? p, jStr? n with
    | some p, some n => some (p, n)
    | _, _ => none
  | _ => none

/-- launches `[p, n, sn]` of one observation -/
def launches (ob : Json) : List (Int × String × Nat) :=
  ((jArrField? ob "launch").getD []).filterMap fun l =>
    match jArr? l with
    | some [p, n, sn] => match jInt? p, jStr? n, jNat? sn with
      | some p, some n, some sn => some (p, n, sn)
      | _, _, _ => none
    | _ => none

/-- the first launch of instance `k` in the observations `obs`, up to the next restart -/
def firstLaunch (k : Int × String) : List (Json × Json) → Option Nat
  | [] => none
  | (op, ob) :: rest =>
    if isRestart op then none else
    match (launches ob).find? fun l => (l.1, l.2.1) == k with
    | some l => some l.2.2
    | none => firstLaunch k rest

/-- judge of one restart: `b` the stopped scheduler, `a` the restarted one, `later` the (op, observation) pairs
that follow the restart -/
def judgeRestart (idx : Nat) (b a : Json) (later : List (Json × Json)) : List Fail :=
  let bp := poolOf b
  let ap := poolOf a
  let at_ := s!"restart at op {idx}"
  let holdB := fld b "hold"
  let holdA := fld a "hold"
  let hp : Option Int := jIntField? holdB "point"
  let lost := bp.filter fun t => (findTask ap (keyOf t)).isNone
  let extra := ap.filter fun t => (findTask bp (keyOf t)).isNone
  let f0 : List Fail :=
    (lost.map fun t => ⟨false, s!"{at_}: {keyStr (keyOf t)} was in the pool before the stop and is gone after the restart", none⟩) ++
    (extra.map fun t => ⟨false, s!"{at_}: {keyStr (keyOf t)} is in the pool after the restart and was not before the stop", none⟩)
  let perTask : List Fail := bp.flatMap fun t =>
    match findTask ap (keyOf t) with
    | none => []
    | some u =>
      let k := keyOf t
      let st := (jStrField? t "st").getD "?"
      let sn := (jNatField? t "sn").getD 0
      let wantSt := if st == "preparing" then "waiting" else st
      let wantSn := if st == "preparing" then sn - 1 else sn
      let c1 : List Fail :=
        if jStrField? u "st" != some wantSt then
          [⟨false, s!"{at_}: {keyStr k} was {st}, restored as {(jStrField? u "st").getD "?"} (expected {wantSt})", none⟩] else []
      let c2 : List Fail :=
        if jNatField? u "sn" != some wantSn then
          [⟨false, s!"{at_}: {keyStr k} ({st}) had submit number {sn}, restored with {(fld u "sn").compress} (expected {wantSn})", none⟩]
        else []
      let c3 : List Fail :=
        if fld u "fl" != fld t "fl" then
          [⟨false, s!"{at_}: {keyStr k} flow numbers {(fld t "fl").compress} restored as {(fld u "fl").compress}", none⟩] else []
      let c4 : List Fail :=
        if fld u "held" != fld t "held" then
          let reapplied := jBoolField? u "held" == some true && (match hp with | some h => k.1 > h | none => false)
          if reapplied then
            [⟨true, s!"hold-point-reapplied: {at_}: {keyStr k} had been released (hold point {hp.getD 0}) and is held again after the restart", none⟩]
          else [⟨false, s!"{at_}: {keyStr k} held={(fld t "held").compress} restored as held={(fld u "held").compress}", none⟩]
        else []
      let c5 : List Fail :=
        if fld u "out" != fld t "out" then
          let unloaded := fld u "out" == Json.arr #[] && !(st == "running" || st == "failed" || st == "succeeded")
          if unloaded then
            [⟨true, s!"outputs-not-restored: {at_}: {keyStr k} ({st}) had completed outputs {(fld t "out").compress}, none after the restart", some k⟩]
          else [⟨false, s!"{at_}: {keyStr k} ({st}) completed outputs {(fld t "out").compress} restored as {(fld u "out").compress}", none⟩]
        else []
      let c6 : List Fail :=
        if fld u "pre" != fld t "pre" then
          [⟨false, s!"{at_}: {keyStr k} prerequisite satisfaction {(fld t "pre").compress} restored as {(fld u "pre").compress}", none⟩]
        else []
      let c7 : List Fail :=
        if st == "preparing" then
          match firstLaunch k later with
          | some sn' => if sn' != sn then
              [⟨false, s!"{at_}: {keyStr k} was preparing under submit number {sn} and is launched under {sn'} after the restart", none⟩]
            else []
          | none => []
        else []
      c1 ++ c2 ++ c3 ++ c4 ++ c5 ++ c6 ++ c7
  -- workflow-level state
  let g1 : List Fail :=
    if fld holdA "point" != fld holdB "point" then
      [⟨false, s!"{at_}: hold point {(fld holdB "point").compress} restored as {(fld holdA "point").compress}", none⟩] else []
  let tb := (jArrField? holdB "tasks").getD []
  let ta := (jArrField? holdA "tasks").getD []
  let g2 : List Fail :=
    if tb == ta then [] else
    let missing := tb.filter fun x => !ta.contains x
    let added := ta.filter fun x => !tb.contains x
    let addedByHoldPoint := added.all fun x =>
      match intPair? x, hp with
      | some k, some h => k.1 > h && (findTask bp k).isSome
      | _, _ => false
    if missing.isEmpty && addedByHoldPoint then
      [⟨true, s!"hold-point-reapplied: {at_}: tasks_to_hold gained {(Json.arr added.toArray).compress} (pooled tasks beyond the hold point that had been released)", none⟩]
    else [⟨false, s!"{at_}: tasks_to_hold {(Json.arr tb.toArray).compress} restored as {(Json.arr ta.toArray).compress}", none⟩]
  let requested := ((jStrField? b "stop").getD "").startsWith "REQUEST"
  let g3 : List Fail :=
    if requested && fld a "stop_point" != fld b "stop_point" then
      [⟨false, s!"{at_}: stop point {(fld b "stop_point").compress} restored as {(fld a "stop_point").compress}", none⟩] else []
  let g4 : List Fail :=
    if fld a "stop_task" != fld b "stop_task" then
      [⟨false, s!"{at_}: stop task {(fld b "stop_task").compress} restored as {(fld a "stop_task").compress}", none⟩] else []
  let g5 : List Fail :=
    if fld a "abs_done" != fld b "abs_done" then
      [⟨false, s!"{at_}: completed absolute outputs {(fld b "abs_done").compress} restored as {(fld a "abs_done").compress}", none⟩]
    else []
  let g6 : List Fail :=
    if fld a "flow_counter" != fld b "flow_counter" then
      [⟨false, s!"{at_}: flow counter {(fld b "flow_counter").compress} restored as {(fld a "flow_counter").compress}", none⟩]
    else []
  -- broadcasts: nothing is expired by the restart itself (the first main loop after it does that), so the
  -- restarted scheduler holds exactly the broadcasts of the stopped one
  let g7 : List Fail :=
    if fld a "bcast" != fld b "bcast" then
      let bb := (jArrField? b "bcast").getD []
      let ba := (jArrField? a "bcast").getD []
      let lost := bb.filter fun x => !ba.contains x
      let extra := ba.filter fun x => !bb.contains x
      [⟨false, s!"{at_}: broadcasts not restored: lost {(Json.arr lost.toArray).compress}, new {(Json.arr extra.toArray).compress}", none⟩]
    else []
  f0 ++ perTask ++ g1 ++ g2 ++ g3 ++ g4 ++ g5 ++ g6 ++ g7

/-- all restarts of a run: ops[k] yields obs[k+1] -/
def judgeSnapshots (ops obs : List Json) : List Fail :=
  let rec go (idx : Nat) (ops : List Json) (obs : List Json) : List Fail :=
    match ops, obs with
    | op :: ops', b :: (a :: obs') =>
      let here := if isRestart op then judgeRestart idx b a (ops'.zip obs') else []
      here ++ go (idx + 1) ops' (a :: obs')
    | _, _ => []
  go 0 ops obs

/-! ### differential judge -/

def insertKey (k : Int × String) (l : List (Int × String)) : List (Int × String) := if l.contains k then l else l ++ [k]

def launchedSet (obs : List Json) : List (Int × String) :=
  obs.foldl (fun acc ob => (launches ob).foldl (fun acc l => insertKey (l.1, l.2.1) acc) acc) []

def setFinal (k : Int × String) (v : Json) (l : List ((Int × String) × Json)) : List ((Int × String) × Json) :=
  if l.any (·.1 == k) then l.map fun e => if e.1 == k then (k, v) else e else l ++ [(k, v)]

/-- final outputs of every instance: as removed from the pool, else as in the final pool -/
def finalOutputs (obs : List Json) (lastPool : List Json) : List ((Int × String) × Json) :=
  let removed := obs.foldl (fun acc ob =>
      ((jArrField? ob "removed").getD []).foldl (fun acc r =>
        match jArr? r with
        | some (p :: n :: _st :: outs :: _) => match jInt? p, jStr? n with
          | some p, some n => setFinal (p, n) outs acc
          | _, _ => acc
        | _ => acc) acc) []
  lastPool.foldl (fun acc t => setFinal (keyOf t) (fld t "out") acc) removed

def judgeDiff (i : Json) (obs : List Json) (lostOutputs : List (Int × String)) : List Fail :=
  match jOptField i "base" with
  | none => []
  | some base =>
    if jBoolField? i "cut" == some true || jBoolField? base "cut" == some true then [] else
    let bobs := (jArrField? base "obs").getD []
    let blast := (jArrField? ((jField? base "last").getD Json.null) "pool").getD []
    let lastPool := match obs.getLast? with | some ob => poolOf ob | none => []
    let lu := launchedSet bobs
    let li := launchedSet obs
    let onlyU := lu.filter fun k => !li.contains k
    let onlyI := li.filter fun k => !lu.contains k
    let d1 : List Fail :=
      (if onlyU.isEmpty then [] else
        [⟨false, s!"the uninterrupted run launches {", ".intercalate (onlyU.map keyStr)}; the stopped and restarted run never does", none⟩]) ++
      (if onlyI.isEmpty then [] else
        [⟨false, s!"the stopped and restarted run launches {", ".intercalate (onlyI.map keyStr)}; the uninterrupted run never does", none⟩])
    let fu := finalOutputs bobs blast
    let fi := finalOutputs obs lastPool
    let d2 : List Fail := fu.filterMap fun e =>
      match fi.find? (·.1 == e.1) with
      | some e' => if e'.2 == e.2 then none else
          let txt := s!"{keyStr e.1} ends with outputs {e.2.compress} in the uninterrupted run and {e'.2.compress} in the stopped and restarted run"
          -- the consequence of a recorded finding: outputs completed before a stop were not reloaded, and the
          -- continued run ends with a subset of the uninterrupted run's outputs for that very instance
          let subset := ((jArr? e'.2).getD []).all fun x => ((jArr? e.2).getD []).contains x
          if lostOutputs.contains e.1 && subset then some ⟨true, "outputs-not-restored: (consequence) " ++ txt, none⟩
          else some ⟨false, txt, none⟩
      | none => some ⟨false, s!"{keyStr e.1} ends with outputs {e.2.compress} in the uninterrupted run and never exists in the stopped and restarted run", none⟩
    let d3 : List Fail := fi.filterMap fun e =>
      if (fu.find? (·.1 == e.1)).isSome then none else
        some ⟨false, s!"{keyStr e.1} ends with outputs {e.2.compress} in the stopped and restarted run and never exists in the uninterrupted run", none⟩
    d1 ++ d2 ++ d3

/-- the hypothesis of `restart_stop_point` on the extracted graph -/
def wfStop (g : Graph) : Bool := g.stopPoint == some (g.cfgStop.getD g.fcp)

def handle (i o : Json) : Except String Reply := do
  if let some r := crashReply? i then return r
  let c ← Sched2B.parseCase i
  if !c.ops.all Sched2B.opOk then
    return { model := Json.mkObj [("hypothesis", Json.str "a broadcast setting with several items or an unrepresentable key")],
             holds := true }
  if !wfStop c.graph then
    -- the theorem does not apply to this run: never silently
    return { model := Json.mkObj [("hypothesis", Json.str "WFStop violated: start-up stop point is not the configured one")],
             holds := true }
  let ops := (jArrField? i "ops").getD []
  let snap := judgeSnapshots ops (obsList o)
  let fails := snap ++ judgeDiff i (obsList o) (snap.filterMap (·.lostOutputs))
  match fails.find? (!·.known) with
  | some f => return { model := Sched2B.modelObs c, holds := false, why := f.msg }
  | none =>
    match fails with
    | f :: _ => return { model := Sched2B.modelObs c, holds := false, why := f.msg }
    | [] => return { model := Sched2B.modelObs c, holds := true }

end CylcModel.DrvC19

def main : IO Unit := CylcModel.Drv.run CylcModel.DrvC19.handle
