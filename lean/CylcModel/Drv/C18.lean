/-
Driver for C18: point / interval algebra (`CylcModel/Points.lean`).

input i :
  {"k": "int", "a": L, "b": L, "i": L}            L = [sign, zeros, mag]   sign: "" | "+" | "-"
      a, b integer point strings `sign 0*zeros digits(mag)`, i an interval string `sign P 0*zeros digits(mag)`
  {"k": "dt", "a": D, "b": D, "i": secs}          D = [instant (seconds), spelling]  (derived by the adapter from
      the real strings: spelling 0 = the string is the canonical dump of its instant; same instant and same
      non-zero spelling = same string)
observed o / model m :
  {"cmp": [lt, le, eq, gt, ge], "heq": bool,            a ? b, hash(a) == hash(b)
   "std": [X, X], "std2": [X, X],                       standardise(a), (b); standardise twice
   "as": X, "sa": X,                                    (a + i) - i ; (a - i) + i
   "d": Y, "da": X,                                     a - b (int: interval literal, dt: seconds) ; b + (a - b)
   "rt": [bool, bool, bool]}                            (a+i)-i == a, (a-i)+i == a, b+(a-b) == a
  X = L (int) | D (dt)          impl only: {"err": "<exception type>"}
  {"k": "hist", "steps": [{"mode": calendar, "a": D, "b": D, "i": secs} ..]}
      a HISTORY: the steps are executed one after the other in ONE process that switches calendar mode in
      between (same cycle point time zone), with the lru caches of cycling/iso8601.py empty at the start;
      observed / model: {"steps": [<as for "dt"> ..]}.  Every step is judged as if it were made alone
      (`Props/C18.dt_cache_transparent`: the model of a history is the model of its steps).
-/
import CylcModel.Util.Drv
import CylcModel.Points
open Lean CylcModel.Drv CylcModel.Points

namespace CylcModel.DrvC18

def parseSign : Json → Except String Sign
  | .str "" => .ok .none
  | .str "+" => .ok .plus
  | .str "-" => .ok .minus
  | _ => .error "sign"

def parseLit (j : Json) : Except String IntLit :=
  match jArr? j with
  | some [s, z, m] => do
    let sg ← parseSign s
    match jNat? z, jNat? m with
    | some z, some m => return ⟨sg, z, m⟩
    | _, _ => .error "literal"
  | _ => .error "literal"

def parseDt (j : Json) : Except String DtLit :=
  match jArr? j with
  | some [t, s] => match jInt? t, jNat? s with
    | some t, some s => .ok ⟨t, s⟩
    | _, _ => .error "dt literal"
  | _ => .error "dt literal"

def signJson : Sign → Json
  | .none => Json.str ""
  | .plus => Json.str "+"
  | .minus => Json.str "-"

def litJson (l : IntLit) : Json := Json.arr #[signJson l.sign, jOfNat l.zeros, jOfNat l.mag]
def dtJson (d : DtLit) : Json := Json.arr #[jOfInt d.inst, jOfNat d.spell]

def cmpJson (c : Int) : Json :=
  let o := cmpObs c
  Json.arr #[Json.bool o.lt, Json.bool o.le, Json.bool o.eq, Json.bool o.gt, Json.bool o.ge]

def modelInt (a b i : IntLit) : Json :=
  let as := IntPoint.sub (IntPoint.add a i) i
  let sa := IntPoint.add (IntPoint.sub a i) i
  let da := IntPoint.add b (IntPoint.diff a b)
  Json.mkObj [
    ("cmp", cmpJson (IntPoint.cmp a b)),
    ("heq", Json.bool (IntPoint.hashKey a == IntPoint.hashKey b)),
    ("std", Json.arr #[litJson (IntPoint.standardise a), litJson (IntPoint.standardise b)]),
    ("std2", Json.arr #[litJson (IntPoint.standardise (IntPoint.standardise a)),
                        litJson (IntPoint.standardise (IntPoint.standardise b))]),
    ("as", litJson as), ("sa", litJson sa),
    ("d", litJson (IntPoint.diff a b)), ("da", litJson da),
    ("rt", Json.arr #[Json.bool (IntPoint.eq as a), Json.bool (IntPoint.eq sa a), Json.bool (IntPoint.eq da a)])]

def modelDt (a b : DtLit) (secs : Int) : Json :=
  let as := DtPoint.sub (DtPoint.add a secs) secs
  let sa := DtPoint.add (DtPoint.sub a secs) secs
  let da := DtPoint.add b (DtPoint.diff a b)
  Json.mkObj [
    ("cmp", cmpJson (DtPoint.cmp a b)),
    ("heq", Json.bool (DtPoint.hashKey a == DtPoint.hashKey b)),
    ("std", Json.arr #[dtJson (DtPoint.standardise a), dtJson (DtPoint.standardise b)]),
    ("std2", Json.arr #[dtJson (DtPoint.standardise (DtPoint.standardise a)),
                        dtJson (DtPoint.standardise (DtPoint.standardise b))]),
    ("as", dtJson as), ("sa", dtJson sa),
    ("d", jOfInt (DtPoint.diff a b)), ("da", dtJson da),
    ("rt", Json.arr #[Json.bool (DtPoint.eq as a), Json.bool (DtPoint.eq sa a), Json.bool (DtPoint.eq da a)])]

/-! ### Judge: the property on the observed answers, from the values alone -/

structure Verdict where
  ok : Bool
  why : String

def signOf (j : Json) : Int := if j == Json.str "-" then -1 else 1

/-- integer value of an observed literal `[sign, zeros, mag]` -/
def obsLitVal (j : Json) : Option Int :=
  match jArr? j with
  | some [s, _, m] => (jInt? m).map fun v => signOf s * v
  | _ => none

/-- is the observed literal in standard form: no `+`, no leading zeros, no `-0` -/
def obsLitStd (j : Json) : Bool :=
  match jArr? j with
  | some [s, z, m] => z == jOfNat 0 && s != Json.str "+" && !(s == Json.str "-" && m == jOfNat 0)
  | _ => false

def obsDtInst (j : Json) : Option Int :=
  match jArr? j with
  | some [t, _] => jInt? t
  | _ => none

def obsDtStd (j : Json) : Bool :=
  match jArr? j with
  | some [_, s] => s == jOfNat 0
  | _ => false

/-- the checks shared by both kinds. `va vb`: the values of a and b; `valOf`: value of an observed point;
`isStd`: is an observed point string in standard form; `same`: are a and b the same string -/
def judgeCommon (o : Json) (va vb : Int) (same nonStd : Bool) (valOf : Json → Option Int) (isStd : Json → Bool)
    (dWant : Json → Bool) (pre : String) : Verdict := Id.run do
  if (jField? o "err").isSome then
    return ⟨false, s!"an operation on well-formed points raised {((jField? o "err").getD Json.null).compress}"⟩
  let cmp := (jArrField? o "cmp").getD []
  let want := [decide (va < vb), decide (va ≤ vb), decide (va = vb), decide (va > vb), decide (va ≥ vb)]
  if cmp != want.map Json.bool then
    return ⟨false, s!"comparison [<, <=, ==, >, >=] = {(Json.arr cmp.toArray).compress} but the values are {va} and {vb}"⟩
  let heq := (jBoolField? o "heq").getD false
  if same && !heq then return ⟨false, "the same string hashes differently"⟩
  if va == vb && !heq then
    if nonStd then
      return ⟨false, "hash-nonstandard-spelling: the points are equal but hash differently (the hash is taken of the raw string)"⟩
    else return ⟨false, "equal standardised points hash differently"⟩
  match (jArrField? o "std").getD [], (jArrField? o "std2").getD [] with
  | [sa, sb], [sa2, sb2] =>
    if valOf sa != some va || valOf sb != some vb then return ⟨false, pre ++ "standardise changed the value of a point"⟩
    if !isStd sa || !isStd sb then return ⟨false, "standardise did not produce the standard form"⟩
    if sa2 != sa || sb2 != sb then return ⟨false, "standardise is not idempotent"⟩
    if va == vb && sa != sb then return ⟨false, "equal points standardise to different strings"⟩
  | _, _ => return ⟨false, "malformed observation (std)"⟩
  let as := (jField? o "as").getD Json.null
  let sa := (jField? o "sa").getD Json.null
  let da := (jField? o "da").getD Json.null
  if valOf as != some va then return ⟨false, pre ++ s!"(a + i) - i = {as.compress} is not the original point"⟩
  if valOf sa != some va then return ⟨false, pre ++ s!"(a - i) + i = {sa.compress} is not the original point"⟩
  if !dWant ((jField? o "d").getD Json.null) then return ⟨false, "a - b is not the interval between the values"⟩
  if valOf da != some va then return ⟨false, pre ++ s!"b + (a - b) = {da.compress} is not a"⟩
  if (jArrField? o "rt").getD [] != [Json.bool true, Json.bool true, Json.bool true] then
    return ⟨false, pre ++ "the round-trip result does not compare equal to the original point"⟩
  return ⟨true, ""⟩

def handle (i o : Json) : Except String Reply := do
  let k ← (jStrField? i "k").elim (.error "k") .ok
  match k with
  | "int" =>
    let a ← parseLit ((jField? i "a").getD Json.null)
    let b ← parseLit ((jField? i "b").getD Json.null)
    let iv ← parseLit ((jField? i "i").getD Json.null)
    let nonStd := !(obsLitStd (litJson a) && obsLitStd (litJson b))
    -- the judge reads the values off the input literals itself (`obsLitVal`), not through the model
    let va := (obsLitVal ((jField? i "a").getD Json.null)).getD 0
    let vb := (obsLitVal ((jField? i "b").getD Json.null)).getD 0
    let v := judgeCommon o va vb (a == b) nonStd obsLitVal obsLitStd
      (fun d => obsLitVal d == some (va - vb)) ""
    return { model := modelInt a b iv, holds := v.ok, why := v.why }
  | "dt" =>
    let a ← parseDt ((jField? i "a").getD Json.null)
    let b ← parseDt ((jField? i "b").getD Json.null)
    let secs ← (jIntField? i "i").elim (.error "i") .ok
    let nonStd := a.spell != 0 || b.spell != 0
    -- input class of the recorded finding: something is not a whole number of minutes
    let subMin := a.inst % 60 != 0 || b.inst % 60 != 0 || secs % 60 != 0
    let v := judgeCommon o a.inst b.inst (a == b) nonStd obsDtInst obsDtStd
      (fun d => jInt? d == some (a.inst - b.inst)) (if subMin then "sub-minute-truncation: " else "")
    return { model := modelDt a b secs, holds := v.ok, why := v.why }
  | "hist" =>
    let steps := (jArrField? i "steps").getD []
    let obs := (jArrField? o "steps").getD []
    if (jField? o "err").isSome || obs.length != steps.length then
      let models ← steps.mapM fun st => do
        let a ← parseDt ((jField? st "a").getD Json.null)
        let b ← parseDt ((jField? st "b").getD Json.null)
        let secs ← (jIntField? st "i").elim (.error "i") .ok
        return modelDt a b secs
      return { model := Json.mkObj [("steps", Json.arr models.toArray)], holds := false,
               why := "the history raised or returned the wrong number of steps" }
    let mut models : Array Json := #[]
    let mut badNew : Option String := none
    let mut badKnown : Option String := none
    let mut n := 0
    for (st, ob) in steps.zip obs do
      n := n + 1
      let a ← parseDt ((jField? st "a").getD Json.null)
      let b ← parseDt ((jField? st "b").getD Json.null)
      let secs ← (jIntField? st "i").elim (.error "i") .ok
      let mode := (jStrField? st "mode").getD "?"
      let nonStd := a.spell != 0 || b.spell != 0
      let subMin := a.inst % 60 != 0 || b.inst % 60 != 0 || secs % 60 != 0
      let v := judgeCommon ob a.inst b.inst (a == b) nonStd obsDtInst obsDtStd
        (fun d => jInt? d == some (a.inst - b.inst)) (if subMin then "sub-minute-truncation: " else "")
      models := models.push (modelDt a b secs)
      if !v.ok then
        let msg := v.why ++ s!" [step {n} of the history, calendar {mode}; judged as if the step were made alone]"
        if v.why.startsWith "hash-nonstandard-spelling:" || v.why.startsWith "sub-minute-truncation:" then
          if badKnown.isNone then badKnown := some msg
        else
          if badNew.isNone then badNew := some msg
    let model := Json.mkObj [("steps", Json.arr models)]
    match badNew, badKnown with
    | some w, _ => return { model := model, holds := false, why := w }
    | none, some w => return { model := model, holds := false, why := w }
    | none, none => return { model := model, holds := true, why := "" }
  | s => .error s!"unknown kind {s}"

end CylcModel.DrvC18

def main : IO Unit := CylcModel.Drv.run CylcModel.DrvC18.handle
