/-
Driver for C20 (crash-restart neither loses nor duplicates work): `Sched3Crash` correspondence + a judge that reads
only the REAL scheduler's observations (and the op list / instance graph of the case).

The run under judgment contains kill points: `crash` ops (the scheduler process dies between two ops) and main loops
that die at their k-th database commit boundary or inside that transaction (`crashed` in the observation of the op);
a new Scheduler restarts from the database each time, the jobs launched before keep reporting (restart poll).

* differential judge (the case carries `base`, the uninterrupted run of the same workflow with the same job
  outcomes): every task instance launched by the uninterrupted run is launched by the killed-and-restarted run and
  vice versa, and every instance ends with the same completed outputs (`no_loss`, "to the same final outputs");
* `no_rerun`: an instance that has reached a final status (succeeded / failed / submit-failed / expired) is never
  launched again (one flow);
* `no_dup_launch`: no two launches carry the same (point, name, submit number).

Failures are classified from the database evidence at the kill point (observation keys `ts` = committed
`task_states` ⋈ `task_outputs`, `pool` = the restored pool); the `why` of a classified failure starts with the key of
the recorded finding (findings/C20.json).  Anything else is reported first.
-/
import CylcModel.Sched3CrashJson
open Lean CylcModel.Drv CylcModel.Sched3Crash

namespace CylcModel.DrvC20

abbrev Key := Int × String

structure Fail where
  known : Bool
  msg : String

def fld (t : Json) (k : String) : Json := (jField? t k).getD Json.null

def keyStr (k : Key) : String := s!"{k.1}/{k.2}"

def findTask (pool : List Json) (k : Key) : Option Json := pool.find? fun t => keyOf t == k

/-- launches `[p, n, sn]` of one observation -/
def launches (ob : Json) : List (Int × String × Nat) :=
  ((jArrField? ob "launch").getD []).filterMap fun l =>
    match jArr? l with
    | some [p, n, sn] => match jInt? p, jStr? n, jNat? sn with
      | some p, some n, some sn => some (p, n, sn)
      | _, _, _ => none
    | _ => none

def isFinalStr (s : String) : Bool := s == "succeeded" || s == "failed" || s == "submit-failed" || s == "expired"

/-- the status changes `[p, n, old, new, ..]` of one observation that end in a final status -/
def finished (ob : Json) : List Key :=
  ((jArrField? ob "trans").getD []).filterMap fun t =>
    match jArr? t with
    | some (p :: n :: _old :: new :: _) => match jInt? p, jStr? n, jStr? new with
      | some p, some n, some st => if isFinalStr st then some (p, n) else none
      | _, _, _ => none
    | _ => none

/-- the observation follows a (re)start of the scheduler from the database: a kill point or a clean restart -/
def isRestartObs (op ob : Json) : Bool :=
  jBoolField? ob "crashed" == some true || jStrField? op "op" == some "restart" || jStrField? op "op" == some "crash"

/-- committed `task_states` row `[p, n, flows, status, sn, flow_wait, outputs]` of an instance in observation `ob` -/
def tsRow (ob : Json) (k : Key) : Option (String × Nat × Nat) :=
  ((jArrField? ob "ts").getD []).findSome? fun r =>
    match jArr? r with
    | some [p, n, _f, st, sn, _fw, outs] =>
      if jInt? p == some k.1 && jStr? n == some k.2 then
        some ((jStr? st).getD "?", (jNat? sn).getD 0, ((jArr? outs).getD []).length)
      else none
    | _ => none

/-- indexed (op, observation) pairs: ops[k] yields obs[k+1], index = k+1 -/
def steps (ops obs : List Json) : List (Nat × Json × Json) :=
  let rec go (i : Nat) : List Json → List Json → List (Nat × Json × Json)
    | op :: ops', ob :: obs' => (i, op, ob) :: go (i + 1) ops' obs'
    | _, _ => []
  go 1 ops (obs.drop 1)

/-! ### `no_dup_launch` and `no_rerun` -/

/-- a main loop ran to its end (and wrote the task-pool table) at some observation in `[a, b]` -/
def completedLoopIn (st : List (Nat × Json × Json)) (a b : Nat) : Bool :=
  st.any fun (i, op, ob) => a ≤ i && i ≤ b && jStrField? op "op" == some "loop" &&
    jBoolField? ob "crashed" != some true && (jOptField ob "stop").isNone

/-- how a restart between observation `i1` and the launch at `i2` explains a repeated launch of `k` under submit
number `sn`: the database at the restart -/
def explain (st : List (Nat × Json × Json)) (fin : List (Nat × Key)) (k : Key) (sn : Nat) (i1 i2 : Nat) : Option String :=
  st.findSome? fun (c, op, ob) =>
    if i1 ≤ c && c < i2 && isRestartObs op ob then
      match findTask (poolOf ob) k with
      | some t =>
        let row := tsRow ob k
        let rowFinal := match row with | some (s, _, _) => isFinalStr s | none => false
        let sn' := (jNatField? t "sn").getD 0
        if sn' < sn then
          if rowFinal then
            -- the recorded finding: the task finished after the pool table was last written
            -- (a main loop that completed after the task finished has written the table without it)
            if (match ((fin.filter fun e => e.2 == k && e.1 ≤ c).map (·.1)).getLast? with
                | some f => completedLoopIn st f c
                | none => false) then none else
            some s!"stale-pool-table: at the restart of op {c} the task_states row of {keyStr k} says {(row.map (·.1)).getD "?"} but the task_pool table still listed it as preparing: it is prepared again"
          else
            -- by design only while the database has not seen job `sn` submitted: its row still says waiting /
            -- preparing, or carries an older submit number
            let unseen := match row with
              | some (rs, rsn, _) => rs == "waiting" || rs == "preparing" || rsn < sn
              | none => true
            if !unseen then none else
            some s!"relaunch-same-submit-number: at the restart of op {c} {keyStr k} comes back {(jStrField? t "st").getD "?"} with submit number {sn'} (the database had not yet seen job {sn} submitted): that number is used again"
        else none
      | none => none
    else none

/-- the failures of the two launch rules, and the instances with a repeated launch that a restart explains -/
def judgeLaunches (ops obs : List Json) : List Fail × List Key :=
  let st := steps ops obs
  let ls : List (Nat × Int × String × Nat) := st.flatMap fun (i, _, ob) => (launches ob).map fun l => (i, l.1, l.2.1, l.2.2)
  let fin : List (Nat × Key) := st.flatMap fun (i, _, ob) => (finished ob).map fun k => (i, k)
  -- duplicates: the same (point, name, submit number) launched twice
  let rec dups : List (Nat × Int × String × Nat) → List Fail
    | [] => []
    | (i1, p, n, sn) :: rest =>
      (match rest.find? fun e => e.2.1 == p && e.2.2.1 == n && e.2.2.2 == sn with
        | some (i2, _, _, _) =>
          (match explain st fin (p, n) sn i1 i2 with
          | some w => [⟨true, w ++ s!" (launches at ops {i1} and {i2})"⟩]
          | none => [⟨false, s!"job {keyStr (p, n)}/{sn} is launched twice (ops {i1} and {i2}) with no restart in between that explains it"⟩])
        | none => []) ++ dups rest
  -- reruns: a launch after the instance had reached a final status
  let reruns : List Fail := ls.filterMap fun (i2, p, n, sn) =>
    match fin.find? fun e => e.2 == (p, n) && e.1 < i2 with
    | some (i1, _) =>
      (match explain st fin (p, n) sn i1 i2 with
      | some w => some ⟨true, w ++ s!" ({keyStr (p, n)} had finished at op {i1}, launched again at op {i2})"⟩
      | none => some ⟨false, s!"{keyStr (p, n)} had reached a final status at op {i1} and is launched again (job {sn}) at op {i2}"⟩)
    | none => none
  let explained : List Key := ls.filterMap fun (i2, p, n, sn) =>
    match ls.find? fun e => e.2.1 == p && e.2.2.1 == n && e.2.2.2 == sn && e.1 < i2 with
    | some (i1, _, _, _) => if (explain st fin (p, n) sn i1 i2).isSome then some (p, n) else none
    | none => none
  (reruns ++ dups ls, explained.eraseDups)

/-! ### a batch of queued database operations is one transaction -/

/-- `kill_at_boundary` on the real database file: a scheduler that dies at the FIRST commit boundary of a main loop -
before the transaction or anywhere inside it - leaves the `task_states` / `task_outputs` rows exactly as they were
after the previous op (key `ts` of the observation before, `dead_db.ts` = the file as the dead process left it), and
the `task_pool` table exactly as the last completed main loop wrote it (unless something committed in between). -/
def judgeAtomic (ops obs : List Json) : List Fail :=
  let st := steps ops obs
  st.flatMap fun (c, op, ob) =>
    if jBoolField? ob "crashed" != some true || jNatField? op "crash_at" != some 0 then [] else
    match jOptField ob "dead_db" with
    | none => []
    | some dd =>
      let where_ := match jOptField op "crash_stmt" with
        | some j => s!"inside the transaction of its first commit (after {j.compress} statements)"
        | none => "at its first commit boundary"
      let prevTs := (obs.drop (c - 1)).head?.bind fun pb => jOptField pb "ts"
      let f1 : List Fail := match prevTs with
        | some t => if fld dd "ts" == t then [] else
            [⟨false, s!"the main loop of op {c} was killed {where_}: the task_states / task_outputs rows in the database file are {(fld dd "ts").compress}, before that main loop they were {t.compress}: the batch was not one transaction"⟩]
        | none => []
      -- the pool table as last observed after a main loop, when nothing committed since
      let before := (obs.take c).zipIdx
      let lastDb := (before.filter fun (pb, _) => (jOptField pb "db").isSome).getLast?
      let f2 : List Fail := match lastDb with
        | some (pb, l) =>
          let quiet := (before.filter fun (_, i) => i > l).all fun (qb, _) => jNatField? qb "ncommit" == some 0
          if !quiet || fld dd "pool" == fld pb "db" then [] else
            [⟨false, s!"the main loop of op {c} was killed {where_}: the task_pool table in the database file is {(fld dd "pool").compress}, the last main loop had left {(fld pb "db").compress}: the batch was not one transaction"⟩]
        | none => []
      f1 ++ f2

/-! ### differential judge -/

def insertKey (k : Key) (l : List Key) : List Key := if l.contains k then l else l ++ [k]

def launchedSet (obs : List Json) : List Key :=
  obs.foldl (fun acc ob => (launches ob).foldl (fun acc l => insertKey (l.1, l.2.1) acc) acc) []

def setFinal (k : Key) (v : Json) (l : List (Key × Json)) : List (Key × Json) :=
  if l.any (·.1 == k) then l.map fun e => if e.1 == k then (k, v) else e else l ++ [(k, v)]

/-- final outputs of every instance: as removed from the pool (the last time), else as in the final pool -/
def finalOutputs (obs : List Json) (lastPool : List Json) : List (Key × Json) :=
  let removed := obs.foldl (fun acc ob =>
      ((jArrField? ob "removed").getD []).foldl (fun acc r =>
        match jArr? r with
        | some (p :: n :: _st :: outs :: _) => match jInt? p, jStr? n with
          | some p, some n => setFinal (p, n) outs acc
          | _, _ => acc
        | _ => acc) acc) []
  lastPool.foldl (fun acc t => setFinal (keyOf t) (fld t "out") acc) removed

/-- instances downstream of `k` in the instance graph: graph children of any output, and the next parentless
instance (spawned when `k` is released), transitively (bounded by the number of instances) -/
def downstream (g : Graph) (roots : List Key) : List Key :=
  let succ (k : Key) : List Key :=
    match (g.task? k.2).bind (·.inst? k.1) with
    | none => []
    | some d =>
      (d.children.flatMap fun (_, cs) => cs.map fun c => (c.pt, c.name)) ++
        (match d.nextParentless with | some np => [(np, k.2)] | none => [])
  let n := (g.tasks.map fun t => t.insts.length).foldl (· + ·) 0
  let rec go : Nat → List Key → List Key → List Key
    | 0, seen, _ => seen
    | _, seen, [] => seen
    | fuel + 1, seen, k :: todo =>
      let new := (succ k).filter fun c => !seen.contains c && !todo.contains c
      go fuel (seen ++ new.eraseDups) (todo ++ new.eraseDups)
  go (n * n + n + 1) roots roots

/-- `[p, n]` pairs of the observation key `adds`: the instances added to the pool during the op -/
def addsOf (ob : Json) : List Key :=
  ((jArrField? ob "adds").getD []).filterMap fun a =>
    match jArr? a with
    | some (p :: n :: _) => match jInt? p, jStr? n with
      | some p, some n => some (p, n)
      | _, _ => none
    | _ => none

def isLoopOp (op : Json) : Bool := jStrField? op "op" == some "loop"

/-- the instances added to the pool since the task-pool table was last written before the restart of observation
`c`: the table is written at the end of every main loop that completes (`none`: no main loop has completed yet -
the table has never been written) -/
def addedSincePoolWrite (st : List (Nat × Json × Json)) (c : Nat) : Option (List Key) :=
  let done := st.filter fun (i, op, ob) => i < c && isLoopOp op && jBoolField? ob "crashed" != some true &&
    (jOptField ob "stop").isNone
  match done.getLast? with
  | none => none
  | some (l, _, _) => some ((st.filter fun (i, _, _) => l < i && i ≤ c).flatMap fun (_, _, ob) => addsOf ob)

/-- the instances that a restart left stranded by the stale pool table: a committed `task_states` row that is not
final and has no outputs, while the instance is not in the restored pool (so `spawn_task` will say "task was
removed") - and it was added to the pool after the task-pool table was last written (otherwise the table has lost
it, which is not the recorded finding) -/
def stranded (st : List (Nat × Json × Json)) : List (Key × Nat) :=
  st.flatMap fun (c, op, ob) =>
    if !isRestartObs op ob then [] else
    let recent := addedSincePoolWrite st c
    ((jArrField? ob "ts").getD []).filterMap fun r =>
      match jArr? r with
      | some [p, n, _f, stt, _sn, _fw, outs] =>
        match jInt? p, jStr? n, jStr? stt with
        | some p, some n, some s =>
          if !isFinalStr s && ((jArr? outs).getD []).isEmpty && (findTask (poolOf ob) (p, n)).isNone &&
              (match recent with | none => true | some l => l.contains (p, n)) then some ((p, n), c) else none
        | _, _, _ => none
      | _ => none

/-- the instances whose completed outputs a restart did not reload: the committed `task_outputs` row has more
outputs than the restored proxy -/
def unloaded (st : List (Nat × Json × Json)) : List (Key × Nat) :=
  st.flatMap fun (c, op, ob) =>
    if !isRestartObs op ob then [] else
    (poolOf ob).filterMap fun t =>
      match tsRow ob (keyOf t) with
      | some (_, _, nouts) => if ((jArrField? t "out").getD []).length < nouts then some (keyOf t, c) else none
      | none => none

def judgeDiff (i : Json) (g : Graph) (ops obs : List Json) (relaunched : List Key) : List Fail :=
  match jOptField i "base" with
  | none => []
  | some base =>
    if jBoolField? i "cut" == some true || jBoolField? base "cut" == some true then [] else
    let st := steps ops obs
    let bobs := (jArrField? base "obs").getD []
    let blast := (jArrField? ((jField? base "last").getD Json.null) "pool").getD []
    let lastPool := match obs.getLast? with | some ob => poolOf ob | none => []
    let lu := launchedSet bobs
    let li := launchedSet obs
    let onlyU := lu.filter fun k => !li.contains k
    let onlyI := li.filter fun k => !lu.contains k
    let str := stranded st
    let down := downstream g (str.map (·.1))
    let unl := unloaded st
    let downU := downstream g (unl.map (·.1))
    let downR := downstream g relaunched
    -- a task that never ran because it is downstream of a recorded cause, and still sits in the final pool, holds
    -- back every later cycle point through the runahead limit
    let blockedBy (d : List Key) : Option Int :=
      minOf (((lastPool.map keyOf).filter fun k => d.contains k && !li.contains k).map (·.1))
    let late (d : List Key) (k : Key) : Bool := match blockedBy d with | some p => k.1 ≥ p | none => false
    let d1 : List Fail :=
      (onlyU.map fun k =>
        match str.find? (·.1 == k) with
        | some (_, c) => ⟨true, s!"stale-pool-table: {keyStr k} is launched by the uninterrupted run and never by the killed-and-restarted run: at the restart of op {c} it has a task_states row (spawned, committed early) but is not in the restored task pool, so it is taken for a removed task"⟩
        | none =>
          if down.contains k then
            ⟨true, s!"stale-pool-table: (consequence) {keyStr k} is launched by the uninterrupted run and never by the killed-and-restarted run: it is downstream of {", ".intercalate (str.map fun e => keyStr e.1)}, lost at a restart"⟩
          else if downU.contains k then
            ⟨true, s!"outputs-not-restored: (consequence) {keyStr k} is launched by the uninterrupted run and never by the killed-and-restarted run: it is downstream of {", ".intercalate (unl.map fun e => keyStr e.1)}, whose completed outputs a restart did not reload"⟩
          else if downR.contains k then
            ⟨true, s!"relaunch-same-submit-number: (consequence) {keyStr k} is launched by the uninterrupted run and never by the killed-and-restarted run: it is downstream of {", ".intercalate (relaunched.map keyStr)}, whose job was launched twice under one submit number (the reports of the first job were taken for the second's)"⟩
          else if late down k then
            ⟨true, s!"stale-pool-table: (consequence) {keyStr k} is launched by the uninterrupted run and never by the killed-and-restarted run: tasks downstream of {", ".intercalate (str.map fun e => keyStr e.1)} (lost at a restart) never run and hold back the runahead limit"⟩
          else if late downU k then
            ⟨true, s!"outputs-not-restored: (consequence) {keyStr k} is launched by the uninterrupted run and never by the killed-and-restarted run: tasks downstream of {", ".intercalate (unl.map fun e => keyStr e.1)} never run and hold back the runahead limit"⟩
          else if late downR k then
            ⟨true, s!"relaunch-same-submit-number: (consequence) {keyStr k} is launched by the uninterrupted run and never by the killed-and-restarted run: tasks downstream of {", ".intercalate (relaunched.map keyStr)} never run and hold back the runahead limit"⟩
          else ⟨false, s!"the uninterrupted run launches {keyStr k}; the killed-and-restarted run never does"⟩) ++
      (onlyI.map fun k => ⟨false, s!"the killed-and-restarted run launches {keyStr k}; the uninterrupted run never does"⟩)
    let fu := finalOutputs bobs blast
    let fi := finalOutputs obs lastPool
    let d2 : List Fail := fu.filterMap fun e =>
      if onlyU.contains e.1 then none else       -- never launched in the killed-and-restarted run: reported above
      match fi.find? (·.1 == e.1) with
      | some e' => if e'.2 == e.2 then none else
          let txt := s!"{keyStr e.1} ends with outputs {e.2.compress} in the uninterrupted run and {e'.2.compress} in the killed-and-restarted run"
          let subset := ((jArr? e'.2).getD []).all fun x => ((jArr? e.2).getD []).contains x
          match unl.find? (·.1 == e.1) with
          | some (_, c) =>
            if subset then some ⟨true, s!"outputs-not-restored: {txt}: the restart of op {c} did not reload the outputs recorded in its task_outputs row"⟩
            else some ⟨false, txt⟩
          | none =>
            if subset && relaunched.contains e.1 then
              some ⟨true, s!"relaunch-same-submit-number: (consequence) {txt}: its job was launched twice under one submit number and the reports of the first job were taken for the second's"⟩
            else some ⟨false, txt⟩
      | none =>
        if onlyU.contains e.1 || down.contains e.1 || downU.contains e.1 || downR.contains e.1 then none    -- reported above / never spawned downstream of a lost task
        else some ⟨false, s!"{keyStr e.1} ends with outputs {e.2.compress} in the uninterrupted run and never exists in the killed-and-restarted run"⟩
    let d3 : List Fail := fi.filterMap fun e =>
      if (fu.find? (·.1 == e.1)).isSome then none else
        some ⟨false, s!"{keyStr e.1} ends with outputs {e.2.compress} in the killed-and-restarted run and never exists in the uninterrupted run"⟩
    -- the submit numbers an instance is launched under (job outcomes are a function of the submit number, so the
    -- uninterrupted run fixes how many jobs the instance needs): one more is a job too many
    let snsOf (os : List Json) (k : Key) : List Nat :=
      (os.flatMap fun ob => (launches ob).filterMap fun l => if (l.1, l.2.1) == k then some l.2.2 else none).eraseDups
    let d4 : List Fail := (lu.filter fun k => li.contains k).filterMap fun k =>
      let su := snsOf bobs k
      let si := snsOf obs k
      let extra := si.filter fun n => !su.contains n
      if extra.isEmpty then none
      else if (unl.any (·.1 == k)) || downU.contains k then
        some ⟨true, s!"outputs-not-restored: (consequence) {keyStr k} is launched under submit numbers {si} in the killed-and-restarted run and {su} in the uninterrupted run"⟩
      else if relaunched.contains k || downR.contains k then
        some ⟨true, s!"relaunch-same-submit-number: (consequence) {keyStr k} is launched under submit numbers {si} in the killed-and-restarted run and {su} in the uninterrupted run"⟩
      else some ⟨false, s!"{keyStr k} is run once more: launched under submit numbers {si} in the killed-and-restarted run, {su} in the uninterrupted run"⟩
    d1 ++ d2 ++ d3 ++ d4

def handle (i o : Json) : Except String Reply := do
  if let some r := crashReply? i then return r
  let c ← parseCase i
  let ops := (jArrField? i "ops").getD []
  let obs := obsList o
  let jl := judgeLaunches ops obs
  let fails := judgeAtomic ops obs ++ jl.1 ++ judgeDiff i c.graph ops obs jl.2
  match fails.find? (!·.known) with
  | some f => return { model := modelObs c, holds := false, why := f.msg }
  | none =>
    match fails with
    | f :: _ => return { model := modelObs c, holds := false, why := f.msg }
    | [] => return { model := modelObs c, holds := true }

end CylcModel.DrvC20

def main : IO Unit := CylcModel.Drv.run CylcModel.DrvC20.handle
