/-
Driver for C04F (runahead limit with FUTURE-TRIGGER offsets; sub-check of C04): `Sched3Fut` correspondence + judge on
the traces of the real scheduler.

The judge reads only the implementation's observations (pool snapshots with the `is_runahead` flag and status of
every proxy, the stop point in effect, the cached `max_future_offset` as the thing judged by clause R3), the
recurrences / limit / per-instance future offsets of the instance graph and the op kinds.  It recomputes the limit
itself (`Sched3FutSpec.specLimit`): base point = the earliest cycle point of the pool of that moment, count limit,
plus the largest future-trigger offset among the pooled tasks, capped at the stop point — it never uses the
implementation's `runahead_limit_point` or `max_future_offset` for that (the observed limit and the observed cached base point are consulted
only to attribute a failure to a recorded finding).  As the code raises a task's offset lazily (when one of its
instances with a future prerequisite is constructed) the offset of the pool is bracketed: at least the largest
offset of the pooled INSTANCES (`lowOff`), at most the largest offset of the pooled TASKS over all their
instances (`highOff`).  Clauses:

* R1 release-sound — every proxy released by start-up or by an op (`rh` true → false, or a new proxy that shows
  up released) lies at or before `specLimit` of the pool the op started with, with `highOff`; a restart may
  release finished tasks only;
* R2 no-deadlock — after start-up and after every main loop no proxy of the pool the loop started with is still
  runahead-limited at or before `specLimit` with `lowOff` (in particular never in the base cycle);
* R3 cache-sound — the cached maximum future offset lies within [`lowOff`, `highOff`] of the observed pool, in every
  observation;
* R0 offset-recorded — what the construction of a task proxy records as the future offset of an instance is what its
  prerequisite atoms give.  The offsets used by R1-R3 (and by the model) are computed from the ATOMS of the instance
  graph (`atomFutOff`: largest distance to an atom at a later cycle, whether written `x[+P2]` or `x[^+P2]`), never
  from `tdef.max_future_prereq_offset`.
-/
import CylcModel.Sched3FutJson
import CylcModel.Sched3FutSpec
open Lean CylcModel.Drv CylcModel.Sched3Fut

namespace CylcModel.DrvC04F

instance : Inhabited Op := ⟨Op.loop⟩

structure T where
  p : Int
  n : String
  rh : Bool
  st : String
  deriving Inhabited

structure Ob where
  pool : List T
  sp : Option Int
  rl : Option Int
  mfo : Option Int
  pb : Option Int
  stop : Bool
  deriving Inhabited

def parseOb (j : Json) : Ob :=
  { pool := ((jArrField? j "pool").getD []).map fun t =>
      { p := (jIntField? t "p").getD 0, n := (jStrField? t "n").getD "", rh := (jBoolField? t "rh").getD false,
        st := (jStrField? t "st").getD "" },
    sp := jIntField? j "stop_point",
    rl := jIntField? j "rl",
    mfo := jIntField? j "mfo",
    pb := jIntField? j "pb",
    stop := (jOptField j "stop").isSome }

def keysOf (pool : List T) : List (Int × String) := pool.map fun t => (t.p, t.n)

def isFinal (st : String) : Bool := st == "succeeded" || st == "failed" || st == "submit-failed" || st == "expired"

def showOpt (o : Option Int) : String := match o with | some v => s!"{v}" | none => "none"

/-- R3 -/
def judgeCache (g : Graph) (idx : Nat) (ob : Ob) : Option String :=
  let lo := lowOff g (keysOf ob.pool)
  let hi := highOff g (keysOf ob.pool)
  if !optLe lo ob.mfo then
    some s!"cached-offset-low: obs {idx}: cached max future offset {showOpt ob.mfo} is below the largest future offset {showOpt lo} of the pooled instances"
  else if !optLe ob.mfo hi then
    some s!"cached-offset-high: obs {idx}: cached max future offset {showOpt ob.mfo} exceeds the largest future offset {showOpt hi} of the pooled tasks"
  else none

/-- start-up -/
def judgeStart (g : Graph) (ob : Ob) : Option String :=
  match baseOf (keysOf ob.pool) with
  | none => none
  | some b =>
    let hi := specLimit g b (highOff g (keysOf ob.pool)) ob.sp
    let lo := specLimit g b (lowOff g (keysOf ob.pool)) ob.sp
    match ob.pool.find? fun t => !t.rh && t.p > hi with
    | some t => some s!"release-beyond-limit: obs 0: {t.p}/{t.n} released at start-up beyond the runahead limit {hi} of base point {b}"
    | none =>
      match ob.pool.find? fun t => t.rh && t.p ≤ lo with
      | some t => some s!"held-inside-limit: obs 0: {t.p}/{t.n} is held back after start-up although the runahead limit of base point {b} is {lo}"
      | none => none

/-- attribution of an R1 failure at observation `i` to the recorded finding `stale-limit-at-stop-point`: before the loop
the observed limit sits at the stop point (so the unforced `compute_runahead` returns early) and was last computed
from a LATER base point than the base point `b` of the pool the loop started with (`pb`, observed
`_prev_runahead_base_point`: the base point moved backward - a future-trigger child, or a restart that computed the
limit on a partly loaded pool) -/
def staleAtStop (obs : Array Ob) (i : Nat) (b : Int) : Bool :=
  let pre := obs[i-1]!
  pre.rl.isSome && pre.rl == pre.sp && (match pre.pb with | some pb => decide (pb > b) | none => false)

/-- attribution of an R2 failure to the recorded finding `stale-runahead-limit` (findings/C43.json): the observed limit
is an earlier, lower stop point that `cylc stop <point>` has since raised without a recomputation -/
def staleLowStop (obs : Array Ob) (i : Nat) : Bool :=
  let pre := obs[i-1]!
  match pre.rl, pre.sp with
  | some rl, some sp =>
    rl < sp && (List.range i).any fun k => obs[k]!.sp == some rl
  | _, _ => false

def judgeOp (g : Graph) (obs : Array Ob) (ops : Array Op) (i : Nat) : Option String :=
  let pre := obs[i-1]!
  let cur := obs[i]!
  let op := ops[i-1]!
  let isLoop := match op with | Op.loop => true | _ => false
  let isRestart := match op with | Op.restart => true | _ => false
  if isRestart then
    -- a restart loads every task runahead-limited and may release finished tasks only
    match cur.pool.find? fun t => !t.rh && !isFinal t.st with
    | some t => some s!"obs {i}: {t.p}/{t.n} ({t.st}) comes out of the restart released from the runahead pool"
    | none => none
  else
  let wasReleased (t : T) : Bool := pre.pool.any fun u => u.p == t.p && u.n == t.n && !u.rh
  let fresh := cur.pool.filter fun t => !t.rh && !wasReleased t
  let opName := if isLoop then "main loop" else "op"
  let keys := keysOf pre.pool
  let r1 : Option String :=
    match fresh with
    | [] => none
    | t :: _ =>
      match baseOf keys with
      | none => some s!"release-beyond-limit: obs {i}: {t.p}/{t.n} released by a {opName} that started with an empty pool"
      | some b =>
        let hi := specLimit g b (highOff g keys) pre.sp
        match fresh.find? fun t => t.p > hi with
        | some t =>
          let key := if staleAtStop obs i b then "stale-limit-at-stop-point: " else "release-beyond-limit: "
          some s!"{key}obs {i}: {t.p}/{t.n} released by a {opName} beyond the runahead limit {hi} (base point {b}, future offset {showOpt (highOff g keys)}, stop point {showOpt pre.sp})"
        | none => none
  match r1 with
  | some w => some w
  | none =>
    if isLoop && !pre.stop then
      match baseOf keys with
      | none => none
      | some b =>
        let lo := specLimit g b (lowOff g keys) pre.sp
        match pre.pool.find? fun u => u.rh && u.p ≤ lo && cur.pool.any (fun t => t.p == u.p && t.n == u.n && t.rh) with
        | some u =>
          let key := if staleLowStop obs i then "stale-runahead-limit: " else "held-inside-limit: "
          some s!"{key}obs {i}: {u.p}/{u.n} is still held back after a main loop although the runahead limit is {lo} (base point {b}, future offset {showOpt (lowOff g keys)}, stop point {showOpt pre.sp})"
        | none => none
    else none

/-- failures attributed to a recorded finding do not hide a later failure that is not -/
def attributed (w : String) : Bool :=
  w.startsWith "stale-limit-at-stop-point:" || w.startsWith "stale-runahead-limit:"

def judge (c : Case) (o : Json) : Option String := Id.run do
  let obs := ((obsList o).map parseOb).toArray
  let ops := c.ops.toArray
  if obs.size == 0 then return some "no observations"
  if obs.size != ops.size + 1 then return some "observation list and op list differ in length"
  -- the hypotheses of the theorems on the instance graph
  if !wfSeqs c.graph then return some "graph-wf: a recurrence of the instance graph is not a strictly ascending point list"
  if !wfOff c.graph then return some "graph-wf: the instance graph has a negative future offset"
  if !wfFut c.graph then return some "graph-wf: a future offset of the instance graph is not the one its prerequisite atoms give"
  let mut known : Option String := none
  -- a failure of R3 (a bad cached value) is reported only if the trace shows no release failure (R1 / R2): the effect
  -- on what is released / held back is the property, the cached value is its cause
  let mut cache : Option String := none
  match judgeStart c.graph obs[0]! with
  | some w => return some w
  | none => pure ()
  for i in [0:obs.size] do
    match judgeCache c.graph i obs[i]! with
    | some w => if cache.isNone then cache := some w
    | none => pure ()
    if i ≥ 1 then
      match judgeOp c.graph obs ops i with
      | some w =>
        if !attributed w then return some w
        if known.isNone then known := some w
      | none => pure ()
  match cache with
  | some w => return some w
  | none => return known

/-- R0 offset-recorded - constructing a proxy of an instance records (in `tdef.max_future_prereq_offset`) exactly the
largest distance to a prerequisite atom at a later cycle, however the trigger is written (`x[+P2]`, `x[^+P2]`) -/
def judgeRecorded (g : Graph) (i : Json) : Option String :=
  let rec go : List (String × Int × Option Int) → Option String
    | [] => none
    | (n, p, rec_) :: rest =>
      let want := instOff g n p
      if rec_ == want then go rest
      else some s!"offset-not-recorded: {p}/{n}: constructing the task proxy records future offset {showOpt rec_}, its prerequisite atoms give {showOpt want}"
  go (recordedOffs ((jField? i "graph").getD Json.null))

def handle (i o : Json) : Except String Reply := do
  if let some r := crashReply? i then return r
  let c ← parseCase i
  -- behavioural clauses first (R1-R3 on the trace), then the static one
  let verdict := match judge c o with
    | some w => if attributed w then (match judgeRecorded c.graph i with | some w0 => some w0 | none => some w) else some w
    | none => judgeRecorded c.graph i
  match verdict with
  | some w => return { model := modelObs c, holds := false, why := w }
  | none => return { model := modelObs c, holds := true }

end CylcModel.DrvC04F

def main : IO Unit := CylcModel.Drv.run CylcModel.DrvC04F.handle
