/-
Driver for C09 (status lifecycle; outputs monotone; implied outputs).

model : `Msg.runX` (= `Sched.run` extended by poll results) on the recorded instance graph and op list.
judge : the property text evaluated on the REAL scheduler's log — every status change
        (`trans`, written by a wrapper of `TaskProxy.state_reset`), every processed message with the
        task's state before/after (`msgs`, a wrapper of `TaskEventsManager.process_message`) and the
        pool snapshots.  Nothing of the model is called.

  (a) every status change happens inside a job message or is the job preparation waiting → preparing;
  (b) inside a message the status only moves forward along the lifecycle, or returns to waiting from
      preparing/submitted/running because a failed job / failed submission has a retry configured
      (the retry bound itself is C02);
  (c) the logged changes account for the status seen in consecutive pool snapshots;
  (d) completed outputs only grow (per message, and between consecutive snapshots of a pooled task);
  (e) succeeded or failed complete ⇒ submitted and started complete (every snapshot, every message).

Two by-design deviations of cylc-flow are recorded findings (findings/C09.json) and are recognised by
their exact shape only: `believed-reversal` (a polled or internal started / succeeded / failed /
submission-failed message is believed even when it moves the status backwards) and `final-not-terminal` (a received job message after submit-failed,
or `succeeded` after failed, changes the finished status) — and the designed step back `job-vacated`
(a `vacated/<SIGNAL>` message puts the task back to submitted).
-/
import CylcModel.MsgJson
open Lean CylcModel.Drv CylcModel.Sched CylcModel.Msg

namespace CylcModel.DrvC09

def findingKeys : List String := ["believed-reversal", "final-not-terminal", "job-vacated"]

def isFinalS (s : String) : Bool := ["succeeded", "failed", "submit-failed", "expired"].contains s

/-- the message announces a status behind the current one, or another finished status -/
def behind (ms st : String) : Bool := phaseS ms < phaseS st || (isFinalS st && ms != st)

/-- a return to waiting: automatic retry of a failed job or of a failed submission -/
def retryOK (ti : Option TInfo) (top : Rec) (old : String) : Bool :=
  let e := match ti with | some t => t.execRetries | none => 0
  let s := match ti with | some t => t.subRetries | none => 0
  ["preparing", "submitted", "running"].contains old &&
    ((isFailMsg top.m && e > 0) || (top.m == "submission failed" && s > 0))

def describe (idx : Nat) (t : Tr) : String := s!"obs {idx}: {t.p}/{t.n} {t.old} -> {t.new}"

/-- (a), (b) for one logged status change -/
def judgeTr (ts : List TInfo) (idx : Nat) (recs : List Rec) (t : Tr) : Option String :=
  if t.tr || !t.inPool then none else          -- objects removed from the pool / loaded from the DB, not yet pooled
  if t.top < 0 then
    if t.old == "waiting" && t.new == "preparing" then none
    else some s!"{describe idx t} outside any job message"
  else
    match recs[t.top.toNat]? with
    | none => some s!"{describe idx t}: malformed log (no enclosing message)"
    | some top =>
      if top.forced then none else
      if fwdS t.old t.new then none
      else if t.new == "waiting" && retryOK (tinfo? ts t.n) top t.old then none
      else
        let what := s!"{describe idx t} on {top.fl} message '{top.m}' (status before the message: {top.b.st})"
        if top.m.startsWith "vacated/" && t.new == "submitted" then some s!"job-vacated: {what}" else
        match msgStatus? top.m with
        | some ms =>
          if (top.fl == "polled" || top.fl == "internal") && top.m != "submitted" && behind ms top.b.st then
            some s!"believed-reversal: {what}"
          else if top.fl == "received" && top.sn == top.b.sn &&
              ((top.b.st == "submit-failed" && ["started", "succeeded", "failed"].contains (baseMsg top.m)) ||
               (top.b.st == "failed" && top.m == "succeeded")) then
            some s!"final-not-terminal: {what}"
          else some what
        | none => some what

/-- (c): the logged changes of one task lead from the status of the previous snapshot to the current one -/
def chainOK (st : String) (ts : List Tr) (st' : String) : Bool :=
  let r := ts.foldl (fun (acc : Option String) t =>
    match acc with
    | none => none
    | some cur => if t.old == cur then some t.new else none) (some st)
  r == some st'

def impliedOK (out : List String) : Bool :=
  !(out.contains "succeeded" || out.contains "failed") || (out.contains "submitted" && out.contains "started")

def judgeObs (ts : List TInfo) (idx : Nat) (prev : Option Json) (ob : Json) : List String :=
  match recsOf ob, transOf ob, poolObs ob with
  | some recs, some trans, some pool =>
    let f1 := trans.filterMap (judgeTr ts idx recs)
    let f2 := recs.filterMap fun r =>
      if !subset r.b.out r.a.out then
        some s!"obs {idx}: {r.p}/{r.n} message '{r.m}' un-completed outputs: {r.b.out} -> {r.a.out}"
      else if r.d == 0 && !r.forced && !impliedOK r.a.out then
        some s!"obs {idx}: {r.p}/{r.n} after message '{r.m}': outputs {r.a.out} lack an implied output"
      else none
    let f3 := pool.filterMap fun x =>
      if !impliedOK x.out then some s!"obs {idx}: {x.p}/{x.n} outputs {x.out} lack an implied output" else none
    let f4 := match prev.bind poolObs with
      | none => []
      | some pp => pool.filterMap fun x =>
        match pp.find? (fun y => y.p == x.p && y.n == x.n) with
        | none => none
        | some y =>
          if !subset y.out x.out then
            some s!"obs {idx}: {x.p}/{x.n} outputs un-completed between snapshots: {y.out} -> {x.out}"
          else
            let mine := trans.filter fun t => t.p == x.p && t.n == x.n && !t.tr && t.inPool
            if !chainOK y.st mine x.st then
              some s!"obs {idx}: {x.p}/{x.n} status {y.st} -> {x.st} is not accounted for by the logged changes"
            else none
    f1 ++ f2 ++ f3 ++ f4
  | _, _, _ => [s!"obs {idx}: observation lacks the message / transition log"]

def judge (i o : Json) : Option String :=
  let ts := tinfos ((jField? i "graph").getD Json.null)
  let obs := obsList o
  let rec go (idx : Nat) (prev : Option Json) : List Json → List String
    | [] => []
    | ob :: rest => judgeObs ts idx prev ob ++ go (idx + 1) (some ob) rest
  pickFailure findingKeys (go 0 none obs)

def handle (i o : Json) : Except String Reply := do
  if let some r := crashReply? i then return r
  let c ← parseXCase i
  -- hypotheses of the lifting theorems, checked on every extracted graph
  let model :=
    if !noSelfChild c.graph then Json.str "hypothesis violated: a task instance is its own graph child"
    else if !stdOutputs c.graph then Json.str "hypothesis violated: a task lacks the submitted/started outputs"
    else modelObsX c
  match judge i o with
  | some w => return { model, holds := false, why := w }
  | none => return { model, holds := true }

end CylcModel.DrvC09

def main : IO Unit := CylcModel.Drv.run CylcModel.DrvC09.handle
