/-
Driver for C16: runs the `IntSeq` model on a JSON case and judges the
implementation's observations against the specification (`Form.specMem`).

input  i : {"form": F, "excl": [{"pt": n} | {"seq": F}], "icp": n, "fcp": n|null,
            "qs": [p...], "win": [lo, hi]}
   F     : {"k": kind, "n": nat?, "a": P?, "b": P?, "step": nat?}   P : {"abs": n} | {"rel": n}
observed o / model m :
   {"build": "err"} | {"build": "unsupported"}
 | {"build": {"start": n, "stop": n|null, "step": n|null}, "start": R, "stop": R,
    "q": [[valid, next, prev, nprev, first] ...]}      R : n | null | "REC"
-/
import CylcModel.Util.Drv
import CylcModel.IntSeq
open Lean CylcModel.Drv CylcModel.IntSeq

namespace CylcModel.DrvC16

def parsePt (j : Json) : Except String PtExpr :=
  match jIntField? j "abs", jIntField? j "rel" with
  | some v, _ => .ok (.abs v)
  | _, some d => .ok (.rel d)
  | _, _ => .error "bad point expr"

def parseForm (j : Json) : Except String Form := do
  let kind ← (jStrField? j "k").elim (.error "form.k") .ok
  let n := (jNatField? j "n").getD 0
  let k := (jNatField? j "step").getD 0
  let a : Except String PtExpr := match jField? j "a" with | some v => parsePt v | none => .error "form.a"
  let b : Except String PtExpr := match jField? j "b" with | some v => parsePt v | none => .error "form.b"
  match kind with
  | "repStartEnd" => return .repStartEnd n (← a) (← b)
  | "startIntv" => return .startIntv (← a) k
  | "intv" => return .intv k
  | "intvEnd" => return .intvEnd k (← b)
  | "r1Start" => return .r1Start (← a)
  | "repStartIntv" => return .repStartIntv n (← a) k
  | "repIntvFromIcp" => return .repIntvFromIcp n k
  | "repIntvEnd" => return .repIntvEnd n k (← b)
  | "repIntv" => return .repIntv n k
  | "r1" => return .r1
  | "r1End" => return .r1End (← b)
  | s => .error s!"unknown form kind {s}"

def parseExcl (j : Json) : Except String ExclItem :=
  match jIntField? j "pt", jField? j "seq" with
  | some v, _ => .ok (.pt v)
  | _, some f => do return .seq (← parseForm f)
  | _, _ => .error "bad exclusion"

structure Case where
  form : Form
  excl : List ExclItem
  icp : Int
  fcp : Option Int
  qs : List Int
  lo : Int
  hi : Int

def parseCase (j : Json) : Except String Case := do
  let form ← match jField? j "form" with | some f => parseForm f | none => .error "form"
  let excl ← ((jArrField? j "excl").getD []).mapM parseExcl
  let icp ← (jIntField? j "icp").elim (.error "icp") .ok
  let fcp := (jOptField j "fcp").bind jInt?
  let qs := ((jArrField? j "qs").getD []).filterMap jInt?
  let win := ((jArrField? j "win").getD []).filterMap jInt?
  match win with
  | [lo, hi] => return ⟨form, excl, icp, fcp, qs, lo, hi⟩
  | _ => .error "win"

def fuel : Nat := 400

def qJson : QRes → Json
  | none => Json.str "REC"
  | some v => jOptInt v

def modelOut (c : Case) : Json :=
  match build c.form c.excl c.icp c.fcp with
  | .error .error => Json.mkObj [("build", "err")]
  | .error .unsupported => Json.mkObj [("build", "unsupported")]
  | .ok s =>
    let b := Json.mkObj [("start", jOfInt s.core.start), ("stop", jOptInt s.core.stop),
                         ("step", jOptInt s.core.step)]
    let qrow (p : Int) : Json := Json.arr #[
      Json.bool (s.isValid p), qJson (s.nextPoint fuel p), qJson (s.prevPoint fuel p),
      qJson (s.nearestPrev fuel p), qJson (s.firstPoint fuel p)]
    Json.mkObj [("build", b), ("start", qJson (s.startPoint fuel)), ("stop", qJson (s.stopPoint fuel)),
                ("q", jOfList qrow c.qs)]

/-! ### Judge: the property evaluated on observations, independent of the model's bounds arithmetic -/

/-- excluded by the specification: an exclusion point, or a member of an exclusion
recurrence taken in the context [specStart, specStop] of the outer recurrence -/
def specExcluded (c : Case) (sStart : Int) (sStop : Option Int) (x : Int) : Bool :=
  c.excl.any fun
    | .pt v => v == x
    | .seq f => f.specMem sStart sStop x

def rangeInts (lo hi : Int) : List Int :=
  (List.range (hi - lo + 1).toNat).map fun (i : Nat) => lo + (i : Int)

structure Verdict where
  ok : Bool
  why : String

def judge (c : Case) (o : Json) : Verdict := Id.run do
  let prog := c.form.prog c.icp c.fcp
  let buildJ := (jField? o "build").getD Json.null
  match prog with
  | none =>
    if buildJ == Json.str "err" then return ⟨true, ""⟩
    else return ⟨false, "recurrence is an error in this context but was accepted"⟩
  | some g =>
    -- points of the bare clipped progression inside the window
    let win := rangeInts c.lo c.hi
    let oneOff := g.step.isNone
    let bare := win.filter fun x => c.form.specMem c.icp c.fcp x
    -- the context handed to exclusion recurrences: first and last point of the clipped progression
    let sStart := bare.head?
    let bounded := g.count.isSome || g.backward || c.fcp.isSome
    let sStop : Option Int := if bounded then bare.getLast? else none
    -- an exclusion recurrence that is an error in that context makes the whole recurrence an error
    let exclErr : Option Bool := sStart.map fun s0 => c.excl.any fun
      | .pt _ => false
      | .seq f => (f.prog s0 sStop).isNone
    if buildJ == Json.str "err" then
      match exclErr with
      | some false => return ⟨false, "valid recurrence rejected"⟩
      | _ => return ⟨true, ""⟩     -- erroneous exclusion, or empty outer set (context of the exclusions undefined)
    if exclErr == some true then return ⟨false, "an exclusion recurrence is an error in its context but was accepted"⟩
    let V : List Int := match sStart with
      | none => []
      | some s0 => bare.filter fun x => !specExcluded c s0 sStop x
    -- one-off recurrences outside the context: known finding, judged on the code's own reading
    let outside := oneOff && bare.isEmpty
    if outside then
      let anyValid := ((jArrField? o "q").getD []).any fun row =>
        match jArr? row with | some (v :: _) => v == Json.bool true | _ => false
      if anyValid then return ⟨false, "oneoff-outside-context: a one-off point outside [icp, fcp] is reported valid"⟩
      else return ⟨true, ""⟩
    let rows := (jArrField? o "q").getD []
    if rows.length != c.qs.length then return ⟨false, "observation has the wrong number of query rows"⟩
    let stepN : Int := match g.step with | some k => k | none => 1
    -- window must contain the queries with a margin; otherwise inconclusive rows are skipped
    let mut bad : Option String := none
    -- start / stop
    if !V.isEmpty then
      let obsStart := (jField? o "start").getD Json.null
      if obsStart != jOptInt V.head? then bad := some s!"start point {obsStart.compress} but the first point of the set is {V.head?}"
      let obsStop := (jField? o "stop").getD Json.null
      if bounded then
        if obsStop != jOptInt V.getLast? then bad := some s!"stop point {obsStop.compress} but the last point of the set is {V.getLast?}"
      else
        if obsStop != Json.null then bad := some s!"stop point {obsStop.compress} of an unbounded recurrence"
    for (p, row) in c.qs.zip rows do
      match jArr? row with
      | some [v, nx, pv, np, fs] =>
        let want := V.contains p
        if v != Json.bool want then
          bad := some s!"is_valid({p}) = {v.compress}, specification says {want}"
        if V.isEmpty then continue
        let first := V.head?.getD 0
        let last := V.getLast?.getD 0
        let gt := V.filter (· > p)
        let lt := V.filter (· < p)
        let ge := V.filter (· ≥ p)
        -- conclusive only when the window reaches beyond the answer
        let upOk := bounded || !gt.isEmpty
        -- next: defined for p ≥ start - step
        if p ≥ first - stepN && upOk then
          if nx != jOptInt gt.head? then
            bad := some s!"next({p}) = {nx.compress}, least member > {p} is {gt.head?}"
        -- prev: stepped sequences, p ≤ stop + step
        if !oneOff && (!bounded || p ≤ last + stepN) then
          if pv != jOptInt lt.getLast? then
            bad := some s!"prev({p}) = {pv.compress}, greatest member < {p} is {lt.getLast?}"
        if (!bounded || p ≤ last + stepN) then
          if np != jOptInt lt.getLast? then
            bad := some s!"nearest_prev({p}) = {np.compress}, greatest member < {p} is {lt.getLast?}"
        if upOk || !ge.isEmpty then
          if fs != jOptInt ge.head? then
            bad := some s!"first({p}) = {fs.compress}, least member ≥ {p} is {ge.head?}"
      | _ => bad := some "malformed query row"
    match bad with
    | some w => return ⟨false, w⟩
    | none => return ⟨true, ""⟩

def handle (i o : Json) : Except String Reply := do
  let c ← parseCase i
  let v := judge c o
  return { model := modelOut c, holds := v.ok, why := v.why }

end CylcModel.DrvC16

def main : IO Unit := CylcModel.Drv.run CylcModel.DrvC16.handle
