/-
Driver for C07F (cycle bounds / stop point WITH future triggers and stop points set by command; sub-check of C07):
`Sched3Fut` correspondence + judge on the observed trace of the real scheduler.

The judge reads only what the REAL scheduler did — the pool after every operation (status, `is_runahead`,
`is_queued`, submit number), every `add_to_pool` call (`adds`), every job launch, the stop point in effect, the pool
snapshot taken when `is_stalled` answered yes (`stall_at`) — and compares it with the bounds / recurrences of the
workflow as written in flow.cylc (`expect`, computed by the harness from the text) and with the prerequisite atoms
of the instance graph.  Clauses:

* B1 bounds — every pooled / added / launched instance lies within [initial, final] on a recurrence point of its
  task (as C07; `graph-wf`: the instance graph lists exactly those points);
* B2 no job beyond the stop point — no launch at a point beyond the stop point in effect (there is no manual
  trigger in these runs); recorded findings of C43 are recognised (`queued-before-stop-point`,
  `retry-beyond-stop-point`);
* B3 beyond the stop point tasks stay runahead-limited — no op releases (`rh` true → false, or a new released
  proxy) an unfinished instance beyond the stop point in effect;
* B4 the future-trigger exception as `spawn_task` documents it — an instance at or before the stop point with a
  prerequisite atom beyond the stop point is never added to the pool (restart loading excepted: it reloads what
  was pooled);
* B5 … and is no reason to stall — whenever the scheduler reports a stall, the pool of that moment holds a
  finished-but-incomplete task or a task at or before the stop point with an unsatisfied prerequisite atom at or
  before the stop point.
-/
import CylcModel.Sched3FutJson
open Lean CylcModel.Drv CylcModel.Sched3Fut

namespace CylcModel.DrvC07F

instance : Inhabited Op := ⟨Op.loop⟩

structure Expect where
  icp : Int
  fcp : Int
  stop : Int
  pts : List (String × List Int)

def parseExpect (i : Json) : Except String Expect := do
  let e ← req (jField? i "expect") "expect"
  let icp ← req (jIntField? e "icp") "expect.icp"
  let fcp ← req (jIntField? e "fcp") "expect.fcp"
  let stop := ((jOptField e "stop").bind jInt?).getD fcp
  let pts := (objPairs ((jField? e "pts").getD Json.null)).map fun (k, v) => (k, ((jArr? v).getD []).filterMap jInt?)
  return { icp, fcp, stop, pts }

def keyProblem (e : Expect) (p : Int) (n : String) : Option String :=
  if p < e.icp then some s!"{p}/{n} is before the initial cycle point {e.icp}"
  else if p > e.fcp then some s!"{p}/{n} is after the final cycle point {e.fcp}"
  else match e.pts.find? (·.1 == n) with
    | none => some s!"{p}/{n}: no such task in the graph"
    | some (_, ps) => if ps.contains p then none else some s!"{p}/{n} is not on a recurrence of {n} (points {ps})"

def firstSome {α} (l : List α) (f : α → Option String) : Option String :=
  l.foldl (fun acc x => match acc with | some w => some w | none => f x) none

structure T where
  p : Int
  n : String
  st : String
  q : Bool
  rh : Bool
  sn : Nat
  deriving Inhabited

structure ST where           -- a proxy of the stall snapshot
  p : Int
  n : String
  st : String
  atoms : List (Int × Bool)  -- (point, satisfied) of every prerequisite atom
  deriving Inhabited

structure Ob where
  pool : List T
  adds : List (Int × String)
  launch : List (Int × String × Nat)
  sp : Option Int
  stalled : Bool
  stallAt : Option (List ST)
  deriving Inhabited

def pairs (j : Json) (k : String) : List (Int × String) :=
  ((jArrField? j k).getD []).filterMap fun a =>
    match jArr? a with
    | some (p :: n :: _) => match jInt? p, jStr? n with | some p, some n => some (p, n) | _, _ => none
    | _ => none

def parseOb (j : Json) : Ob :=
  { pool := ((jArrField? j "pool").getD []).map fun t =>
      { p := (jIntField? t "p").getD 0, n := (jStrField? t "n").getD "", st := (jStrField? t "st").getD "",
        q := (jBoolField? t "q").getD false, rh := (jBoolField? t "rh").getD false, sn := (jNatField? t "sn").getD 0 },
    adds := pairs j "adds",
    launch := ((jArrField? j "launch").getD []).filterMap fun l =>
      match jArr? l with
      | some [p, n, s] => some ((jInt? p).getD 0, (jStr? n).getD "", (jNat? s).getD 0)
      | _ => none,
    sp := jIntField? j "stop_point",
    stalled := (jBoolField? j "stalled").getD false,
    stallAt := (jOptField j "stall_at").map fun sa =>
      ((jArrField? sa "pool").getD []).map fun t =>
        { p := (jIntField? t "p").getD 0, n := (jStrField? t "n").getD "", st := (jStrField? t "st").getD "",
          atoms := ((jArrField? t "pre").getD []).flatMap fun pre =>
            ((jArr? pre).getD []).filterMap fun a =>
              match jArr? a with
              | some [p, _, _, s] => some ((jInt? p).getD 0, (jBool? s).getD false)
              | _ => none } }

def find (pool : List T) (p : Int) (n : String) : Option T := pool.find? fun t => t.p == p && t.n == n

def isFinal (st : String) : Bool := st == "succeeded" || st == "failed" || st == "submit-failed" || st == "expired"

def tid (p : Int) (n : String) : String := s!"{p}/{n}"

/-- B2 attribution of a launch of `p/n` (submit number `sn`) beyond the stop point at observation `i` to the findings
recorded for C43: the latest earlier observation `j` whose stop point still covered `p` tells whether the instance had
already been queued (and stayed queued) or already had a job when the stop point moved below it -/
def classifyBeyond (obs : Array Ob) (i : Nat) (p : Int) (n : String) (sn : Nat) : String := Id.run do
  let mut j? : Option Nat := none
  for k in [0:i] do
    match obs[k]!.sp with
    | some sp => if p ≤ sp then j? := some k
    | none => pure ()
  match j? with
  | none => return ""
  | some j =>
    match find obs[j]!.pool p n with
    | none => return ""
    | some t =>
      let mut stayedQueued := t.q
      for k in [j:i] do
        match find obs[k]!.pool p n with
        | some u => if !u.q then stayedQueued := false
        | none => stayedQueued := false
      if stayedQueued then return "queued-before-stop-point: "
      let preSn := match find obs[i-1]!.pool p n with | some u => u.sn | none => 0
      let preSt := match find obs[i-1]!.pool p n with | some u => u.st | none => ""
      if t.sn ≥ 1 && sn == preSn + 1 && preSn ≥ t.sn && preSt == "waiting" then
        return "retry-beyond-stop-point: "
      return ""

/-- the points of the prerequisite atoms of instance `p/n` (instance graph) -/
def atomPoints (g : Graph) (p : Int) (n : String) : List Int :=
  match (g.task? n).bind (·.inst? p) with
  | some d => d.pre.flatMap fun pr => pr.atoms.map fun a => a.1.pt
  | none => []

/-- failures attributed to a recorded finding do not hide a failure that is not -/
def attributed (w : String) : Bool :=
  w.startsWith "queued-before-stop-point:" || w.startsWith "retry-beyond-stop-point:"

/-- the first failure that is not attributed to a recorded finding, else the first attributed one -/
def pick (l : List (Option String)) : Option String :=
  let fs := l.filterMap id
  match fs.find? (fun w => !attributed w) with
  | some w => some w
  | none => fs.head?

def judgeObs (e : Expect) (g : Graph) (obs : Array Ob) (ops : Array Op) (i : Nat) : Option String :=
  let cur := obs[i]!
  let isRestart := i ≥ 1 && (match ops[i-1]! with | Op.restart => true | _ => false)
  -- the stop point in effect while the op ran (a stop-point command adds / launches nothing)
  let spEff : Option Int := if i == 0 || isRestart then cur.sp else obs[i-1]!.sp
  -- B1
  let b1a := firstSome cur.pool fun t => (keyProblem e t.p t.n).map fun w => s!"obs {i}: in the pool: {w}"
  let b1b := firstSome cur.adds fun k => (keyProblem e k.1 k.2).map fun w => s!"obs {i}: added to the pool: {w}"
  let b1c := firstSome cur.launch fun l => (keyProblem e l.1 l.2.1).map fun w => s!"obs {i}: job submitted: {w}"
  -- B2 (every launch beyond the stop point; an unattributed one first)
  let b2s : List (Option String) := cur.launch.map fun l =>
    match cur.sp with
    | some sp =>
      if l.1 > sp then
        some s!"{classifyBeyond obs i l.1 l.2.1 l.2.2}obs {i}: {tid l.1 l.2.1} (submit {l.2.2}) launched beyond the stop point {sp}"
      else none
    | none => none
  -- B3
  let b3 : Option String :=
    if i == 0 then
      match spEff with
      | some sp => firstSome cur.pool fun t =>
          if t.p > sp && !t.rh && !isFinal t.st then
            some s!"released-beyond-stop-point: obs 0: {tid t.p t.n} released at start-up beyond the stop point {sp}"
          else none
      | none => none
    else if isRestart then none
    else
      let pre := obs[i-1]!
      match spEff with
      | some sp => firstSome cur.pool fun t =>
          let wasReleased := pre.pool.any fun u => u.p == t.p && u.n == t.n && !u.rh
          if t.p > sp && !t.rh && !wasReleased && !isFinal t.st then
            some s!"released-beyond-stop-point: obs {i}: {tid t.p t.n} released from the runahead pool beyond the stop point {sp}"
          else none
      | none => none
  -- B4
  let b4 : Option String :=
    if isRestart then none else
    match spEff with
    | some sp => firstSome cur.adds fun k =>
        if k.1 ≤ sp then
          match (atomPoints g k.1 k.2).find? (· > sp) with
          | some q => some s!"spawned-with-prerequisite-beyond-stop-point: obs {i}: {tid k.1 k.2} added to the pool although its prerequisite at cycle {q} is beyond the stop point {sp}"
          | none => none
        else none
    | none => none
  -- B5
  let b5 : Option String :=
    match cur.stallAt, spEff with
    | some snap, some sp =>
      if i ≥ 1 && cur.stalled && !obs[i-1]!.stalled then
        let reason := snap.any fun t =>
          isFinal t.st || (t.p ≤ sp && t.atoms.any fun a => !a.2 && a.1 ≤ sp)
        if reason then none
        else some s!"stall-without-reason: obs {i}: stall reported although no pooled task is incomplete and no task at or before the stop point {sp} waits on anything at or before it"
      else none
    | _, _ => none
  pick ([b1a, b1b, b1c] ++ b2s ++ [b3, b4, b5])

/-- the instance graph given to the model lists exactly the recurrence points of every task -/
def graphWf (e : Expect) (g : Graph) : Option String :=
  if g.icp != e.icp || g.fcp != e.fcp then some s!"graph-wf: bounds {g.icp}..{g.fcp} differ from flow.cylc {e.icp}..{e.fcp}"
  else if g.stopPoint != some e.stop then some s!"graph-wf: stop point of the pool differs from flow.cylc ({e.stop})"
  else
    match firstSome g.tasks fun t =>
      let want := (e.pts.find? (·.1 == t.name)).map (·.2)
      let have_ := t.insts.map (·.1)
      if want == some have_ then none
      else some s!"graph-wf: valid points of {t.name} are {have_}, the recurrences in flow.cylc give {want}" with
    | some w => some w
    | none =>
      firstSome e.pts fun (n, _) => if (g.task? n).isSome then none else some s!"graph-wf: task {n} missing from the graph"

def judge (e : Expect) (c : Case) (o : Json) : Option String := Id.run do
  let obs := ((obsList o).map parseOb).toArray
  let ops := c.ops.toArray
  if obs.size == 0 then return some "no observations"
  if obs.size != ops.size + 1 then return some "observation list and op list differ in length"
  let mut known : Option String := none
  for i in [0:obs.size] do
    match judgeObs e c.graph obs ops i with
    | some w =>
      if !attributed w then return some w
      if known.isNone then known := some w
    | none => pure ()
  match graphWf e c.graph with
  | some w => return some w
  | none => return known

def handle (i o : Json) : Except String Reply := do
  if let some r := crashReply? i then return r
  let c ← parseCase i
  let e ← parseExpect i
  match judge e c o with
  | some w => return { model := modelObs c, holds := false, why := w }
  | none => return { model := modelObs c, holds := true }

end CylcModel.DrvC07F

def main : IO Unit := CylcModel.Drv.run CylcModel.DrvC07F.handle
