/-
Driver for C15: runs the `Fam` model on a JSON case and judges the implementation's
observation against the property (family qualifier semantics written from the spec side:
`Stem`, `famQual?`, `nodeSpec`, truth tables — never the model's `expand*`/`proc*` functions).

input i : {"mode": "parser"|"config", "fams": [[F,[m..]]..] | "inherit": [[ns,[parents..]]..],
           "lines": [[T, T, ..] ..], "tie": "asc"|"desc", "ws": n}
   T     : {"n": {"name","off","q","opt","sui"}} | {"and":[T,T]} | {"or":[T,T]} | {"par": T}
observed o / model m :
   {"fm": [[F,[m..]]..] sorted, "err": "GraphParseError"}
 | {"fm": .., "trig": [[task, expr, [trigs sorted unique], suicide] ..] sorted,
              "opt": [[task, output, optional, default, fixed] ..] sorted,
              "term": "ok"|"err"}     (WorkflowConfig.check_terminal_outputs(parser.terminals), no custom outputs defined)
-/
import CylcModel.Util.Drv
import CylcModel.Fam
open Lean CylcModel.Drv CylcModel.Fam

namespace CylcModel.DrvC15

/-! ### decoding -/

def parseNode (j : Json) : Except String Node := do
  let name ← (jStrField? j "name").elim (.error "node.name") .ok
  return { name := name, offset := (jStrField? j "off").getD "", qual := (jStrField? j "q").getD "",
           opt := (jBoolField? j "opt").getD false, suicide := (jBoolField? j "sui").getD false }

partial def parseTree (j : Json) : Except String (Tree Node) :=
  match jField? j "n", jArrField? j "and", jArrField? j "or", jField? j "par" with
  | some n, _, _, _ => do return .leaf (← parseNode n)
  | _, some [l, r], _, _ => do return .and (← parseTree l) (← parseTree r)
  | _, _, some [l, r], _ => do return .or (← parseTree l) (← parseTree r)
  | _, _, _, some t => do return .paren (← parseTree t)
  | _, _, _, _ => .error "bad tree"

def parseAssoc (js : List Json) : Except String (List (String × List String)) :=
  js.mapM fun e => match jArr? e with
    | some [k, v] =>
      match jStr? k, jArr? v with
      | some k, some vs => .ok (k, vs.filterMap jStr?)
      | _, _ => .error "bad assoc entry"
    | _ => .error "bad assoc entry"

structure In where
  config : Bool
  fams : FamMap          -- parser mode
  decls : Decls          -- config mode
  lines : List (List (Tree Node))
  tieDesc : Bool

def parseIn (j : Json) : Except String In := do
  let mode := (jStrField? j "mode").getD "parser"
  let fams ← parseAssoc ((jArrField? j "fams").getD [])
  let decls ← parseAssoc ((jArrField? j "inherit").getD [])
  let lines ← ((jArrField? j "lines").getD []).mapM fun l =>
    match jArr? l with
    | some es => es.mapM parseTree
    | none => .error "bad line"
  return { config := mode == "config", fams, decls, lines, tieDesc := (jStrField? j "tie") == some "desc" }

/-! ### model output -/

def strLe (a b : String) : Bool := decide (a ≤ b)
def pairLe (a b : String × String) : Bool := decide (a.1 < b.1) || (a.1 == b.1 && strLe a.2 b.2)

def jStrs (l : List String) : Json := jOfList Json.str l

def fmJson (fm : FamMap) : Json :=
  jOfList (fun (e : String × List String) => Json.arr #[Json.str e.1, jStrs e.2])
    (fm.mergeSort fun a b => strLe a.1 b.1)

def stateJson (st : State) : List (String × Json) :=
  let tr := st.trigs.mergeSort fun a b => pairLe a.1 b.1
  let op := st.opts.mergeSort fun a b => pairLe a.1 b.1
  [("trig", jOfList (fun (e : (String × String) × (List String × Bool)) =>
      Json.arr #[Json.str e.1.1, Json.str e.1.2, jStrs (sortStrings e.2.1.eraseDups), Json.bool e.2.2]) tr),
   ("opt", jOfList (fun (e : (String × String) × OptVal) =>
      Json.arr #[Json.str e.1.1, Json.str e.1.2, Json.bool e.2.1, Json.bool e.2.2.1, Json.bool e.2.2.2]) op)]

def modelOut (i : In) : Json :=
  let fm := if i.config then familyMap i.decls else i.fams
  match parseGraph { fm := fm, lines := i.lines, tieDesc := i.tieDesc } with
  | none => Json.mkObj [("fm", fmJson fm), ("err", "GraphParseError")]
  | some p =>
    let term := if p.terminals.all terminalOk then "ok" else "err"
    Json.mkObj (("fm", fmJson fm) :: stateJson p.st ++ [("term", Json.str term)])

/-! ### judge -/

/-- spec-side family members in config mode: tasks (namespaces nobody inherits from) that inherit
from `F` directly or indirectly — computed by fixpoint iteration, independently of `Fam.ancestors` -/
def specBelow (d : Decls) (F : String) : List String :=
  let names := (d.map (·.1)).eraseDups
  let step (s : List String) : List String :=
    names.filter fun x => s.contains x || (parentsOf d x).any fun p => p == F || s.contains p
  (List.range (names.length + 1)).foldl (fun s _ => step s) []

def specFamMap (d : Decls) : FamMap :=
  let names := (d.map (·.1)).eraseDups
  let isParent (t : String) : Bool := names.any fun x => (parentsOf d x).contains t
  (names.filter fun f => f != rootName && isParent f).map fun f =>
    (f, (specBelow d f).filter fun t => !isParent t)

def isWordChar (c : Char) : Bool := c.isAlphanum || c == '_'

/-- conservative "obviously well-formed" node syntax -/
def clearNode (n : Node) : Bool :=
  let nameOk (cs : List Char) : Bool :=
    match cs with
    | [] => false
    | c :: r => isWordChar c && r.all fun d => isWordChar d || d == '-' || d == '+' || d == '%' || d == '@'
  if n.isXtrig then
    (match n.name.toList with
     | _ :: r => !r.isEmpty && r.all fun d => isWordChar d || d == '-' || d == '+' || d == '%'
     | [] => false) && n.offset == "" && n.qual == "" && !n.opt && !n.suicide
  else
    nameOk n.name.toList &&
    (n.offset == "" ||
      (match n.offset.toList with
       | '[' :: r => (match r.reverse with
          | ']' :: m => !m.isEmpty && m.all fun d => isWordChar d || d == '-' || d == '+' || d == '^' || d == ':'
          | _ => false)
       | _ => false)) &&
    (n.qual.toList.all fun d => isWordChar d || d == '-')

/-- one declaration of output optionality: ((task, output), optional?, via a family?) -/
abbrev Decl := (String × String) × Bool × Bool

/-- what a node occurrence declares, read liberally (every non-suicide occurrence counts) -/
def nodeDecls (fm : FamMap) (isFirst : Bool) (n : Node) : List Decl :=
  if n.suicide || n.isXtrig then [] else
  match fm.lookup n.name with
  | some ms =>
    let q := if n.qual == "" then (if isFirst then "succeed-all" else "") else n.qual
    (match famQual? q with
     | some (s, _) =>
       ms.flatMap fun m => s.outputs.map fun o => ((m, o), (if s == .finish then true else n.opt), true)
     | none => [])
  | none =>
    let o := if n.qual == "" then "succeeded" else specStd n.qual
    if o == "finished" then [((n.name, "succeeded"), true, false), ((n.name, "failed"), true, false)]
    else [((n.name, o), n.opt, false)]

def targets (fm : FamMap) (r : Node) : List String :=
  match fm.lookup r.name with
  | some ms => ms
  | none => [r.name]

def allDecls (fm : FamMap) (lines : List (List (Tree Node))) : List Decl :=
  lines.flatMap fun ch =>
    (ch.zipIdx).flatMap fun (e, i) => e.leaves.flatMap (nodeDecls fm (i == 0))

/-- A sufficient condition for "this graph is valid and must be accepted": clean node syntax,
legal qualifiers everywhere, and no two declarations of optionality that could conflict. -/
def mustAccept (fm : FamMap) (lines : List (List (Tree Node))) : Bool :=
  let decls := allDecls fm lines
  let flagsOf (k : String × String) : List Bool := (decls.filter fun d => d.1 == k).map (·.2.1)
  let nodesOk := lines.all fun ch =>
    let last := ch.length - 1
    (ch.zipIdx).all fun (e, i) =>
      e.leaves.all (fun n =>
        clearNode n &&
        -- qualifier legality
        (n.isXtrig ||
          (match fm.lookup n.name with
           | some _ => (n.qual == "" && !(i < last)) || (famQual? n.qual).isSome
           | none => (famQual? n.qual).isNone)) &&
        -- the finish pseudo-output can't be optional
        !(n.opt && ((match famQual? n.qual with | some (s, _) => s == Stem.finish | none => false) ||
                    specStd n.qual == "finished"))) &&
      -- used on the right: no OR, no xtriggers, no offsets
      (i == 0 || (!e.hasOr && e.leaves.all fun n => !n.isXtrig && n.offset == "")) &&
      -- used on the left: no suicide marks
      (!(i < last) || e.leaves.all fun n => !n.suicide)
  let declsOk := decls.all fun d =>
    let (k, flag, _) := d
    let (t, o) := k
    (flagsOf k).all (· == flag) &&
    (!(o == "expired" || o == "submit-failed") || flag) &&
    ((match (if o == "succeeded" then some "failed" else if o == "failed" then some "succeeded"
              else if o == "submitted" then some "submit-failed"
              else if o == "submit-failed" then some "submitted" else none) with
      | some opp => (flagsOf (t, opp)).isEmpty || (flag && (flagsOf (t, opp)).all id)
      | none => true))
  -- no task is both triggered and suicide-triggered
  let rightNodes := lines.flatMap fun ch => (ch.drop 1).flatMap Tree.leaves
  let sui := (rightNodes.filter (·.suicide)).flatMap (targets fm)
  let nonsui := (rightNodes.filter fun n => !n.suicide).flatMap (targets fm)
  nodesOk && declsOk && !(sui.any nonsui.contains)

structure Verdict where
  ok : Bool
  why : String := ""

def subsetsOf : List String → List (List String)
  | [] => [[]]
  | a :: r => let s := subsetsOf r; s ++ s.map (a :: ·)

/-- valuations (as sets of true atoms) on which two expressions are compared: all of them up to 12
atoms, otherwise corners, singletons, co-singletons and 600 pseudo-random ones -/
def valuations (atoms : List String) : List (List String) :=
  if atoms.length ≤ 12 then subsetsOf atoms
  else
    let singles := atoms.map fun a => [a]
    let cos := atoms.map fun a => atoms.filter (· != a)
    let rnd := (List.range 600).map fun k =>
      (atoms.zipIdx).filterMap fun (a, i) =>
        let h := ((k + 1) * 2654435761 + (i + 7) * 40503 + (k + 1) * (i + 1) * 97) % 4294967296
        if (h / 65536) % 2 == 0 then some a else none
    [[], atoms] ++ singles ++ cos ++ rnd

def obsTrigs (o : Json) : List (String × String × List String × Bool) :=
  ((jArrField? o "trig").getD []).filterMap fun e =>
    match jArr? e with
    | some [n, x, ts, s] =>
      match jStr? n, jStr? x, jArr? ts, jBool? s with
      | some n, some x, some ts, some s => some (n, x, ts.filterMap jStr?, s)
      | _, _, _, _ => none
    | _ => none

def obsOpts (o : Json) : List ((String × String) × Bool) :=
  ((jArrField? o "opt").getD []).filterMap fun e =>
    match jArr? e with
    | some (n :: x :: b :: _) =>
      match jStr? n, jStr? x, jBool? b with
      | some n, some x, some b => some ((n, x), b)
      | _, _, _ => none
    | _ => none

def judge (i : In) (o : Json) : Verdict := Id.run do
  let fm := if i.config then specFamMap i.decls else i.fams
  let must := mustAccept fm i.lines
  if (jField? o "err").isSome then
    if must then
      return ⟨false, "rejected-valid-graph: a valid family-trigger graph is rejected (" ++ ((jStrField? o "err").getD "?") ++ ")"⟩
    else return ⟨true, ""⟩
  -- accepted: (1) every task's triggers are equivalent to the member-level meaning of the left sides
  let obs := obsTrigs o
  let mut expected : List ((String × Bool) × Tree Node) := []
  for ch in i.lines do
    for (l, r) in ch.zip (ch.drop 1) do
      for rn in r.leaves do
        if rn.offset == "" then
          for m in targets fm rn do
            expected := ((m, rn.suicide), l) :: expected
  let mut got : List ((String × Bool) × Tree String) := []
  for (n, x, ts, s) in obs do
    if x != "" then
      match parseExpr x with
      | none => return ⟨false, s!"malformed-expression: trigger expression of {n} is not a well-formed expression: {x}"⟩
      | some t =>
        if !(t.leaves.all ts.contains) then
          return ⟨false, s!"atom-without-trigger: trigger expression of {n} mentions an atom without a trigger: {x}"⟩
        got := ((n, s), t) :: got
  let keys := ((expected.map (·.1)) ++ (got.map (·.1))).eraseDups
  for k in keys do
    let ls := (expected.filter (·.1 == k)).map (·.2)
    let gs := (got.filter (·.1 == k)).map (·.2)
    let atoms := ((ls.flatMap fun l => l.leaves.flatMap (nodeSpecAtoms fm)) ++ gs.flatMap Tree.leaves).eraseDups
    for v in valuations atoms do
      let σ : String → Bool := fun a => v.contains a
      let want := ls.all fun l => specDen fm σ l
      let have_ := gs.all fun g => g.den σ
      if want != have_ then
        let kind := if k.2 then "suicide triggers" else "triggers"
        return ⟨false, s!"trigger-meaning: {kind} of {k.1} are {gs.map exprText}: with exactly {v} complete they are " ++
          s!"{have_} but the member-level meaning of the left sides {ls.map nodeText} is {want}"⟩
  -- (2) a family applies its declared optionality to every member
  let opts := obsOpts o
  let decls := allDecls fm i.lines
  for d in decls do
    let (k, flag, viaFam) := d
    if viaFam then
      match opts.lookup k with
      | none => return ⟨false, s!"member-optionality: optionality of {k.1}:{k.2} declared through its family is not recorded"⟩
      | some b =>
        if b != flag && !(decls.any fun e => e.1 == k && !e.2.2 && e.2.1 == b) then
          return ⟨false, s!"member-optionality: {k.1}:{k.2} is declared " ++ (if flag then "optional" else "required") ++
            " through its family but recorded as " ++ (if b then "optional" else "required")⟩
  for (k, _) in opts do
    if !(decls.any fun e => e.1 == k) then
      return ⟨false, s!"undeclared-optionality: optionality recorded for {k.1}:{k.2}, which the graph never declares"⟩
  -- (3) a graph that only uses built-in qualifiers passes the terminal-output check of WorkflowConfig
  let builtin := i.lines.all fun ch => ch.all fun e => e.leaves.all fun n =>
    n.qual == "" || (famQual? n.qual).isSome || Stem.all.any fun s => s.output == specStd n.qual
  if must && builtin && (jStrField? o "term") != some "ok" then
    return ⟨false, "terminal-qualifier-rejected: a family / built-in qualifier at the end of a chain is rejected by " ++
      "WorkflowConfig.check_terminal_outputs as an undefined custom output"⟩
  return ⟨true, ""⟩

def handle (i o : Json) : Except String Reply := do
  let c ← parseIn i
  let v := judge c o
  return { model := modelOut c, holds := v.ok, why := v.why }

end CylcModel.DrvC15

def main : IO Unit := CylcModel.Drv.run CylcModel.DrvC15.handle
