/-
Driver for C24: runs the `REval` model on a JSON case and judges the implementation's
observation against the property ("anything other than the whitelisted syntax is rejected before
any part of it is evaluated; evaluation sees no builtins and no names other than the supplied
variables").

input  i : {"ev": "completion" | "ranking" | "custom",
            "wl": [class...],          -- the whitelist the live evaluator object checks against
            "expr": text, "tree": T | null,   -- T = [class, payload, [T...]]: ast.parse(text.strip(), mode='eval')
            "vars": [[name, truthy]...]}      -- supplied variables (side-effect canaries)
        or a history {"seq": [i1, i2, ...]} of such calls made in order in one process
observed o / model m :   (for a history: {"seq": [o1, o2, ...]})
   {"res": "syntax", "log": []} | {"res": "reject", "kind": K, "log": [...]}
 | {"res": "value", "val": V, "log": [...]} | {"res": "nameerror", "name": x, "log": [...]}
 | {"res": "raise", "exc": T, "log": [...]}           (implementation only)
 | {"res": "unmodelled"}                               (model only: accepted, outside the modelled fragment)
   V   : "var:x" | "const:True" | "const:{}" | "builtin:x" | "other:<type>"
   log : sorted set of "bool:x" (truth test of the object supplied for x), "op:x:<hook>" (any other
         special method of it), "builtin-canary" (the function planted in the real builtins ran)
-/
import CylcModel.Util.Drv
import CylcModel.REval
open Lean CylcModel.Drv CylcModel.REval CylcModel.Generated.REval

namespace CylcModel.DrvC24

partial def parseTree (j : Json) : Except String PyExpr :=
  match jArr? j with
  | some [k, t, cs] => do
    let k ← (jStr? k).elim (.error "tree kind") .ok
    let t := (jStr? t).getD ""
    let cs ← match jArr? cs with
      | some l => l.mapM parseTree
      | none => .error "tree children"
    return .node k t cs
  | _ => .error "tree node"

structure Case where
  ev : String
  wl : List String
  tree : Option PyExpr
  vars : Vars

def parseCase (j : Json) : Except String Case := do
  let ev ← (jStrField? j "ev").elim (.error "ev") .ok
  let wl := ((jArrField? j "wl").getD []).filterMap jStr?
  let tree ← match jOptField j "tree" with
    | some t => (parseTree t).map some
    | none => pure none
  let vars := ((jArrField? j "vars").getD []).filterMap fun v =>
    match jArr? v with
    | some [n, b] => match jStr? n, jBool? b with
      | some n, some b => some (n, b)
      | _, _ => none
    | _ => none
  return ⟨ev, wl, tree, vars⟩

/-- the whitelist the model uses: the generated table for the evaluators of the code base -/
def modelWhitelist (c : Case) : List String :=
  if c.ev == "completion" then completionWhitelist
  else if c.ev == "ranking" then
    (evaluators.lookup "cylc.flow.host_select.RankingExpressionEvaluator").getD c.wl
  else c.wl

def jStrs (l : List String) : Json := jOfList Json.str l

def insertSorted (x : String) : List String → List String
  | [] => [x]
  | y :: ys => if x < y then x :: y :: ys else if x == y then y :: ys else y :: insertSorted x ys

def sortDedup (l : List String) : List String := l.foldr insertSorted []

def encVal (cfg : EvalCfg) : Val → String
  | .var x => "var:" ++ x
  | .globalEntry _ => if cfg.builtinsKeys == some [] then "const:{}" else "other:dict"
  | .builtin x => "builtin:" ++ x
  | .debugConst => "const:True"

def logOf (t : List String) : Json := jStrs (sortDedup (t.map fun x => "bool:" ++ x))

def modelOut (c : Case) : Json :=
  match run (modelWhitelist c) liveCfg c.tree c.vars with
  | .syntaxError => Json.mkObj [("res", "syntax"), ("log", jStrs [])]
  | .rejected k => Json.mkObj [("res", "reject"), ("kind", Json.str k), ("log", jStrs [])]
  | .evaluated (.value v t) => Json.mkObj [("res", "value"), ("val", Json.str (encVal liveCfg v)), ("log", logOf t)]
  | .evaluated (.nameError x t) => Json.mkObj [("res", "nameerror"), ("name", Json.str x), ("log", logOf t)]
  | .evaluated .unmodelled => Json.mkObj [("res", "unmodelled")]

/-! ### judge (specification side) -/

-- all (class, payload) pairs of a tree; written here, independent of the model's traversal
mutual
def flatten : PyExpr → List (String × String)
  | .node k t cs => (k, t) :: flattenList cs
def flattenList : List PyExpr → List (String × String)
  | [] => []
  | c :: cs => flatten c ++ flattenList cs
end

/-- syntax the property names as never acceptable in a completion expression -/
def specDangerousCompletion : List String :=
  ["Call", "Attribute", "Subscript", "Lambda", "ListComp", "SetComp", "DictComp", "GeneratorExp",
   "comprehension", "NamedExpr", "Starred", "Await", "Yield", "YieldFrom", "JoinedStr", "FormattedValue",
   "IfExp", "Slice", "keyword", "arguments", "arg"]

/-- never acceptable for any restricted evaluator -/
def specDangerousAlways : List String :=
  ["Call", "Lambda", "ListComp", "SetComp", "DictComp", "GeneratorExp", "comprehension", "NamedExpr",
   "Starred", "Await", "Yield", "YieldFrom", "JoinedStr", "FormattedValue", "keyword", "arguments", "arg"]

def dropStr (s : String) (n : Nat) : String := String.ofList (s.toList.drop n)

def fragment : List String := ["Expression", "Name", "Load", "BoolOp", "And", "Or"]

structure Verdict where
  ok : Bool
  why : String := ""

def judge (c : Case) (o : Json) : Verdict := Id.run do
  let res := (jStrField? o "res").getD "?"
  let log := ((jArrField? o "log").getD []).filterMap jStr?
  if log.contains "builtin-canary" then
    return ⟨false, "a function reachable only through builtins was executed"⟩
  match c.tree with
  | none =>
    -- not an expression at all: nothing may be evaluated
    if res != "syntax" && res != "reject" then return ⟨false, s!"text that is not a Python expression was not rejected ({res})"⟩
    if !log.isEmpty then return ⟨false, s!"variables were touched although the text does not parse: {log}"⟩
    return ⟨true, ""⟩
  | some t =>
    let flat := flatten t
    let kinds := flat.map (·.1)
    let names := (flat.filter fun p => p.1 == "Name").map (·.2)
    -- (1) anything outside the whitelist the evaluator was built with, and anything the property
    --     names as dangerous, must be rejected with nothing evaluated
    let notWl := kinds.filter fun k => !(allowedIn astClasses c.wl k)
    let dangerous := if c.ev == "completion" then specDangerousCompletion
                     else if c.ev == "ranking" then specDangerousAlways else []
    let bad := notWl ++ kinds.filter dangerous.contains
    match bad.head? with
    | some k =>
      if res == "reject" || res == "syntax" then
        if log.isEmpty then return ⟨true, ""⟩
        else return ⟨false, s!"expression containing {k} was rejected only after evaluating part of it: {log}"⟩
      else return ⟨false, s!"expression containing non-whitelisted {k} was not rejected (result: {res}, touched: {log})"⟩
    | none =>
      -- (2) accepted expressions: only supplied variables named in the expression are touched
      for entry in log do
        let parts := entry.splitOn ":"
        let x := (parts.drop 1).head?.getD ""
        if !(hasVar c.vars x) || !names.contains x then
          return ⟨false, s!"evaluation touched {entry}, which is not a supplied variable named in the expression"⟩
      if res == "reject" || res == "syntax" then
        if !log.isEmpty then return ⟨false, s!"rejected after evaluating: {log}"⟩
        return ⟨true, ""⟩
      if res == "nameerror" then
        let x := (jStrField? o "name").getD ""
        if hasVar c.vars x then return ⟨false, s!"NameError for the supplied variable {x}"⟩
        return ⟨true, ""⟩
      if res == "value" then
        let v := (jStrField? o "val").getD ""
        if v.startsWith "builtin:" && names.contains (dropStr v 8) && !(hasVar c.vars (dropStr v 8)) then
          return ⟨false, s!"the name {dropStr v 8} resolved to the builtin object of that name: evaluation has access to builtins"⟩
        if v.startsWith "var:" then
          let x := dropStr v 4
          if hasVar c.vars x && names.contains x then return ⟨true, ""⟩
          return ⟨false, s!"the value is the object of {x}, which is not a supplied variable named in the expression"⟩
        -- a value that is not one of the supplied objects
        if kinds.all fragment.contains then
          -- the expression consists of names joined by and/or: its value can only be a supplied object
          let reserved := names.filter fun n => (n == "__builtins__" || n == "__debug__") && !(hasVar c.vars n)
          if !reserved.isEmpty && (v == "const:{}" || v == "const:True") then
            return ⟨false, s!"reserved-names-visible: the name {reserved.head?.getD ""} evaluates to {dropStr v 6} although it is not a supplied variable"⟩
          return ⟨false, s!"an expression of names evaluated to {v}, which is not a supplied variable"⟩
        return ⟨true, ""⟩
      -- "raise": a run-time error of an accepted expression (allowed: "this may raise runtime errors")
      return ⟨true, ""⟩

/-- A history `{"seq": [call...]}` (calls made in this order in ONE process, observed as
`{"seq": [observation...]}`): the property does not let an answer depend on earlier calls, so every
call is modelled (`runSeq` = `run` call by call) and judged exactly as if it were made alone. -/
def handle (i o : Json) : Except String Reply := do
  match jArrField? i "seq" with
  | none =>
    let c ← parseCase i
    let v := judge c o
    return { model := modelOut c, holds := v.ok, why := v.why }
  | some calls =>
    let cs ← calls.mapM parseCase
    let obs := (jArrField? o "seq").getD []
    let model := Json.mkObj [("seq", jOfList modelOut cs)]
    if obs.length != cs.length then
      return { model := model, holds := false, why := "wrong number of observations for the history" }
    let verdicts := (cs.zip obs).map fun (c, ob) => judge c ob
    let idx := verdicts.findIdx? fun v => !v.ok
    match idx with
    | none => return { model := model, holds := true }
    | some k =>
      let v := verdicts.getD k ⟨false, ""⟩
      let note := s!"call {k + 1} of {cs.length} made in one process"
      -- a recorded finding keeps its key in front; anything else is labelled as a history failure
      let why := if v.why.startsWith "reserved-names-visible:" then s!"{v.why} [{note}]"
                 else s!"history ({note}; judged as if made alone): {v.why}"
      return { model := model, holds := false, why := why }

end CylcModel.DrvC24

def main : IO Unit := CylcModel.Drv.run CylcModel.DrvC24.handle
