/-
Driver for C11 at scheduler level (id C11S): `Sched` correspondence + judge on the observed trace.

The judge evaluates the completion expression of the task (as extracted from the loaded configuration:
`completion`, an and/or tree over trigger names with `-` written `_`) over the outputs the REAL proxy had
completed, (1) for every finished proxy found in the pool after an operation: it must be incomplete;
(2) for every removal from the pool that is not a suicide-trigger removal (`removed`, recorded when
`TaskPool.remove` was called): the proxy must be finished and complete.
-/
import CylcModel.SchedJson
open Lean CylcModel.Drv CylcModel.Sched

namespace CylcModel.DrvC11S

def isFinalStr (st : String) : Bool :=
  st == "succeeded" || st == "failed" || st == "submit-failed" || st == "expired"

/-- the completion expression over a list of completed *triggers* -/
def evalCompletion (e : CE) (outs : List String) : Bool :=
  e.eval fun v => outs.any fun t => compVar t == v

def strList (j : Json) : List String := ((jArr? j).getD []).filterMap jStr?

def firstSome {α} (l : List α) (f : α → Option String) : Option String :=
  l.foldl (fun acc x => match acc with | some w => some w | none => f x) none

def judgeObs (g : Graph) (idx : Nat) (ob : Json) : Option String :=
  let pooled := firstSome (poolOf ob) fun t =>
    let (p, n) := keyOf t
    let st := (jStrField? t "st").getD ""
    let outs := strList ((jField? t "out").getD Json.null)
    if !isFinalStr st then none else
    match g.task? n with
    | none => some s!"obs {idx}: {p}/{n} in the pool is not a task of the graph"
    | some td =>
      if evalCompletion td.completion outs then
        some s!"obs {idx}: {p}/{n} is {st} and complete (outputs {outs}) but still in the pool"
      else none
  match pooled with
  | some w => some w
  | none =>
    firstSome ((jArrField? ob "removed").getD []) fun r =>
      match jArr? r with
      | some [p, n, st, outs, reason] =>
        let p := (jInt? p).getD 0
        let n := (jStr? n).getD ""
        let st := (jStr? st).getD ""
        let outs := strList outs
        if (jStr? reason).isSome then none          -- suicide trigger etc.: not a completion-based removal
        else match g.task? n with
          | none => some s!"obs {idx}: removed {p}/{n} is not a task of the graph"
          | some td =>
            if !isFinalStr st then some s!"obs {idx}: {p}/{n} removed as completed while {st}"
            else if !evalCompletion td.completion outs then
              some s!"obs {idx}: {p}/{n} ({st}) removed as completed although incomplete (outputs {outs})"
            else none
      | _ => some s!"obs {idx}: malformed removal record"

def judge (g : Graph) (o : Json) : Option String :=
  let rec go (i : Nat) : List Json → Option String
    | [] => none
    | ob :: rest => match judgeObs g i ob with
      | some w => some w
      | none => go (i + 1) rest
  go 0 (obsList o)

def handle (i o : Json) : Except String Reply := do
  if let some r := crashReply? i then return r
  let c ← parseCase i
  match judge c.graph o with
  | some w => return { model := modelObs c, holds := false, why := w }
  | none => return { model := modelObs c, holds := true }

end CylcModel.DrvC11S

def main : IO Unit := CylcModel.Drv.run CylcModel.DrvC11S.handle
