/-
Driver for C13: runs the `Prereq` model on a JSON case and judges the implementation's
observations against the trigger expression's truth.

input  i : {"mode": "int" | "dt", "ptab": [[n, "text"], ...]   (dt: rendering of points),
            "p": n, "icp": n, "start": n,
            "trigs": [{"name": s, "off": null | {"rel": d} | {"abs": v} | {"icp": d}, "out": s}, ...],
            "expr":  [k | "&" | "|" | [...], ...]        (nested; k indexes "trigs"),
            "runs":  [[op, ...], ...]     op = ["sat", [[n, name, out], ...], flag] | ["unset", n, name] | ["setall"],
            "via": "direct" | "graph",  "gnodes": [[name, offset text, qualifier text | null, is-alias], ...]
                   (graph route: the node texts of the graph line in order of occurrence; the model ignores them)}
observed o / model m :
   {"build": "err"} | {"keys": [[point, name, out, satisfied], ...] sorted, "cond": text | null,
                       "runs": [[r, ...], ...]}       r = true | false | "err"
-/
import CylcModel.Util.Drv
import CylcModel.Prereq
open Lean CylcModel.Drv CylcModel.Prereq

namespace CylcModel.DrvC13

structure Case where
  dt : Bool
  ptab : List (Int × String)
  p : Int
  icp : Int
  start : Int
  trigs : List Trig
  expr : Json
  toks : List Tok
  runs : List (List Json)
  graph : Bool
  gnodes : List (Str × Str × Option Str × Bool)

def need {α} (o : Option α) (what : String) : Except String α :=
  match o with | some v => .ok v | none => .error what

def parseOff (j : Option Json) : Except String Offset :=
  match j with
  | none => .ok .none
  | some v =>
    match jIntField? v "rel", jIntField? v "abs", jIntField? v "icp" with
    | some d, _, _ => .ok (.rel d)
    | _, some a, _ => .ok (.abs a)
    | _, _, some d => .ok (.icp d)
    | _, _, _ => .error "bad offset"

def parseTrig (j : Json) : Except String Trig := do
  let name ← need (jStrField? j "name") "trig.name"
  let out ← need (jStrField? j "out") "trig.out"
  let off ← parseOff (jOptField j "off")
  return ⟨name.toList, off, out.toList⟩

/-- nested list -> flat tokens with parentheses (what `_stringify_list` does on the `listify`
result; `listify` replaces a one-element sub-list by its element) -/
partial def flatten (j : Json) : Except String (List Tok) := do
  let items ← need (jArr? j) "expr: not a list"
  let rec item (it : Json) : Except String (List Tok) :=
    match it with
    | .str "&" => pure [Tok.amp]
    | .str "|" => pure [Tok.bar]
    | .arr a =>
      if a.size == 1 then item a[0]!
      else do
        let inner ← flatten it
        pure ([Tok.lp] ++ inner ++ [Tok.rp])
    | other =>
      match jNat? other with
      | some k => pure [Tok.atom k]
      | none => throw "expr: bad item"
  let parts ← items.mapM item
  return parts.flatten

def parseCase (j : Json) : Except String Case := do
  let mode ← need (jStrField? j "mode") "mode"
  let ptab := ((jArrField? j "ptab").getD []).filterMap fun row =>
    match jArr? row with
    | some [n, t] => match jInt? n, jStr? t with
      | some n, some t => some (n, t)
      | _, _ => none
    | _ => none
  let p ← need (jIntField? j "p") "p"
  let icp ← need (jIntField? j "icp") "icp"
  let start ← need (jIntField? j "start") "start"
  let trigs ← (← need (jArrField? j "trigs") "trigs").mapM parseTrig
  let expr ← need (jField? j "expr") "expr"
  let toks ← flatten expr
  let runs ← (← need (jArrField? j "runs") "runs").mapM fun r => need (jArr? r) "run"
  let gnodes := ((jArrField? j "gnodes").getD []).filterMap fun row =>
    match jArr? row with
    | some [n, o, q, a] =>
      match jStr? n, jStr? o with
      | some n, some o => some (n.toList, o.toList, (jStr? q).map String.toList, (jBool? a).getD false)
      | _, _ => none
    | _ => none
  return ⟨mode == "dt", ptab, p, icp, start, trigs, expr, toks, runs, jStrField? j "via" == some "graph", gnodes⟩

def Case.render (c : Case) (n : Int) : Str :=
  if c.dt then
    match c.ptab.find? (·.1 == n) with
    | some (_, t) => t.toList
    | none => "?".toList
  else renderInt n

def Case.ctx (c : Case) : Ctx := ⟨c.p, c.icp, c.start, c.render⟩

def parseTriple (j : Json) : Except String (Int × String × String) :=
  match jArr? j with
  | some [n, name, out] =>
    match jInt? n, jStr? name, jStr? out with
    | some n, some name, some out => .ok (n, name, out)
    | _, _, _ => .error "bad triple"
  | _ => .error "bad triple"

inductive ROp where
  | sat (outs : List (Int × String × String)) (flag : Nat)
  | unset (n : Int) (name : String)
  | setAll

def parseOp (j : Json) : Except String ROp :=
  match jArr? j with
  | some [.str "sat", outs, flag] => do
    let l ← (← need (jArr? outs) "sat outs").mapM parseTriple
    return .sat l ((jNat? flag).getD 0)
  | some [.str "unset", n, name] => do
    return .unset (← need (jInt? n) "unset n") (← need (jStr? name) "unset name")
  | some [.str "setall"] => .ok .setAll
  | _ => .error "bad op"

def flagVal : Nat → SatVal
  | 1 => .skip
  | 2 => .forced
  | _ => .natural

def ROp.toOp (c : Case) : ROp → Op
  | .sat outs flag => .sat (outs.map fun (n, name, out) => ⟨c.render n, name.toList, out.toList⟩) (flagVal flag)
  | .unset n name => .unset (c.render n ++ '/' :: name.toList)
  | .setAll => .setAll

def str (s : Str) : Json := Json.str (String.ofList s)

def resJson : Option Bool → Json
  | some b => Json.bool b
  | none => Json.str "err"

def keyLe (a b : Key × SatVal) : Bool :=
  let ka := (String.ofList a.1.point, String.ofList a.1.task, String.ofList a.1.out)
  let kb := (String.ofList b.1.point, String.ofList b.1.task, String.ofList b.1.out)
  if ka.1 != kb.1 then ka.1 < kb.1
  else if ka.2.1 != kb.2.1 then ka.2.1 < kb.2.1
  else ka.2.2 ≤ kb.2.2

def modelOut (c : Case) (runs : List (List ROp)) : Json :=
  let pr := build c.ctx c.trigs c.toks
  let keys := (pr.sat.mergeSort keyLe).map fun (k, v) =>
    Json.arr #[str k.point, str k.task, str k.out, Json.bool v.truthy]
  let cond := match pr.cond with | some e => str e | none => Json.null
  let rs := runs.map fun run => jOfList resJson (observe pr (run.map (ROp.toOp c)))
  Json.mkObj [("keys", Json.arr keys.toArray), ("cond", cond), ("runs", Json.arr rs.toArray)]

/-! ### Judge: the property on the implementation's observations.
Spec side only: points are integers, the satisfied set is tracked from the operations, the
expression is evaluated on the nested list with `&` binding tighter than `|`. -/

/-- (point, name, output) of trigger `i`, by the offset arithmetic of the graph notation -/
def specKey (c : Case) (t : Trig) : Int × Str × Str :=
  let n := match t.off with
    | .none => c.p
    | .rel d => c.p + d
    | .abs v => v
    | .icp d => c.icp + d
  (n, t.name, t.out)

/-- truth of the nested expression; atoms by index -/
partial def specEval (val : Nat → Option Bool) (j : Json) : Option Bool := do
  let items ← jArr? j
  -- split at "|", then at "&"
  let rec splitOn (sep : String) (l : List Json) (cur : List Json) (acc : List (List Json)) : List (List Json) :=
    match l with
    | [] => (cur.reverse :: acc).reverse
    | x :: xs => if x == Json.str sep then splitOn sep xs [] (cur.reverse :: acc) else splitOn sep xs (x :: cur) acc
  let alts := splitOn "|" items [] []
  let mut anyTrue := false
  for alt in alts do
    let facs := splitOn "&" alt [] []
    let mut allTrue := true
    for f in facs do
      match f with
      | [Json.arr a] =>
        let v ← specEval val (Json.arr a)
        allTrue := allTrue && v
      | [x] =>
        let k ← jNat? x
        let v ← val k
        allTrue := allTrue && v
      | _ => none
    anyTrue := anyTrue || allTrue
  return anyTrue

/-- state of one upstream output in the spec: 0 unsatisfied, 1 satisfied, 2 satisfied by force -/
abbrev SpecState := List ((Int × Str × Str) × Nat)

def specInit (c : Case) : SpecState :=
  let keys := (c.trigs.map (specKey c)).eraseDups
  keys.map fun k =>
    let n := k.1
    -- instances before the initial point count as satisfied; so do instances before the start
    -- point for a task at or after the start point
    let s := decide (n < c.icp) || (decide (n < c.start) && decide (c.start ≤ c.p))
    (k, if s then 1 else 0)

def specApply (st : SpecState) : ROp → SpecState
  | .sat outs flag =>
    st.map fun (k, s) =>
      if s == 0 && outs.any (fun (n, name, out) => n == k.1 && name.toList == k.2.1 && out.toList == k.2.2)
      then (k, if flag == 2 then 2 else 1) else (k, s)
  | .unset n name =>
    st.map fun (k, s) => if s == 1 && k.1 == n && k.2.1 == name.toList then (k, 0) else (k, s)
  | .setAll => st.map fun (k, s) => if s == 0 then (k, 2) else (k, s)

def specTruth (c : Case) (st : SpecState) : Option Bool :=
  specEval (fun i => do
    let t ← c.trigs[i]?
    let s ← st.lookup (specKey c t)
    pure (s != 0)) c.expr

def lastWord (s : Str) : Bool := isWordO s.getLast?

/-- which recorded finding a failing case belongs to (features of the input only) -/
def findingKey (c : Case) : Option String :=
  let ks := c.trigs.map fun t => (c.render (specKey c t).1, t.name, t.out)
  let quote := ks.any fun (_, _, o) => o.contains '"' || o.contains '\\'
  let endNon := ks.any fun (_, _, o) => !lastWord o
  let bprefix (o1 o2 : Str) : Bool :=
    o1.length < o2.length && o1.isPrefixOf o2 && lastWord o1 && !isWordO (o2.drop o1.length).head?
  let negPt := ks.any fun (p1, n1, o1) => ks.any fun (p2, n2, o2) =>
    n1 == n2 && p2 == '-' :: p1 && (o1 == o2 || bprefix o1 o2)
  let prefixed := ks.any fun (p1, n1, o1) => ks.any fun (p2, n2, o2) =>
    p1 == p2 && n1 == n2 && bprefix o1 o2
  if negPt then some "neg-point-collision"
  else if quote then some "message-quote"
  else if endNon then some "message-end-nonword"
  else if prefixed then some "message-prefix-collision"
  else none

def judge (c : Case) (runs : List (List ROp)) (o : Json) : Bool × String := Id.run do
  let tag (w : String) : String := match findingKey c with
    | some k => s!"{k}: {w}"
    | none => w
  if (jField? o "build").isSome then
    return (false, tag "building the prerequisite raised an exception")
  let obsRuns := (jArrField? o "runs").getD []
  if obsRuns.length != runs.length then return (false, "observation has the wrong number of runs")
  let mut ri := 0
  for (run, orun) in runs.zip obsRuns do
    let res := (jArr? orun).getD []
    if res.length != run.length + 1 then return (false, "observation has the wrong number of results")
    let mut st := specInit c
    let mut step := 0
    let mut ops := run
    for r in res do
      match specTruth c st with
      | none => return (false, "judge: malformed expression")
      | some want =>
        if r != Json.bool want then
          return (false, tag s!"run {ri} step {step}: is_satisfied() = {r.compress} but the expression is {want} over the satisfied outputs")
      match ops with
      | op :: rest =>
        st := specApply st op
        ops := rest
      | [] => pure ()
      step := step + 1
    ri := ri + 1
  return (true, "")

def handle (i o : Json) : Except String Reply := do
  let c ← parseCase i
  let runs ← c.runs.mapM fun r => r.mapM parseOp
  let (ok, why) := judge c runs o
  return { model := modelOut c runs, holds := ok, why := why }

end CylcModel.DrvC13

def main : IO Unit := CylcModel.Drv.run CylcModel.DrvC13.handle
