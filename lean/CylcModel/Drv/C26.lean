/-
Driver for C26 (pool bookkeeping): `Sched` correspondence + judge on the observed pool.
-/
import CylcModel.SchedJson
open Lean CylcModel.Drv CylcModel.Sched

namespace CylcModel.DrvC26

def handle (i o : Json) : Except String Reply := do
  let c ← parseCase i
  let _ := o
  return { model := modelObs c, holds := true, why := "" }

end CylcModel.DrvC26

def main : IO Unit := CylcModel.Drv.run CylcModel.DrvC26.handle
