/-
Driver for C27 (reload preserves task state): `Sched3Reload` correspondence + judge.

The judge reads only the observations of the REAL scheduler and the op list of the case (the reload ops carry the
instance graph re-extracted from the reloaded configuration).  For every reload that was attempted the runner took
a pool snapshot immediately before and immediately after the command (`reload.before` / `reload.after`: point, name,
status, flows, submit number, held / queued / runahead flags, completed outputs, prerequisite atoms with their
state) and recorded which proxies were queued once the queue-if-ready sweep of the main loop that executed the
command was over (`reload.swept`; for a reload run between main loops: `reload_swept` of the next op if that is a main
loop).  Clauses, written from the property text (no transition function of the model is called; the parser of the
instance graph and the and/or evaluator are used as plain data utilities):

  R0  a rejected definition (failed reload) leaves the pool exactly as it was
  R1  a pooled task whose definition still exists is still pooled, with the same status, flows, submit number, held
      flag and completed outputs
  R2  runahead flag: unchanged, or released (true -> false) with its point within the runahead limit in force after
      the reload (the command ends with compute_runahead + release_runahead_tasks); never set
  R3  queued flag, at main-loop granularity: a task that was queued before the reload and is still ready afterwards
      (waiting, not held, not runahead-limited, every prerequisite of the new definition satisfied) is queued again
      when the sweep of that main loop is over
  R4  every prerequisite atom that the task had and the new definition still has is still there, in the same state
  R5  an atom that is new is satisfied only if the output it names was completed earlier in the run (seen completed
      in a pool observation or in a removal record up to the op before the reload)
  R6  a task whose definition was removed is dropped only if it had not started (status waiting); if kept, R1/R2
      hold for it too

`why` of a failure that belongs to a recorded finding starts with `<key>:` (findings/C27.json).
-/
import CylcModel.Sched3ReloadJson
open Lean CylcModel.Drv CylcModel.Sched3Reload

namespace CylcModel.DrvC27

/-- one pooled task of a snapshot -/
structure T where
  p : Int
  n : String
  st : String
  fl : List Nat
  sn : Nat
  held : Bool
  q : Bool
  rh : Bool
  out : List String                       -- completed outputs (triggers), sorted
  pre : List (List (Atom × Bool))         -- prerequisite atoms per prerequisite
  raw : Json
  deriving Inhabited

def parseAtoms (j : Json) : List (Atom × Bool) :=
  ((jArr? j).getD []).filterMap fun a =>
    match jArr? a with
    | some [p, n, m, s] =>
      match jInt? p, jStr? n, jStr? m, jBool? s with
      | some pt, some task, some out, some sat => some ((⟨pt, task, out⟩ : Atom), sat)
      | _, _, _, _ => none
    | _ => none

def parseT (j : Json) : T :=
  { p := (jIntField? j "p").getD 0, n := (jStrField? j "n").getD "", st := (jStrField? j "st").getD "",
    fl := ((jArrField? j "fl").getD []).filterMap jNat?, sn := (jNatField? j "sn").getD 0,
    held := (jBoolField? j "held").getD false, q := (jBoolField? j "q").getD false,
    rh := (jBoolField? j "rh").getD false,
    out := ((jArrField? j "out").getD []).filterMap jStr?,
    pre := ((jArrField? j "pre").getD []).map parseAtoms, raw := j }

structure Snap where
  pool : List T
  rl : Option Int

def parseSnap (j : Json) : Snap :=
  { pool := ((jArrField? j "pool").getD []).map parseT, rl := (jOptField j "rl").bind jInt? }

def T.id (t : T) : String := s!"{t.p}/{t.n}"

/-- (point, task, trigger) of the outputs seen completed in an observation: pooled tasks and removal records -/
def seenOutputs (ob : Json) : List (Int × String × String) :=
  let fromPool := ((jArrField? ob "pool").getD []).flatMap fun t =>
    let x := parseT t
    x.out.map fun o => (x.p, x.n, o)
  let fromRemoved := ((jArrField? ob "removed").getD []).flatMap fun r =>
    match jArr? r with
    | some (p :: n :: _st :: outs :: _) =>
      match jInt? p, jStr? n with
      | some pt, some name => (((jArr? outs).getD []).filterMap jStr?).map fun o => (pt, name, o)
      | _, _ => []
    | _ => []
  fromPool ++ fromRemoved

/-- message -> trigger of a task's outputs, from the instance graphs seen so far -/
def triggerOf (graphs : List Graph) (task msg : String) : String :=
  match graphs.findSome? (fun g => (g.task? task).bind fun t => (t.outputs.find? (·.message == msg)).map (·.trigger)) with
  | some t => t
  | none => msg

def stateOf (grp : List (Atom × Bool)) (k : Atom) : Bool :=
  match grp.find? (fun b => b.1 == k) with
  | some b => b.2
  | none => false

def evalPre (defs : List Pre) (grp : List (Atom × Bool)) : Bool :=
  -- the prerequisite of the new definition with the same atoms: its expression over the observed states
  match defs.find? (fun d => d.atoms.length == grp.length && d.atoms.all fun a => grp.any (·.1 == a.1)) with
  | some d =>
    let withStates : Pre := { d with atoms := d.atoms.map fun a => (a.1, stateOf grp a.1) }
    withStates.isSatisfied
  | none => grp.all (·.2)

structure Ctx where
  graphs : List Graph                       -- newest first
  seen : List (Int × String × String)

def judgeReload (idx : Nat) (g' : Graph) (cx : Ctx) (b a : Snap) (swept : Option (List (Int × String))) :
    List String :=
  let newNames := g'.tasks.map (·.name)
  b.pool.flatMap fun x =>
    let defined := newNames.contains x.n
    match a.pool.find? (fun y => y.p == x.p && y.n == x.n) with
    | none =>
      if defined then [s!"op {idx}: {x.id} ({x.st}) is no longer pooled after the reload although its definition still exists"]
      else if x.st != "waiting" then
        -- (the recorded finding covers held / queued orphans only)
        [(if x.held || x.q then "held-orphan-dropped: " else "") ++
          s!"op {idx}: {x.id} was {x.st} (held={x.held}, submit number {x.sn}) when the reload removed " ++
          "its definition; it had started but was dropped from the pool"]
      else []
    | some y =>
      let r1 :=
        (if y.st != x.st then [s!"op {idx}: {x.id} status {x.st} -> {y.st} across the reload"] else []) ++
        (if y.fl != x.fl then [s!"op {idx}: {x.id} flow numbers {x.fl} -> {y.fl} across the reload"] else []) ++
        (if y.sn != x.sn then [s!"op {idx}: {x.id} submit number {x.sn} -> {y.sn} across the reload"] else []) ++
        (if y.held != x.held then [s!"op {idx}: {x.id} held flag {x.held} -> {y.held} across the reload"] else []) ++
        (if y.out != x.out then [s!"op {idx}: {x.id} completed outputs {x.out} -> {y.out} across the reload"] else [])
      let r2 :=
        if y.rh == x.rh then []
        else if x.rh && !y.rh && (match a.rl with | some l => y.p ≤ l | none => false) then []
        else [s!"op {idx}: {x.id} runahead flag {x.rh} -> {y.rh} across the reload (limit {a.rl})"]
      if !defined then r1 ++ r2 else
      let bAtoms := x.pre.flatMap id
      let aAtoms := y.pre.flatMap id
      let inst : Option InstDef := (g'.task? x.n).map (·.anyInst x.p)
      -- R4: atoms of the old proxy that the new definition still has
      let r4a := match inst with
        | none => []
        | some d =>
          (d.pre.flatMap (·.atoms)).flatMap fun (k, _) =>
            if bAtoms.any (·.1 == k) && !aAtoms.any (·.1 == k) then
              [s!"op {idx}: {x.id} lost its prerequisite {k.pt}/{k.task}:{k.out} although the new definition still has it"]
            else []
      let r45 := aAtoms.flatMap fun (k, sat) =>
        let olds := (bAtoms.filter (·.1 == k)).map (·.2)
        if !olds.isEmpty then
          if olds.contains sat then []
          else [s!"op {idx}: {x.id} prerequisite {k.pt}/{k.task}:{k.out} satisfied={olds} -> {sat} across the reload"]
        else if sat && !cx.seen.contains (k.pt, k.task, triggerOf cx.graphs k.task k.out) then
          [s!"op {idx}: {x.id} new prerequisite {k.pt}/{k.task}:{k.out} is satisfied although that output was never completed"]
        else []
      -- R3: queued flag at main-loop granularity
      let r3 := match swept, inst with
        | some sw, some d =>
          if x.q && y.st == "waiting" && !y.held && !y.rh && y.pre.all (evalPre d.pre) && !sw.contains (y.p, y.n) then
            [s!"op {idx}: {x.id} was queued before the reload and is still ready, but is not queued after the sweep of the main loop"]
          else []
        | _, _ => []
      r1 ++ r2 ++ r4a ++ r45 ++ r3

def parseIds (j : Json) : List (Int × String) :=
  ((jArr? j).getD []).filterMap fun e =>
    match jArr? e with
    | some [p, n] => match jInt? p, jStr? n with | some a, some b => some (a, b) | _, _ => none
    | _ => none

def judge (g0 : Graph) (opsJ : List Json) (ops : List Op) (obs : List Json) : List String :=
  let rec go (idx : Nat) (cx : Ctx) : List (Json × Op) → List Json → List String
    | [], _ => []
    | (oj, op) :: rest, obsFrom =>
      -- obsFrom = observations from the one BEFORE this op on
      match obsFrom with
      | before :: after :: more =>
        let cx := { cx with seen := cx.seen ++ seenOutputs before }
        let (errs, cx) := match op with
          | .reload ng _ skipped =>
            if skipped then ([], cx) else
            let rs := (jOptField after "reload").getD Json.null
            match jOptField rs "before", jOptField rs "after" with
            | some bj, some aj =>
              let b := parseSnap bj
              let a := parseSnap aj
              match ng with
              | none =>
                -- R0
                (if (jField? bj "pool") == (jField? aj "pool") && b.rl == a.rl then []
                 else [s!"op {idx}: the pool changed although the new definition was rejected"], cx)
              | some g' =>
                let inloop := (jBoolField? oj "inloop").getD false
                let swept : Option (List (Int × String)) :=
                  if inloop then (jOptField rs "swept").map parseIds
                  else match rest, more with
                    | (_, .loop) :: _, nxt :: _ => (jOptField nxt "reload_swept").map parseIds
                    | _, _ => none
                (judgeReload idx g' cx b a swept, { cx with graphs := g' :: cx.graphs })
            | _, _ => ([], match ng with | some g' => { cx with graphs := g' :: cx.graphs } | none => cx)
          | _ => ([], cx)
        errs ++ go (idx + 1) cx rest (after :: more)
      | _ => []
  go 1 { graphs := [g0], seen := [] } (opsJ.zip ops) obs

def isFinding (w : String) : Bool :=
  w.startsWith "held-orphan-dropped:" || w.startsWith "restart-unknown-output:"

def handle (i o : Json) : Except String Reply := do
  if let some r := crashReply? i then
    -- the restart crash of the recorded finding (the harness marks it from the traceback)
    match jStrField? i "crash_ctx" with
    | some "restart-unknown-output" =>
      return { r with why := "restart-unknown-output: the restart after a reload raised " ++
        ((jStrField? i "crash").getD "") ++ " while restoring the completed outputs of a task whose definition changed" }
    | _ => return r
  let c ← parseCase i
  let opsJ := (jArrField? i "ops").getD []
  let errs := judge c.graph opsJ c.ops (obsList o)
  -- a failure outside the recorded findings is reported first
  match errs.find? (fun w => !isFinding w), errs.head? with
  | some w, _ => return { model := modelObs c, holds := false, why := w }
  | none, some w => return { model := modelObs c, holds := false, why := w }
  | none, none => return { model := modelObs c, holds := true }

end CylcModel.DrvC27

def main : IO Unit := CylcModel.Drv.run CylcModel.DrvC27.handle
