/-
Driver for C31 (sequential tasks): `Sched` correspondence + judge on the observed trace.

Judge (from the property text, on what the REAL scheduler did), for every task declared sequential by the flow.cylc
text (`[[special tasks]] sequential`, family names replaced by everything that inherits them - full, multiple
inheritance; harness key `seq_declared`) or flagged `sequential` by the loaded configuration: (1) in no observation are two instances of the task preparing, submitted or running; (2) every
launch of instance p happens after the `succeeded` output of the nearest previous valid point of the task was
seen complete in an earlier observation, unless that point lies before the start point.
The hypotheses of the theorems are checked on every real graph: `Graph.wf`, and `Graph.seqShape` for every
sequential task (the implicit previous-instance prerequisite as `TaskState._add_prerequisites` builds it).
-/
import CylcModel.SchedObsC01
import CylcModel.SchedHypC01
open Lean CylcModel.Drv CylcModel.Sched CylcModel.SchedObs

namespace CylcModel.DrvC31

def isBusy (st : String) : Bool := st == "preparing" || st == "submitted" || st == "running"

/-- nearest valid point of the task before `p` (spec side: from the list of valid points) -/
def prevPoint (t : TaskDefn) (p : Int) : Option Int :=
  (t.insts.map (·.1)).foldl (fun acc q => if q < p then (match acc with
    | none => some q
    | some a => if a < q then some q else some a) else acc) none

def judgeStep (g : Graph) (seqs : List String) (i : Nat) (_prev ob : Json) (seen : List Atom) : Option String :=
  let pool := poolObs ob
  let overlap := seqs.findSome? fun n =>
    let busy := pool.filter fun x => x.n == n && isBusy x.st
    if busy.length > 1 then some s!"obs {i}: instances {busy.map (·.p)} of sequential task {n} are active at the same time"
    else none
  match overlap with
  | some w => some w
  | none =>
    (launchesOf ob).findSome? fun l =>
      if !seqs.contains l.2.1 then none else
      match g.task? l.2.1 with
      | none => none
      | some t =>
        match prevPoint t l.1 with
        | none => none
        | some q =>
          if q < g.start then none
          else if seen.contains ⟨q, l.2.1, "succeeded"⟩ then none
          else some s!"obs {i}: launch {l.1}/{l.2.1} (submit {l.2.2}) before the previous instance {q}/{l.2.1} succeeded"

def judge (i : Json) (c : Case) (o : Json) : Option String :=
  let g := c.graph
  -- the tasks declared sequential by the flow.cylc TEXT (special tasks list with family names replaced through the
  -- full inheritance; computed by the harness from the text, key `seq_declared`), together with those the loaded
  -- configuration flags - a task declared sequential that the configuration does not treat so is judged like any other
  let declared : List String := ((jArrField? i "seq_declared").getD []).filterMap jStr?
  let seqs := (g.tasks.map (·.name)).filter fun n => declared.contains n || jsonSequential i n
  -- the property on the trace (the first observation included)
  let dyn : Option String :=
    match obsList o with
    | [] => none
    | ob0 :: _ =>
      match judgeStep g seqs 0 Json.null (Json.mkObj [("pool", (jField? ob0 "pool").getD Json.null)]) [] with
      | some w => some w
      | none => scanObs g (obsList o) (judgeStep g seqs)
  match dyn with
  | some w => some w
  | none =>
    -- the hypotheses of the theorems on the real graph
    if !g.wf then some "hypothesis-violated: a task of the extracted graph lacks a standard output (Graph.wf)"
    else match seqs.find? (fun n => !g.seqShape n) with
      | some n => some s!"hypothesis-violated: sequential task {n} lacks the previous-instance prerequisite on its nearest previous point (Graph.seqShape)"
      | none => none

def handle (i o : Json) : Except String Reply := do
  if let some r := crashReply? i then return r
  let c ← parseCase i
  match judge i c o with
  | some w => return { model := modelObs c, holds := false, why := w }
  | none => return { model := modelObs c, holds := true }

end CylcModel.DrvC31

def main : IO Unit := CylcModel.Drv.run CylcModel.DrvC31.handle
