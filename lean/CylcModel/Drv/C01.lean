/-
Driver for C01 (graph-faithful execution): `Sched` correspondence + judge on the observed trace.

Judge (from the property text, on what the REAL scheduler did):
* every launch `[p, name, sn]` of operation i: `(p, name)` is a valid instance of the graph within [icp, fcp];
  in the observation before the operation the proxy was in the pool, waiting, and every prerequisite expression
  of the graph instance is true over the satisfied-flags of the proxy; every satisfied, not initially satisfied
  atom is justified by a completion of that output of that upstream instance seen in an earlier observation
  (on the pooled proxy or on the proxy when it was removed);
* the launched instances are contained in the spawn-on-demand closure computed from the graph and the outputs
  completed in the run; for a run of kind `complete` that shut down by itself (graph without suicide triggers)
  the two sets are equal; a `complete` run must end in automatic shutdown (unless the operation budget ran out). The
  premise "every finished task is complete" is read off the run: no finished task is retained in the final pool.
* a completed output comes with the outputs it implies (succeeded / failed ⇒ started ⇒ submitted), whatever the text
  of the failure report (`failed/<SIGNAL>`, `aborted/<reason>`) and whichever messages were lost;
* the prerequisites of every instance of the extracted graph are those of the recurrences the instance is valid on
  (`pre_spec`: from `TaskDef.dependencies` and `Sequence.is_valid`, not from the TaskProxy).
The model side canonicalises the failure texts (`SchedPF.canonMsg`).
The hypothesis `Graph.wf` of the theorems is checked on every real graph.
-/
import CylcModel.SchedObsC01
import CylcModel.SchedHypC01
import CylcModel.SchedPF
open Lean CylcModel.Drv CylcModel.Sched CylcModel.SchedObs

namespace CylcModel.DrvC01

def atomStr (a : Atom) : String := s!"{a.pt}/{a.task}:{a.out}"

def judgeLaunch (g : Graph) (i : Nat) (prev : Json) (seen : List Atom) (l : Int × String × Nat) : Option String :=
  let p := l.1
  let n := l.2.1
  let tag := s!"obs {i}: launch {p}/{n} (submit {l.2.2})"
  match instOf g n p with
  | none => some s!"{tag}: not a valid instance of the task (off its sequences)"
  | some d =>
    if p < g.icp || p > g.fcp then some s!"{tag}: outside the initial/final cycle points"
    else match findP (poolObs prev) p n with
    | none => some s!"{tag}: the instance was not in the pool before the operation"
    | some x =>
      if x.st != "waiting" then some s!"{tag}: the proxy was {x.st}, not waiting, before the operation"
      else
        let occ (a : Atom) : List Bool := x.pre.flatMap fun pr =>
          pr.filterMap fun oa => if oa.1 == a.pt && oa.2.1 == a.task && oa.2.2.1 == a.out then some oa.2.2.2 else none
        let val (a : Atom) : Bool := !(occ a).isEmpty && (occ a).all id
        match d.pre.find? (fun pre => !preTrue pre val) with
        | some pre =>
          some s!"{tag}: a prerequisite expression is not true; atoms {pre.atoms.map fun ab => (atomStr ab.1, val ab.1)}"
        | none =>
          let bad := d.pre.flatMap fun pre => pre.atoms.filter fun ab => val ab.1 && !ab.2 && !seen.contains ab.1
          match bad with
          | ab :: _ => some s!"{tag}: prerequisite {atomStr ab.1} is satisfied but that output was never completed upstream"
          | [] => none

/-- a completed job output comes with the outputs it implies: a job that succeeded or failed has started, a job
that started was submitted (whatever the text of the failure report and whichever messages were lost) -/
def impliedMissing (outs : List String) : Option (String × String) :=
  if (outs.contains "succeeded" || outs.contains "failed") && !outs.contains "started" then
    some (if outs.contains "succeeded" then "succeeded" else "failed", "started")
  else if outs.contains "started" && !outs.contains "submitted" then some ("started", "submitted")
  else none

def judgeImplied (i : Nat) (ob : Json) : Option String :=
  let recs : List (Int × String × List String) :=
    ((poolObs ob).map fun x => (x.p, x.n, x.out)) ++ ((removedOf ob).map fun r => (r.1, r.2.1, r.2.2.2))
  recs.findSome? fun r =>
    (impliedMissing r.2.2).map fun m =>
      s!"obs {i}: output {m.1} of {r.1}/{r.2.1} is complete but the output {m.2} it implies is not (its graph children cannot run)"

def judgeStep (g : Graph) (i : Nat) (prev ob : Json) (seen : List Atom) : Option String :=
  match (launchesOf ob).findSome? (judgeLaunch g i prev seen) with
  | some w => some w
  | none => judgeImplied i ob

/-! closure -/

def hiPoint (g : Graph) : Int := match g.stopPoint with | some sp => min sp g.fcp | none => g.fcp

/-- within the start / stop / final points, a valid instance, every prerequisite expression true over the
initially satisfied atoms and the completed outputs -/
def inClosureOK (g : Graph) (done : List Atom) (k : Int × String) : Bool :=
  match instOf g k.2 k.1 with
  | none => false
  | some d =>
    decide (g.start ≤ k.1) && decide (k.1 ≤ hiPoint g) && decide (g.icp ≤ k.1) &&
      d.pre.all fun pre => preTrue pre (fun a => (pre.atoms.any fun ab => ab.1 == a && ab.2) || done.contains a)

/-- the spawn-on-demand closure as the property describes the mechanism: `sp` = instances that get a proxy (first
parentless point of a task; next parentless point after a proxied instance within the bounds; graph children of
completed outputs), `cl` = those of them within the bounds whose prerequisite expressions are true -/
def closure (g : Graph) (done : List Atom) : List (Int × String) × List (Int × String) :=
  let first : List (Int × String) := g.tasks.filterMap fun t => t.firstParentless.map fun p => (p, t.name)
  let stepS (sp : List (Int × String)) : List (Int × String) :=
    let nexts := sp.filterMap fun k =>
      if k.1 < g.start || k.1 > hiPoint g then none else
      ((instOf g k.2 k.1).bind (·.nextParentless)).map fun q => (q, k.2)
    let kids := sp.flatMap fun k =>
      match instOf g k.2 k.1 with
      | none => []
      | some d => d.children.flatMap fun oc =>
          if done.contains ⟨k.1, k.2, oc.1⟩ then oc.2.map fun ch => (ch.pt, ch.name) else []
    ((first ++ sp ++ nexts ++ kids).filter fun k => (instOf g k.2 k.1).isSome).eraseDups
  let rec iter (fuel : Nat) (sp : List (Int × String)) : List (Int × String) :=
    match fuel with
    | 0 => sp
    | fuel + 1 =>
      let sp' := stepS sp
      if sp'.length == sp.length then sp' else iter fuel sp'
  let sp := iter ((g.tasks.map fun t => t.insts.length).foldl (· + ·) 2) []
  (sp, sp.filter (inClosureOK g done))

def jsonParentless (i : Json) (n : String) (p : Int) : Bool :=
  (((((jField? i "graph").bind fun g => jField? g "tasks").bind fun t => jField? t n).bind
    fun t => jField? t "inst").bind fun ins => (jField? ins (toString p)).bind fun d => jBoolField? d "parentless").getD false

def preFalseAtoms (g : Graph) (x : PObs) : Option String :=
  match instOf g x.n x.p with
  | none => none
  | some d =>
    let occ (a : Atom) : List Bool := x.pre.flatMap fun pr =>
      pr.filterMap fun oa => if oa.1 == a.pt && oa.2.1 == a.task && oa.2.2.1 == a.out then some oa.2.2.2 else none
    let val (a : Atom) : Bool := !(occ a).isEmpty && (occ a).all id
    (d.pre.find? fun pre => !preTrue pre val).map fun pre =>
      s!"{x.p}/{x.n} waits for {(pre.atoms.filter fun ab => !val ab.1).map fun ab => atomStr ab.1}"

def judgeClosure (i : Json) (g : Graph) (kind : String) (nOps : Nat) (obs : List Json) : Option String :=
  let done := (obs.flatMap (completionsOf g)).eraseDups
  let launched := ((obs.flatMap launchesOf).map fun l => (l.1, l.2.1)).eraseDups
  let (_sp, c) := closure g done
  match launched.find? (fun k => !c.contains k) with
  | some k => some s!"launched instance {k.1}/{k.2} is not in the spawn-on-demand closure of the graph"
  | none =>
    let last := obs.getLast?.getD Json.null
    let stop := jStrField? last "stop"
    let hasSui := g.tasks.any fun t => t.insts.any fun pd => !pd.2.sui.isEmpty
    -- every graph-implied parentless instance must have run before an automatic shutdown (runs of either kind).
    -- This is decided from the valid points of the task (its recurrences) and `TaskDef.is_parentless`,
    -- independently of `next_point_parentless` (which the model takes from the implementation).  The recorded
    -- finding `parentless-skipped` covers only a task that is parented at an earlier valid point (then the first /
    -- next point of a sequence is parented and the search stops); a missing instance of a task that is parentless
    -- at every earlier point is a violation.
    let plCheck : Option String :=
      if stop != some "AUTOMATIC" || hasSui then none else
      let pl := g.tasks.flatMap fun t => (t.insts.filter fun pd => jsonParentless i t.name pd.1).map fun pd => (pd.1, t.name)
      let missing := pl.filter fun k => inClosureOK g done k && !launched.contains k
      let parentedEarlier (k : Int × String) : Bool := match g.task? k.2 with
        | some t => t.insts.any fun pd => decide (g.start ≤ pd.1) && decide (pd.1 < k.1) && !jsonParentless i k.2 pd.1
        | none => false
      match missing.find? (fun k => !parentedEarlier k) with
      | some k => some s!"graph-implied parentless instance {k.1}/{k.2} (task parentless at every earlier point) was never submitted before the automatic shutdown"
      | none => match missing with
        | k :: _ => some s!"parentless-skipped: parentless instance {k.1}/{k.2} within the bounds was never submitted (automatic shutdown without it)"
        | [] => none
    if kind != "complete" then plCheck else
    -- the premise "every finished task completes its required outputs", read off the run itself: a finished task
    -- that is retained in the pool is an incomplete one (the generator's kind `complete` is only a bias)
    let finished (st : String) : Bool := st == "failed" || st == "succeeded" || st == "submit-failed" || st == "expired"
    if (poolObs last).any (fun x => finished x.st) then none else
    if stop.isNone then
      if nOps ≥ 260 then none
      else if (jBoolField? last "stalled").getD false then
        -- a stall: explained by a waiting proxy with an unsatisfied prerequisite?
        match (poolObs last).findSome? fun x => if x.st == "waiting" then preFalseAtoms g x else none with
        | some w => some s!"stall-partial: every finished task is complete, but the workflow stalled instead of shutting down: {w}"
        | none => some "every finished task is complete but the scheduler stalled with no unsatisfied waiting task"
      else
        -- a proxy that was removed while its job was active (suicide trigger) and later revived from the history
        -- with that stale active status: its job's messages went to no proxy, it stays "active" for ever
        let removedActive : List (Int × String) := (obs.flatMap removedOf).filterMap fun r =>
          if r.2.2.1 == "submitted" || r.2.2.1 == "running" || r.2.2.1 == "preparing" then some (r.1, r.2.1) else none
        match (poolObs last).find? fun x =>
            (x.st == "submitted" || x.st == "running" || x.st == "preparing") && removedActive.contains (x.p, x.n) with
        | some x => some s!"zombie-revived: {x.p}/{x.n} was removed while {x.st} and revived from the history with that status; its job has ended, the scheduler neither shuts down nor stalls"
        | none => some "every finished task is complete but the scheduler neither shut down by itself nor stalled"
    else if stop != some "AUTOMATIC" then none
    else
      if hasSui then none else
      match c.find? (fun k => !launched.contains k) with
      | some k => some s!"instance {k.1}/{k.2} is in the spawn-on-demand closure but was never submitted before the automatic shutdown"
      | none => plCheck

/-- the prerequisites of every instance of the extracted graph against the recurrences the instance is valid on
(`pre_spec`, computed by the harness from `TaskDef.dependencies` and `Sequence.is_valid`): the same atom lists, up to
the implicit previous-instance prerequisite of a sequential task -/
def judgePreSpec (i : Json) (g : Graph) : Option String :=
  let atomKey (a : Atom) : String := s!"{a.pt}/{a.task}:{a.out}"
  g.tasks.findSome? fun t =>
    t.insts.findSome? fun pd =>
      let dj := ((((jField? i "graph").bind fun gj => jField? gj "tasks").bind fun tj => jField? tj t.name).bind
        fun tj => jField? tj "inst").bind fun ins => jField? ins (toString pd.1)
      match dj.bind fun d => jArrField? d "pre_spec" with
      | none => none
      | some specJ =>
        let spec : List (List String) := specJ.map fun l => (sortBy (· < ·) (((jArr? l).getD []).filterMap fun a =>
          match jArr? a with
          | some [p, n, m] => do pure s!"{← jInt? p}/{← jStr? n}:{← jStr? m}"
          | _ => none))
        let have_ : List (List String) := pd.2.pre.map fun pre => sortBy (· < ·) (pre.atoms.map fun ab => atomKey ab.1)
        let isSeq (l : List String) : Bool := jsonSequential i t.name && l.length == 1 &&
          pd.2.pre.any fun pre => match pre.atoms with
            | [(a, _)] => [atomKey a] == l && a.task == t.name && a.out == "succeeded" && decide (a.pt < pd.1)
            | _ => false
        match have_.find? (fun l => !spec.contains l && !isSeq l) with
        | some l => some s!"instance {pd.1}/{t.name} has the prerequisite {l}, which no recurrence the instance is valid on gives it"
        | none => match spec.find? (fun l => !have_.contains l) with
          | some l => some s!"instance {pd.1}/{t.name} lacks the prerequisite {l} of a recurrence it is valid on"
          | none => none

def judge (i : Json) (c : CaseX) (kind : String) (o : Json) : Option String :=
  let g := c.graph
  if !g.wf then some "hypothesis-violated: a task of the extracted graph lacks a standard output (Graph.wf)"
  else
    match (obsList o).head?.bind (judgeImplied 0) with
    | some w => some w
    | none =>
    match scanObs g (obsList o) (judgeStep g) with
    | some w => some w
    | none =>
      match judgePreSpec i g with
      | some w => some w
      | none => judgeClosure i g kind c.ops.length (obsList o)

def handle (i o : Json) : Except String Reply := do
  if let some r := crashReply? i then return r
  let c ← parseCaseX i
  let kind := (jStrField? i "kind").getD "any"
  match judge i c kind o with
  | some w => return { model := modelObsX c, holds := false, why := w }
  | none => return { model := modelObsX c, holds := true }

end CylcModel.DrvC01

def main : IO Unit := CylcModel.Drv.run CylcModel.DrvC01.handle
