/-
Driver for C38: runs the `PathClean` model of the local part of `cylc clean` on a JSON case and
judges the deletions observed from the real code on a real temporary tree.

input i :
  {"tree":  [[path, "d"] | [path, "f"] | [path, "l", target, rel], ...]   physical entries below the
                                     sandbox root, paths as "a/b/c"; link targets absolute (from the root)
   "home":  "h",  "id": "foo/run1",   the run dir is  <home>/cylc-run/<id>
   "rm":    null | [raw --rm item, ...],
   "space": characters of the items for which Python's str.isspace() holds,
   "order": null | [pattern, ...]    the order in which the implementation iterates the parsed set
                                     (`list(parse_rm_dirs(rm))` in the same process: an environment hint),
   "spec":  null | [pattern, ...]    the harness' own reading of `rm` (split ':', strip, normpath; null =
                                     some part is absolute or points to the run dir or above),
   "raw":   [[pattern, [relpath, ...]], ...]   the harness' own Python glob (recursive) of every pattern
                                     of `spec` on the pristine tree, relative to the run dir (judge only),
   "calls": [[pattern, [relpath, ...]], ...]   what the `glob.iglob` calls made by the implementation
                                     returned, in call order (environment input of the model)}
observed o / model m :
  {"deleted": [path, ...] (sorted), "created": [path, ...], "err": null | exception class name}
-/
import CylcModel.Util.Drv
import CylcModel.PathClean
open Lean CylcModel.Drv CylcModel.Fs CylcModel.PathClean
open CylcModel.PathName (Str)

namespace CylcModel.DrvC38

/-- resolution fuel (components visited); the generated trees are far smaller -/
def fuel : Nat := 3000

def comps (s : String) : P := ((s.splitOn "/").filter (· ≠ "")).map String.toList

def pstr (p : P) : String := "/".intercalate (p.map String.ofList)

structure Case where
  fs : Fs
  home : P
  idc : P
  rm : Option (List Str)
  space : List Char
  order : Option (List String)
  spec : Option (List String)
  raw : List (String × List P)
  calls : List (String × List P)

def parseEntry (j : Json) : Except String (P × Kind) := do
  let a ← (jArr? j).elim (.error "entry") .ok
  match a with
  | [p, k] =>
    let p ← (jStr? p).elim (.error "entry path") .ok
    let k ← (jStr? k).elim (.error "entry kind") .ok
    if k == "d" then return (comps p, .dir)
    else if k == "f" then return (comps p, .file)
    else throw "entry kind"
  | [p, _, t, r] =>
    let p ← (jStr? p).elim (.error "entry path") .ok
    let t ← (jStr? t).elim (.error "link target") .ok
    let r ← (jBool? r).elim (.error "link rel") .ok
    return (comps p, .link (comps t) r)
  | _ => throw "entry shape"

def parseRaw (j : Json) : Except String (String × List P) := do
  let a ← (jArr? j).elim (.error "raw") .ok
  match a with
  | [p, ms] =>
    let p ← (jStr? p).elim (.error "raw pattern") .ok
    let ms ← (jArr? ms).elim (.error "raw matches") .ok
    let ms ← ms.mapM fun m => (jStr? m).elim (.error "raw rel") (fun r => .ok (comps r))
    return (p, ms)
  | _ => throw "raw shape"

def strList? (j : Option Json) : Option (List String) :=
  j.bind fun v => (jArr? v).map fun l => l.filterMap jStr?

def parseCase (i : Json) : Except String Case := do
  let tree ← (jArrField? i "tree").elim (.error "tree") .ok
  let fs ← tree.mapM parseEntry
  let home ← (jStrField? i "home").elim (.error "home") .ok
  let id ← (jStrField? i "id").elim (.error "id") .ok
  let raw ← ((jArrField? i "raw").getD []).mapM parseRaw
  let calls ← ((jArrField? i "calls").getD []).mapM parseRaw
  return {
    fs := fs, home := comps home, idc := comps id,
    rm := (strList? (jOptField i "rm")).map (·.map String.toList),
    space := ((jStrField? i "space").getD "").toList,
    order := strList? (jOptField i "order"),
    spec := strList? (jOptField i "spec"),
    raw := raw, calls := calls }

def Case.runDir (c : Case) : P := c.home ++ ["cylc-run".toList] ++ c.idc

def outJson (deleted : List P) (err : Option String) : Json :=
  let ds := (deleted.map pstr).toArray.qsort (· < ·)
  Json.mkObj [("deleted", Json.arr (ds.map Json.str)), ("created", Json.arr #[]),
    ("err", match err with | some e => Json.str e | none => Json.null)]

/-! ### model -/

def isPerm (a b : List String) : Bool :=
  a.length == b.length && a.all (b.contains ·) && b.all (a.contains ·)

def modelOut (c : Case) : Json :=
  let sp : Char → Bool := fun ch => c.space.contains ch
  let runDir := c.runDir
  -- the patterns in the order the implementation iterates its set; the hint must be a permutation
  -- of what the model parses
  let parsed := c.rm.bind fun items => if items.isEmpty then none else some (parseRmDirs sp items)
  let pats : Except String (List (List P)) :=
    match parsed with
    | none => .ok []
    | some none => .ok []
    | some (some ps) =>
      let ps := ps.map String.ofList
      match c.order with
      | none => .error "order-hint-missing"
      | some ord =>
        if !isPerm ps ord then .error "order-hint-not-a-permutation"
        else if !(c.calls.map (·.1)).isPrefixOf ord then .error "glob-calls-not-in-order"
        else .ok ((c.calls.map (·.2)) ++ List.replicate (ord.length - c.calls.length) [])
  match pats with
  | .error e => outJson [] (some e)
  | .ok pats =>
    let (fs1, err) := initClean Generated.CleanCfg.skipsMissing c.fs fuel runDir c.idc sp c.rm pats
    outJson (deleted c.fs fs1) (err.map Err.name)

/-! ### judge: the property on the observed deletions.

Written from the property text over the file-tree semantics of `Fs` (environment) only; it uses
none of the `PathClean` functions that model cylc code. -/

open CylcModel.Generated in
def stdNames : List P := CleanCfg.symlinkDirs.map fun d => d.map String.toList

structure Spec where
  fs : Fs
  runDir : P
  idc : P
  /-- the standard symlink dirs of the tree (relative), with the directory they lead to -/
  std : List (P × Option P)

/-- a standard symlink dir (documentation of `[install][symlink dirs]`): one of the standard locations
of the run dir, being a symlink that leads to `<some root>/cylc-run/<workflow id>/<location>` -/
def mkSpec (c : Case) : Spec :=
  let runDir := c.runDir
  let std := stdNames.filterMap fun d =>
    match lkind c.fs fuel (runDir ++ d) with
    | some (.link _ _) =>
      let t := realpath c.fs fuel [] (runDir ++ d)
      if (["cylc-run".toList] ++ c.idc ++ d).isSuffixOf t then some (d, resolve c.fs fuel [] (runDir ++ d))
      else none
    | _ => none
  { fs := c.fs, runDir := runDir, idc := c.idc, std := std }

def Spec.isStd (s : Spec) (d : P) : Bool := s.std.any (·.1 == d)

/-- no ancestor of the match (run dir … parent) is a symlink other than a standard symlink dir -/
def Spec.direct (s : Spec) (rel : P) : Bool :=
  (List.range rel.length).all fun k =>
    let a := rel.take k
    match lkind s.fs fuel (s.runDir ++ a) with
    | some (.link _ _) => s.isStd a
    | _ => true

/-- the physical entry a relative path names, if it exists -/
def Spec.entry (s : Spec) (rel : P) : Option P :=
  match lres s.fs fuel (s.runDir ++ rel) with
  | some q => if (kindAt s.fs q).isSome then some q else none
  | none => none

/-- inside the run directory or inside the target of a standard symlink dir -/
def Spec.inside (s : Spec) (p : P) : Bool :=
  s.runDir.isPrefixOf p
  || (match resolve s.fs fuel [] s.runDir with | some r => r.isPrefixOf p | none => false)
  || s.std.any fun (_, t) => match t with | some t => t.isPrefixOf p | none => false

open CylcModel.Generated in
/-- housekeeping of the installation the documentation of `clean` lists: the `runN` link of this run
once the run is gone, `_cylc-install` once nothing else is left beside it, and (necessarily empty)
parent directories of the run dir below `cylc-run` and of the symlink targets below their
`cylc-run/<id>/<dir>` tail. `after` = the tree after cleaning. -/
def Spec.tidy (s : Spec) (after : Fs) (p : P) : Bool :=
  let parent := s.runDir.dropLast
  let name := s.runDir.getLast?.getD []
  (p == parent ++ [CleanCfg.runN.toList]
    && (match kindAt s.fs p with | some (.link t true) => t == parent ++ [name] | _ => false)
    && !pexists after fuel s.runDir)
  || ((parent ++ [CleanCfg.installDirname.toList]).isPrefixOf p
      && after.all fun e => !(parent.isPrefixOf e.1 && e.1 != parent))
  || (kindAt s.fs p == some .dir && p.isPrefixOf s.runDir && p != s.runDir
      && p.length > s.runDir.length - s.idc.length)
  || s.std.any fun (d, _) =>
      let t := realpath s.fs fuel [] (s.runDir ++ d)
      kindAt s.fs p == some .dir && p.isPrefixOf t && p != t
        && p.length + (s.idc ++ d).length > t.length

/-- physical closure of an entry: itself, and if it is a directory everything below it -/
def under (fs : Fs) (q : P) : List P :=
  match kindAt fs q with
  | some .dir => (fs.filter fun e => q.isPrefixOf e.1).map (·.1)
  | some _ => [q]
  | none => []

def judge (c : Case) (o : Json) : Bool × String :=
  let s := mkSpec c
  let del : List P := ((jArrField? o "deleted").getD []).filterMap fun j => (jStr? j).map comps
  let err := (jOptField o "err").bind jStr?
  let after : Fs := c.fs.filter fun e => !del.contains e.1
  -- (1) only inside the run directory / the targets of the standard symlink dirs (+ housekeeping)
  match del.find? (fun p => !(s.inside p || s.tidy after p)) with
  | some p => (false, s!"deleted {pstr p}, which is neither inside the run directory nor inside the target of a standard symlink directory")
  | none =>
    if err == some "WorkflowFilesError" || err == some "InputError" then (true, "")   -- refused: nothing claimed
    else
      -- what is matched: wholesale = the run directory; targeted = the matches of every pattern
      let wholesale : Bool := match c.rm with | none => true | some l => l.isEmpty
      let raws : List P :=
        if wholesale then [[]]
        else match c.spec with
          | none => []
          | some ps => ps.flatMap fun p => (c.raw.lookup p).getD []
      let noDir := !isDir c.fs fuel s.runDir && !isLink c.fs fuel s.runDir
      let direct := raws.filter fun m => s.direct m
      let entries := direct.filterMap fun m => s.entry m
      -- (2) never through another symlink
      let legit (p : P) : Bool :=
        entries.any (fun q => q == p || (kindAt c.fs q == some .dir && q.isPrefixOf p))
        || s.std.any (fun (d, t) =>
            direct.any (fun m => m.isPrefixOf d)
            && match t with | some t => t.isPrefixOf p | none => false)
        || s.tidy after p
      let followed := (raws.filter fun m => !s.direct m).filterMap fun m =>
        match s.entry m with
        | some q => if del.contains q && !legit q then some (m, q) else none
        | none => none
      match followed with
      | (rel, q) :: _ =>
        (false, s!"deleted {pstr q} through the non-standard symlink on the way to {pstr rel}")
      | [] =>
        -- (3) every match is deleted
        if noDir then (true, "") else
        -- (a matched symlink whose target directory went in the same clean is excused: a pattern with a
        -- trailing slash stops matching it once it is broken)
        let excused (q : P) : Bool :=
          match kindAt c.fs q with
          | some (.link t _) =>
            (match resolve c.fs fuel [] t with | some r => r != [] && del.contains r | none => false)
          | _ => false
        let missing := entries.flatMap fun q =>
          if excused q then [] else (under c.fs q).filter fun p => !del.contains p
        match missing with
        | [] => (true, "")
        | p :: _ =>
          -- recorded finding: the removal loop aborts when a match has gone with another match
          let nested := entries.any fun q => entries.any fun q' =>
              (q' != q && q'.isPrefixOf q && kindAt c.fs q' == some .dir)
            || s.std.any (fun (d, t) =>
              direct.any (fun m => m.isPrefixOf d)
              && match t with | some t => t.isPrefixOf q | none => false)
          let dup := direct.eraseDups.length != direct.length
          let key := if err == some "FileNotFoundError" && (nested || dup)
            then "abort-on-removed-subpath: " else ""
          (false, s!"{key}{pstr p} is matched but was not deleted (cleaning ended with {err.getD "no error"})")

def handle (i o : Json) : Except String Reply := do
  let c ← parseCase i
  let (ok, why) := judge c o
  return { model := modelOut c, holds := ok, why := why }

end CylcModel.DrvC38

def main : IO Unit := CylcModel.Drv.run CylcModel.DrvC38.handle
