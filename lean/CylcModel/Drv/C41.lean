/-
Driver for C41: runs the `Bash` model (`define` + the bash fragment) on a JSON case and judges what
the real `bash` saw after sourcing the function the real `JobFileWriter` wrote.

input  i : {"defs": [[name, value] ...],             -- the [environment] section, in configuration order
            "parts": [[P ...] ...],                   -- the structure the value texts were rendered from
            "env": [[name, value] ...],               -- environment bash starts with (HOME ...)
            "homes": [[login, dir] ...],              -- passwd entries of the tilde-prefixes that occur
            "filter": {"incl": [name ...], "excl": [name ...]} | absent}   -- [environment filter]: the section goes
                                                       -- through the real WorkflowConfig.filter_env first
   P       : {"l": text} | {"r": NAME, "b": braces?}
observed o : "syntax" | [[name, value | null] ...]    (null = unset after the function ran)
model    m : the same, or "unsupported" (outside the modelled bash fragment)
-/
import CylcModel.Util.Drv
import CylcModel.Bash
open Lean CylcModel.Drv CylcModel.Bash

namespace CylcModel.DrvC41

def need {α} (o : Option α) (what : String) : Except String α :=
  match o with | some v => .ok v | none => .error what

def parsePairs (j : Option (List Json)) (what : String) : Except String (List (Str × Str)) :=
  (j.getD []).mapM fun e => match jArr? e with
    | some [a, b] => do return ((← need (jStr? a) what).toList, (← need (jStr? b) what).toList)
    | _ => .error what

inductive Part | lit (s : Str) | ref (n : Str) (braces : Bool)

def parsePart (j : Json) : Except String Part :=
  match jStrField? j "l", jStrField? j "r" with
  | some s, _ => .ok (.lit s.toList)
  | _, some n => .ok (.ref n.toList ((jBoolField? j "b").getD false))
  | _, _ => .error "part"

structure Case where
  defs : List (Str × Str)
  parts : List (List Part)
  env : Env
  homes : Env
  filt : Option (List Str × List Str) := none     -- [environment filter] include / exclude

def parseCase (i : Json) : Except String Case := do
  let defs ← parsePairs (jArrField? i "defs") "defs"
  let parts ← ((jArrField? i "parts").getD []).mapM fun e => do (← need (jArr? e) "parts").mapM parsePart
  let env ← parsePairs (jArrField? i "env") "env"
  let homes ← parsePairs (jArrField? i "homes") "homes"
  if parts.length != defs.length then throw "parts/defs length"
  let strs (j : Json) (k : String) : List Str := ((jArrField? j k).getD []).filterMap fun e => (jStr? e).map String.toList
  let filt := (jOptField i "filter").map fun f => (strs f "incl", strs f "excl")
  return ⟨defs, parts, env, homes, filt⟩

def jStrL (s : Str) : Json := Json.str (String.ofList s)

def modelOut (c : Case) : Json :=
  let defs := match c.filt with
    | some (incl, excl) => filterEnv incl excl c.defs
    | none => c.defs
  match exportEnv Generated.BashCfg.escapesDquote c.homes defs c.env with
  | .syntax => "syntax"
  | .unsupported => "unsupported"
  | .ok env => Json.arr (c.defs.map fun d =>
      Json.arr #[jStrL d.1, match env.get d.1 with | some v => jStrL v | none => Json.null]).toArray

/-! ### judge: the property, from the specification side (no call into `Bash.run` / `define`) -/

def isBlank (c : Char) : Bool := c == ' ' || c == '\t' || c == '\n'

/-- A value starting with `~` whose would-be tilde-prefix (the text up to the first `/`, or all of
it) contains a blank that is not the last character of the value: `~5 km/h`, `~ 3/4 of it`,
`~a ~b`.  No login name contains a blank, so this is literal text, not a tilde form. -/
def blankTilde (v : Str) : Bool :=
  match v with
  | '~' :: r =>
    let pre := r.takeWhile (· != '/')
    let inner := if pre.length == r.length then pre.dropLast else pre   -- (not the last character of the value)
    inner.any isBlank
  | _ => false

/-- "contains no shell-expansion characters": no `$`, backquote, backslash, and not a tilde form -/
def expansionFree (v : Str) : Bool :=
  !(v.contains '$' || v.contains '`' || v.contains '\\') && (v.head? != some '~' || blankTilde v)

def nameCh (c : Char) : Bool := c.isAlphanum || c == '_'

def nameStartCh (c : Char) : Bool := c.isAlpha || c == '_'

/-- text free of every character that means something to the shell inside or outside double quotes -/
def cleanText (s : Str) : Bool :=
  !(s.any fun c => c == '$' || c == '`' || c == '\\' || c == '"' || c == '\'' || c == ';' || c == '&' || c == '|' ||
      c == '<' || c == '>' || c == '(' || c == ')' || c == '\n' || c == '~')

/-- first character of the text a list of parts renders to -/
def firstChar : List Part → Option Char
  | [] => none
  | .lit [] :: r => firstChar r
  | .lit (c :: _) :: _ => some c
  | .ref _ _ :: _ => some '$'

inductive Kind
  | literal        -- all-literal, expansion-free text: the property claims it arrives unchanged
  | refs           -- clean literal text + `$NAME` / `${NAME}` references: claimed if the references are to earlier claimed variables
  | cleanTilde     -- `~`, `~login`, `~login/clean tail`: shell text, well-formed, no claim about its own value
  | other          -- any other shell text (the user's responsibility; it may break the whole function)
  deriving DecidableEq

def kindOf (value : Str) (parts : List Part) : Kind :=
  let allLit := parts.all fun p => match p with | .lit _ => true | _ => false
  if allLit then
    if expansionFree value then .literal
    else match value with
      | '~' :: r =>
        let login := r.takeWhile (· != '/')
        if login.all (fun c => nameCh c || c == '.' || c == '-') && cleanText (r.dropWhile (· != '/')) then .cleanTilde
        else .other
      | _ => .other
  else
    if value.head? == some '~' then .other
    else if parts.all (fun p => match p with
        | .lit s => cleanText s
        | .ref n _ => !n.isEmpty && n.all nameCh && (n.head?.map nameStartCh).getD false) then .refs
    else .other

/-- value a `refs` definition must end up with: the text with the values of EARLIER claimed
variables substituted (`none`: it refers to something the property says nothing about) -/
def expectedRefs (earlier : List (Str × Option Str)) : List Part → Str → Option Str
  | [], acc => some acc
  | .lit s :: r, acc => expectedRefs earlier r (acc ++ s)
  | .ref n b :: r, acc =>
    if !b && ((firstChar r).map nameCh).getD false then none else
    match (earlier.find? (fun e => e.1 == n)) with
    | some (_, some w) => expectedRefs earlier r (acc ++ w)
    | _ => none

def expected (earlier : List (Str × Option Str)) (value : Str) (parts : List Part) : Option Str :=
  match kindOf value parts with
  | .literal => some value
  | .refs => expectedRefs earlier parts []
  | _ => none

def expectations (defs : List (Str × Str)) (parts : List (List Part)) : List (Str × Option Str) :=
  let rec go (ds : List ((Str × Str) × List Part)) (earlier : List (Str × Option Str)) : List (Str × Option Str) :=
    match ds with
    | [] => earlier.reverse
    | ((n, v), ps) :: r => go r ((n, expected earlier v ps) :: earlier)
  go (defs.zip parts) []

/-- The property speaks about sections whose shell-text values are well-formed: a value of kind
`other` (arbitrary shell text) can legitimately do anything to the function, including breaking it. -/
def inScope (defs : List (Str × Str)) (parts : List (List Part)) : Bool :=
  (defs.zip parts).all fun d => kindOf d.1.2 d.2 != .other

def observed (o : Json) : Option (List (Str × Option Str)) :=
  (jArr? o).bind fun l => l.mapM fun e => match jArr? e with
    | some [n, v] => (jStr? n).map fun n => (n.toList, (jStr? v).map String.toList)
    | _ => none

/-- spec of `[environment filter]`: a variable stays iff it is in the include list (when there is
one) and not in the exclude list; the others keep their configuration order -/
def kept (filt : Option (List Str × List Str)) (n : Str) : Bool :=
  match filt with
  | none => true
  | some (incl, excl) => (incl.isEmpty || incl.contains n) && !excl.contains n

def judge (c0 : Case) (o : Json) : Bool × String :=
  let zipped := (c0.defs.zip c0.parts).filter fun d => kept c0.filt d.1.1
  let c : Case := { c0 with defs := zipped.map (·.1), parts := zipped.map (·.2) }
  let exps := expectations c.defs c.parts
  let claims := exps.filter (fun e => e.2.isSome)
  let key := if c.defs.any (fun d => d.2.contains '"') then "dquote: " else ""
  if claims.isEmpty || !inScope c.defs c.parts then (true, "") else
  match observed o with
  | none => (false, key ++ s!"bash rejected the generated function ({o.compress}) although {claims.length} value(s) are literal")
  | some obs =>
    match claims.find? (fun e => (obs.find? (fun x => x.1 == e.1)).map (·.2) != some e.2) with
    | none => (true, "")
    | some (n, w) =>
      let got := (obs.find? (fun x => x.1 == n)).bind (·.2)
      (false, key ++ s!"variable {String.ofList n}: expected {(String.ofList (w.getD [])).quote}, bash saw " ++
        (match got with | some g => (String.ofList g).quote | none => "<unset>"))

def handle (i o : Json) : Except String Reply := do
  let c ← parseCase i
  let (h, why) := judge c o
  return { model := modelOut c, holds := h, why := why }

end CylcModel.DrvC41

def main : IO Unit := CylcModel.Drv.run CylcModel.DrvC41.handle
