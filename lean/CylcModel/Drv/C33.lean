/-
Driver for C33: runs the `Xtrig` model on a JSON case and judges the implementation's observations
with the monitor `Xtrig.Spec.judge` (the property, independent of the model).

input  i : {"wf": str,
            "labels": [{"label": str, "clock": bool, "intvl": int | null (= SubFuncContext.DEFAULT_INTVL), "trig": int, "func": str, "args": [A...], "kwargs": [[key, A]...]}],
            "tasks":  [{"id": n, "point": str, "name": str, "labels": [label...]}],
            "ops": [["adv", dt] | ["spawn", id] | ["remove", id] | ["call", id] | ["cb", id, label, kind, [[k, v]...]]
                    | ["hk", force] | ["load", id, label, [[k, v]...]] | ["force", id, label, val]]}
   A : {"s": [P...]} | {"i": int} | {"b": bool}      P : {"lit": str} | "point" | "name" | "id" | "workflow"
   kind of a callback: "ok" | "errok" (succeeded) | "no" | "bad" | "none" (not succeeded)
   a wall-clock label has func "wall_clock", no args and the single kwarg trigger_time = trig
observed o / model m :
   {"sigs": [[id, label, sig]...]   (every task of the table x its labels),
    "out": [{"subs": [[label, sig]...], "bcs": [[key, val]...], "db": [sig...], "xt": [bool...],
             "sat": [sig... sorted], "hk": bool} per op]}
-/
import CylcModel.Util.Drv
import CylcModel.Xtrig
import CylcModel.Generated.XtrigConsts
open Lean CylcModel.Drv CylcModel.Xtrig

namespace CylcModel.DrvC33

def need {α} (o : Option α) (what : String) : Except String α :=
  match o with | some v => .ok v | none => .error s!"bad or missing {what}"

def parsePiece (j : Json) : Except String Piece :=
  match jStr? j with
  | some "point" => .ok .point
  | some "name" => .ok .name
  | some "id" => .ok .ident
  | some "workflow" => .ok .workflow
  | some s => .error s!"unknown piece {s}"
  | none => do return .lit (← need (jStrField? j "lit") "piece.lit")

def parseArg (j : Json) : Except String Arg :=
  match jArrField? j "s", jIntField? j "i", jBoolField? j "b" with
  | some ps, _, _ => do return .str (← ps.mapM parsePiece)
  | _, some v, _ => .ok (.int v)
  | _, _, some b => .ok (.bool b)
  | _, _, _ => .error "bad arg"

def parseKw (j : Json) : Except String (String × Arg) :=
  match jArr? j with
  | some [k, a] => do return (← need (jStr? k) "kwarg key", ← parseArg a)
  | _ => .error "bad kwarg"

structure LabelIn where
  cfg : LabelCfg
  fn : FuncCfg

def parseLabel (j : Json) : Except String LabelIn := do
  let label ← need (jStrField? j "label") "label.label"
  let clock ← need (jBoolField? j "clock") "label.clock"
  -- null: declared without an interval -> the code's default (generated from the source)
  let intvl := ((jOptField j "intvl").bind jInt?).getD defaultIntvl
  let trig ← need (jIntField? j "trig") "label.trig"
  let fn : FuncCfg ←
    if clock then pure { func := "wall_clock", args := [], kwargs := [("trigger_time", .int trig)] }
    else do
      let func ← need (jStrField? j "func") "label.func"
      let args ← (← need (jArrField? j "args") "label.args").mapM parseArg
      let kwargs ← (← need (jArrField? j "kwargs") "label.kwargs").mapM parseKw
      pure { func, args, kwargs }
  return { cfg := { label, clock, intvl, trig }, fn }

structure TaskIn where
  info : TaskInfo
  labels : List Label

def parseTask (j : Json) : Except String TaskIn := do
  let id ← need (jNatField? j "id") "task.id"
  let point ← need (jStrField? j "point") "task.point"
  let name ← need (jStrField? j "name") "task.name"
  let labels ← (← need (jArrField? j "labels") "task.labels").mapM fun x => need (jStr? x) "task label"
  return { info := { id, point, name }, labels }

def parseRes (j : Json) : Except String Results := do
  (← need (jArr? j) "results").mapM fun kv =>
    match jArr? kv with
    | some [k, v] => do return (← need (jStr? k) "result key", ← need (jStr? v) "result value")
    | _ => .error "bad result item"

/-- operation as written in the case: callbacks and loads name the signature by (task, label) -/
inductive OpIn where
  | plain (op : Op)
  | callback (id : Nat) (label : Label) (ok : Bool) (res : Results)
  | load (id : Nat) (label : Label) (res : Results)
  | spawn (id : Nat)

def parseOp (j : Json) : Except String OpIn := do
  match ← need (jArr? j) "op" with
  | [k, a] =>
    match jStr? k with
    | some "adv" => return .plain (.advance (← need (jNat? a) "adv dt"))
    | some "spawn" => return .spawn (← need (jNat? a) "spawn id")
    | some "remove" => return .plain (.remove (← need (jNat? a) "remove id"))
    | some "call" => return .plain (.call (← need (jNat? a) "call id"))
    | some "hk" => return .plain (.housekeep (← need (jBool? a) "hk force"))
    | _ => throw "unknown op"
  | [k, a, b, c] =>
    match jStr? k with
    | some "load" => return .load (← need (jNat? a) "load id") (← need (jStr? b) "load label") (← parseRes c)
    | some "force" =>
      return .plain (.force (← need (jNat? a) "force id") (← need (jStr? b) "force label") (← need (jBool? c) "force val"))
    | _ => throw "unknown op"
  | [k, a, b, c, d] =>
    match jStr? k with
    | some "cb" =>
      let kind ← need (jStr? c) "cb kind"
      let ok ← match kind with
        | "ok" | "errok" => pure true
        | "no" | "bad" | "none" => pure false
        | s => throw s!"unknown callback kind {s}"
      return .callback (← need (jNat? a) "cb id") (← need (jStr? b) "cb label") ok (← parseRes d)
    | _ => throw "unknown op"
  | _ => throw "malformed op"

structure Case where
  wf : String
  labels : List LabelIn
  tasks : List TaskIn
  ops : List OpIn

def parseCase (j : Json) : Except String Case := do
  return { wf := ← need (jStrField? j "wf") "wf",
           labels := ← (← need (jArrField? j "labels") "labels").mapM parseLabel,
           tasks := ← (← need (jArrField? j "tasks") "tasks").mapM parseTask,
           ops := ← (← need (jArrField? j "ops") "ops").mapM parseOp }

/-- the model's signature function: rendering of the label's function context for the task -/
def Case.modelSig (c : Case) (id : Nat) (l : Label) : Sig :=
  match c.tasks.find? (·.info.id == id), c.labels.find? (·.cfg.label == l) with
  | some t, some lb => renderSig c.wf lb.fn t.info
  | _, _ => "?"

def Case.envWith (c : Case) (sigOf : Nat → Label → Sig) : Env :=
  { cfg := cfgOfList (c.labels.map (·.cfg)), sigOf }

def Case.opsWith (c : Case) (sigOf : Nat → Label → Sig) : List Op :=
  c.ops.map fun
    | .plain op => op
    | .callback id l ok res => .callback (sigOf id l) ok res
    | .load id l res => .load (sigOf id l) res
    | .spawn id => .spawn id (((c.tasks.find? (·.info.id == id)).map (·.labels)).getD [])

def sortStr (l : List String) : List String := l.mergeSort fun a b => decide (a ≤ b)

def pairJson (p : String × String) : Json := Json.arr #[Json.str p.1, Json.str p.2]

def outJson (o : Out) (sat : List Sig) (hk : Bool) : Json :=
  Json.mkObj [("subs", jOfList pairJson o.subs), ("bcs", jOfList pairJson o.bcs), ("db", jOfList Json.str o.db),
              ("xt", jOfList Json.bool o.xt), ("sat", jOfList Json.str (sortStr sat)), ("hk", Json.bool hk)]

/-- per operation: output and the visible part of the state after it -/
def traceJson (env : Env) : State → List Op → List Json
  | _, [] => []
  | s, op :: ops =>
    let r := step env s op
    outJson r.2 (keys r.1.sat) r.1.hk :: traceJson env r.1 ops

def modelOut (c : Case) : Json :=
  let env := c.envWith c.modelSig
  let sigs := c.tasks.flatMap fun t => t.labels.map fun l =>
    Json.arr #[jOfNat t.info.id, Json.str l, Json.str (c.modelSig t.info.id l)]
  Json.mkObj [("sigs", Json.arr sigs.toArray), ("out", Json.arr (traceJson env init (c.opsWith c.modelSig)).toArray)]

/-! ### decoding the observation -/

def parseObsSigs (o : Json) : Option (List (Nat × Label × Sig)) := do
  (← jArrField? o "sigs").mapM fun e =>
    match jArr? e with
    | some [a, b, c] => do return (← jNat? a, ← jStr? b, ← jStr? c)
    | _ => none

def parseObsOut (j : Json) : Option Out := do
  let subs ← (← jArrField? j "subs").mapM fun e =>
    match jArr? e with
    | some [a, b] => do return (← jStr? a, ← jStr? b)
    | _ => none
  let xt ← (← jArrField? j "xt").mapM jBool?
  return { subs, xt }

def failText : Spec.Fail → String
  | .oneInFlight k sig => s!"op {k}: {sig} submitted while a call of it is still in progress"
  | .interval k sig prev now iv => s!"op {k}: {sig} submitted at t={now}, previous submission at t={prev}, interval {iv}"
  | .intervalAfterForget k sig prev now iv =>
    s!"interval-after-forget: op {k}: {sig} submitted at t={now}, previous submission at t={prev}, interval {iv} " ++
      "(the previous call succeeded; its result and next-call time were forgotten by housekeeping)"
  | .callAfterSuccess k sig => s!"op {k}: {sig} submitted again although it succeeded and a task has needed it ever since"
  | .notSatisfied k id l => s!"op {k}: task {id} was not satisfied for {l} although its signature has succeeded (or its clock time has passed)"
  | .shape k => s!"op {k}: observation has the wrong shape"

def handle (i o : Json) : Except String Reply := do
  let c ← parseCase i
  -- an unconfigured label is a KeyError in the code: not a case of the component
  for t in c.tasks do
    for l in t.labels do
      if !(c.labels.any (·.cfg.label == l)) then throw s!"task {t.info.id} uses the unconfigured label {l}"
  let (ok, why) :=
    match parseObsSigs o, (jArrField? o "out").bind (·.mapM parseObsOut) with
    | some sigs, some outs =>
      -- the judge reads signatures as the implementation reports them
      let sigOf := fun (id : Nat) (l : Label) =>
        ((sigs.find? fun e => e.1 == id && e.2.1 == l).map (·.2.2)).getD "?"
      match Spec.judge (c.envWith sigOf) (c.opsWith sigOf) outs with
      | .ok _ => (true, "")
      | .error f => (false, failText f)
    | _, _ => (false, "observation cannot be decoded")
  return { model := modelOut c, holds := ok, why := why }

end CylcModel.DrvC33

def main : IO Unit := CylcModel.Drv.run CylcModel.DrvC33.handle
