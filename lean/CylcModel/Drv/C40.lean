/-
Driver for C40: runs the `Like` model of `workflow_state_query` on a JSON case and judges the
implementation's result rows against the specification (`Like.Spec.rows`, built on `starMatch`).

input  i : {"db": {"states":  [[name, cycle, [flow...], submit_num, status|null] ...],
                   "outputs": [[name, cycle, [flow...], O] ...]},
            "q":  {"task": s|null, "cycle": s|null, "selector": s|null,
                   "mode": "status"|"trigger"|"message", "flow": n|null}}
   O       : {"d": [[trigger, message] ...]} | {"l": [message ...]}
observed o / model m :
   {"err": "InputError"} | {"rows": [[name, cycle, status | O, flowtext?] ...]}   (order irrelevant)
-/
import CylcModel.Util.Drv
import CylcModel.Like
open Lean CylcModel.Drv CylcModel.Like

namespace CylcModel.DrvC40

def need {α} (o : Option α) (what : String) : Except String α :=
  match o with | some v => .ok v | none => .error what

def parseOutputs (j : Json) : Except String Outputs :=
  match jArrField? j "d", jArrField? j "l" with
  | some kv, _ => do
    let l ← kv.mapM fun e => match jArr? e with
      | some [k, v] => do return ((← need (jStr? k) "output key"), (← need (jStr? v) "output message"))
      | _ => .error "output pair"
    return .dict l
  | _, some l => do return .msgs (← l.mapM fun e => need (jStr? e) "message")
  | _, _ => .error "outputs"

def parseFlows (j : Json) : Except String (List Int) := do
  (← need (jArr? j) "flows").mapM fun e => need (jInt? e) "flow number"

def parseStateRow (j : Json) : Except String StateRow :=
  match jArr? j with
  | some [n, c, fl, sn, st] => do
    return ⟨(← need (jStr? n) "name").toList, (← need (jStr? c) "cycle").toList, ← parseFlows fl,
            ← need (jInt? sn) "submit_num", jStr? st⟩
  | _ => .error "state row"

def parseOutRow (j : Json) : Except String OutRow :=
  match jArr? j with
  | some [n, c, fl, o] => do
    return ⟨(← need (jStr? n) "name").toList, (← need (jStr? c) "cycle").toList, ← parseFlows fl, ← parseOutputs o⟩
  | _ => .error "output row"

def parseMode : String → Except String Mode
  | "status" => .ok .status
  | "trigger" => .ok .trigger
  | "message" => .ok .message
  | s => .error s!"mode {s}"

def parseCase (i : Json) : Except String (Db × Query) := do
  let dbj ← need (jField? i "db") "db"
  let states ← ((jArrField? dbj "states").getD []).mapM parseStateRow
  let outs ← ((jArrField? dbj "outputs").getD []).mapM parseOutRow
  let qj ← need (jField? i "q") "q"
  let optStr (k : String) : Option Str := ((jOptField qj k).bind jStr?).map String.toList
  let mode ← parseMode (← need (jStrField? qj "mode") "mode")
  let q : Query := ⟨optStr "task", optStr "cycle", (jOptField qj "selector").bind jStr?, mode,
                    (jOptField qj "flow").bind jInt?⟩
  return (⟨states, outs⟩, q)

def outputsJson : Outputs → Json
  | .dict kv => Json.mkObj [("d", jOfList (fun (p : String × String) => Json.arr #[Json.str p.1, Json.str p.2]) kv)]
  | .msgs l => Json.mkObj [("l", jOfList Json.str l)]

def rowJson (r : ResRow) : Json :=
  let cell := match r.cell with | .status s => Json.str s | .outputs o => outputsJson o
  let base := [Json.str (String.ofList r.name), Json.str (String.ofList r.cycle), cell]
  Json.arr (match r.flow with | some f => base ++ [Json.str f] | none => base).toArray

def resultJson : Result → Json
  | .inputError => Json.mkObj [("err", "InputError")]
  | .rows l => Json.mkObj [("rows", jOfList rowJson l)]

/-! ### Judge -/

/-- remove one occurrence -/
def removeOne (x : String) : List String → Option (List String)
  | [] => none
  | y :: ys => if x == y then some ys else (removeOne x ys).map (y :: ·)

/-- first element of `a` missing from `b` (as multisets) / first surplus element of `b` -/
def multisetDiff : List String → List String → Option (String × Bool)
  | [], [] => none
  | [], y :: _ => some (y, false)
  | x :: xs, ys =>
    match removeOne x ys with
    | some ys' => multisetDiff xs ys'
    | none => some (x, true)

/-- statuses that may be polled for (the reliable final ones): only for these must a status query answer -/
def finalStatuses : List String := ["succeeded", "failed", "expired", "submit-failed"]

def judge (db : Db) (q : Query) (o : Json) : Bool × String :=
  match jField? o "err" with
  | some e =>
    let rejectable := match q.mode, q.selector with
      | .status, some s => !(finalStatuses.contains s)
      | _, _ => false
    if rejectable then (true, "") else (false, s!"query rejected with {e.compress}")
  | none =>
    match jArrField? o "rows" with
    | none => (false, "malformed observation")
    | some rows =>
      let want := (Spec.rows db q).map fun r => (rowJson r).compress
      let got := rows.map Json.compress
      match multisetDiff want got with
      | none => (true, "")
      | some (r, true) => (false, s!"recorded instance {r} matches the query but was not returned")
      | some (r, false) => (false, s!"returned row {r} does not match the query (or is returned too often)")

def handle (i o : Json) : Except String Reply := do
  let (db, q) ← parseCase i
  let (ok, why) := judge db q o
  return { model := resultJson (query db q), holds := ok, why := why }

end CylcModel.DrvC40

def main : IO Unit := CylcModel.Drv.run CylcModel.DrvC40.handle
