/-
Driver for C06 (held tasks never submit; holds persist and apply to future instances):
`Sched2` correspondence + judge on the observed trace of the real scheduler.

The judge is a *monitor* written from the property text.  It reads the op list of the case (the hold /
release / hold-point commands and restarts that were issued) and, per operation, the observation of the
real scheduler (pool with the `is_held` flags, the proxies handed to job preparation with their flags at
that moment, job launches, removals, `tasks_to_hold`, `hold_point`).  It keeps its own record `H` of the
instances that must be held — put there by a hold command, by lying beyond the hold point when that was
set or when they spawned, taken out only by a release command, `release_hold_point` or removal from the
pool — and demands

* `held-prepared`     no proxy is handed to job preparation while its `is_held` flag is up (manual
                      submits excepted), and no job is launched for an instance that the previous
                      observation shows held;
* `hold-ignored`      no instance of `H` is prepared / launched;
* `hold-not-in-force` every pooled instance of `H` is shown held after every operation (a hold command on
                      a pooled instance takes effect at once, a hold on a future instance or the hold point
                      takes effect in the first observation in which the instance appears); a hold on a future
                      instance is recorded in `tasks_to_hold`; the hold point in force is the one set;
* `hold-lost`         across a restart: hold point, `tasks_to_hold` and the held flag of every pooled
                      instance are what they were before the stop;
A hold point given at start-up (`cylc play --hold-after`, case field `start_hold`) counts as a hold-point
command issued before the first observation.
* `rehold-after-restart` (recorded finding) the one documented exception: instances beyond the hold point
                      that were released individually are held again by the restart.

It never calls the transition functions of the model.
-/
import CylcModel.Sched2Json
open Lean CylcModel.Drv CylcModel.Sched2

namespace CylcModel.DrvC06

abbrev Key := Int × String

def showKey (k : Key) : String := s!"{k.1}/{k.2}"

def showPt (p : Option Int) : String := match p with | some v => s!"{v}" | none => "none"

structure PO where
  key : Key
  held : Bool
  deriving Inhabited

/-- what the judge reads of one observation -/
structure Ob where
  pool : List PO
  launch : List Key
  prep : List (Key × Bool × Bool)          -- key, held, manual submit
  removed : List Key
  hTasks : List Key
  hPoint : Option Int
  deriving Inhabited

def keyArr? (j : Json) : Option Key :=
  match jArr? j with
  | some (p :: n :: _) => do pure ((← jInt? p), (← jStr? n))
  | _ => none

def parseOb (ob : Json) : Ob :=
  let pool := (poolOf ob).map fun t => { key := keyOf t, held := (jBoolField? t "held").getD false : PO }
  let launch := ((jArrField? ob "launch").getD []).filterMap keyArr?
  let prep := ((jArrField? ob "prep").getD []).filterMap fun j =>
    match jArr? j with
    | some [p, n, h, m] => do pure (((← jInt? p), (← jStr? n)), (← jBool? h), (← jBool? m))
    | _ => none
  let removed := ((jArrField? ob "removed").getD []).filterMap keyArr?
  let hold := (jField? ob "hold").getD Json.null
  let hTasks := ((jArrField? hold "tasks").getD []).filterMap keyArr?
  let hPoint := (jOptField hold "point").bind jInt?
  { pool, launch, prep, removed, hTasks, hPoint }

inductive Cmd where
  | hold (ids : List Key)
  | release (ids : List Key)
  | setHoldPoint (p : Int)
  | releaseHoldPoint
  | restart
  | other
  deriving Inhabited

def parseIds (args : Json) : List Key :=
  ((jArrField? args "tasks").getD []).filterMap fun t =>
    match (jStr? t).map (·.splitOn "/") with
    | some [p, n] => p.toInt?.map fun pt => (pt, n)
    | _ => none

/-- the command of an op as far as the property is concerned (read from the raw op, not via the model) -/
def parseCmd (j : Json) : Cmd :=
  match jStrField? j "op" with
  | some "restart" => .restart
  | some "cmd" =>
    let args := (jField? j "args").getD Json.null
    match jStrField? j "name" with
    | some "hold" => .hold (parseIds args)
    | some "release" => .release (parseIds args)
    | some "set_hold_point" =>
      match (jStrField? args "point").bind String.toInt? with
      | some p => .setHoldPoint p
      | none => .other
    | some "release_hold_point" => .releaseHoldPoint
    | _ => .other
  | _ => .other

def Ob.find (o : Ob) (k : Key) : Option PO := o.pool.find? (·.key == k)
def Ob.has (o : Ob) (k : Key) : Bool := (o.find k).isSome

def beyond (hp : Option Int) (p : Int) : Bool :=
  match hp with | some h => p > h | none => false

def addKeys (h : List Key) (ks : List Key) : List Key :=
  ks.foldl (fun acc k => if acc.contains k then acc else acc ++ [k]) h

/-- monitor state: the instances that must be held, the hold point in force, failures found so far -/
structure Mon where
  H : List Key := []
  hp : Option Int := none
  fails : List String := []        -- property violations
  finds : List String := []        -- failures belonging to the recorded finding
  deriving Inhabited

/-- is `k` a task instance of the workflow (on a sequence of its task, within the cycle bounds)? -/
def isInstance (g : Graph) (k : Key) : Bool :=
  match g.tasks.find? (·.name == k.2) with
  | some t => t.insts.any (·.1 == k.1)
  | none => false

def monStep (g : Graph) (idx : Nat) (opJ : Json) (pre post : Ob) (m : Mon) : Mon :=
  let cmd := parseCmd opJ
  let tag := s!"op {idx} ({opJ.compress})"
  -- 1. jobs prepared / launched by this op, against the holds in force before it
  let f1 : List String := post.prep.filterMap fun (k, held, manual) =>
    if manual then none
    else if held then some s!"held-prepared: {showKey k} entered job preparation while held, {tag}"
    else if m.H.contains k then
      some s!"hold-ignored: {showKey k} was held (command / hold point) and not released, yet entered job preparation, {tag}"
    else none
  let manualKeys := (post.prep.filter fun (_, _, manual) => manual).map (·.1)
  let f2 : List String := post.launch.filterMap fun k =>
    if manualKeys.contains k then none
    else match pre.find k with
    | some x =>
      if x.held then some s!"held-prepared: job launched for {showKey k}, held in the previous observation, {tag}"
      else if m.H.contains k then some s!"hold-ignored: job launched for {showKey k}, held and not released, {tag}"
      else none
    | none =>
      if m.H.contains k || pre.hTasks.contains k || beyond pre.hPoint k.1 then
        some s!"hold-ignored: job launched for {showKey k}, which was to be held when it spawned, {tag}"
      else none
  -- 2. effect of the command on the holds that must be in force
  let (h1, hp1) : List Key × Option Int :=
    match cmd with
    | .hold ids => (addKeys m.H (ids.filter fun k => pre.has k || isInstance g k), m.hp)
    | .release ids => (m.H.filter fun k => !ids.contains k, m.hp)
    | .setHoldPoint p => (addKeys m.H ((pre.pool.filter fun x => x.key.1 > p).map (·.key)), some p)
    | .releaseHoldPoint => ([], none)
    | _ => (m.H, m.hp)
  -- 3. removal from the pool ends a hold
  let gone (k : Key) : Bool := post.removed.contains k || (pre.has k && !post.has k)
  let h2 := h1.filter fun k => !gone k
  -- 4. instances that appear beyond the hold point are held from the start
  let h3 := addKeys h2 ((post.pool.filter fun x => !pre.has x.key && beyond hp1 x.key.1).map (·.key))
  -- 5. every hold in force shows
  let f3 : List String := post.pool.filterMap fun x =>
    if h3.contains x.key && !x.held then
      some s!"hold-not-in-force: {showKey x.key} is in the pool and not held although a hold applies to it (never released), after {tag}"
    else none
  let f4 : List String :=
    match cmd with
    | .hold ids => ids.filterMap fun k =>
        if !pre.has k && isInstance g k && !post.has k && !post.hTasks.contains k then
          some s!"hold-not-in-force: hold of the future instance {showKey k} is not recorded, after {tag}"
        else none
    | _ => []
  let f5 : List String :=
    match hp1 with
    | some p => if post.hPoint == some p then [] else
        [s!"hold-not-in-force: hold point {p} is set but the scheduler has {showPt post.hPoint}, after {tag}"]
    | none => []
  -- 6. restart: nothing about holds changes
  let (f6, d6) : List String × List String :=
    match cmd with
    | .restart =>
      let a := if post.hPoint == pre.hPoint then [] else
        [s!"hold-lost: hold point {showPt pre.hPoint} before the stop, {showPt post.hPoint} after the restart, {tag}"]
      let b := pre.hTasks.filterMap fun k =>
        if post.hTasks.contains k then none
        else some s!"hold-lost: {showKey k} was in tasks_to_hold before the stop and is not after the restart, {tag}"
      let c := post.pool.filterMap fun x =>
        match pre.find x.key with
        | some y =>
          if y.held && !x.held then some s!"hold-lost: {showKey x.key} was held before the stop and is not after the restart, {tag}"
          else none
        | none => none
      -- more held than before: the documented re-application of the hold point, or something else
      let reheld := post.pool.filter fun x => x.held && (match pre.find x.key with | some y => !y.held | none => false)
      let d := reheld.filterMap fun x =>
        if beyond pre.hPoint x.key.1 then
          some s!"rehold-after-restart: {showKey x.key} lies beyond the hold point {showPt pre.hPoint}, had been released individually, and is held again after the restart, {tag}"
        else none
      let e := reheld.filterMap fun x =>
        if beyond pre.hPoint x.key.1 then none
        else some s!"hold-lost: {showKey x.key} was not held before the stop and is held after the restart, {tag}"
      let f := post.hTasks.filterMap fun k =>
        if pre.hTasks.contains k || (reheld.any fun x => x.key == k && beyond pre.hPoint k.1) then none
        else some s!"hold-lost: {showKey k} is in tasks_to_hold after the restart and was not before the stop, {tag}"
      (a ++ b ++ c ++ e ++ f, d)
    | _ => ([], [])
  { H := h3, hp := hp1, fails := m.fails ++ f1 ++ f2 ++ f3 ++ f4 ++ f5 ++ f6, finds := m.finds ++ d6 }

/-- the monitor at start-up: with a hold point given on the command line (`--hold-after`) every instance
of the first observation beyond it must be held, and the point must be in force -/
def monStart (startHold : Option Int) (ob0 : Ob) : Mon :=
  match startHold with
  | none => {}
  | some p =>
    let h := (ob0.pool.filter fun x => x.key.1 > p).map (·.key)
    let f1 := ob0.pool.filterMap fun x =>
      if x.key.1 > p && !x.held then
        some s!"hold-not-in-force: {showKey x.key} is in the pool beyond the start-up hold point {p} and not held, after start-up"
      else none
    let f2 := if ob0.hPoint == some p then [] else
      [s!"hold-not-in-force: start-up hold point {p} but the scheduler has {showPt ob0.hPoint}, after start-up"]
    { H := h, hp := some p, fails := f1 ++ f2 }

def monRun (g : Graph) (startHold : Option Int) (ops : List Json) (obs : List Ob) : Mon :=
  let rec go (idx : Nat) (ops : List Json) (obs : List Ob) (m : Mon) : Mon :=
    match ops, obs with
    | op :: ops', pre :: post :: rest => go (idx + 1) ops' (post :: rest) (monStep g idx op pre post m)
    | _, _ => m
  go 0 ops obs (monStart startHold (obs.headD default))

/-- `none`: the property holds on the trace; otherwise the first violation, or — when every failure belongs
to the recorded finding — the first of those -/
def judge (g : Graph) (startHold : Option Int) (opsJ : List Json) (o : Json) : Option String :=
  let obs := (obsList o).map parseOb
  if obs.length != opsJ.length + 1 then
    some s!"trace-shape: {obs.length} observations for {opsJ.length} operations"
  else
    let m := monRun g startHold opsJ obs
    match m.fails, m.finds with
    | w :: _, _ => some w
    | [], w :: _ => some w
    | [], [] => none

/-- the model's observations.  A hold point given at start-up is applied by `Scheduler.configure` right after the
pool is loaded, through the same `set_hold_point` command as later ones: the start-up state is the state after the
op list `[setHoldPoint p]`, of which the state before the command is not observable. -/
def modelObsFrom (c : Case) (startHold : Option Int) : Json :=
  match startHold with
  | none => modelObs c
  | some p => jOfList (obsJson c.graph) ((run c.graph (Op.setHoldPoint p :: c.ops)).drop 1)

def handle (i o : Json) : Except String Reply := do
  if let some r := crashReply? i then return r
  let c ← parseCase i
  let opsJ := (jArrField? i "ops").getD []
  let startHold : Option Int := match jOptField i "start_hold" with
    | some j => match jInt? j with
      | some v => some v
      | none => (jStr? j).bind String.toInt?
    | none => none
  match judge c.graph startHold opsJ o with
  | some w => return { model := modelObsFrom c startHold, holds := false, why := w }
  | none => return { model := modelObsFrom c startHold, holds := true }

end CylcModel.DrvC06

def main : IO Unit := CylcModel.Drv.run CylcModel.DrvC06.handle
