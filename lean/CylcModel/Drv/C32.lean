/-
Driver for C32 (clock expiry only expires eligible tasks): `Sched3Exp` correspondence + judge on the observed
trace of the real scheduler.

The judge is a *monitor* written from the property text.  It reads
* the case: the op list (its `tick` ops give the virtual clock; `trig` ops the manual triggers), the clock-expire
  offsets of the generated workflow (`spec.offsets`, seconds; `spec.unit` = seconds per cycle-point step; both come
  from the generator, not from the scheduler) and the instance graph (who the children of an `expired` output are,
  the cycle bounds, next parentless points);
* per operation the observation of the real scheduler: the expiry events (`exp`: every `TaskProxy.state_reset` that
  moved a pool member into `expired`, with its status / `is_manual_submit` flag immediately before, and what the
  processing of its `expired` output did: keys added to the pool, keys removed, children pooled before, children
  whose prerequisite on the output is satisfied afterwards), job launches, the pool, additions and removals.
and demands
* `expired-not-waiting` / `expired-manual` / `expired-early` / `expired-no-offset`   (expire_guard) every proxy that
  becomes `expired` was `waiting`, not manually triggered, belongs to a clock-expire task, and the monitor's clock
  has reached  point * unit + offset.  "Manually triggered" is decided on the spec side too: besides the observed
  `is_manual_submit` flag the monitor keeps the instances named by `cylc trigger` ops whose job has not been launched
  since (trigger of an instance whose job is in progress has no effect; the record ends with the launch, when the
  instance leaves the pool, or at a restart).  The offset is that of the definition IN FORCE: the generated offsets
  at start-up, replaced by those of the reloaded definition at every successful `reload` op (`spec.variants`) - not
  the `expire_time` the scheduler keeps;  `expired-unseen`: a pool member shown `expired` that was not before has an
  expiry event (now or earlier: nothing becomes expired behind the monitor's back);
  `job-message-expired` (recorded finding): the same failure when the expiry was caused by a job message with the
  text `expired` (the scheduler treats it like its own clock-expiry message);
* `expired-submitted`   (expired_never_submits) no job is launched for an instance from its expiry on (unless the
  user triggers the expired task again);  `expired-revived` (recorded finding): the same failure when a job message
  (received / polled) had moved the instance out of the `expired` state before;
* `expire-spawned-non-child` / `expire-child-unsatisfied` / `expire-child-not-spawned`   (expire_children) the keys
  that enter the pool while the `expired` output is processed are children of that output (or the next parentless
  instance of a task it removed by suicide trigger); every child in the pool afterwards has its prerequisite on the
  output satisfied; every child is in the pool afterwards, or was removed by the event itself, or is not spawnable
  (not an instance of its task / outside the cycle bounds / before the start point) or has run before (known to the
  trace already).
It never calls the transition functions of the model.
-/
import CylcModel.Sched3ExpJson
open Lean CylcModel.Drv CylcModel.Sched3Exp

namespace CylcModel.DrvC32

abbrev Key := Int × String

def showKey (k : Key) : String := s!"{k.1}/{k.2}"

def keyArr? (j : Json) : Option Key :=
  match jArr? j with
  | some (p :: n :: _) => do pure ((← jInt? p), (← jStr? n))
  | _ => none

def keysField (j : Json) (k : String) : List Key := ((jArrField? j k).getD []).filterMap keyArr?

/-- one expiry event as observed -/
structure Ev where
  key : Key
  frm : String
  manual : Bool
  now : Int
  tr : Bool
  flows : List Nat
  pooledKids : List Key
  added : List Key
  removed : List Key
  sat : List Key
  deriving Inhabited

def parseEv (j : Json) : Ev :=
  { key := ((jIntField? j "p").getD 0, (jStrField? j "n").getD ""),
    frm := (jStrField? j "from").getD "?", manual := (jBoolField? j "man").getD true,
    now := (jIntField? j "now").getD 0, tr := (jBoolField? j "tr").getD false,
    flows := ((jArrField? j "fl").getD []).filterMap jNat?,
    pooledKids := keysField j "pooled_kids", added := keysField j "added",
    removed := keysField j "removed", sat := keysField j "sat" }

/-- what the monitor remembers -/
structure Mon where
  now : Int
  expired : List Key := []        -- instances that have expired (and were not triggered again)
  seen : List Key := []           -- instances that have been in the pool at some time
  prevExpired : List Key := []    -- pool members shown `expired` in the previous observation
  manual : List Key := []         -- instances the operator has triggered (`cylc trigger`) whose job has not been
                                  -- launched since; forgotten when the instance leaves the pool or the scheduler restarts
  revived : List Key := []        -- expired instances that a job message has since moved out of the `expired` state
  prevLive : List Key := []       -- pool members shown preparing / submitted / running in the previous observation
  offsets : List (String × Int) := []   -- the clock-expire offsets of the definition in force (changed by `cylc reload`)
  deriving Inhabited

structure Spec where
  unit : Int
  offsets : List (String × Int)
  variants : List (String × List (String × Int))   -- reload variants: tag ↦ offsets of that definition
  fromGraph : Bool                -- no generator spec given: expiry times read off the instance graph (ad-hoc runs)

def specOf (i : Json) : Spec :=
  match jField? i "spec" with
  | some sp =>
    let offs (j : Json) : List (String × Int) := (objPairs j).filterMap fun (k, v) => (jInt? v).map fun o => (k, o)
    { unit := (jIntField? sp "unit").getD 3600,
      offsets := offs ((jField? sp "offsets").getD Json.null),
      variants := (objPairs ((jField? sp "variants").getD Json.null)).map fun (k, v) => (k, offs v),
      fromGraph := false }
  | none => { unit := 3600, offsets := [], variants := [], fromGraph := true }

/-- the expiry time of an instance according to the workflow definition IN FORCE (`offs`: the offsets of the
definition loaded last - at start-up or by the latest successful reload): cycle point + offset -/
def expiryTime (sp : Spec) (offs : List (String × Int)) (g : Graph) (k : Key) : Option Int :=
  if sp.fromGraph then ((g.task? k.2).bind (·.inst? k.1)).bind (·.expire)
  else (offs.find? (·.1 == k.2)).map fun e => k.1 * sp.unit + e.2

def expireKids (g : Graph) (k : Key) : List Key :=
  match (g.task? k.2).bind (·.inst? k.1) with
  | none => []
  | some d => match d.children.find? (·.1 == "expired") with
    | some (_, cs) => cs.map fun c => (c.pt, c.name)
    | none => []

/-- the task is defined at that point (a suicide trigger `a:expire? => !b` lists `b` as a child of `a` at every
point of the trigger's recurrence, whether or not `b` has an instance there) -/
def isInstance (g : Graph) (k : Key) : Bool := ((g.task? k.2).bind (·.inst? k.1)).isSome

def nextParentlessOf (g : Graph) (k : Key) : Option Key :=
  (((g.task? k.2).bind (·.inst? k.1)).bind (·.nextParentless)).map fun p => (p, k.2)

/-- expire_guard on one event -/
def judgeGuard (sp : Spec) (g : Graph) (m : Mon) (e : Ev) : Option String :=
  if e.frm != "waiting" then some s!"expired-not-waiting: {showKey e.key} became expired from status {e.frm}"
  else if e.manual || m.manual.contains e.key then
    some s!"expired-manual: {showKey e.key} expired although it was manually triggered"
  else if e.now != m.now then some s!"clock-mismatch: event of {showKey e.key} at {e.now}, monitor clock {m.now}"
  else match expiryTime sp m.offsets g e.key with
    | none => some s!"expired-no-offset: {showKey e.key} expired but its task has no clock-expire offset"
    | some t => if m.now < t then some s!"expired-early: {showKey e.key} expired at {m.now}, before its expiry time {t}"
                else none

/-- expire_children on one event -/
def judgeKids (g : Graph) (m : Mon) (e : Ev) : Option String :=
  if e.tr then
    if e.added.isEmpty then none else some s!"expire-spawned-non-child: removed {showKey e.key} spawned {e.added.map showKey}"
  else
  let kids := if e.flows.isEmpty then [] else expireKids g e.key
  let succs := (e.removed.filter (· != e.key)).filterMap (nextParentlessOf g)
  match e.added.find? fun k => !(kids.contains k || succs.contains k) with
  | some k => some s!"expire-spawned-non-child: expiry of {showKey e.key} added {showKey k}, not a child of its expired output"
  | none =>
    let after := (e.pooledKids ++ e.added).filter fun k => !e.removed.contains k
    match kids.find? fun k => after.contains k && !e.sat.contains k with
    | some k => some s!"expire-child-unsatisfied: {showKey k} in the pool after the expiry of {showKey e.key} without its prerequisite satisfied"
    | none =>
      match kids.find? fun k => !(after.contains k || e.removed.contains k || k.1 > g.fcp || k.1 < g.icp
                                  || k.1 < g.start || m.seen.contains k || !isInstance g k) with
      | some k => some s!"expire-child-not-spawned: {showKey k}, child of the expired output of {showKey e.key}, was not spawned"
      | none => none

def firstSome {α} (l : List α) (f : α → Option String) : Option String :=
  l.foldl (fun acc x => match acc with | some w => some w | none => f x) none

/-- one operation + the observation after it -/
def judgeStep (sp : Spec) (g : Graph) (idx : Nat) (op : Json) (ob : Json) (m : Mon) : Mon × Option String :=
  -- the op: clock ticks; a manual trigger gives an expired task a new life
  let m := match jStrField? op "op" with
    | some "tick" => { m with now := m.now + (jIntField? op "dt").getD 0 }
    | some "cmd" =>
      if jStrField? op "name" == some "force_trigger_tasks" then
        let ids := ((jArrField? ((jField? op "args").getD Json.null) "tasks").getD []).filterMap fun t =>
          (jStr? t).bind fun s => (parseTaskId s).toOption
        -- a trigger takes effect on every id whose job is not already in progress (those are left alone)
        let fresh := ids.filter fun k => !m.prevLive.contains k && !m.manual.contains k
        { m with expired := m.expired.filter (fun k => !ids.contains k), manual := m.manual ++ fresh }
      else m
    | some "reload" =>
      -- a reload that went through puts the offsets of its definition in force
      if jBoolField? op "skipped" == some true || jBoolField? op "failed" == some true then m else
      match (jStrField? op "tag").bind fun t => sp.variants.find? (·.1 == t) with
      | some v => { m with offsets := v.2 }
      | none => m
    | some "restart" => { m with manual := [] }
    | _ => m
  let evs := ((jArrField? ob "exp").getD []).map parseEv
  let launches := keysField ob "launch"
  let pool := poolOf ob
  let nowExpired := (pool.filter fun t => jStrField? t "st" == some "expired").map keyOf
  let seenNow := m.seen ++ pool.map keyOf ++ keysField ob "adds" ++ keysField ob "removed"
  -- instances for which a job message (received / polled) with the text `expired` was processed in this op
  let jobMsgs : List Key := ((jArrField? ob "msgs").getD []).filterMap fun r =>
    if jStrField? r "m" == some "expired" && jStrField? r "fl" != some "internal" then some (keyOf r) else none
  let guard (e : Ev) : Option String :=
    (judgeGuard sp g m e).map fun w =>
      if jobMsgs.contains e.key then s!"job-message-expired: (a job message `expired` was processed) {w}" else w
  -- expired instances that a job message (received / polled) of this op moved out of the `expired` state
  let revivedNow : List Key := ((jArrField? ob "msgs").getD []).filterMap fun r =>
    let st (f : String) : Option String := ((jArrField? r f).getD []).head?.bind jStr?
    if jStrField? r "fl" != some "internal" && st "b" == some "expired" && st "a" != some "expired" && (st "a").isSome
    then some (keyOf r) else none
  let why : Option String :=
    match firstSome evs guard with
    | some w => some w
    | none =>
    match firstSome evs (judgeKids g { m with seen := seenNow }) with
    | some w => some w
    | none =>
    let expd := m.expired ++ evs.map (·.key)
    match launches.find? expd.contains with
    | some k =>
      if (m.revived ++ revivedNow).contains k then
        some s!"expired-revived: (a job message moved the expired {showKey k} out of the expired state) expired-submitted: a job was launched for {showKey k} after it expired"
      else some s!"expired-submitted: a job was launched for {showKey k} after it expired"
    | none =>
      match nowExpired.find? fun k => !(m.prevExpired.contains k || expd.contains k) with
      | some k => some s!"expired-unseen: {showKey k} is shown expired but no expiry was observed"
      | none => none
  let live := (pool.filter fun t =>
    jStrField? t "st" == some "preparing" || jStrField? t "st" == some "submitted" || jStrField? t "st" == some "running").map keyOf
  let pooled := pool.map keyOf
  ({ m with expired := m.expired ++ evs.map (·.key), seen := seenNow, prevExpired := nowExpired, prevLive := live,
            revived := m.revived ++ revivedNow,
            manual := m.manual.filter fun k => pooled.contains k && !launches.contains k },
   why.map fun w => s!"{w} (obs {idx})")

def judge (i o : Json) (g : Graph) : Option String :=
  let sp := specOf i
  let now0 := match (jField? i "dt").bind (jIntField? · "now0") with
    | some v => v
    | none => g.now0
  let ops := (jArrField? i "ops").getD []
  match obsList o with
  | [] => some "no observation"
  | ob0 :: rest =>
    let m0 : Mon := { now := now0, seen := (poolOf ob0).map keyOf, offsets := sp.offsets,
                      prevExpired := ((poolOf ob0).filter fun t => jStrField? t "st" == some "expired").map keyOf }
    if !((jArrField? ob0 "exp").getD []).isEmpty then some "expired-early: an expiry during start-up" else
    let rec go (idx : Nat) (m : Mon) : List Json → List Json → Option String
      | op :: ops, ob :: obs =>
        match judgeStep sp g idx op ob m with
        | (_, some w) => some w
        | (m', none) => go (idx + 1) m' ops obs
      | _, _ => none
    go 1 m0 ops rest

/-- runs with features outside the `Sched3Exp` model (limited queues, `cylc reload`) are judged on the real trace
only: no model output is produced for them (the harness counts them as judged, not as compared) -/
def judgeOnlyMark : Json := Json.mkObj [("judge_only", Json.bool true)]

def handle (i o : Json) : Except String Reply := do
  if let some r := crashReply? i then return r
  if jBoolField? i "judge_only" == some true then
    let g ← parseGraph (← req (jField? i "graph") "graph")
    match judge i o g with
    | some w => return { model := judgeOnlyMark, holds := false, why := w }
    | none => return { model := judgeOnlyMark, holds := true }
  let c ← parseCase i
  match judge i o c.graph with
  | some w => return { model := modelObs c, holds := false, why := w }
  | none => return { model := modelObs c, holds := true }

end CylcModel.DrvC32

def main : IO Unit := CylcModel.Drv.run CylcModel.DrvC32.handle
