/-
Driver for C43R = the clauses of C43 (stop point, stop task, stop modes) decided on runs WITH `cylc reload`:
`Sched3Reload` correspondence + judge.

The judge is the monitor of Drv/C43.lean (written from the property text / `cylc stop --help`; it reads only the
observations of the REAL scheduler and the op list, and calls no transition function of the model) over the op
alphabet of the reload runs, with the stop point in force tracked from the SPEC side (`Mon.spec`: the configured
one at start-up, the point of an accepted `cylc stop <point>`, the configured one again after a restart that
follows the automatic shutdown of a completed run) and one more clause:

  S1  no job of an instance beyond the stop point in force is launched - across reloads and restarts, until the
      point is changed by command or forgotten because it was reached
  SR  `cylc reload` (accepted or rejected definition, run between main loops or inside one) changes neither the
      pool's stop point nor the stop task
  S2a/S2b/S3/S4a/S4b/S5/S5b/S6 as in Drv/C43.lean; a main loop that executes a queued reload counts as a main loop.

`why` of a failure that belongs to a recorded finding starts with `<key>:` (findings/C43R.json, the keys of
findings/C43.json).
-/
import CylcModel.Sched3ReloadJson
open Lean CylcModel.Drv CylcModel.Sched3Reload

namespace CylcModel.DrvC43R

instance : Inhabited Op := ⟨Op.loop⟩

structure T where
  p : Int
  n : String
  st : String
  q : Bool
  rh : Bool
  sn : Nat
  deriving Inhabited

structure Tr where            -- a status change
  p : Int
  n : String
  old : String
  new : String
  deriving Inhabited

structure Ob where
  pool : List T
  launch : List (Int × String × Nat)
  stop : Option String
  stopMode : Option String
  sp : Option Int
  paused : Bool
  stalled : Bool
  stopTask : Option String
  rl : Option Int
  trans : List Tr
  dbShutdown : Option (Option String × Option String)
  deriving Inhabited

def parseT (j : Json) : T :=
  { p := (jIntField? j "p").getD 0, n := (jStrField? j "n").getD "", st := (jStrField? j "st").getD "",
    q := (jBoolField? j "q").getD false, rh := (jBoolField? j "rh").getD false, sn := (jNatField? j "sn").getD 0 }

def parseOb (j : Json) : Ob :=
  { pool := ((jArrField? j "pool").getD []).map parseT,
    launch := ((jArrField? j "launch").getD []).filterMap fun l =>
      match jArr? l with
      | some [p, n, s] => some ((jInt? p).getD 0, (jStr? n).getD "", (jNat? s).getD 0)
      | _ => none,
    stop := jStrField? j "stop",
    stopMode := jStrField? j "stop_mode",
    sp := jIntField? j "stop_point",
    paused := (jBoolField? j "paused").getD false,
    stalled := (jBoolField? j "stalled").getD false,
    stopTask := jStrField? j "stop_task",
    rl := jIntField? j "rl",
    trans := ((jArrField? j "trans").getD []).filterMap fun l =>
      match jArr? l with
      -- [p, n, old, new, submit_num, msg_top, transient, in_pool]: only changes of the pooled proxy count
      -- (a proxy rebuilt from the DB history is given its recorded status without being in the pool)
      | some [p, n, o, w, _, _, _, inPool] =>
        if jBool? inPool == some true then
          some ⟨(jInt? p).getD 0, (jStr? n).getD "", (jStr? o).getD "", (jStr? w).getD ""⟩
        else none
      | _ => none,
    dbShutdown := (jOptField j "db_shutdown").map fun d => (jStrField? d "stopcp", jStrField? d "stop_task") }

def find (pool : List T) (p : Int) (n : String) : Option T := pool.find? fun t => t.p == p && t.n == n

def isActive (st : String) : Bool := st == "submitted" || st == "running"
def hasJob (st : String) : Bool := st == "preparing" || st == "submitted" || st == "running"
def isFinal (st : String) : Bool := st == "succeeded" || st == "failed" || st == "submit-failed" || st == "expired"

def tid (p : Int) (n : String) : String := s!"{p}/{n}"

/-- S1 classification of a launch of `p/n` (submit number `sn`) beyond the stop point at observation `i`:
the latest earlier observation `j` whose stop point still covered `p` tells whether the instance had
already been queued (and stayed queued) or already had a job when the stop point moved below it. -/
def classifyBeyond (obs : Array Ob) (i : Nat) (p : Int) (n : String) (sn : Nat) : String := Id.run do
  let mut j? : Option Nat := none
  for k in [0:i] do
    match obs[k]!.sp with
    | some sp => if p ≤ sp then j? := some k
    | none => pure ()
  match j? with
  | none => return ""
  | some j =>
    match find obs[j]!.pool p n with
    | none => return ""
    | some t =>
      let mut stayedQueued := t.q
      for k in [j:i] do
        match find obs[k]!.pool p n with
        | some u => if !u.q then stayedQueued := false
        | none => stayedQueued := false
      if stayedQueued then return "queued-before-stop-point: "
      let preSn := match find obs[i-1]!.pool p n with | some u => u.sn | none => 0
      let preSt := match find obs[i-1]!.pool p n with | some u => u.st | none => ""
      -- a retry (the pooled proxy waits again, next submit number) of an instance that already had a job
      -- when the stop point moved below it
      if t.sn ≥ 1 && sn == preSn + 1 && preSn ≥ t.sn && preSt == "waiting" then
        return "retry-beyond-stop-point: "
      return ""

/-- latest change of `id` to a final status in observations `[lo, hi]` -/
def lastFinal (obs : Array Ob) (lo hi : Nat) (id : String) : Option String := Id.run do
  let mut r : Option String := none
  for k in [lo:hi+1] do
    for tr in obs[k]!.trans do
      if tid tr.p tr.n == id && isFinal tr.new then r := some tr.new
  return r

structure Mon where
  waitSkip : Bool := false              -- restarted with everything beyond the stop point (restart timeout wait)
  dbsp : Option Int := none             -- stop point set by command and not yet forgotten
  reached : Bool := false               -- the latest shutdown was the automatic one of a completed run
  succPending : Option String := none   -- the stop task has succeeded; the next main loop must stop
  since : Nat := 0                      -- index of the observation after the latest (re)start
  spec : Option Int := none             -- the stop point in force according to the commands given (spec side)
  names : List String := []             -- the tasks of the definition in force (start-up, then every executed reload)

def judgeTrace (cfgStop : Option Int) (fcp : Int) (names0 : List String) (ops : Array Op) (obs : Array Ob) :
    Option String := Id.run do
  let mut m : Mon := { spec := some (cfgStop.getD fcp), names := names0 }
  for i in [1:obs.size] do
    let pre := obs[i-1]!
    let cur := obs[i]!
    let op : Op := ops[i-1]!
    let isLoop := match op with | Op.loop => true | Op.reload _ inloop skipped => inloop && !skipped | _ => false
    let stopping := pre.stop.isNone && cur.stop.isSome
    -- S1 ------------------------------------------------------------------------------------
    for l in cur.launch do
      match cur.sp with
      | some sp =>
        if l.1 > sp then
          return some s!"{classifyBeyond obs i l.1 l.2.1 l.2.2}obs {i}: {tid l.1 l.2.1} (submit {l.2.2}) launched beyond the stop point {sp}"
      | none => pure ()
    -- S1 against the stop point the commands put in force (a reload / restart must not move it)
    for l in cur.launch do
      match m.spec with
      | some sp =>
        if l.1 > sp then
          return some s!"{classifyBeyond obs i l.1 l.2.1 l.2.2}obs {i}: {tid l.1 l.2.1} (submit {l.2.2}) launched beyond the stop point {sp} set earlier (the pool's stop point is {cur.sp})"
      | none => pure ()
    -- S5b: nothing is launched while a stop is in progress
    if isLoop && pre.stop.isNone && pre.stopMode.isSome && !cur.launch.isEmpty then
      return some s!"obs {i}: jobs launched while the scheduler is stopping ({pre.stopMode.getD ""})"
    -- shutdown of this op -----------------------------------------------------------------------
    let byTask := stopping && cur.stop == some "AUTOMATIC" && pre.stopTask.isSome && cur.stopTask.isNone
    if stopping && cur.stop == some "AUTOMATIC" then
      if byTask then
        -- S4b
        let id := pre.stopTask.getD ""
        -- how the stop task finished: its status if it is still pooled, else its latest change to a final status
        let pooled : Option String := (pre.pool.find? fun t => tid t.p t.n == id && isFinal t.st).map (·.st)
        let pooled := match (cur.pool.find? fun t => tid t.p t.n == id && isFinal t.st).map (·.st) with
          | some st => some st
          | none => pooled
        match (match pooled with | some st => some st | none => lastFinal obs 0 i id) with
        | some "succeeded" => pure ()
        | some st => return some s!"stop-task-not-succeeded: obs {i}: shut down for stop task {id} which finished as {st}"
        | none => return some s!"obs {i}: shut down for stop task {id} which has not finished"
        m := { m with reached := false }
      else
        -- S2a
        for t in cur.pool do
          if hasJob t.st then
            return some s!"obs {i}: automatic shutdown while {tid t.p t.n} is {t.st}"
          match cur.sp with
          | some sp =>
            if t.p ≤ sp && t.st == "waiting" then
              -- recorded finding: the task is held back by a runahead limit that stayed at an earlier, lower stop
              -- point (`cylc stop <point>` raised the stop point without recomputing the limit)
              let stale := t.rh && (match cur.rl with | some rl => decide (rl < sp) && decide (t.p > rl) | none => false)
              let key := if stale then "stale-runahead-limit: " else ""
              return some s!"{key}obs {i}: automatic shutdown while {tid t.p t.n} (at or before the stop point {sp}) is still waiting"
          | none => pure ()
        m := { m with reached := true, dbsp := none }
    else if stopping then
      m := { m with reached := false }
    -- S5: clean stop
    if stopping && cur.stop == some "REQUEST(CLEAN)" then
      for t in cur.pool do
        if isActive t.st then
          return some s!"obs {i}: clean stop did not wait for {tid t.p t.n} ({t.st})"
    if isLoop && pre.stop.isNone && pre.stopMode == some "REQUEST(CLEAN)" && !(pre.pool.any fun t => isActive t.st) then
      if cur.stop != some "REQUEST(CLEAN)" then
        return some s!"obs {i}: clean stop requested, no active job, but the scheduler did not stop"
    -- S6: stop --now
    if isLoop && pre.stop.isNone && (pre.stopMode == some "REQUEST(NOW)" || pre.stopMode == some "REQUEST(NOW-NOW)") then
      if cur.stop != pre.stopMode then
        return some s!"obs {i}: stop --now requested but the scheduler did not stop at the next main loop"
      for t in pre.pool do
        if hasJob t.st then
          match find cur.pool t.p t.n with
          | some u => if u.st != t.st || u.sn != t.sn then
              return some s!"obs {i}: stop --now changed {tid t.p t.n} from {t.st}/{t.sn} to {u.st}/{u.sn}"
          | none => return some s!"obs {i}: stop --now dropped {tid t.p t.n} ({t.st})"
    -- S2b: completion => automatic shutdown
    if isLoop && pre.stop.isNone && pre.stopMode.isNone && !pre.paused && !pre.stalled && !m.waitSkip then
      match pre.sp with
      | some sp =>
        if pre.pool.all (fun t => t.p > sp && t.st == "waiting" && t.rh && !t.q) && cur.stop != some "AUTOMATIC" then
          return some s!"obs {i}: nothing at or before the stop point {sp} remains but the scheduler did not shut down"
      | none => pure ()
    -- S4a: stop task succeeded => stop at the next main loop
    if isLoop && pre.stop.isNone then
      match m.succPending with
      | some id =>
        if pre.stopTask == some id && pre.stopMode.isNone && cur.stop.isNone then
          return some s!"obs {i}: stop task {id} has succeeded but the scheduler did not stop at the next main loop"
        m := { m with succPending := none }
      | none => pure ()
    match pre.stopTask with
    | some id =>
      if cur.trans.any (fun tr => tid tr.p tr.n == id && tr.new == "succeeded") && cur.stop.isNone then
        m := { m with succPending := some id }
    | none => pure ()
    -- commands that change the monitor
    match op with
    | Op.stopPoint p =>
      if cur.sp == some p && pre.sp != some p then m := { m with dbsp := some p }
      if cur.sp == some p then m := { m with spec := some p }
    | Op.reload ng _ skipped =>
      if !skipped && !stopping then
        match ng with
        | some g' => m := { m with names := g'.tasks.map (·.name) }
        | none => pure ()
      -- SR (if this main loop shut the scheduler down the queued command did not run)
      if !skipped && !stopping then
        if cur.sp != pre.sp then
          return some s!"obs {i}: the stop point {pre.sp} did not survive the reload ({cur.sp})"
        if cur.stopTask != pre.stopTask && !(isLoop && pre.stopTask.isSome && cur.stopTask.isNone && cur.stop.isSome) then
          return some s!"obs {i}: the stop task {pre.stopTask} did not survive the reload ({cur.stopTask})"
    | Op.stopTask _ _ => m := { m with succPending := none }
    | Op.restart =>
      -- S6: running jobs are found again
      for t in pre.pool do
        if isActive t.st then
          match find cur.pool t.p t.n with
          | some u => if u.st != t.st || u.sn != t.sn then
              return some s!"obs {i}: restart turned {tid t.p t.n} from {t.st}/{t.sn} into {u.st}/{u.sn}"
          | none => return some s!"obs {i}: restart lost the active task {tid t.p t.n} ({t.st})"
      -- S3t: a stop task that has not finished is still the stop task after the restart (unless a reload removed
      -- its definition: the restarted scheduler refuses a stop task it does not know)
      let known := match pre.stopTask with
        | some id => m.names.contains ((id.splitOn "/").getLastD "")
        | none => false
      if known && cur.stopTask != pre.stopTask then
        return some s!"obs {i}: the stop task {pre.stopTask} did not survive the restart ({cur.stopTask})"
      -- S3
      let configured := cfgStop.getD fcp
      if m.reached then
        if cur.sp != some configured then
          return some s!"obs {i}: the stop point {pre.sp} was reached but not forgotten: {cur.sp} after restart, configured {configured}"
      else if cur.sp != pre.sp then
        return some s!"obs {i}: stop point {pre.sp} did not survive the restart ({cur.sp})"
      match cur.dbShutdown with
      | some (stopcp, _) =>
        if stopcp != m.dbsp.map (fun p => toString p) then
          return some s!"obs {i}: workflow_params stopcp = {stopcp} at shutdown, expected {m.dbsp}"
      | none => pure ()
      let allBeyond := match cur.sp with
        | some sp => cur.pool.all fun t => t.p > sp
        | none => cur.pool.isEmpty
      m := { m with waitSkip := allBeyond, succPending := none, since := i,
                    spec := if m.reached then some configured else m.spec, reached := false }
    | _ => pure ()
  return none

def handle (i o : Json) : Except String Reply := do
  if let some r := crashReply? i then return r
  let c ← parseCase i
  let g := c.graph
  -- well-formedness hypotheses of the theorems (Props/C43R.lean): the initial stop point is the configured one or
  -- the final point; the flow.cylc stop point lies within the final point; stop-point commands stay within the final
  -- point; every reloaded definition keeps the final point and the flow.cylc stop point
  if g.stopPoint != some (g.cfgStopFile.getD g.fcp) || g.cfgStop != g.cfgStopFile ||
      (match g.cfgStopFile with | some p => decide (p > g.fcp) | none => false) then
    return { model := modelObs c, holds := false,
             why := s!"graph hypothesis violated: initial stop point {g.stopPoint}, configured {g.cfgStop} / {g.cfgStopFile}, final {g.fcp}" }
  for op in c.ops do
    let ok := match op with
      | Op.stopPoint p => decide (p ≤ g.fcp)
      | Op.reload (some g') _ _ => g'.fcp == g.fcp && g'.cfgStopFile == g.cfgStopFile
      | _ => true
    if !ok then
      return { model := modelObs c, holds := false, why := "op hypothesis violated: a stop point beyond the final point or a reload that changes the final point / the flow.cylc stop point" }
  let obs := ((obsList o).map parseOb).toArray
  if obs.size != c.ops.length + 1 then
    return { model := modelObs c, holds := false, why := "trace length differs from the op list" }
  match judgeTrace g.cfgStop g.fcp (g.tasks.map (·.name)) c.ops.toArray obs with
  | some w => return { model := modelObs c, holds := false, why := w }
  | none => return { model := modelObs c, holds := true }

end CylcModel.DrvC43R

def main : IO Unit := CylcModel.Drv.run CylcModel.DrvC43R.handle
