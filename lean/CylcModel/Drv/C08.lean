/-
Driver for C08 (component level): runs the `Flow` model on a JSON history and judges the
implementation's answers with `Flow.Spec.judge`.

input i : {"ops": [["new"] | ["num", n] | ["cli", "none" | "new" | [n...]] | ["restart", [n...]]], ...}
          (further fields, e.g. the text spelling of the cli arguments, are for the adapter only)
observed o / model m :
          {"outs": [null | n | [n... sorted] | "TypeError"],
           "final": {"counter": n | null, "flows": [n... sorted], "table": [n... sorted]}}
-/
import CylcModel.Util.Drv
import CylcModel.Flow
open Lean CylcModel.Drv CylcModel.Flow

namespace CylcModel.DrvC08

def need {α} (o : Option α) (what : String) : Except String α :=
  match o with | some v => .ok v | none => .error what

def parseInts (j : Json) : Except String (List Int) := do
  (← need (jArr? j) "int list").mapM fun x => need (jInt? x) "int"

def parseOp (j : Json) : Except String Op :=
  match jArr? j with
  | some [k] => if jStr? k == some "new" then .ok .new else .error "op"
  | some [k, x] =>
    match jStr? k with
    | some "num" => do return .num (← need (jInt? x) "num")
    | some "restart" => do return .restart (← parseInts x)
    | some "cli" =>
      match x with
      | .str "none" => .ok (.cli .none)
      | .str "new" => .ok (.cli .new)
      | _ => do return .cli (.nums (← parseInts x))
    | _ => .error "op kind"
  | _ => .error "op"

def parseOps (j : Json) : Except String (List Op) := do
  (← need (jArrField? j "ops") "ops").mapM parseOp

def outJson : Out → Json
  | .unit => Json.null
  | .num n => jOfInt n
  | .set ns => jOfList jOfInt ns
  | .typeError => Json.str "TypeError"

def modelOut (ops : List Op) : Json :=
  let s := finalState init ops
  Json.mkObj [
    ("outs", jOfList outJson (run init ops)),
    ("final", Json.mkObj [("counter", jOptInt s.counter), ("flows", jOfList jOfInt (toSet s.flows)),
                          ("table", jOfList jOfInt (toSet s.table))])]

def parseOut (j : Json) : Option Out :=
  match j with
  | .null => some .unit
  | .str "TypeError" => some .typeError
  | .arr xs => (xs.toList.mapM jInt?).map .set
  | j => (jInt? j).map .num

def failText : Spec.Fail → String
  | .shape k => s!"answer {k} of the history has the wrong shape"
  | .reused k n => s!"op {k}: the new flow got number {n}, which was used before in this workflow's history"
  | .noNumber k blank =>
    (if blank then "empty-db-restart: " else "") ++ s!"op {k}: the new flow did not get a number"

def handle (i o : Json) : Except String Reply := do
  let ops ← parseOps i
  let (ok, why) :=
    match (jArrField? o "outs").bind fun l => l.mapM parseOut with
    | some outs =>
      match Spec.judge ops outs with
      | .ok _ => (true, "")
      | .error f => (false, failText f)
    | none => (false, "observation cannot be decoded (outs)")
  return { model := modelOut ops, holds := ok, why := why }

end CylcModel.DrvC08

def main : IO Unit := CylcModel.Drv.run CylcModel.DrvC08.handle
