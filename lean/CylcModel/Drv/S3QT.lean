/-
Driver for C26 (pool bookkeeping): `Sched` correspondence + judge on the observed pool.
The judge reads only the implementation's observations: pool keys, bucket / cache flags read
off `TaskPool.active_tasks`, and the rows of the `task_pool` table after each main loop.
-/
import CylcModel.Sched3QTJson
open Lean CylcModel.Drv CylcModel.Sched3QT

namespace CylcModel.DrvS3QT

def hasDupKeys : List (Int × String) → Bool
  | [] => false
  | k :: ks => ks.contains k || hasDupKeys ks

def judgeObs (idx : Nat) (ob : Json) : Option String :=
  let pool := poolOf ob
  let book := (jField? ob "book").getD Json.null
  if hasDupKeys (pool.map keyOf) || jBoolField? book "dup" == some true then
    some s!"obs {idx}: two proxies with the same cycle point and name"
  else if jBoolField? book "empty_bucket" != some false then some s!"obs {idx}: empty cycle bucket in the pool"
  else if jBoolField? book "key_ok" != some true then some s!"obs {idx}: a proxy is filed under the wrong point/identity"
  else if jBoolField? book "cache_ok" != some true then
    some s!"obs {idx}: cached task list differs from the pool while the changed-flag is down"
  else
    match jOptField ob "db" with
    | none => none
    | some db =>
      let want := pool.map fun t => Json.arr #[(jField? t "p").getD Json.null, (jField? t "n").getD Json.null,
        (jField? t "fl").getD Json.null, (jField? t "st").getD Json.null, (jField? t "held").getD Json.null]
      if db == Json.arr want.toArray then none
      else some s!"obs {idx}: task_pool table {db.compress} differs from the pool {(Json.arr want.toArray).compress}"

def judge (o : Json) : Option String :=
  let rec go (i : Nat) : List Json → Option String
    | [] => none
    | ob :: rest => match judgeObs i ob with
      | some w => some w
      | none => go (i + 1) rest
  go 0 (obsList o)

def handle (i o : Json) : Except String Reply := do
  if let some r := crashReply? i then return r
  let c ← parseCase i
  match judge o with
  | some w => return { model := modelObs c, holds := false, why := w }
  | none => return { model := modelObs c, holds := true }

end CylcModel.DrvS3QT

def main : IO Unit := CylcModel.Drv.run CylcModel.DrvS3QT.handle
