/-
Driver for C39: runs the `PathName` model of `validate_workflow_name` on a JSON case and judges the
implementation's verdict + resolved run directory against the property.

input  i : {"name": s, "word": s, "digit": s}      word / digit: the characters of `name` that
                                                    Python's `\w` / `\d` match
observed o / model m :
   {"plain": "ok"|"rejected", "reserved": "ok"|"rejected",
    "rel": null | [component ...] | {"outside": true}}
   plain / reserved = validate_workflow_name(name, check_reserved_names=False / True);
   rel = get_workflow_run_dir(name) relative to the cylc-run directory (only when accepted)
-/
import CylcModel.Util.Drv
import CylcModel.PathName
open Lean CylcModel.Drv CylcModel.PathName

namespace CylcModel.DrvC39

/-- the run directory the model resolves under (any clean component list would do) -/
def runD : List Str := ["home".toList, "u".toList, "cylc-run".toList]

def verdictJson (v : Verdict) : Json := if v == .ok then "ok" else "rejected"

def relJson (name : Str) : Json :=
  let full := resolveUnder runD name
  if isAbs name then Json.mkObj [("outside", true)]
  else if full.take runD.length == runD then
    jOfList (fun (c : Str) => Json.str (String.ofList c)) (full.drop runD.length)
  else Json.mkObj [("outside", true)]

def modelOut (cls : CharCls) (name : Str) : Json :=
  let p := validate cls name false
  let r := validate cls name true
  let rel := if p == .ok || r == .ok then relJson name else Json.null
  Json.mkObj [("plain", verdictJson p), ("reserved", verdictJson r), ("rel", rel)]

/-! ### Judge (from the property text; shares no function with the model's decision procedure) -/

/-- where `name` leads, walking its components from the run directory:
`none` = it climbs above the run directory (or is absolute); `some stack` = the components below it -/
def walk (name : String) : Option (List String) :=
  if name.startsWith "/" then none
  else
    let rec go (stack : List String) : List String → Option (List String)
      | [] => some stack.reverse
      | c :: cs =>
        if c == "" || c == "." then go stack cs
        else if c == ".." then
          match stack with
          | [] => none
          | _ :: below => go below cs
        else go (c :: stack) cs
    go [] (name.splitOn "/")

def reservedNames : List String := Spec.reservedNames

/-- `run` followed by one or more ASCII digits -/
def isRunNumber (c : String) : Bool :=
  c.startsWith "run" && c.length > 3 && (c.drop 3).all Char.isDigit

def judge (name : String) (o : Json) : Bool × String :=
  let plain := jStrField? o "plain" == some "ok"
  let res := jStrField? o "reserved" == some "ok"
  if !(plain || res) then (true, "")
  else
    match walk name with
    | none => (false, "accepted, but the name is absolute or climbs above the cylc-run directory")
    | some [] => (false, "accepted, but the name resolves to the cylc-run directory itself")
    | some stack =>
      match (jArrField? o "rel").map (·.filterMap jStr?) with
      | none => (false, s!"accepted, but the run directory {((jField? o "rel").getD Json.null).compress} is not inside cylc-run")
      | some rel =>
        if rel.isEmpty then (false, "accepted, but the run directory is the cylc-run directory itself")
        else if rel.any (fun c => c == ".." || c == "." || c == "") then
          (false, "accepted, but the run directory is not normalised below cylc-run")
        else if rel != stack then
          (false, s!"accepted, but the run directory {rel} is not where the name leads ({stack})")
        else if res then
          match rel.find? (fun c => reservedNames.contains c || isRunNumber c) with
          | some c => (false, s!"accepted with the reserved-name check although it contains the reserved directory name {c}")
          | none => (true, "")
        else (true, "")

def handle (i o : Json) : Except String Reply := do
  let name ← (jStrField? i "name").elim (.error "name") .ok
  let word := ((jStrField? i "word").getD "").toList
  let digit := ((jStrField? i "digit").getD "").toList
  let cls : CharCls := ⟨fun c => word.contains c, fun c => digit.contains c⟩
  let (ok, why) := judge name o
  return { model := modelOut cls name.toList, holds := ok, why := why }

end CylcModel.DrvC39

def main : IO Unit := CylcModel.Drv.run CylcModel.DrvC39.handle
