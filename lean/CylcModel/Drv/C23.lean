/-
Driver for C23: runs the `Ident` model on a JSON case and judges the implementation's observations
against the property (valid tokens -> canonical string -> the same tokens, job padded; canonical string
-> tokens -> the same string; relative form = task part of the absolute form; legacy forms -> the
tokens of the contemporary form).

T9 = [user, workflow, workflow_sel, cycle, cycle_sel, task, task_sel, job, job_sel], each string | null
S  = string | "err"            (errors of the implementation: ValueError -> "err")

input i                                          observed o / model m
 {"k":"tok","s":str,"rel":bool}                   {"t":T9|"err","ids":S|null,"id":S|null,"t2":T9|"err"|null}
 {"k":"rt","t":T9,"sel":bool}                     {"id":S,"t2":T9|"err"|null,"id2":S|null,"rid":S,
                                                   "rt":T9|"err"|null,"eq":bool|null,"hash":bool|null}
 {"k":"legacy","ids":[str],"rel":bool,            {"lt":[[cycle,task,sel]|"err"],"up":[str],"toks":[T9|"err"]}
  "parts":[null|{"dot":bool,"task":str,"cycle":str,"sel":str|null}]}
 {"k":"eq","a":D,"b":D,"kw":D}  D=[[key,str|null]] {"eq":bool,"ne":bool,"hash":bool,"dup":T9,"dupeq":bool,
                                                   "task":T9,"wf":T9}
-/
import CylcModel.Util.Drv
import CylcModel.Ident
open Lean CylcModel.Drv CylcModel.Ident

namespace CylcModel.DrvC23

def jS (s : Str) : Json := Json.str (String.ofList s)
def jOS : Option Str → Json
  | some s => jS s
  | none => Json.null
def jErr : Json := Json.str "err"
def jOSe : Option Str → Json     -- a result that may be an error
  | some s => jS s
  | none => jErr

def t9 (t : Tokens) : Json :=
  Json.arr #[jOS t.user, jOS t.workflow, jOS t.workflowSel, jOS t.cycle, jOS t.cycleSel,
             jOS t.task, jOS t.taskSel, jOS t.job, jOS t.jobSel]
def t9e : Option Tokens → Json
  | some t => t9 t
  | none => jErr

def optStr (j : Json) : Except String (Option Str) :=
  match j with
  | .null => .ok none
  | .str s => .ok (some s.toList)
  | _ => .error "expected a string or null"

def parseT9 (j : Json) : Except String Tokens := do
  match jArr? j with
  | some [a, b, c, d, e, f, g, h, i] =>
    return { user := ← optStr a, workflow := ← optStr b, workflowSel := ← optStr c, cycle := ← optStr d,
             cycleSel := ← optStr e, task := ← optStr f, taskSel := ← optStr g, job := ← optStr h,
             jobSel := ← optStr i }
  | _ => .error "T9: expected 9 entries"

/-- observed T9 (none when it is "err"/null/malformed) -/
def obsT9 (o : Json) (k : String) : Option Tokens :=
  match jField? o k with
  | some j => match parseT9 j with | .ok t => some t | .error _ => none
  | none => none

def dkey (s : String) : Except String DKey :=
  match s with
  | "user" => .ok .user | "workflow" => .ok .workflow | "workflow_sel" => .ok .workflowSel
  | "cycle" => .ok .cycle | "cycle_sel" => .ok .cycleSel | "task" => .ok .task
  | "task_sel" => .ok .taskSel | "job" => .ok .job | "job_sel" => .ok .jobSel
  | _ => .error s!"unknown key {s}"

def parseDict (j : Json) : Except String Dict := do
  let items ← (jArr? j).elim (.error "dict") .ok
  items.mapM fun it =>
    match jArr? it with
    | some [k, v] => do
      let ks ← (jStr? k).elim (.error "dict key") .ok
      return (← dkey ks, ← optStr v)
    | _ => .error "dict item"

def parseParts (j : Json) : Except String (Option LegacyParts) :=
  match j with
  | .null => .ok none
  | _ => do
    let dot ← (jBoolField? j "dot").elim (.error "parts.dot") .ok
    let task ← (jStrField? j "task").elim (.error "parts.task") .ok
    let cyc ← (jStrField? j "cycle").elim (.error "parts.cycle") .ok
    let sel ← optStr ((jField? j "sel").getD Json.null)
    return some ⟨dot, task.toList, cyc.toList, sel⟩

structure Verdict where
  ok : Bool
  why : String := ""

def good : Verdict := ⟨true, ""⟩
def show' (s : Str) : String := (Json.str (String.ofList s)).compress

/-! ### kind "tok" -/

def modelTok (s : Str) (rel : Bool) : Json :=
  match tokenise s rel with
  | none => Json.mkObj [("t", jErr), ("ids", Json.null), ("id", Json.null), ("t2", Json.null)]
  | some t =>
    let ids := detokenise t true false
    Json.mkObj [("t", t9 t), ("ids", jOSe ids), ("id", jOSe (detokenise t false false)),
                ("t2", match ids with | some x => t9e (tokenise x false) | none => Json.null)]

/-- whatever string was parsed: if the tokens read from it are valid, writing them out with selectors
and reading them again gives the same tokens (job padded) -/
def judgeTok (o : Json) : Verdict :=
  match obsT9 o "t" with
  | none => good
  | some t =>
    if !wf t then good
    else
      let want := expected t true
      match obsT9 o "t2" with
      | none => ⟨false, s!"valid tokens {(t9 t).compress} could not be written and read back"⟩
      | some t2 =>
        if t2 = want then good
        else ⟨false, s!"tokens {(t9 t).compress} written as {((jField? o "ids").getD Json.null).compress} are read back as {(t9 t2).compress}"⟩

/-! ### kind "rt" -/

def modelRt (t : Tokens) (sel : Bool) : Json :=
  let id := detokenise t sel false
  let t2 : Option (Option Tokens) := id.map fun x => tokenise x false
  let id2 : Option (Option Str) := match t2 with
    | some (some u) => some (detokenise u sel false)
    | _ => none
  let rid := detokenise t.taskPart sel true
  let rt : Option (Option Tokens) := rid.map fun x => tokenise x true
  let eq : Option Bool := match t2 with | some (some u) => some (u.pyEq t) | _ => none
  let hs : Option Bool := match t2 with | some (some u) => some (u.hashKey == t.hashKey) | _ => none
  let ob : Option Bool → Json := fun | some b => Json.bool b | none => Json.null
  Json.mkObj [("id", jOSe id),
    ("t2", match t2 with | some x => t9e x | none => Json.null),
    ("id2", match id2 with | some x => jOSe x | none => Json.null),
    ("rid", jOSe rid),
    ("rt", match rt with | some x => t9e x | none => Json.null),
    ("eq", ob eq), ("hash", ob hs)]

def judgeRt (t : Tokens) (sel : Bool) (o : Json) : Verdict := Id.run do
  if !wf t then return good
  let canon := canonical t sel
  let idJ := (jField? o "id").getD Json.null
  if idJ != jS canon then
    return ⟨false, s!"valid tokens {(t9 t).compress} are written as {idJ.compress}, canonical form is {show' canon}"⟩
  let want := expected t sel
  let amb := cycleAmbiguous t sel
  let tag := if amb then "cycle-colon: " else ""
  match obsT9 o "t2" with
  | none => return ⟨false, s!"{tag}{show' canon} (from valid tokens) is not accepted by tokenise"⟩
  | some t2 =>
    if t2 != want then
      return ⟨false, s!"{tag}tokens {(t9 t).compress} written as {show' canon} are read back as {(t9 t2).compress}"⟩
    -- parsing then formatting the canonical string gives the same string
    let id2 := (jField? o "id2").getD Json.null
    if id2 != jS canon then
      return ⟨false, s!"{show' canon} parsed and formatted again gives {id2.compress}"⟩
    -- Tokens.__eq__ / __hash__ agree with field-wise equality
    let same := decide (t2 = t)
    if (jField? o "eq").getD Json.null != Json.bool same then
      return ⟨false, s!"Tokens.__eq__ of {(t9 t2).compress} and {(t9 t).compress} is not {same}"⟩
    if same && (jField? o "hash").getD Json.null != Json.bool true then
      return ⟨false, s!"equal tokens {(t9 t).compress} hash differently"⟩
    -- relative and absolute forms agree on the task part
    if t.cycle.isSome then
      match obsT9 o "rt" with
      | none => return ⟨false, s!"{tag}relative form {((jField? o "rid").getD Json.null).compress} of {show' canon} is not accepted"⟩
      | some rt =>
        if rt != t2.taskPart then
          return ⟨false, s!"{tag}relative form {((jField? o "rid").getD Json.null).compress} reads as {(t9 rt).compress}, the task part of {show' canon} is {(t9 t2.taskPart).compress}"⟩
    return good

/-! ### kind "legacy" -/

def legJ : Option Legacy → Json
  | some l => Json.arr #[jS l.cycle, jS l.task, jOS l.taskSel]
  | none => jErr

def modelLegacy (ids : List Str) (rel : Bool) : Json :=
  let up := upgradeLegacyIds ids rel
  Json.mkObj [("lt", jOfList (fun s => legJ (legacyTokenise s)) ids),
              ("up", jOfList jS up),
              ("toks", jOfList (fun s => t9e (tokenise s rel)) up)]

def judgeLegacy (ids : List Str) (rel : Bool) (parts : List (Option LegacyParts)) (o : Json) : Verdict := Id.run do
  -- the identifiers that upgrade_legacy_ids is asked to upgrade
  let todo := if rel then parts else parts.drop 1
  if !rel && ids.length < 2 then return good
  if todo.isEmpty then return good
  if !(todo.all fun p => match p with | some p => p.ok | none => false) then return good
  let toks := (jArrField? o "toks").getD []
  let ups := (jArrField? o "up").getD []
  if toks.length != ids.length then return ⟨false, "wrong number of results"⟩
  let skip := if rel then 0 else 1
  let mut bad : Option String := none
  let mut short := false
  for (p, (u, tk)) in todo.zip ((ups.zip toks).drop skip) do
    match p with
    | none => pure ()
    | some p =>
      if !p.dot && p.cycle.length < 2 then short := true
      let got := match parseT9 tk with | .ok t => some t | .error _ => none
      if got != some p.tokens then
        if bad.isNone then
          bad := some s!"legacy identifier {show' p.text} is upgraded to {u.compress} = {tk.compress}, the contemporary form has {(t9 p.tokens).compress}"
  match bad with
  | none => return good
  | some w => return ⟨false, (if short then "legacy-slash-short-cycle: " else "") ++ w⟩

/-! ### kind "eq" -/

def modelEq (a b kw : Dict) : Json :=
  let ta := a.toTokens
  let tb := b.toTokens
  Json.mkObj [("eq", Json.bool (ta.pyEq tb)), ("ne", Json.bool (ta.pyNe tb)),
              ("hash", Json.bool (ta.hashKey == tb.hashKey)),
              ("dup", t9 (duplicate a [b] kw)), ("dupeq", Json.bool ((duplicate a [] []).pyEq ta)),
              ("task", t9 ta.taskPart), ("wf", t9 ta.workflowPart)]

def judgeEq (a b : Dict) (o : Json) : Verdict := Id.run do
  let same := decide (a.toTokens = b.toTokens)
  let eq := (jField? o "eq").getD Json.null
  if eq != Json.bool same then return ⟨false, s!"__eq__ is {eq.compress} for tokens that read {(t9 a.toTokens).compress} and {(t9 b.toTokens).compress}"⟩
  if (jField? o "ne").getD Json.null != Json.bool (!same) then return ⟨false, "__ne__ is not the negation of __eq__"⟩
  if same && (jField? o "hash").getD Json.null != Json.bool true then return ⟨false, "equal tokens hash differently"⟩
  if (jField? o "dupeq").getD Json.null != Json.bool true then return ⟨false, "duplicate() is not equal to the original"⟩
  return good

/-! ### dispatch -/

def handle (i o : Json) : Except String Reply := do
  let kind ← (jStrField? i "k").elim (.error "k") .ok
  match kind with
  | "tok" =>
    let s ← (jStrField? i "s").elim (.error "s") .ok
    let rel := (jBoolField? i "rel").getD false
    let v := judgeTok o
    return { model := modelTok s.toList rel, holds := v.ok, why := v.why }
  | "rt" =>
    let t ← parseT9 ((jField? i "t").getD Json.null)
    let sel := (jBoolField? i "sel").getD false
    let v := judgeRt t sel o
    return { model := modelRt t sel, holds := v.ok, why := v.why }
  | "legacy" =>
    let ids ← ((jArrField? i "ids").getD []).mapM fun j => (jStr? j).elim (.error "ids") (fun s => .ok s.toList)
    let rel := (jBoolField? i "rel").getD false
    let parts ← ((jArrField? i "parts").getD []).mapM parseParts
    if parts.length != ids.length then throw "legacy: parts and ids differ in length"
    for (s, p) in ids.zip parts do
      match p with
      | some p => if p.text != s then throw s!"legacy: parts do not render to {show' s}"
      | none => pure ()
    let v := judgeLegacy ids rel parts o
    return { model := modelLegacy ids rel, holds := v.ok, why := v.why }
  | "eq" =>
    let a ← parseDict ((jField? i "a").getD Json.null)
    let b ← parseDict ((jField? i "b").getD Json.null)
    let kw ← parseDict ((jField? i "kw").getD Json.null)
    let v := judgeEq a b o
    return { model := modelEq a b kw, holds := v.ok, why := v.why }
  | k => .error s!"unknown kind {k}"

end CylcModel.DrvC23

def main : IO Unit := CylcModel.Drv.run CylcModel.DrvC23.handle
