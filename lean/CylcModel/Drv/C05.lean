/-
Driver for C05: runs the `Queue` model on a JSON case and judges the implementation's
observations with `Queue.Spec.judge` (the property, written without model functions).

input i : {"cfg": [[name, limit, [member...]]...],   queue config in the order it is written / iterated
           "parsec": bool,      true: the config went through the real parsec/WorkflowConfig, which
                                iterates "default" first (limit 100 when not written)
           "tasks": [name...], "desc": [[family, [namespace...]]...],
           "items": [name...],  task proxies: id = index
           "ops": [["push",t] | ["pil",t,[[name,n]...]] | ["rel",[[name,n]...]] | ["rm",t]
                   | ["hold",t] | ["unhold",t] | ["adopt",[name...]]]}
observed o / model m :
          {"queues": [[name, limit, [member... sorted]]...] | null (KeyError), "env_ok": true,
           "outs": [null | bool | [id...]]}
-/
import CylcModel.Util.Drv
import CylcModel.Queue
open Lean CylcModel.Drv CylcModel.Queue

namespace CylcModel.DrvC05

def need {α} (o : Option α) (what : String) : Except String α :=
  match o with | some v => .ok v | none => .error what

def parseNames (j : Json) : Except String (List Queue.Name) := do
  (← need (jArr? j) "name list").mapM fun x => need (jStr? x) "name"

def parseActive (j : Json) : Except String Active := do
  (← need (jArr? j) "active").mapM fun e =>
    match jArr? e with
    | some [n, c] => do return (← need (jStr? n) "active name", ← need (jNat? c) "active count")
    | _ => .error "active entry"

def parseQCfg (j : Json) : Except String QCfg :=
  match jArr? j with
  | some [n, l, ms] => do
    return { name := ← need (jStr? n) "queue name", limit := ← need (jNat? l) "limit", members := ← parseNames ms }
  | _ => .error "queue config entry"

def parseDesc (j : Json) : Except String Desc := do
  (← need (jArr? j) "desc").mapM fun e =>
    match jArr? e with
    | some [n, ms] => do return (← need (jStr? n) "family", ← parseNames ms)
    | _ => .error "desc entry"

def parseOp (j : Json) : Except String Op :=
  match jArr? j with
  | some [k, x] =>
    match jStr? k with
    | some "push" => do return .push (← need (jNat? x) "id")
    | some "rm" => do return .remove (← need (jNat? x) "id")
    | some "hold" => do return .hold (← need (jNat? x) "id")
    | some "unhold" => do return .unhold (← need (jNat? x) "id")
    | some "rel" => do return .release (← parseActive x)
    | some "adopt" => do return .adopt (← parseNames x)
    | _ => .error "op kind"
  | some [k, x, y] =>
    match jStr? k with
    | some "pil" => do return .pushIfLimited (← need (jNat? x) "id") (← parseActive y)
    | _ => .error "op kind"
  | _ => .error "op"

structure Case where
  inp : Spec.Input
  parsec : Bool

/-- what parsec + the workflow spec do to the `[queues]` section: `default` is iterated first,
with limit 100 and no members when it was not written (tied by the correspondence cases that
go through the real `WorkflowConfig`) -/
def parsecOrder (cfg : List QCfg) : List QCfg :=
  let d := match cfg.find? (·.name == qDefault) with
    | some q => q
    | none => { name := qDefault, limit := 100, members := [] }
  d :: cfg.filter (·.name != qDefault)

def parseCase (j : Json) : Except String Case := do
  let cfg ← (← need (jArrField? j "cfg") "cfg").mapM parseQCfg
  let parsec := (jBoolField? j "parsec").getD false
  let tasks ← parseNames (← need (jField? j "tasks") "tasks")
  let desc ← parseDesc (← need (jField? j "desc") "desc")
  let items ← parseNames (← need (jField? j "items") "items")
  let ops ← (← need (jArrField? j "ops") "ops").mapM parseOp
  let cfg := if parsec then parsecOrder cfg else cfg
  return { inp := { cfg := cfg, allTasks := tasks, desc := desc, names := items, ops := ops }, parsec := parsec }

def sortNames (l : List Queue.Name) : List Queue.Name := l.mergeSort fun a b => decide (a ≤ b)

def outJson : Out → Json
  | .unit => Json.null
  | .bool b => Json.bool b
  | .ids l => jOfList jOfNat l

def modelOut (c : Case) : Json :=
  match mk c.inp.cfg c.inp.allTasks c.inp.desc with
  | none => Json.mkObj [("queues", Json.null), ("env_ok", Json.bool true), ("outs", Json.arr #[])]
  | some qs =>
    let qj := jOfList (fun (q : LQ) => Json.arr #[Json.str q.name, jOfNat q.limit,
      jOfList Json.str (sortNames q.members)]) qs
    let outs := run codePolicy c.inp.names { queues := qs, held := [] } c.inp.ops
    Json.mkObj [("queues", qj), ("env_ok", Json.bool true), ("outs", jOfList outJson outs)]

/-! ### decoding the observation for the judge -/

def parseOut (j : Json) : Option Out :=
  match j with
  | .null => some .unit
  | .bool b => some (.bool b)
  | .arr xs => (xs.toList.mapM jNat?).map .ids
  | _ => none

def parseObsQueues (j : Json) : Option Spec.ObsQueues := do
  (← jArr? j).mapM fun e =>
    match jArr? e with
    | some [n, _, ms] => do
      let names ← (← jArr? ms).mapM jStr?
      return (← jStr? n, names)
    | _ => none

def failText : Spec.Fail → String
  | .membership n got want =>
    s!"task name {n} is a member of queues {got}, it must belong to exactly [{want}]"
  | .shape k => s!"answer {k} of the history has the wrong shape"
  | .notQueued k t => s!"op {k}: released task {t} which is not queued"
  | .releasedHeld k t => s!"op {k}: released held task {t}"
  | .releasedTwice k t => s!"op {k}: task {t} released twice in one call"
  | .overLimit k q a r l =>
    s!"op {k}: queue {q} released {r} task(s) with {a} active member(s), limit {l}"
  | .order k q rel cand known =>
    (if known then "held-requeue-order: " else "") ++
    s!"op {k}: queue {q} released {rel}, which is not a prefix of its releasable tasks in queued order {cand}"

structure Verdict where
  ok : Bool
  why : String

def judge (c : Case) (o : Json) : Verdict :=
  if !(c.inp.cfg.any (·.name == qDefault)) then
    -- not a configuration of the component (parsec always supplies "default"): nothing to judge
    ⟨true, ""⟩
  else
    match (jField? o "queues").bind parseObsQueues, ((jArrField? o "outs").bind fun l => l.mapM parseOut) with
    | some qs, some outs =>
      match Spec.judge c.inp qs outs with
      | .ok _ => ⟨true, ""⟩
      | .error f => ⟨false, failText f⟩
    | _, _ => ⟨false, "observation cannot be decoded (queues / outs)"⟩

def handle (i o : Json) : Except String Reply := do
  let c ← parseCase i
  if !(Spec.wfOps c.inp.allTasks c.inp.names ([], []) c.inp.ops) then
    throw "ill-formed history (a task queued twice without a remove in between, a queued proxy whose name is neither a task nor an adopted orphan, or an orphan that is a task name)"
  let v := judge c o
  return { model := modelOut c, holds := v.ok, why := v.why }

end CylcModel.DrvC05

def main : IO Unit := CylcModel.Drv.run CylcModel.DrvC05.handle
