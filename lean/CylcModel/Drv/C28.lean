/-
Driver for C28 (group trigger runs each member once, honouring in-group order):
`Sched3Trig` correspondence + judge on the observed trace of the real scheduler.

The judge is a *monitor* written from the property text.  For every `cylc trigger` command of the case it
reads the ids (the group `G`), the `--flow` option, the flow numbers the implementation used (`hints.fn`,
recorded by the runner), and the observations before / after the command and of the following operations
(pool, launches with flow numbers, processed job messages, status transitions).  Spec-side notions:

* an *in-group prerequisite* of a member is an atom of one of its prerequisites (as shown by the instance
  graph, the implicit previous-instance prerequisite of a sequential task included) on a member of `G`
  (an atom satisfied from the outset -- pre-initial / before the start point -- counts as true);
* a *group-start member* has no in-group prerequisite; it is *live* if it is preparing / submitted / running
  when the command arrives.

Clauses (each failure names its clause; the prefix before the first `:` is the finding key when the failure
belongs to a recorded finding):

* `live-resubmitted`   a live group-start member is left alone: same status and submit number after the
                       command, not put on the trigger-now list;
* `start-not-launched` a group-start member that is not live is launched by the next main loop, held or not,
                       paused or not (unless the scheduler is stopping; `--flow=none` does not apply to a
                       member that is active in a flow), in the triggered flow;
* `before-in-group`    another member is launched in the triggered flow only when each of its prerequisites
                       holds with: off-group atoms true, in-group atoms true iff the upstream member emitted
                       that output after the command (or, for a live group-start member, had completed it
                       when the command arrived);
* `off-group-unsatisfied` after the command every waiting member (re)spawned in the triggered flow has all
                       its off-group prerequisite atoms satisfied;
* `member-held`        the trigger overrides holds requested before it: a member that the command does not start
                       at once (respawned, or spawned later by its in-group parents) is not on the hold list
                       right after the command and is not held when it is in the pool afterwards, unless the user
                       holds it (hold command naming it, hold point set, restart) after the trigger;
* `ran-twice`          no member is launched twice by one main loop, nor again while its proxy stays in the pool
                       without the scheduler having put it back to waiting (retry, absorbed by a flow) or a new
                       command naming it (re-runs of a finished instance in a merged flow are C02's subject).

Recorded findings (keys): `live-parent-any-output`, `sequential-task`, `abs-trigger-in-group`,
`other-flow-member`, `unpooled-object-triggered`, `queued-row-survives-removal` — see findings/C28.json.  The judge never calls the transition functions of the model.
-/
import CylcModel.Sched3TrigJson
import CylcModel.Generated.TrigFlags
open Lean CylcModel.Drv CylcModel.Sched3Trig

namespace CylcModel.DrvC28

abbrev Key := Int × String

def showKey (k : Key) : String := s!"{k.1}/{k.2}"

def keyArr? (j : Json) : Option Key :=
  match jArr? j with
  | some (p :: n :: _) => do pure ((← jInt? p), (← jStr? n))
  | _ => none

def natList (j : Option Json) : List Nat := ((j.bind jArr?).getD []).filterMap jNat?
def strList (j : Option Json) : List String := ((j.bind jArr?).getD []).filterMap jStr?

structure PO where
  key : Key
  st : String
  held : Bool := false
  fl : List Nat
  sn : Nat
  out : List String            -- completed output *triggers*
  deriving Inhabited

structure Launch where
  key : Key
  sn : Nat
  fl : List Nat
  deriving Inhabited

structure MsgRec where
  key : Key
  msg : String
  transient : Bool
  outsAfter : List String      -- completed output triggers after the message was processed
  deriving Inhabited

structure Ob where
  pool : List PO
  pre : List (Key × List (Int × String × String × Nat))    -- per proxy: atoms (pt, task, message, sat code)
  now : List Key
  launch : List Launch
  msgs : List MsgRec
  toWaiting : List Key         -- proxies whose status went (back) to waiting in this op
  unpooledPrep : List Key      -- objects that entered job preparation while they were not the pooled proxy
  dbStates : List (Key × List Nat)   -- (instance, flow numbers) of the `task_states` rows, when observed
  holdTasks : List Key         -- `tasks_to_hold`
  holdPoint : Option Int       -- the hold point in force
  stopped : Bool
  stopMode : Bool
  deriving Inhabited

def parseOb (ob : Json) : Ob :=
  let pool := (poolOf ob).map fun t =>
    ({ key := keyOf t, st := (jStrField? t "st").getD "", held := (jBoolField? t "held").getD false,
       fl := natList (jField? t "fl"),
       sn := (jNatField? t "sn").getD 0, out := strList (jField? t "out") } : PO)
  let xt := (jField? ob "xt").getD Json.null
  let pre := ((jArrField? xt "pool").getD []).map fun t =>
    (keyOf t, ((jArrField? t "pre").getD []).flatMap fun p => ((jArr? p).getD []).filterMap fun a =>
      match jArr? a with
      | some [p, n, m, c] => do pure ((← jInt? p), (← jStr? n), (← jStr? m), (← jNat? c))
      | _ => none)
  let now := ((jArrField? xt "now").getD []).filterMap keyArr?
  let launch := ((jArrField? ob "launch_x").getD []).filterMap fun l =>
    match jArr? l with
    | some (p :: n :: sn :: fl :: _) => do
        pure ({ key := ((← jInt? p), (← jStr? n)), sn := (← jNat? sn), fl := natList (some fl) } : Launch)
    | _ => none
  let msgs := ((jArrField? ob "msgs").getD []).map fun r =>
    ({ key := keyOf r, msg := (jStrField? r "m").getD "", transient := (jBoolField? r "tr").getD false,
       outsAfter := match (jArrField? r "a") with
         | some (_ :: _ :: outs :: _) => strList (some outs)
         | _ => [] } : MsgRec)
  let toWaiting := ((jArrField? ob "trans").getD []).filterMap fun r =>
    match jArr? r with
    | some (p :: n :: old :: new :: _) =>
      if jStr? new == some "waiting" && jStr? old != some "waiting" then do pure ((← jInt? p), (← jStr? n)) else none
    | _ => none
  let unpooledPrep := ((jArrField? ob "trans").getD []).filterMap fun r =>
    match jArr? r with
    | some [p, n, _, new, _, _, _, inPool] =>
      if jStr? new == some "preparing" && jBool? inPool == some false then do pure ((← jInt? p), (← jStr? n)) else none
    | _ => none
  let dbStates := ((jArrField? ((jField? ob "xdb").getD Json.null) "states").getD []).filterMap fun r =>
    match jArr? r with
    | some (p :: n :: fl :: _) => do pure (((← jInt? p), (← jStr? n)), natList (some fl))
    | _ => none
  let holdJ := (jField? ob "hold").getD Json.null
  let holdTasks := ((jArrField? holdJ "tasks").getD []).filterMap keyArr?
  let holdPoint := (jOptField holdJ "point").bind jInt?
  { pool, pre, now, launch, msgs, toWaiting, unpooledPrep, dbStates, holdTasks, holdPoint,
    stopped := (jOptField ob "stop").isSome, stopMode := (jOptField ob "stop_mode").isSome }

def Ob.get? (o : Ob) (k : Key) : Option PO := o.pool.find? (·.key == k)

def isLive (st : String) : Bool := st == "preparing" || st == "submitted" || st == "running"

/-- one trigger command of the case -/
structure Trig where
  idx : Nat                       -- op index (observation `idx` is before, `idx + 1` after)
  ids : List Key
  flow : FlowSpec
  groups : List (List Key × Option (List Nat))     -- members, flow numbers used (none: not recorded)

def parseTrigs (i : Json) : List Trig :=
  (((jArrField? i "ops").getD []).zipIdx).filterMap fun (op, k) =>
    if jStrField? op "name" != some "force_trigger_tasks" then none else
    let args := (jField? op "args").getD Json.null
    let ids := (strList (jField? args "tasks")).filterMap fun t => (parseTaskId t).toOption
    let fl := strList (jField? args "flow")
    let flow : FlowSpec := if fl.isEmpty then .dflt else if fl == ["new"] then .new else if fl == ["none"] then .none
      else .nums (fl.filterMap String.toNat?)
    let hs := (jArrField? op "hints").getD []
    let groups := (((jArrField? op "groups").getD []).zipIdx).map fun (grp, q) =>
      ((strList (some grp)).filterMap fun t => (parseTaskId t).toOption,
       (hs[q]?.bind fun h => jField? h "fn").map fun f => natList (some f))
    some { idx := k, ids, flow, groups }

def isLoop (op : Json) : Bool := jStrField? op "op" == some "loop"

/-- a user hold that can put `k` on hold: `cylc hold` naming it, a hold point being set, or a restart (which
re-applies the hold point) -/
def userHolds (op : Json) (k : Key) : Bool :=
  jStrField? op "op" == some "restart" ||
  (jStrField? op "op" == some "cmd" &&
    (jStrField? op "name" == some "set_hold_point" ||
     (jStrField? op "name" == some "hold" &&
      (strList (((jField? op "args").getD Json.null).getObjVal? "tasks" |>.toOption)).contains (showKey k))))

def namesKey (op : Json) (k : Key) : Bool :=
  jStrField? op "op" == some "cmd" &&
    (strList (((jField? op "args").getD Json.null).getObjVal? "tasks" |>.toOption)).contains (showKey k)

/-- message text under which a job reports the output `out` (the submit result is reported as
"submission failed") -/
def msgMatches (out msg : String) : Bool := msg == out || (out == "submit-failed" && msg == "submission failed")

def triggerOf (g : Graph) (name msg : String) : String :=
  match g.task? name with
  | some t => match t.outputs.find? (·.message == msg) with | some o => o.trigger | none => msg
  | none => msg

def inter (a b : List Nat) : Bool := a.any b.contains

/-- is a launch in the triggered flow `f` (`none`: unknown, every launch counts) -/
def inFlow (f : Option (List Nat)) (fl : List Nat) : Bool :=
  match f with
  | none => true
  | some [] => fl.isEmpty
  | some f => inter f fl

structure Fail where
  key : Option String           -- finding key
  text : String

def Fail.why (f : Fail) : String := match f.key with | some k => s!"{k}: {f.text}" | none => f.text

/-- the judge; returns all failures (unkeyed ones first) -/
def judgeAll (g : Graph) (seqTasks : List String) (ops : List Json) (trigs : List Trig) (obs : Array Ob) : List Fail := Id.run do
  let mut fails : List Fail := []
  let nOps := ops.length
  for t in trigs do
    let i := t.idx
    let some before := obs[i]? | continue
    let some after := obs[i + 1]? | continue
    let G := t.ids
    let inst (k : Key) : Option InstDef := instOf g k
    -- in-group prerequisite atoms (spec side): atoms of the instance's prerequisites on members, not pre-satisfied
    let inGroupAtoms (m : Key) : List Atom := match inst m with
      | some d => (d.pre.flatMap (·.atoms)).filterMap fun a =>
          if G.contains (a.1.pt, a.1.task) then some a.1 else none
      | none => []
    -- (a member whose in-group atoms are all satisfied from the outset -- warm start -- is neither required to
    --  start first nor to be left alone: no clause below constrains it, the atoms count as true)
    let isStart (m : Key) : Bool := (inGroupAtoms m).isEmpty
    let flowOf (m : Key) : Option (List Nat) :=
      if t.flow == .none then some [] else
      match t.groups.find? (·.1.contains m) with
      | some (_, f) => f
      | none => none
    let nextTrig : Nat := ((trigs.filter (·.idx > i)).map (·.idx)).foldl min nOps
    let nextLoop : Option Nat := ((ops.zipIdx).find? fun (op, k) => k > i && isLoop op).map (·.2)
    for m in G do
      let b := before.get? m
      let a := after.get? m
      let f := flowOf m
      let seq := seqTasks.contains m.2
      let exemptNone := t.flow == .none && (match b with | some x => !x.fl.isEmpty | none => false)
      let liveStart := isStart m && (match b with | some x => isLive x.st | none => false)
      -- live_left_alone
      if liveStart then
        match b, a with
        | some x, some y =>
          if x.st != y.st || x.sn != y.sn then
            fails := fails ++ [⟨none, s!"live-resubmitted: op {i}: live group-start member {showKey m} ({x.st}, job {x.sn}) is {y.st}, job {y.sn} after the trigger"⟩]
          else if after.now.contains m && !before.now.contains m then
            fails := fails ++ [⟨none, s!"live-resubmitted: op {i}: live group-start member {showKey m} ({x.st}) put on the trigger-now list"⟩]
        | some x, none =>
          fails := fails ++ [⟨none, s!"live-resubmitted: op {i}: live group-start member {showKey m} ({x.st}) removed from the pool by the trigger"⟩]
        | _, _ => pure ()
      -- start_first
      if isStart m && !liveStart && !exemptNone then
        match nextLoop with
        | some j =>
          if j < nextTrig then
            match obs[j]?, obs[j + 1]? with
            | some oj, some o =>
              let stopping := o.stopped || o.stopMode || oj.stopMode || oj.stopped
              let ls := o.launch.filter (·.key == m)
              if !stopping && ls.isEmpty then
                -- the command erases the member's history in the triggered flows before it respawns it; a
                -- `task_states` row of the member in those flows right after the command means it did not
                let survives := a.isNone && match f with
                  | some (x :: xs) => after.dbStates.any fun r => r.1 == m && inter (x :: xs) r.2
                  | _ => false
                -- shape (iii) of finding `sequential-task`: an instance of a sequential task (never "parentless" for
                -- the command) that is not in the pool and has no off-group TaskDef prerequisite to force: the
                -- command has nothing to spawn it with
                let seqNotSpawned := seq && b.isNone && (match inst m with
                  | some d => !d.parentlessIcp && d.tdefAtoms.all fun a => G.contains (a.pt, a.task)
                  | none => false)
                -- ... or it is in the pool, waiting for its implicit previous-instance prerequisite (shape (ii))
                let seqImplicitUnsat := seq && a.isSome && (match inst m with
                  | some d => (((after.pre.find? (·.1 == m)).map (·.2)).getD []).any fun av =>
                      av.2.2.2 == 0 && !(d.tdefAtoms.contains ⟨av.1, av.2.1, av.2.2.1⟩)
                  | none => false)
                fails := fails ++ [⟨if seqNotSpawned || seqImplicitUnsat then some "sequential-task"
                    else if survives then some "queued-row-survives-removal" else none,
                  s!"start-not-launched: op {i}: group-start member {showKey m} (before: {(b.map (·.st)).getD "not in the pool"}) not launched by the next main loop (op {j})"⟩]
              for l in ls do
                match f with
                | some (x :: xs) =>
                  if !((x :: xs).all l.fl.contains) then
                    fails := fails ++ [⟨none, s!"start-not-launched: op {i}: group-start member {showKey m} launched in flows {l.fl}, triggered in {x :: xs}"⟩]
                | _ => pure ()
            | _, _ => pure ()
        | none => pure ()
      -- off_group_satisfied
      match a with
      | some y =>
        if y.st == "waiting" && !liveStart && !exemptNone then
          let otherFlow : Bool := match b, f with
            | some x, some ff => (x.fl.any fun n => !ff.contains n) || (x.fl.isEmpty && !ff.isEmpty)
            | _, _ => false
          let memberInFlow : Bool := match f with
            | none => true
            | some [] => y.fl.isEmpty && b.isNone
            | some ff => inter ff y.fl
          if memberInFlow || otherFlow then
            let atoms := ((after.pre.find? (·.1 == m)).map (·.2)).getD []
            for av in atoms do
              if !G.contains (av.1, av.2.1) && av.2.2.2 == 0 then
                let implicit := match inst m with
                  | some d => !(d.tdefAtoms.contains ⟨av.1, av.2.1, av.2.2.1⟩)
                  | none => false
                -- (shape (ii) of `sequential-task`: the unsatisfied atom is the implicit previous-instance prerequisite)
                let key := if otherFlow then some "other-flow-member" else if implicit then some "sequential-task" else none
                fails := fails ++ [⟨key, s!"off-group-unsatisfied: op {i}: member {showKey m} (before: {(b.map (·.st)).getD "not in the pool"}, flows {y.fl}) still waits for the off-group prerequisite {av.1}/{av.2.1}:{av.2.2.1} after the trigger"⟩]
      | none => pure ()
      -- trigger_overrides_hold: every member is to run, so a member that the command does not start at once
      -- (it is respawned, or spawned later by its in-group parents) must not be left on hold by a `cylc hold`
      -- issued BEFORE the trigger: not in the hold list right after the command, and not held when it is in the
      -- pool later -- unless the user holds it (hold command naming it, hold point set, restart) after the trigger
      if !liveStart && !exemptNone && !(isStart m && b.isSome) && !after.now.contains m then
        let beyond (o : Ob) : Bool := match o.holdPoint with | some hp => m.1 > hp | none => false
        let keyOfShape (o : Ob) : Option String :=
          if beyond before || beyond o then some "hold-point-blocks-member"
          else if t.flow == .none then some "flow-none-keeps-hold" else none
        let otherFlowM : Bool := match b, f with
          | some x, some ff => (x.fl.any fun n => !ff.contains n) || (x.fl.isEmpty && !ff.isEmpty)
          | _, _ => false
        if !otherFlowM then
          if after.holdTasks.contains m then
            fails := fails ++ [⟨keyOfShape after, s!"member-held: op {i}: member {showKey m} (before: {(b.map (·.st)).getD "not in the pool"}) is still on the hold list after the trigger"⟩]
          else
            let mut stop := false
            for q in [i + 2 : nextTrig + 1] do
              if stop then break
              let some oq := obs[q]? | break
              if (match ops[q - 1]? with | some op => userHolds op m | none => false) then stop := true
              else match oq.get? m with
                | some y =>
                  if y.held then
                    stop := true
                    fails := fails ++ [⟨keyOfShape oq, s!"member-held: op {i}: member {showKey m} is held (op {q - 1}) although no hold was requested after the trigger"⟩]
                | none => pure ()
      -- in_group_order: the first launch of a non-start member in the triggered flow, before the next trigger
      if !isStart m && !before.now.contains m then
        let mut done := false
        for j in [i + 1 : nextTrig + 1] do
          if done then break
          let some o := obs[j + 1]? | break
          if o.launch.any (fun l => l.key == m && inFlow f l.fl) then
            done := true
            -- truth of an atom at this launch
            let emitted (k : Key) (out : String) : Bool :=
              (List.range (j + 2)).any fun q => q > i && match obs[q]? with
                | some oq => oq.msgs.any fun r => r.key == k && !r.transient && msgMatches out r.msg &&
                    r.outsAfter.contains (triggerOf g k.2 out)
                | none => false
            let hadBefore (k : Key) (out : String) : Bool := match before.get? k with
              | some x => isStart k && isLive x.st && x.out.contains (triggerOf g k.2 out)
              | none => false
            let atomTrue (a : Atom × Sat) : Bool :=
              let k : Key := (a.1.pt, a.1.task)
              !G.contains k || a.2.ok || emitted k a.1.out || hadBefore k a.1.out
            match inst m with
            | none => pure ()
            | some d =>
              for p in d.pre do
                let ok := match p.expr with
                  | none => p.atoms.all atomTrue
                  | some e => e.eval fun ix => match p.atoms[ix]? with | some a => atomTrue a | none => false
                if !ok then
                  let bad := p.atoms.filter fun a => !atomTrue a
                  let implicit := bad.any fun a => !(d.tdefAtoms.contains a.1)
                  let viaAbs := d.parentlessIcp || bad.any fun a =>
                    (childrenOfInst g a.1.task a.1.pt a.1.out).any fun c => c.name == m.2 && c.isAbs
                  let liveParent := bad.any fun a => match before.get? (a.1.pt, a.1.task) with
                    | some x => (x.st == "submitted" || x.st == "running") && !x.out.isEmpty
                    | none => false
                  -- the member was pooled in flows other than the triggered ones (only, or as well): its proxy stayed
                  -- in the pool for those flows, the command neither removed nor respawned it, so it
                  -- kept the prerequisite states of its earlier run and was later absorbed by the triggered flow
                  let otherFlow : Bool := match b, f with
                    | some x, some ff => (x.fl.any fun n => !ff.contains n) || (x.fl.isEmpty && !ff.isEmpty)
                    | _, _ => false
                  -- (shape (i) of `sequential-task`: an unsatisfied in-group atom is the implicit prerequisite)
                  let key := if implicit then some "sequential-task"
                    else if viaAbs then some "abs-trigger-in-group"
                    else if otherFlow then some "other-flow-member"
                    else if liveParent then some "live-parent-any-output" else none
                  fails := fails ++ [⟨key, s!"before-in-group: op {i}: member {showKey m} launched by op {j} before its in-group prerequisite(s) {bad.map fun a => s!"{a.1.pt}/{a.1.task}:{a.1.out}"} (before the trigger: {(b.map (·.st)).getD "not in the pool"})"⟩]
  -- ran_twice over the members of all triggers
  let members := (trigs.flatMap (·.ids)).foldl (fun acc k => if acc.contains k then acc else acc ++ [k]) []
  for m in members do
    let ls : List (Nat × Launch) := ((List.range obs.size).flatMap fun q => match obs[q]? with
      | some o => (o.launch.filter (·.key == m)).map fun l => (q, l)
      | none => [])
    for (x, y) in ls.zip (ls.drop 1) do
      if x.1 == y.1 then
        let unpooled := match obs[x.1]? with | some ox => ox.unpooledPrep.contains m | none => false
        fails := fails ++ [⟨if unpooled then some "unpooled-object-triggered" else none,
          s!"ran-twice: member {showKey m} launched twice by one main loop (op {x.1 - 1})"⟩]
      else if inter x.2.fl y.2.fl || (x.2.fl.isEmpty && y.2.fl.isEmpty) then
        let justified := (List.range (y.1 + 1)).any fun q => q > x.1 &&
          ((match obs[q]? with | some o => o.toWaiting.contains m || (o.get? m).isNone | none => false) ||
           (match ops[q - 1]? with | some op => namesKey op m | none => false))
        if !justified then
          let unpooled := match obs[x.1]?, obs[y.1]? with
            | some ox, some oy => ox.unpooledPrep.contains m || oy.unpooledPrep.contains m
            | _, _ => false
          fails := fails ++ [⟨if unpooled then some "unpooled-object-triggered" else none, s!"ran-twice: member {showKey m} launched again (job {x.2.sn} by op {x.1 - 1}, job {y.2.sn} by op {y.1 - 1}) without having left the pool, been put back to waiting or been named by a command"⟩]
  -- new failures first; among the recorded ones the duplicate job first
  return (fails.filter (·.key.isNone)) ++ (fails.filter (·.key == some "unpooled-object-triggered")) ++
    (fails.filter fun f => f.key.isSome && f.key != some "unpooled-object-triggered")

def handle (i o : Json) : Except String Reply := do
  if let some r := crashReply? i then return r
  let c ← parseCase i
  -- the behaviour flag probed from the live code decides which variant of the model runs
  let gr : Graph := { c.graph with anyOutput := CylcModel.TrigFlags.anyOutput,
                                   triggerUnpooled := CylcModel.TrigFlags.triggerUnpooled,
                                   rowInsertMode := CylcModel.TrigFlags.rowInsertMode,
                                   qotSkipsPrepped := CylcModel.TrigFlags.qotSkipsPrepped,
                                   releaseQueueIfReady := CylcModel.TrigFlags.releaseQueueIfReady,
                                   rmFlushFirst := CylcModel.TrigFlags.rmFlushFirst,
                                   rmFlushEach := CylcModel.TrigFlags.rmFlushEach,
                                   rmEraseUnmatched := CylcModel.TrigFlags.rmEraseUnmatched }
  let c := { c with graph := gr }
  let tasksJ := (jField? ((jField? i "graph").getD Json.null) "tasks").getD Json.null
  let seqTasks := c.graph.tasks.filterMap fun t =>
    if (jBoolField? ((jField? tasksJ t.name).getD Json.null) "sequential").getD false then some t.name else none
  let ops := (jArrField? i "ops").getD []
  let obs := ((obsList o).map parseOb).toArray
  let fails := judgeAll c.graph seqTasks ops (parseTrigs i) obs
  match fails with
  | [] => return { model := modelObs c, holds := true }
  | f :: _ => return { model := modelObs c, holds := false, why := f.why }

end CylcModel.DrvC28

def main : IO Unit := CylcModel.Drv.run CylcModel.DrvC28.handle
