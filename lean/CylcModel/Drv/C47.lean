/-
Driver for C47: runs the `Platform` model on a JSON case and judges the implementation's
observations against the property (written from the specification side, on the match matrices).

input i : {"plats": [{"key","hosts":[s],"method","tag","lhPrefix":b,"lhFull":b}],     -- as loaded, definition order
           "groups": [{"key","members":[s],"method"}],
           "names": [s], "pm": [[b per plat] per name], "gm": [[b per group] per name],
           "calls": [C]}
  C : {"f":"host","hosts":[s],"method":s,"bad":[s],"cs":[n]}
    | {"f":"name","name":s,"bad":[s],"cs":[n]}
    | {"f":"group","g":n,"bad":[s],"cs":[n]}
    | {"f":"keys","mode":"raw"|"global","sections":[{"text":s,"alts":[s]}]}
observed o / model m : [R per call]
  R : {"ok": s} | {"ok": {"name","hosts","method","tag"}} | {"ok": [keys]} | {"err": s, "consumed": [s]?}
-/
import CylcModel.Util.Drv
import CylcModel.Platform
open Lean CylcModel.Drv CylcModel.Platform

namespace CylcModel.DrvC47

def strs (j : Json) (k : String) : List String := ((jArrField? j k).getD []).filterMap jStr?
def nats (j : Json) (k : String) : List Nat := ((jArrField? j k).getD []).filterMap jNat?

structure Case where
  plats : List PlatDef
  groups : List GroupDef
  names : List String
  pm : List (List Bool)
  gm : List (List Bool)
  calls : List Json

def parsePlat (j : Json) : Except String PlatDef := do
  let key ← (jStrField? j "key").elim (.error "plat.key") .ok
  let method ← (jStrField? j "method").elim (.error "plat.method") .ok
  let tag ← (jStrField? j "tag").elim (.error "plat.tag") .ok
  let lp ← (jBoolField? j "lhPrefix").elim (.error "plat.lhPrefix") .ok
  let lf ← (jBoolField? j "lhFull").elim (.error "plat.lhFull") .ok
  return ⟨key, strs j "hosts", method, tag, lp, lf⟩

def parseGroup (j : Json) : Except String GroupDef := do
  let key ← (jStrField? j "key").elim (.error "group.key") .ok
  let method ← (jStrField? j "method").elim (.error "group.method") .ok
  return ⟨key, strs j "members", method⟩

def parseMatrix (j : Json) (k : String) : List (List Bool) :=
  ((jArrField? j k).getD []).map fun row => ((jArr? row).getD []).filterMap jBool?

def parseCase (j : Json) : Except String Case := do
  let plats ← ((jArrField? j "plats").getD []).mapM parsePlat
  let groups ← ((jArrField? j "groups").getD []).mapM parseGroup
  let names := strs j "names"
  let pm := parseMatrix j "pm"
  let gm := parseMatrix j "gm"
  if pm.length != names.length || gm.length != names.length then throw "matrix rows ≠ names"
  if pm.any (·.length != plats.length) || gm.any (·.length != groups.length) then throw "matrix row length"
  return ⟨plats, groups, names, pm, gm, (jArrField? j "calls").getD []⟩

def row (c : Case) (mx : List (List Bool)) (n : String) : List Bool :=
  match c.names.idxOf? n with
  | some k => mx.getD k []
  | none => []

def Case.env (c : Case) : Env :=
  { plats := c.plats, groups := c.groups,
    pm := fun n i => (row c c.pm n).getD i false,
    gm := fun n i => (row c c.gm n).getD i false }

/-! ### output encoding -/

def jStrs (l : List String) : Json := Json.arr (l.map Json.str).toArray

def errJson : Err → Json
  | .noHosts => Json.mkObj [("err", "NoHostsError")]
  | .noPlatforms c => Json.mkObj [("err", "NoPlatformsError"), ("consumed", jStrs c)]
  | .lookup => Json.mkObj [("err", "PlatformLookupError")]
  | .method => Json.mkObj [("err", "CylcError")]
  | .keyError => Json.mkObj [("err", "KeyError")]

def platJson (p : Plat) : Json :=
  Json.mkObj [("name", p.name), ("hosts", jStrs p.hosts), ("method", p.method), ("tag", p.tag)]

def splitCommas (s : String) : List String := (s.splitOn ",").map fun x => x.trimAscii.toString

def modelKeys (call : Json) : List String :=
  let secs := (jArrField? call "sections").getD []
  let mode := (jStrField? call "mode").getD "raw"
  if mode == "raw" then loadedKeys (secs.filterMap fun s => jStrField? s "text")
  else loadedKeys (secs.flatMap fun s =>
    if commaSplitsQuantifier then splitCommas ((jStrField? s "text").getD "") else strs s "alts")

def modelCall (c : Case) (call : Json) : Except String Json := do
  let f ← (jStrField? call "f").elim (.error "call.f") .ok
  let bad := strs call "bad"
  let cs := nats call "cs"
  match f with
  | "host" =>
    let method ← (jStrField? call "method").elim (.error "call.method") .ok
    match getHost (strs call "hosts") method bad cs with
    | .ok (h, _) => return Json.mkObj [("ok", h)]
    | .error x => return errJson x
  | "name" =>
    let name ← (jStrField? call "name").elim (.error "call.name") .ok
    match platformFromName c.env name bad cs with
    | .ok (p, _) => return Json.mkObj [("ok", platJson p)]
    | .error x => return errJson x
  | "group" =>
    let g ← (jNatField? call "g").elim (.error "call.g") .ok
    match c.groups[g]? with
    | none => throw "call.g out of range"
    | some G =>
      match groupFrom c.env G bad cs with
      | .ok (n, _) => return Json.mkObj [("ok", n)]
      | .error x => return errJson x
  | "keys" => return Json.mkObj [("ok", jStrs (modelKeys call))]
  | s => throw s!"unknown call {s}"

/-! ### Judge: the property on observations.  Uses only the match matrices and the definitions,
never the model's functions. -/

/-- last-defined definition whose pattern matches: scan the row from the end -/
def specLast (r : List Bool) : Option Nat :=
  (List.range r.length).reverse.find? fun i => r.getD i false

structure SPlat where
  name : String
  hosts : List String
  method : String
  tag : String
  deriving BEq

/-- what a name must resolve to: the last-defined matching definition (its hosts, or the name itself
when it has none); run-mode names fall back to the localhost definition -/
def specPlat (c : Case) (n : String) : Option SPlat :=
  match specLast (row c c.pm n) with
  | some i => (c.plats[i]?).map fun d => ⟨n, if d.hosts.isEmpty then [n] else d.hosts, d.method, d.tag⟩
  | none =>
    if jobless.contains n then
      (c.plats.find? fun d => d.key == "localhost").map fun d => ⟨"localhost", d.hosts, d.method, d.tag⟩
    else none

def obsPlat (j : Json) : Option SPlat := do
  let name ← jStrField? j "name"
  let method ← jStrField? j "method"
  let tag ← jStrField? j "tag"
  return ⟨name, strs j "hosts", method, tag⟩

def supported (m : String) : Bool := methodsFirst.contains m || methodsRandom.contains m

def isNested (c : Case) (m : String) : Bool := (specLast (row c c.gm m)).isSome

/-- a member that is a platform name, resolves, and keeps a reachable host -/
def definitelyAlive (c : Case) (bad : List String) (m : String) : Bool :=
  !isNested c m && match specPlat c m with
    | some p => p.hosts.any fun h => !bad.contains h
    | none => false

def definitelyDead (c : Case) (bad : List String) (m : String) : Bool :=
  !isNested c m && match specPlat c m with
    | some p => p.hosts.all fun h => bad.contains h
    | none => false

structure Verdict where
  ok : Bool
  why : String := ""

def good : Verdict := ⟨true, ""⟩

def lookupErrorVerdict (c : Case) (what : String) : Verdict :=
  if c.plats.any (·.lhFull) then good
  else if c.plats.any (·.lhPrefix) then
    ⟨false, s!"localhost-prefix-guard: {what} fails with PlatformLookupError because a regex platform name matches a prefix of \"localhost\""⟩
  else ⟨false, s!"{what} fails with PlatformLookupError although a definition matches"⟩

def judgeHost (call o : Json) : Verdict :=
  let hosts := strs call "hosts"
  let bad := strs call "bad"
  let method := (jStrField? call "method").getD ""
  let noneLeft := hosts.all fun h => bad.contains h
  match jStrField? o "ok", jStrField? o "err" with
  | some h, _ =>
    if !hosts.contains h then ⟨false, s!"returned host {h} is not a host of the platform"⟩
    else if bad.contains h && !noneLeft then ⟨false, s!"returned host {h} is known to be unreachable while the platform has another host"⟩
    else good
  | _, some "NoHostsError" =>
    if noneLeft then good else ⟨false, "NoHostsError although the platform has a host that is not known to be unreachable"⟩
  | _, some "CylcError" => if supported method then ⟨false, "CylcError with a supported selection method"⟩ else good
  | _, some e => ⟨false, s!"unexpected error {e}"⟩
  | _, _ => ⟨false, "malformed observation"⟩

def judgeGroupMembers (c : Case) (G : GroupDef) (bad : List String) (what : String) (o : Json)
    (selName : Option String) (selHosts : Option (List String)) : Verdict :=
  let alive := G.members.find? (definitelyAlive c bad)
  match selName, jStrField? o "err" with
  | some n, _ =>
    let member := G.members.contains n || (n == "localhost" && G.members.any fun m => jobless.contains m)
    if !member then ⟨false, s!"{what}: selected platform {n} is not a member of the group"⟩
    else
      let dead := match selHosts with
        | some hs => !bad.isEmpty && hs.all fun h => bad.contains h
        | none => !bad.isEmpty && definitelyDead c bad n
      match alive with
      | some m =>
        if dead then ⟨false, s!"{what}: selected platform {n} has only unreachable hosts while member {m} has a reachable host"⟩
        else good
      | none => good
  | none, some "NoPlatformsError" =>
    -- a member that is itself matched by a group pattern is outside the property (groups of platforms):
    -- the error of the inner selection propagates
    if G.members.any (isNested c) then good else
    match alive with
    | some m => ⟨false, s!"{what}: NoPlatformsError although member {m} has a reachable host"⟩
    | none => good
  | none, some "PlatformLookupError" =>
    if G.members.any (fun m => isNested c m || (specPlat c m).isNone) then good
    else lookupErrorVerdict c what
  | none, some "CylcError" => if supported G.method then ⟨false, s!"{what}: CylcError with a supported selection method"⟩ else good
  | none, some "KeyError" => if (c.plats.any fun d => d.key == "localhost") then ⟨false, s!"{what}: KeyError"⟩ else good
  | none, some e => ⟨false, s!"{what}: unexpected error {e}"⟩
  | none, none => ⟨false, "malformed observation"⟩

def judgeName (c : Case) (call o : Json) : Verdict :=
  let name := (jStrField? call "name").getD ""
  let bad := strs call "bad"
  let obsP := (jField? o "ok").bind obsPlat
  -- whatever was selected, the returned platform is the last-defined definition matching its name
  let resolved : Verdict := match obsP with
    | some p =>
      if p.name == "localhost" && (specLast (row c c.pm "localhost")).isNone then good   -- run-mode fallback, judged below
      else match specPlat c p.name with
        | some q => if p == q then good else ⟨false, s!"{p.name} resolved to definition {p.tag} but the last-defined matching definition is {q.tag}"⟩
        | none => ⟨false, s!"{p.name} resolved to definition {p.tag} but no definition matches it"⟩
    | none => good
  if !resolved.ok then resolved else
  match specLast (row c c.gm name) with
  | none =>
    match obsP, jStrField? o "err" with
    | some p, _ =>
      match specPlat c name with
      | some q => if p == q then good else ⟨false, s!"{name} resolved to {p.name}/{p.tag}, expected {q.name}/{q.tag}"⟩
      | none => ⟨false, s!"{name} resolved to {p.name}/{p.tag} but no definition matches it"⟩
    | none, some "PlatformLookupError" =>
      if (specPlat c name).isNone then
        -- no loaded definition matches: fine unless a pattern written in the file does
        if ((jArrField? call "intended").getD []).any (· == Json.bool true) then
          ⟨false, s!"comma-quantifier-split: lookup of {name} fails although a name pattern written in global.cylc fully matches it (the pattern contains a regex quantifier with a comma and was split at that comma when the file was loaded)"⟩
        else good
      else lookupErrorVerdict c s!"lookup of {name}"
    | none, some "KeyError" =>
      if (specLast (row c c.pm name)).isNone && jobless.contains name && !(c.plats.any fun d => d.key == "localhost") then good
      else ⟨false, "KeyError"⟩
    | none, some e => ⟨false, s!"lookup of {name}: unexpected error {e}"⟩
    | none, none => ⟨false, "malformed observation"⟩
  | some g =>
    match c.groups[g]? with
    | none => ⟨false, "group index"⟩
    | some G => judgeGroupMembers c G bad s!"group {G.key} for {name}" o (obsP.map (·.name)) (obsP.map (·.hosts))

def judgeGroup (c : Case) (call o : Json) : Verdict :=
  match c.groups[(jNatField? call "g").getD 0]? with
  | none => ⟨false, "group index"⟩
  | some G => judgeGroupMembers c G (strs call "bad") s!"group {G.key}" o (jStrField? o "ok") none

def judgeKeys (call o : Json) : Verdict :=
  let secs := (jArrField? call "sections").getD []
  let mode := (jStrField? call "mode").getD "raw"
  let want := if mode == "raw" then secs.filterMap (fun s => jStrField? s "text") else secs.flatMap (fun s => strs s "alts")
  let got := strs o "ok"
  -- every name pattern written in the file must be a loaded definition, in first-occurrence order after "localhost"
  let wantKeys := ("localhost" :: want).eraseDups
  if got == wantKeys then good
  else if mode != "raw" && want.any (fun a => a.contains ',' && !got.contains a) then
    ⟨false, s!"comma-quantifier-split: a platform name pattern containing a regex quantifier with a comma is split into pieces when global.cylc is loaded: loaded {(jStrs got).compress}, written {(jStrs wantKeys).compress}"⟩
  else ⟨false, s!"loaded platform names {(jStrs got).compress} differ from the ones written {(jStrs wantKeys).compress}"⟩

def judgeCall (c : Case) (call o : Json) : Verdict :=
  match jStrField? call "f" with
  | some "host" => judgeHost call o
  | some "name" => judgeName c call o
  | some "group" => judgeGroup c call o
  | some "keys" => judgeKeys call o
  | _ => ⟨false, "unknown call"⟩

def handle (i o : Json) : Except String Reply := do
  let c ← parseCase i
  let ms ← c.calls.mapM (modelCall c)
  let obs := (jArr? o).getD []
  if obs.length != c.calls.length then
    return { model := Json.arr ms.toArray, holds := false, why := "observation has the wrong number of results" }
  let verdicts := (c.calls.zip obs).map fun (call, ob) => judgeCall c call ob
  -- genuine violations first, then recorded findings
  let bad := verdicts.filter (!·.ok)
  let isFinding (v : Verdict) : Bool := v.why.startsWith "localhost-prefix-guard:" || v.why.startsWith "comma-quantifier-split:"
  let first := (bad.find? (!isFinding ·)).orElse fun _ => bad.head?
  match first with
  | some v => return { model := Json.arr ms.toArray, holds := false, why := v.why }
  | none => return { model := Json.arr ms.toArray, holds := true }

end CylcModel.DrvC47

def main : IO Unit := CylcModel.Drv.run CylcModel.DrvC47.handle
