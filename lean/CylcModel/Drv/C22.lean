/-
Driver for C22: runs the `Bcast` model on a JSON history and judges the implementation's
observations against the property text.

input  i : {"anc": [[task, [task, parent..., "root"]] ...],      linearized_ancestors
            "static": [[[path...], value] ...],                  a task's static runtime config (leaves)
            "ops": [OP ...]}
   OP : {"op":"put","points":[s...],"ns":[s...],"settings":[S...]}
      | {"op":"clear","points":[s...]|null,"ns":[s...]|null,"cancel":[S...]|null}
      | {"op":"expire","cutoff":n|null} | {"op":"flush"} | {"op":"restart"}
      | {"op":"get","point":s,"task":s}
   S  : [[key, value | S] ...]     a settings dictionary as an ordered list of pairs (nested)
observed o / model m : one entry per op
   put     {"mod": [E...], "badp": [s...], "badn": [s...], "store": [E...]}
   clear   {"mod": [E...], "store": [E...]}      (expire: the same)
   flush   {"store": [E...], "db": [[point, ns, key, value]...]}
   restart {"before": [E...], "store": [E...], "db": [...]}
   get     {"bc": [[[path...], value]...], "rt": [[[path...], value]...]}
   E : [point, namespace, [path...], value]; every list is sorted by the harness, duplicates removed
-/
import CylcModel.Util.Drv
import CylcModel.Bcast
open Lean CylcModel.Drv CylcModel.Bcast

namespace CylcModel.DrvC22

def need {α} (o : Option α) (what : String) : Except String α :=
  match o with | some v => .ok v | none => .error what

def strList (j : Option Json) : Except String (List String) :=
  match j with
  | none => .ok []
  | some .null => .ok []
  | some v => do (← need (jArr? v) "list").mapM fun e => need (jStr? e) "string"

/-- leaves of a nested pair list, in document order -/
partial def leaves (pre : Path) (j : Json) : Except String Setting := do
  let items ← need (jArr? j) "setting"
  let parts ← items.mapM fun it =>
    match jArr? it with
    | some [k, v] => do
      let k ← need (jStr? k) "setting key"
      match v with
      | .str s => pure [(pre ++ [k], s)]
      | _ => leaves (pre ++ [k]) v
    | _ => .error "setting item"
  return parts.flatten

def settingsOf (j : Option Json) : Except String (List Setting) :=
  match j with
  | none => .ok []
  | some .null => .ok []
  | some v => do (← need (jArr? v) "settings").mapM (leaves [])

inductive Cmd where
  | op (o : Op)
  | get (point task : String)

def parseOp (j : Json) : Except String Cmd := do
  let k ← need (jStrField? j "op") "op"
  match k with
  | "put" => return .op (.put (← strList (jField? j "points")) (← strList (jField? j "ns")) (← settingsOf (jField? j "settings")))
  | "clear" =>
    let cancel ← settingsOf (jField? j "cancel")
    return .op (.clear ⟨← strList (jField? j "points"), ← strList (jField? j "ns"), (cancel.flatten).map (·.1)⟩)
  | "expire" => return .op (.expire ((jOptField j "cutoff").bind jNat?))
  | "flush" => return .op .flush
  | "restart" => return .op .restart
  | "get" => return .get (← need (jStrField? j "point") "point") (← need (jStrField? j "task") "task")
  | s => .error s!"op {s}"

structure Case where
  anc : List (String × List String)
  static : AList Path
  ops : List Cmd

def parseCase (i : Json) : Except String Case := do
  let anc ← (← need (jArrField? i "anc") "anc").mapM fun e =>
    match jArr? e with
    | some [t, l] => do return (← need (jStr? t) "task", ← strList (some l))
    | _ => .error "anc item"
  let static ← ((jArrField? i "static").getD []).mapM fun e =>
    match jArr? e with
    | some [p, v] => do return (← strList (some p), ← need (jStr? v) "static value")
    | _ => .error "static item"
  let ops ← (← need (jArrField? i "ops") "ops").mapM parseOp
  return ⟨anc, static, ops⟩

def pathJson (p : Path) : Json := jOfList Json.str p

def entryJson (e : Key × String) : Json :=
  Json.arr #[Json.str e.1.point, Json.str e.1.ns, pathJson e.1.path, Json.str e.2]

def storeJson (s : Store) : Json := jOfList entryJson s

def leafJson (e : Path × String) : Json := Json.arr #[pathJson e.1, Json.str e.2]

def dbJson (rows : AList DbKey) : Json :=
  jOfList (fun (e : DbKey × String) => Json.arr #[Json.str e.1.point, Json.str e.1.ns, Json.str e.1.key, Json.str e.2]) rows

def modifiedEntries (m : List (String × String × Setting)) : List (Key × String) :=
  (m.flatMap fun (p, ns, s) => s.map fun (path, v) => (⟨p, ns, path⟩, v)).eraseDups

def allKeys : Bool := Generated.BcastCfg.changeIterAllKeys

def runModel (c : Case) : List Json := Id.run do
  let known := c.anc.map (·.1)
  let mut s : State := {}
  let mut out : List Json := []
  for cmd in c.ops do
    match cmd with
    | .get point task =>
      let anc := (c.anc.lookup task).getD []
      out := out ++ [Json.mkObj [("bc", jOfList leafJson (getBroadcast s.store anc point)),
                                 ("rt", jOfList leafJson (rtconfig c.static s.store anc point))]]
    | .op o =>
      let s' := step allKeys known s o
      let j := match o with
        | .put ps nss sets =>
          let r := put known s.store ps nss sets
          Json.mkObj [("mod", storeJson (modifiedEntries r.modified)), ("badp", jOfList Json.str r.badPoints.eraseDups),
                      ("badn", jOfList Json.str r.badNamespaces.eraseDups), ("store", storeJson s'.store)]
        | .clear f => Json.mkObj [("mod", storeJson (clear s.store f).2.eraseDups), ("store", storeJson s'.store)]
        | .expire cu => Json.mkObj [("mod", storeJson (expire s.store cu).2.eraseDups), ("store", storeJson s'.store)]
        | .flush => Json.mkObj [("store", storeJson s'.store), ("db", dbJson s'.db.rows)]
        | .restart => Json.mkObj [("before", storeJson s.store), ("store", storeJson s'.store), ("db", dbJson s'.db.rows)]
      s := s'
      out := out ++ [j]
  return out

/-! ### Judge: the property evaluated on the observations (spec side; no model function) -/

structure E where
  point : String
  ns : String
  path : List String
  val : String
  deriving DecidableEq, BEq

def parseE (j : Json) : Option E :=
  match jArr? j with
  | some [p, n, path, v] => do
    let path ← (← jArr? path).mapM jStr?
    some ⟨← jStr? p, ← jStr? n, path, ← jStr? v⟩
  | _ => none

def parseEs (j : Option Json) : List E := ((j.bind jArr?).getD []).filterMap parseE

def parseLeaves (j : Option Json) : List (List String × String) :=
  ((j.bind jArr?).getD []).filterMap fun e =>
    match jArr? e with
    | some [p, v] => do some (← (← jArr? p).mapM jStr?, ← jStr? v)
    | _ => none

def find (s : List E) (p n : String) (path : List String) : Option String :=
  (s.find? fun e => e.point == p && e.ns == n && e.path == path).map (·.val)

/-- same set of entries -/
def sameSet (a b : List E) : Bool := a.all b.contains && b.all a.contains

def allDigits (s : String) : Bool := !s.isEmpty && s.toList.all Char.isDigit

/-- spec: a cycle point string denotes a number, or is the literal `*` -/
def specPoint (p : String) : Option String :=
  if allDigits p then
    let n := p.toNat!
    some (toString n)
  else if p == "*" then some "*" else none

structure Verdict where
  ok : Bool
  why : String

def hasBracket (path : List String) : Bool := path.any fun s => s.toList.any fun c => c == '[' || c == ']'

def judge (c : Case) (o : Json) : Verdict := Id.run do
  let obs := (jArr? o).getD []
  if obs.length != c.ops.length then return ⟨false, s!"{obs.length} observations for {c.ops.length} ops"⟩
  let known := c.anc.map (·.1)
  let allNames := ["*", "all-cycle-points", "all-cycles"]
  let mut before : List E := []
  -- items that were not the first item of a multi-item setting dictionary
  let mut nonFirst : List (List String) := []
  let mut idx := 0
  for (cmd, ob) in c.ops.zip obs do
    idx := idx + 1
    match cmd with
    | .get point task =>
      -- precedence: all-cycle broadcasts, then the task's own cycle, each root -> ... -> task; last one wins
      let anc := (c.anc.lookup task).getD []
      let srcs : List (String × String) := (allNames ++ [point]).flatMap fun cy => anc.reverse.map fun ns => (cy, ns)
      let want (path : List String) : Option String :=
        srcs.foldl (fun acc (cy, ns) => match find before cy ns path with | some v => some v | none => acc) none
      let bc := parseLeaves (jField? ob "bc")
      let rt := parseLeaves (jField? ob "rt")
      let paths := (before.map (·.path) ++ bc.map (·.1) ++ rt.map (·.1) ++ c.static.map (·.1)).eraseDups
      for path in paths do
        let w := want path
        if bc.lookup path != w then
          return ⟨false, s!"op {idx}: broadcast for {task} at {point}, {path}: got {bc.lookup path}, precedence order gives {w}"⟩
        let wr := match w with | some v => some v | none => lookup c.static path
        if rt.lookup path != wr then
          return ⟨false, s!"op {idx}: runtime config of {task} at {point}, {path}: got {rt.lookup path}, expected {wr}"⟩
    | .op (.put ps nss sets) =>
      nonFirst := nonFirst ++ sets.flatMap fun s => (s.drop 1).map (·.1)
      let after := parseEs (jField? ob "store")
      -- every addressed (point, namespace, item) holds the value of the last setting naming it; nothing else changes
      let pts := ps.filterMap specPoint
      let goodNs := nss.filter known.contains
      let assigned : List E := sets.flatMap fun s => pts.flatMap fun p => goodNs.flatMap fun n =>
        s.map fun (path, v) => ⟨p, n, path, v⟩
      for e in assigned do
        let last := (assigned.filter fun x => x.point == e.point && x.ns == e.ns && x.path == e.path).getLast?.map (·.val)
        if find after e.point e.ns e.path != last then
          return ⟨false, s!"op {idx}: put {e.point}/{e.ns} {e.path}: store has {find after e.point e.ns e.path}, expected {last}"⟩
      for e in before do
        if !(assigned.any fun x => x.point == e.point && x.ns == e.ns && x.path == e.path) && !after.contains e then
          return ⟨false, s!"op {idx}: put changed an entry it does not address: {e.point}/{e.ns} {e.path}"⟩
      for e in after do
        if !(assigned.any fun x => x.point == e.point && x.ns == e.ns && x.path == e.path) && !before.contains e then
          return ⟨false, s!"op {idx}: put created an entry it does not address: {e.point}/{e.ns} {e.path}"⟩
      before := after
    | .op (.clear f) =>
      let after := parseEs (jField? ob "store")
      let md := parseEs (jField? ob "mod")
      let hit (e : E) : Bool :=
        (f.points.isEmpty || f.points.contains e.point) && (f.namespaces.isEmpty || f.namespaces.contains e.ns)
        && (f.cancel.isEmpty || f.cancel.contains e.path)
      if !sameSet after (before.filter fun e => !hit e) then
        return ⟨false, s!"op {idx}: clear did not remove exactly the targeted settings"⟩
      if !sameSet md (before.filter hit) then
        return ⟨false, s!"op {idx}: clear reports other settings than the targeted ones"⟩
      before := after
    | .op (.expire cu) =>
      let after := parseEs (jField? ob "store")
      let hit (e : E) : Bool := match cu with
        | none => true
        | some n => !allNames.contains e.point && allDigits e.point && e.point.toNat! < n
      if !sameSet after (before.filter fun e => !hit e) then
        return ⟨false, s!"op {idx}: expire did not remove exactly the cycle-specific broadcasts earlier than the cutoff"⟩
      before := after
    | .op .flush =>
      let after := parseEs (jField? ob "store")
      if !sameSet after before then return ⟨false, s!"op {idx}: writing the database changed the broadcasts"⟩
    | .op .restart =>
      let b := parseEs (jField? ob "before")
      let after := parseEs (jField? ob "store")
      if !sameSet b before then return ⟨false, s!"op {idx}: the broadcasts changed before the restart"⟩
      if !sameSet after b then
        let diff := (b.filter fun e => !after.contains e) ++ (after.filter fun e => !b.contains e)
        let key :=
          if (b ++ after).any fun e => hasBracket e.path then "bracket-key: "
          else if !diff.isEmpty && diff.all (fun e => nonFirst.contains e.path) then "multikey-first-only: "
          else ""
        let e := diff.head?.map fun e => s!"{e.point}/{e.ns} {e.path}={e.val}"
        return ⟨false, s!"{key}op {idx}: after the restart the broadcasts differ from what they were (e.g. {e})"⟩
      before := after
  return ⟨true, ""⟩

def handle (i o : Json) : Except String Reply := do
  let c ← parseCase i
  let v := judge c o
  return { model := Json.arr (runModel c).toArray, holds := v.ok, why := v.why }

end CylcModel.DrvC22

def main : IO Unit := CylcModel.Drv.run CylcModel.DrvC22.handle
