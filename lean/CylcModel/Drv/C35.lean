/-
Driver for C35: runs the `C3` model on a JSON case and judges the implementation's
observation against the property: the linearised ancestors are the C3 linearisation, i.e. the
order Python itself computes for the equivalent class hierarchy (the oracle named by the
property; the harness builds the classes with `type()` and passes their `__mro__` in the
input), and a hierarchy without a consistent linearisation is rejected.

input  i :
  {"mode": "c3", "decls": [[name, [parent...]]...]   -- topological order
   "py": [[name, [mro...] | null]...]}               -- Python's own MRO (null: the class cannot be created)
  {"mode": "config", "decls": [[name, [inherit...]]...], -- the [runtime] section, root first, topological
   "defs": [name...],                                 -- namespaces that set the probe item
   "py": [[name, [mro...] | null]...], "pywin": [[name, definer | null]...]}
observed o / model m :
  c3     : {"mro": [[name, [..] | "bad" | "undef"]...], "intact": bool}
  config : "err" | {"lin": [[name, [..]]...], "win": [[name, definer | null]...]}
-/
import CylcModel.Util.Drv
import CylcModel.C3
open Lean CylcModel.Drv CylcModel.C3

namespace CylcModel.DrvC35

def parseStrs (j : Json) : Except String (List String) :=
  match jArr? j with
  | some l => l.mapM fun x => (jStr? x).elim (.error "string expected") .ok
  | none => .error "array expected"

def parseDecl (j : Json) : Except String (String × List String) :=
  match jArr? j with
  | some [n, ps] => do
    let n ← (jStr? n).elim (.error "decl name") .ok
    return (n, ← parseStrs ps)
  | _ => .error "decl"

def parseOpt (j : Json) : Except String (String × Option (List String)) :=
  match jArr? j with
  | some [n, v] => do
    let n ← (jStr? n).elim (.error "py name") .ok
    if v.isNull then return (n, none) else return (n, some (← parseStrs v))
  | _ => .error "py entry"

def parseWin (j : Json) : Except String (String × Option String) :=
  match jArr? j with
  | some [n, v] => do
    let n ← (jStr? n).elim (.error "win name") .ok
    return (n, jStr? v)
  | _ => .error "win entry"

structure Case where
  config : Bool
  decls : List (String × List String)
  defs : List String
  py : List (String × Option (List String))
  pywin : List (String × Option String)

def parseCase (j : Json) : Except String Case := do
  let mode ← (jStrField? j "mode").elim (.error "mode") .ok
  let decls ← ((jArrField? j "decls").getD []).mapM parseDecl
  let defs ← match jField? j "defs" with | some d => parseStrs d | none => pure []
  let py ← ((jArrField? j "py").getD []).mapM parseOpt
  let pywin ← ((jArrField? j "pywin").getD []).mapM parseWin
  return ⟨mode == "config", decls, defs, py, pywin⟩

def jStrs (l : List String) : Json := jOfList Json.str l
def jOptStr : Option String → Json
  | some s => Json.str s
  | none => Json.null

/-! ### model output -/

def resJson : Res String → Json
  | .ok l => jStrs l
  | .bad => "bad"
  | .undef => "undef"

def modelC3 (c : Case) : Json :=
  let t := mroAll c.decls
  Json.mkObj [("mro", jOfList (fun (e : String × Res String) => Json.arr #[Json.str e.1, resJson e.2]) t),
              ("intact", Json.bool true)]

def modelConfig (c : Case) : Json :=
  match famTree c.decls with
  | none => "err"
  | some lins =>
    Json.mkObj [
      ("lin", jOfList (fun (e : String × List String) => Json.arr #[Json.str e.1, jStrs e.2]) lins),
      ("win", jOfList (fun (e : String × List String) =>
        Json.arr #[Json.str e.1, jOptStr (winner c.defs e.2)]) lins)]

/-- the effective parents in `config` mode, written from the documentation of `inherit`
(implicit `root`, leading `None` demotes the first parent); `none`: configuration error -/
def effParents (names : List String) (name : String) (inh : List String) : Option (List String) :=
  if name == "root" then some []
  else
    let inh := if inh.isEmpty then ["root"] else inh
    let inh' := if inh.head? == some "None" then inh.tail else inh
    if inh'.isEmpty || inh'.any (fun p => !names.contains p) then none else some inh'

/-- the driver's precondition on the order of declarations -/
def inputOrdered (c : Case) : Bool :=
  if c.config then
    let names := c.decls.map (·.1)
    topoOrdered (c.decls.map fun d => (d.1, (effParents names d.1 d.2).getD []))
  else topoOrdered c.decls

/-! ### judge (specification side: Python's MRO + the declarative C3 properties) -/

/-- `a` is a subsequence of `b` -/
def isSub : List String → List String → Bool
  | [], _ => true
  | _ :: _, [] => false
  | a :: as, b :: bs => if a == b then isSub as bs else isSub (a :: as) bs

/-- ancestors by closure over the declared parents (`fuel` = number of declarations) -/
def closure (decls : List (String × List String)) : Nat → List String → List String
  | 0, acc => acc
  | n + 1, acc =>
    let more := acc.flatMap fun x => (decls.lookup x).getD []
    closure decls n ((acc ++ more).eraseDups)

def sameSet (a b : List String) : Bool := a.all b.contains && b.all a.contains

structure Verdict where
  ok : Bool
  why : String := ""

/-- declarative C3 properties of an accepted linearisation `l` of `name`, given the parents and the
observed linearisations of the parents -/
def declarative (decls : List (String × List String)) (name : String) (ps : List String)
    (obsOf : String → Option (List String)) (l : List String) : Option String :=
  if l.head? != some name then some s!"linearisation of {name} does not start with {name}"
  else if l.eraseDups.length != l.length then some s!"linearisation of {name} has duplicates"
  else if !sameSet l (closure decls decls.length [name]) then
    some s!"linearisation of {name} is not its set of ancestors"
  else if !isSub (name :: ps) l then some s!"linearisation of {name} breaks local precedence"
  else
    match ps.find? (fun p => match obsOf p with | some lp => !isSub lp l | none => true) with
    | some p => some s!"linearisation of {name} is not monotone w.r.t. parent {p}"
    | none => none

def judgeC3 (c : Case) (o : Json) : Verdict := Id.run do
  let rows := (jArrField? o "mro").getD []
  if rows.length != c.decls.length then return ⟨false, "wrong number of results"⟩
  if (jBoolField? o "intact") != some true then return ⟨false, "C3.mro modified the tree it was given"⟩
  let obs : List (String × Json) := rows.filterMap fun r =>
    match jArr? r with | some [n, v] => (jStr? n).map (·, v) | _ => none
  let obsOf (p : String) : Option (List String) :=
    (obs.lookup p).bind fun v => match parseStrs v with | .ok l => some l | .error _ => none
  for (name, ps) in c.decls do
    let want := (c.py.lookup name).getD none
    let got := (obs.lookup name).getD Json.null
    match want with
    | none =>
      -- Python cannot build the class: the hierarchy has no consistent linearisation → must be rejected
      if (jArr? got).isSome then
        return ⟨false, s!"{name}: no consistent linearisation (Python refuses the class) but {got.compress} was returned"⟩
    | some l =>
      match obsOf name with
      | none => return ⟨false, s!"{name}: consistent hierarchy rejected ({got.compress}); Python gives {l}"⟩
      | some g =>
        if g != l then return ⟨false, s!"{name}: linearised ancestors {g} differ from Python's MRO {l}"⟩
        match declarative c.decls name ps obsOf g with
        | some w => return ⟨false, w⟩
        | none => pure ()
  return ⟨true, ""⟩

def judgeConfig (c : Case) (o : Json) : Verdict := Id.run do
  let anyBad := c.py.any (·.2.isNone)
  if o == Json.str "err" then
    if anyBad then return ⟨true, ""⟩
    else return ⟨false, "a consistent runtime hierarchy was rejected"⟩
  if anyBad then return ⟨false, "a runtime hierarchy with no consistent linearisation was accepted"⟩
  let names := c.decls.map (·.1)
  let eff : List (String × List String) :=
    c.decls.map fun d => (d.1, (effParents names d.1 d.2).getD [])
  let lin : List (String × Json) := ((jArrField? o "lin").getD []).filterMap fun r =>
    match jArr? r with | some [n, v] => (jStr? n).map (·, v) | _ => none
  let win : List (String × Json) := ((jArrField? o "win").getD []).filterMap fun r =>
    match jArr? r with | some [n, v] => (jStr? n).map (·, v) | _ => none
  let obsOf (p : String) : Option (List String) :=
    (lin.lookup p).bind fun v => match parseStrs v with | .ok l => some l | .error _ => none
  for (name, ps) in eff do
    match (c.py.lookup name).getD none, obsOf name with
    | some l, some g =>
      if g != l then return ⟨false, s!"{name}: linearised ancestors {g} differ from Python's MRO {l}"⟩
      match declarative eff name ps obsOf g with
      | some w => return ⟨false, w⟩
      | none => pure ()
      -- the inherited value comes from the first namespace of the MRO that defines it
      let wantWin := (c.pywin.lookup name).getD none
      let gotWin := (win.lookup name).getD Json.null
      if gotWin != jOptStr wantWin then
        return ⟨false, s!"{name}: inherited item comes from {gotWin.compress}, Python attribute lookup gives {wantWin}"⟩
    | _, _ => return ⟨false, s!"{name}: no linearised ancestors reported"⟩
  return ⟨true, ""⟩

def handle (i o : Json) : Except String Reply := do
  let c ← parseCase i
  if !inputOrdered c then throw "declarations are not in topological order"
  if o == Json.str "timeout" then
    return { model := if c.config then modelConfig c else modelC3 c, holds := false,
             why := "the linearisation did not terminate within 20 s of CPU time" }
  if c.config then
    let v := judgeConfig c o
    return { model := modelConfig c, holds := v.ok, why := v.why }
  else
    let v := judgeC3 c o
    return { model := modelC3 c, holds := v.ok, why := v.why }

end CylcModel.DrvC35

def main : IO Unit := CylcModel.Drv.run CylcModel.DrvC35.handle
