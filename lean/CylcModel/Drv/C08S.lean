/-
Driver for C08S (scheduler-level half of C08: flow numbers propagate, merge and are never reused):
`Sched3Set` correspondence + judge on the observed trace of the REAL scheduler.

The judge is a monitor written from the property text.  Per operation it reads the observation of the real
scheduler before and after (pool with flows, flow-wait flags, the log of processed messages with the outputs
completed by each, removals, the committed rows of task_states ⋈ task_outputs, the flow counter), the recorded
`cylc set` commands and the children per output of the static instance graph.  It never calls a transition
function of the model.  It demands

* `child-lacks-parent-flow`  when an output of task T is completed (naturally, or forced by `cylc set`) every
                           child of that output that is in the pool afterwards carries all flow numbers of T
                           (T without flows, a transient object of a removed task, or a T that waits for a flow
                           merge spawn nothing) — the new child and the existing instance alike (union);
* `flows-shrank`           an instance that stays in the pool (is not removed in the operation) never loses a flow number;
* `flow-from-nowhere`      the flow numbers a pooled instance gains in an operation come from a parent that completed
                           an output in that operation, from the parentless predecessor of the instance, or from the
                           `--flow` option of the command; a new instance has only such flow numbers;
* `rerun-in-flow`          no instance enters the pool in a flow in which the database already records it as finished
                           (final status) with its completion condition satisfied (an instance spawned in other flows,
                           as its new database row shows, may get such a flow merged into it);
* `flow-number-reused`     a flow started with `--flow=new` gets a number that no proxy or database row of the history
                           (restarts included) has carried before.
-/
import CylcModel.Sched3SetObs
open Lean CylcModel.Drv CylcModel.Sched3Set CylcModel.S3Obs

namespace CylcModel.DrvC08S

def firstSome {α} (l : List α) (f : α → Option String) : Option String :=
  l.foldl (fun acc x => match acc with | some w => some w | none => f x) none

def finalSt (s : String) : Bool := s == "succeeded" || s == "failed" || s == "expired" || s == "submit-failed"

/-- the completion condition of a task over completed triggers (own small evaluator) -/
def evalCE (done : List String) : CE → Bool
  | .var v => done.any fun t => t.replace "-" "_" == v
  | .and l r => evalCE done l && evalCE done r
  | .or l r => evalCE done l || evalCE done r

/-- (parent, its flows at the time) for every output completion of this operation that spawns children -/
def spawners (g : Graph) (op : Json) (pre post : Ob) : List (Key × String × List Nat) :=
  let setc := parseSet? op
  post.msgs.filterMap fun m =>
    let trg := trigOfMsg g m.key.2 m.m
    let newly := !m.bOut.contains trg && m.aOut.contains trg
    if !newly || m.r || (m.tr && !m.forced) then none else
    let cmdF : List Nat := match setc with
      | some c => if c.key == m.key then cmdFlows c pre post else []
      | none => []
    let isTarget := match setc with | some c => c.key == m.key | none => false
    match pre.get? m.key with
    | some x =>
      -- waiting for a merge: nothing is spawned (unless this command merged new flows into it)
      if pre.fw.contains m.key && (post.fw.contains m.key || !post.has m.key) then none
      else some (m.key, m.m, unionN x.fl cmdF)
    | none =>
      if isTarget then
        (match setc with
         | some c => if c.wait then none else some (m.key, m.m, cmdF)
         | none => none)
      else none

/-- every flow number carried by a proxy or a database row of an observation -/
def flowsOfOb (ob : Ob) : List Nat :=
  let a := ob.pool.foldl (fun acc t => unionN acc t.fl) []
  (ob.ts.getD []).foldl (fun acc r => unionN acc r.fl) a

def judgeOp (g : Graph) (op : Json) (pre post : Ob) (used : List Nat) : Option String :=
  if opName op == "restart" then none else
  let sp := spawners g op pre post
  let setc := parseSet? op
  -- child_inherits / union
  let c1 := firstSome sp fun (k, m, pf) =>
    if pf.isEmpty then none else
    firstSome (childKeys g k m) fun ck =>
      if ck == k then none else
      match post.get? ck with
      | none => none
      | some ct =>
        if subset pf ct.fl then none
        else some s!"child-lacks-parent-flow: {showKey ck} has flows {ct.fl} after {showKey k}:{m} completed in flows {pf}"
  -- flows never shrink, and grow only from a cause
  let cmdF : List Nat := match setc with | some c => cmdFlows c pre post | none => []
  let c2 := firstSome post.pool fun ct =>
    let old : List Nat := match pre.get? ct.key with | some t => t.fl | none => []
    -- (an instance that was removed and spawned again within the operation is another proxy)
    if !subset old ct.fl && !post.removed.contains ct.key then
      some s!"flows-shrank: {showKey ct.key} had flows {old}, now {ct.fl}" else
    let gained := ct.fl.filter fun f => !old.contains f
    if gained.isEmpty then none else
    let fromParents := (sp.filter fun (k, m, _) => (childKeys g k m).contains ct.key).flatMap fun e => e.2.2
    -- a finished parent recorded in the database spawns its children when its flow wait ends
    let fromPred := (pre.pool ++ post.pool).flatMap fun t =>
      if (nextOf g t.key).contains ct.key then t.fl else []
    let fromCmd := match setc with | some c => if (reach g c.key).contains ct.key then cmdF else [] | none => []
    -- any pooled or recorded graph parent (spawn on all completed outputs after a merge / flow wait)
    let fromAnyParent := (pre.pool ++ post.pool).flatMap fun t =>
      if (allChildKeys g t.key).contains ct.key then t.fl else []
    -- a parent / predecessor that was spawned and removed again within this operation is seen in neither pool:
    -- then the number must at least be carried by something before the operation
    let viaRemoved := (post.removed.any fun rk => (allChildKeys g rk).contains ct.key || (nextOf g rk).contains ct.key)
      -- ... or a finished parent that is recorded in the database only (its children are spawned when a flow
      -- reaches it after a flow wait)
      || ((pre.ts.getD []).any fun r => (allChildKeys g r.key).contains ct.key)
    let before := unionN (flowsOfOb pre) cmdF
    let ok := gained.all fun f => fromParents.contains f || fromPred.contains f || fromCmd.contains f ||
                                   fromAnyParent.contains f || (viaRemoved && before.contains f)
    if ok then none
    else some s!"flow-from-nowhere: {showKey ct.key} gained flows {gained} (had {old}) without a parent, predecessor or command carrying them"
  -- no re-run in a flow in which the instance is finished and complete
  let c3 := firstSome post.pool fun ct =>
    if pre.has ct.key then none else
    match g.task? ct.key.2 with
    | none => none
    | some t =>
      -- rows of the instance written in this operation: an instance that was spawned in other flows (a row of flows
      -- that do not meet the finished ones) and got the finished flow merged into it within the same operation did
      -- not enter the pool in the finished flow
      let newRows := (post.rowsOf ct.key).filter fun r' => !((pre.rowsOf ct.key).any fun r0 => r0.fl == r'.fl)
      firstSome (pre.rowsOf ct.key) fun r =>
        if meets r.fl ct.fl && finalSt r.st && evalCE r.outs t.completion &&
            !(newRows.any fun r' => !meets r'.fl r.fl) then
          some s!"rerun-in-flow: {showKey ct.key} entered the pool in flows {ct.fl} but the database records it {r.st} and complete in flows {r.fl}"
        else none
  -- a new flow is a fresh number
  let c4 : Option String := match setc with
    | some c =>
      if c.flow == ["new"] && post.flowCounter != pre.flowCounter then
        if used.contains post.flowCounter then
          some s!"flow-number-reused: --flow=new got {post.flowCounter}, a number used before in this history"
        else none
      else none
    | none => none
  match c1 with
  | some w => some w
  | none => match c2 with
    | some w => some w
    | none => match c3 with
      | some w => some w
      | none => c4

/-- every flow number carried by a proxy or a database row of an observation (a number named by a command that
had no effect is not a used number) -/
def flowsSeen (ob : Ob) (_op : Option Json) : List Nat := flowsOfOb ob

def judge (g : Graph) (ops : List Json) (obs : List Json) : Option String :=
  let rec go (idx : Nat) (used : List Nat) : List Json → List Json → Option String
    | op :: ops, pre :: post :: rest =>
      let a := parseOb pre
      let b := parseOb post
      let used := unionN used (flowsSeen a none)
      match judgeOp g op a b used with
      | some w =>
        match w.splitOn ": " with
        | key :: restW => some s!"{key}: op {idx} ({opName op}): {": ".intercalate restW}"
        | _ => some w
      | none => go (idx + 1) (unionN used (flowsSeen b (some op))) ops (post :: rest)
    | _, _ => none
  go 1 [] ops obs

def handle (i o : Json) : Except String Reply := do
  if let some r := crashReplyKeyed? i then return r
  let c ← parseCase i
  let ops := (jArrField? i "ops").getD []
  match judge c.graph ops (obsList o) with
  | some w => return { model := modelObs c, holds := false, why := w }
  | none => return { model := modelObs c, holds := true }

end CylcModel.DrvC08S

def main : IO Unit := CylcModel.Drv.run CylcModel.DrvC08S.handle
