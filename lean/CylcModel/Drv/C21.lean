/-
Driver for C21: runs the `Db` model on a JSON case (rounds of queued operations with injected
faults) and judges the implementation's observations against the property text.

input  i : {"max_tries": n|null,
            "rounds": [{"ops": [OP...], "pri": F, "pub": F, "rep": n}]}
   OP : {"k":"del","t":T,"w":{col:V}} | {"k":"ins","t":T,"r":[V...]} | {"k":"insd","t":T,"r":{col:V}}
      | {"k":"upd","t":T,"s":{col:V},"w":{col:V}}          V : null | int | string
   F  : null | ["fail",k,j] | ["crash",k,j] | ["crash",k,j,"fork"] | ["lock"]
        (k: executemany call, j: rows done before the error; "fork": how the harness kills, same meaning)
   One round = process_queued_ops (ops queued in the first repetition only) + database_health_check,
   repeated "rep" times.
observed o / model m : one entry per repetition
   {"pr": "ok"|"fail"|"noop"|"crash"|"crashafter", "ur": "ok"|"fail"|"noop"|"skip"|"crash"|"crashafter",
    "hit": [b, b], "tries": n, "rec": b, "pri": C|"=", "pub": C|"="}
   C : {table: [[V...]...]}  non-empty tables only, rows sorted by the harness; "=": same as the previous entry
-/
import CylcModel.Util.Drv
import CylcModel.Db
open Lean CylcModel.Drv CylcModel.Db

namespace CylcModel.DrvC21

def need {α} (o : Option α) (what : String) : Except String α :=
  match o with | some v => .ok v | none => .error what

def parseVal (j : Json) : Except String Val :=
  match j with
  | .null => .ok .null
  | .str s => .ok (.str s)
  | _ => match jInt? j with
    | some v => .ok (.int v)
    | none => .error s!"value {j.compress}"

def valJson : Val → Json
  | .null => Json.null
  | .int i => jOfInt i
  | .str s => Json.str s

def parseDict (j : Option Json) : Except String (List (String × Val)) :=
  match j with
  | none => .ok []
  | some (.obj kvs) => kvs.toList.mapM fun (k, v) => do return (k, ← parseVal v)
  | some .null => .ok []
  | some x => .error s!"dict {x.compress}"

def parseOp (j : Json) : Except String Op := do
  let k ← need (jStrField? j "k") "op.k"
  let t ← need (jStrField? j "t") "op.t"
  match k with
  | "del" => return .del t (← parseDict (jField? j "w"))
  | "ins" => return .insList t (← (← need (jArrField? j "r") "op.r").mapM parseVal)
  | "insd" => return .insDict t (← parseDict (jField? j "r"))
  | "upd" => return .upd t (← parseDict (jField? j "s")) (← parseDict (jField? j "w"))
  | s => .error s!"op kind {s}"

inductive F where
  | none | fail (k j : Nat) | crash (k j : Nat) | lock
  deriving DecidableEq

def parseFault (j : Option Json) : Except String F :=
  match j with
  | Option.none => .ok .none
  | some .null => .ok .none
  | some v =>
    match jArr? v with
    | some [tag] => if tag == Json.str "lock" then .ok .lock else .error "fault"
    | some (tag :: k :: jj :: _) => do
      let k ← need (jNat? k) "fault.k"
      let jj ← need (jNat? jj) "fault.j"
      if tag == Json.str "fail" then return .fail k jj
      else if tag == Json.str "crash" then return .crash k jj
      else .error "fault tag"
    | _ => .error "fault"

def F.toFault : F → Fault
  | .none => .none
  | .fail k j => .at k j
  | .crash k j => .at k j
  | .lock => .lock

def F.isCrash : F → Bool
  | .crash _ _ => true
  | _ => false

structure Round where
  ops : List Op
  pri : F
  pub : F
  rep : Nat

structure Case where
  cfg : Cfg
  rounds : List Round

def parseCase (i : Json) : Except String Case := do
  let mt := ((jOptField i "max_tries").bind jNat?).getD liveCfg.maxTries
  let rs ← (← need (jArrField? i "rounds") "rounds").mapM fun r => do
    let ops ← ((jArrField? r "ops").getD []).mapM parseOp
    return (⟨ops, ← parseFault (jField? r "pri"), ← parseFault (jField? r "pub"),
             (jNatField? r "rep").getD 1⟩ : Round)
  return ⟨{ liveCfg with maxTries := mt }, rs⟩

/-! ### canonical content -/

def valLe : Val → Val → Bool
  | .null, _ => true
  | .int _, .null => false
  | .int a, .int b => a ≤ b
  | .int _, .str _ => true
  | .str _, .null => false
  | .str _, .int _ => false
  | .str a, .str b => a ≤ b

def rowLe : Row → Row → Bool
  | [], _ => true
  | _ :: _, [] => false
  | a :: as, b :: bs => if a = b then rowLe as bs else valLe a b

def canon (db : Db) : List (String × Table) :=
  schemas.filterMap fun s =>
    let rows := (db s.name).mergeSort rowLe
    if rows.isEmpty then none else some (s.name, rows)

def contentJson (c : List (String × Table)) : Json :=
  Json.mkObj (c.map fun (n, rows) => (n, jOfList (jOfList valJson) rows))

def resJson (crashRound : Bool) : ExecResult → String
  | .noop => "noop"
  | .committed => if crashRound then "crashafter" else "ok"
  | .failed .natural => "fail"
  | .failed .injected => if crashRound then "crash" else "fail"

structure StepOut where
  pr : String
  ur : String
  hitPri : Bool
  hitPub : Bool
  tries : Nat
  recovered : Bool

/-- an `sqlite3.Error` was raised (an injected crash kills the process instead) -/
def wasError (crashRound : Bool) : ExecResult → Bool
  | .failed .natural => true
  | .failed .injected => !crashRound
  | _ => false

/-- one repetition: process_queued_ops (+ crash / restart) then the health check -/
def stepModel (c : Cfg) (m : Mgr) (ops : List Op) (pf uf : F) : Mgr × StepOut :=
  if pf.isCrash then
    -- the process dies during (or right after) the private write; the public write is never reached
    let pri := ops.foldl (Dao.enqueue schemas) m.pri
    let (pri', r) := pri.exec c schemas pf.toFault
    (Mgr.restart { m with pri := pri' }, ⟨resJson true r, "skip", wasError true r, false, 0, false⟩)
  else
    let (m1, r) := m.process c schemas ops pf.toFault uf.toFault
    let ur := match r.pub with | Option.none => "skip" | some x => resJson uf.isCrash x
    let hitPub := match r.pub with | Option.none => false | some x => wasError uf.isCrash x
    if uf.isCrash then
      -- the process dies during (or at the end of) process_queued_ops
      (Mgr.restart m1, ⟨resJson false r.pri, ur, wasError false r.pri, hitPub, 0, false⟩)
    else
      let (m2, rec) := m1.recover c
      (m2, ⟨resJson false r.pri, ur, wasError false r.pri, hitPub, m2.pub.nTries, rec⟩)

def runModel (cs : Case) : List Json := Id.run do
  let mut m := Mgr.start emptyDb
  let mut out : List Json := []
  let mut prevPri : List (String × Table) := []
  let mut prevPub : List (String × Table) := []
  let mut first := true
  for r in cs.rounds do
    for n in List.range r.rep do
      let (m', so) := stepModel cs.cfg m (if n == 0 then r.ops else []) r.pri r.pub
      m := m'
      let cp := canon m.pri.store.file
      let cu := canon m.pub.store.file
      let pj := if !first && cp == prevPri then Json.str "=" else contentJson cp
      let uj := if !first && cu == prevPub then Json.str "=" else contentJson cu
      prevPri := cp; prevPub := cu; first := false
      out := out ++ [Json.mkObj [("pr", so.pr), ("ur", so.ur),
        ("hit", Json.arr #[Json.bool so.hitPri, Json.bool so.hitPub]),
        ("tries", jOfNat so.tries), ("rec", Json.bool so.recovered), ("pri", pj), ("pub", uj)]]
  return out

/-! ### Judge: the property evaluated on the observations (no model function is used) -/

def opKindTable (o : Op) : String × String :=
  match o with
  | .del t _ => ("del", t) | .insList t _ => ("ins", t) | .insDict t _ => ("ins", t) | .upd t _ _ => ("upd", t)

/-- merging batch `a` (queued earlier, still pending) with the later batch `b` can change the
order of two statements on the same table: (ins, later del), (upd, later del/ins/upd) -/
def reorderProne (a b : List Op) : Bool :=
  a.any fun x => b.any fun y =>
    let (kx, tx) := opKindTable x
    let (ky, ty) := opKindTable y
    tx == ty && ((kx == "ins" && ky == "del") || kx == "upd")

def anyPairProne : List (List Op) → Bool
  | [] => false
  | a :: rest => rest.any (reorderProne a) || anyPairProne rest

/-- the row an insert operation stores (pad / truncate / pick by column name) -/
def insertedRow (o : Op) : Option (String × List Json) :=
  match o with
  | .insList t r =>
    let n := (colsOf schemas t).length
    some (t, ((r.map valJson) ++ List.replicate (n - r.length) Json.null).take n)
  | .insDict t d => some (t, (colsOf schemas t).map fun c => match d.lookup c with | some v => valJson v | none => Json.null)
  | _ => Option.none

structure Verdict where
  ok : Bool
  why : String

def judge (cs : Case) (o : Json) : Verdict := Id.run do
  let steps := (jArr? o).getD []
  let expected := cs.rounds.foldl (fun n r => n + r.rep) 0
  if steps.length != expected then return ⟨false, s!"{steps.length} observations for {expected} steps"⟩
  let mut idx := 0
  let mut pri : Json := Json.mkObj []
  let mut pub : Json := Json.mkObj []
  -- batches handed to the public DAO and not yet committed there
  let mut pubPending : List (List Op) := []
  let mut staleAfterRecovery := false
  -- the private DAO holds statements of a failed attempt
  let mut priDirty := false
  for r in cs.rounds do
    for n in List.range r.rep do
      let st := steps.getD idx Json.null
      idx := idx + 1
      let ops := if n == 0 then r.ops else []
      let pr := (jStrField? st "pr").getD "?"
      let ur := (jStrField? st "ur").getD "?"
      let hit := ((jArrField? st "hit").getD []).map fun b => b == Json.bool true
      let pri' := match jField? st "pri" with | some (.str "=") => pri | some v => v | none => Json.null
      let pub' := match jField? st "pub" with | some (.str "=") => pub | some v => v | none => Json.null
      let tries := (jNatField? st "tries").getD 0
      let recovered := (jBoolField? st "rec").getD false
      -- atomicity: an error or a crash inside the private transaction leaves the private DB as it was
      if (hit.getD 0 false || pr == "fail" || pr == "crash") && pri' != pri then
        return ⟨false, s!"step {idx}: the private write failed ({pr}) but the private database changed"⟩
      if pr == "noop" && pri' != pri then
        return ⟨false, s!"step {idx}: nothing was written but the private database changed"⟩
      -- a committed batch is applied: the last row inserted into a table without queued updates is there
      if (pr == "ok" || pr == "crashafter") && !priDirty then
        for op in ops.reverse do
          match insertedRow op with
          | some (t, row) =>
            let laterSame := (ops.dropWhile (· != op)).drop 1 |>.any fun o2 => (opKindTable o2).2 == t && (opKindTable o2).1 != "del"
            let updates := ops.any fun o2 => opKindTable o2 == ("upd", t)
            if !laterSame && !updates && row.head? != some (Json.str "CYLC_TEMPLATE_VARS") then
              let rows := ((jField? pri' t).bind jArr?).getD []
              if !rows.contains (Json.arr row.toArray) then
                return ⟨false, s!"step {idx}: private write committed but row {(Json.arr row.toArray).compress} of {t} is missing"⟩
          | Option.none => pure ()
      if pr == "ok" || pr == "crashafter" then priDirty := false
      if pr == "fail" then priDirty := true
      -- public side
      if !ops.isEmpty then pubPending := pubPending ++ [ops]
      let crashed := r.pri.isCrash || r.pub.isCrash
      if ur == "ok" then
        if pub' != pri' then
          let key :=
            if staleAfterRecovery then "pub-recover-stale-queue: "
            else if anyPairProne pubPending then "pub-retry-reorder: "
            else ""
          return ⟨false, s!"{key}step {idx}: the public write committed but the public database differs from the private one"⟩
        pubPending := []
        staleAfterRecovery := false
      if recovered then
        if pub' != pri' then
          return ⟨false, s!"step {idx}: recovered from the private database but the contents differ"⟩
        if !pubPending.isEmpty then staleAfterRecovery := true
      if crashed then
        if pub' != pri' then
          return ⟨false, s!"step {idx}: after the restart the public database differs from the private one"⟩
        pubPending := []
        staleAfterRecovery := false
        priDirty := false
      if tries ≥ cs.cfg.maxTries then
        return ⟨false, s!"step {idx}: {tries} failed public writes, threshold {cs.cfg.maxTries}, no recovery"⟩
      if ur == "noop" && pub' != pub && !recovered then
        return ⟨false, s!"step {idx}: nothing was written but the public database changed"⟩
      pri := pri'
      pub := pub'
  return ⟨true, ""⟩

def handle (i o : Json) : Except String Reply := do
  let c ← parseCase i
  let v := judge c o
  return { model := Json.arr (runModel c).toArray, holds := v.ok, why := v.why }

end CylcModel.DrvC21

def main : IO Unit := CylcModel.Drv.run CylcModel.DrvC21.handle
