/-
Driver for C36: runs the `Lines` model of `read_and_proc` (include inlining, Jinja2 as an oracle
table, continuation joining, final strip, dump, second pass over the dumped file) and judges the
configurations the real `parse` produced for the source and for the processed file.

input  i : {"files": [[name, text] ...], "main": name,
            "jinja": [[[line ...], [line ...] | null] ...]}   -- Jinja2 oracle: what the real jinja2process
                                                               -- returned for the line lists it was given
observed o : {"l1": [line ...] | "err",          -- read_and_proc(source)
              "dump": text | null,               -- the processed file parse() wrote
              "l2": [line ...] | "err" | "skip", -- read_and_proc(processed file)
              "cfg": "same" | "diff" | "src-error" | "skip"}   -- parse(source) vs parse(processed file)
model    m : the same with "cfg": "lines-equal" (the model's two passes agree, so the configurations do,
             whatever `parse` makes of the lines) | "unknown"
-/
import CylcModel.Util.Drv
import CylcModel.Lines
open Lean CylcModel.Drv CylcModel.Lines

namespace CylcModel.DrvC36

def need {α} (o : Option α) (what : String) : Except String α :=
  match o with | some v => .ok v | none => .error what

def linesOf (j : Json) : Except String (List Line) := do
  (← need (jArr? j) "lines").mapM fun e => do return (← need (jStr? e) "line").toList

def jLines (ls : List Line) : Json := Json.arr (ls.map fun l => Json.str (String.ofList l)).toArray

structure Case where
  files : List (Line × List Char)
  main : Line
  jinja : List (List Line × Option (List Line))

def parseCase (i : Json) : Except String Case := do
  let files ← ((jArrField? i "files").getD []).mapM fun e => match jArr? e with
    | some [n, t] => do return ((← need (jStr? n) "file name").toList, (← need (jStr? t) "file text").toList)
    | _ => .error "file"
  let main ← need (jStrField? i "main") "main"
  let jinja ← ((jArrField? i "jinja").getD []).mapM fun e => match jArr? e with
    | some [a, b] => do
      let out ← match b with
        | .null => pure none
        | x => do pure (some (← linesOf x))
      return (← linesOf a, out)
    | _ => .error "jinja entry"
  return ⟨files, main.toList, jinja⟩

inductive JRes | out (ls : List Line) | fail | miss

def modelOut (c : Case) : Json :=
  let cc := Generated.LinesCfg.checkCompleted
  let ke := Generated.LinesCfg.keepExposed
  -- the oracle; a request that the real Jinja2 never saw is a disagreement by itself
  let J : List Line → Option (List Line) := fun ls =>
    match c.jinja.find? (fun e => e.1 == ls) with
    | some (_, some out) => some out
    | _ => none
  let known (ls : List Line) : Bool := (c.jinja.find? (fun e => e.1 == ls)).isSome
  let fmap : Files := c.files.map fun f => (f.1, splitLines f.2)
  match c.files.find? (fun f => f.1 == c.main) with
  | none => Json.mkObj [("l1", "no-main")]
  | some (_, text) =>
    -- oracle coverage of pass 1
    let inl1 := inline includeDepth fmap (splitLines text)
    let miss1 := match inl1 with | some l => isJinja l && !known l | none => false
    if miss1 then Json.mkObj [("l1", "jinja-oracle-miss")] else
    match readAndProc cc ke J fmap text with
    | none => Json.mkObj [("l1", "err"), ("dump", Json.null), ("l2", "skip"), ("cfg", "unknown")]
    | some l1 =>
      let d := dump l1
      let inl2 := inline includeDepth [] (splitLines d)
      let miss2 := match inl2 with | some l => isJinja l && !known l | none => false
      if miss2 then Json.mkObj [("l1", jLines l1), ("l2", "jinja-oracle-miss")] else
      match readAndProc cc ke J [] d with
      | none => Json.mkObj [("l1", jLines l1), ("dump", Json.str (String.ofList d)), ("l2", "err"), ("cfg", "unknown")]
      | some l2 =>
        Json.mkObj [("l1", jLines l1), ("dump", Json.str (String.ofList d)), ("l2", jLines l2),
                    ("cfg", if l1 == l2 then "lines-equal" else "unknown")]

/-! ### judge: the property on the implementation's two parses -/

def pySpace (c : Char) : Bool := Generated.LinesCfg.pySpace.contains c.toNat

/-- a physical line ending in a backslash followed by whitespace only (what the known finding is about) -/
def hidesBackslash (l : List Char) : Bool :=
  let hid (r : List Char) : Bool :=          -- r: the line reversed
    let s := r.dropWhile pySpace
    s.length < r.length && s.head? == some '\\'
  -- "x \ " ; or "x \ \" (as the last line of a file its final backslashes are dropped first)
  hid l.reverse || hid (l.reverse.dropWhile (· == '\\'))

def physLines (t : List Char) : List (List Char) :=
  (t.splitOn '\n').flatMap (·.splitOn '\r')

def judge (c : Case) (o : Json) : Bool × String :=
  match jStrField? o "cfg" with
  | some "diff" =>
    let l1 := ((jArrField? o "l1").getD []).filterMap jStr?
    -- the recorded finding: some physical line of the source, of an include file or of the Jinja2 output
    -- hides a backslash behind trailing whitespace, and a processed line ends with a backslash
    let trigger := c.files.any (fun f => (physLines f.2).any hidesBackslash) ||
      c.jinja.any (fun e => match e.2 with | some out => out.any hidesBackslash | none => false)
    let exposed := trigger && l1.any fun s => s.endsWith "\\"
    let directive := (match l1 with
      | f :: _ => f.startsWith "#!jinja2" || f.startsWith "#!Jinja2"
      | [] => false) || l1.any fun s =>
        let t := s.trimLeft
        t.startsWith "%include " || t.startsWith "%include\t"
    ((false : Bool), (if exposed then "backslash-exposed: " else if directive then "directive-in-output: " else "") ++
      "parsing the processed file gives a different configuration than parsing the source")
  | some _ => (true, "")
  | none => (false, "no cfg in the observation")

def handle (i o : Json) : Except String Reply := do
  let c ← parseCase i
  let (h, why) := judge c o
  return { model := modelOut c, holds := h, why := why }

end CylcModel.DrvC36

def main : IO Unit := CylcModel.Drv.run CylcModel.DrvC36.handle
