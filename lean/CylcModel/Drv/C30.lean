/-
Driver for C30 (removing a task undoes exactly its effects): `Sched3Rm` correspondence + judge on the observed
trace of the real scheduler.

The judge is written from the property text.  For every `cylc remove` command of the case it reads the ids,
the `--flow` numbers `F` (none / `all` = every flow) and the observations before / after the command (pool
with flows, outputs and the way every prerequisite atom -- normal and suicide -- is satisfied; the proxies
added / removed by the command) and of the following operations (pool, completed outputs, the committed rows
of `task_states` / `task_outputs`).  Spec-side notions:

* a *matched id* names a task instance of the graph; every matched id `T` is to be removed from the flows `F`;
* `T`'s flows to remove: all of its flows if `F` is empty, else those in `F`; `T` leaves the pool iff none remain;
* a pooled proxy `X` is *concerned* if it is in some flow of `F` (any flow, if `F` is empty);
* the atoms `T` *satisfied naturally* in `X`: the atoms on `T` marked 'satisfied naturally' / 'from database'
  (not 'force satisfied').

Clauses (each failure names its clause; the prefix before the first `:` is a finding key when the failure
belongs to a recorded finding):

* `flows`      a pooled matched id keeps exactly its flows outside `F`; it is out of the pool iff none remain
               (an instance that comes back during the command must be a fresh one: waiting, no outputs);
* `others`     any other proxy keeps its flows (a parentless successor of a removed / released proxy may gain
               that proxy's flows: `spawn_next_parentless`) and stays in the pool unless it is a child that has
               to stand down; no pooled proxy's completed outputs change;
* `prereqs`    in every concerned proxy exactly the atoms the matched ids satisfied naturally become
               unsatisfied; every other atom of every proxy keeps its state;
* `children`   a concerned child that is not matched itself, is in no flow outside `F`, has not started
               preparing and is left without any satisfied prerequisite leaves the pool (and nothing else does);
* `history`    at the next commit of the run database no `task_states` / `task_outputs` row of a matched id
               (or of a child that stood down) carries a flow of `F` (unless the instance was spawned again
               in the meantime), and an instance spawned again in the meantime has its `task_states` row;
* `others-history` every `task_states` / `task_outputs` row of a task other than the matched ids keeps its flows
               (after the command and at the next commit); only a child that stood down loses, in its rows, the flows
               it was removed in -- its history in other flows stays;
* `respawn`    "so it can run again later": until that commit, an output completed upstream of an id that was
               removed from all its flows spawns it again as if it had never run.

Recorded findings (keys): `erase-deferred`, `active-elsewhere-history-kept`, `abs-trigger-dependants` -- see
findings/C30.json.
The judge never calls the transition functions of the model (it uses the decoded instance graph only).
-/
import CylcModel.Sched3RmJson
import CylcModel.Generated.RmFlags
open Lean CylcModel.Drv CylcModel.Sched3Rm

namespace CylcModel.DrvC30

abbrev Key := Int × String
/-- prerequisite atom with its satisfaction code: point, task, output message, 0 no / 1 naturally / 2 from
database / 3 forced -/
abbrev AtomC := Int × String × String × Nat

def showKey (k : Key) : String := s!"{k.1}/{k.2}"
def showAtom (a : AtomC) : String := s!"{a.1}/{a.2.1}:{a.2.2.1}={a.2.2.2}"

def keyArr? (j : Json) : Option Key :=
  match jArr? j with
  | some (p :: n :: _) => do pure ((← jInt? p), (← jStr? n))
  | _ => none

def natList (j : Option Json) : List Nat := ((j.bind jArr?).getD []).filterMap jNat?
def strList (j : Option Json) : List String := ((j.bind jArr?).getD []).filterMap jStr?

def atomsOf (pres : List Json) : List AtomC :=
  pres.flatMap fun p => ((jArr? p).getD []).filterMap fun a =>
    match jArr? a with
    | some [p, n, m, c] => do pure ((← jInt? p), (← jStr? n), (← jStr? m), (← jNat? c))
    | _ => none

structure PO where
  key : Key
  st : String
  fl : List Nat
  out : List String            -- completed output *triggers*
  rh : Bool
  pre : List AtomC             -- the atoms of all (normal) prerequisites
  sui : List AtomC             -- the atoms of all suicide prerequisites
  deriving Inhabited

structure Row where
  key : Key
  fl : List Nat
  states : Bool                -- a row of `task_states` (else of `task_outputs`)
  deriving Inhabited

structure Ob where
  pool : List PO
  adds : List Key
  removed : List (Key × List String)      -- key, completed output triggers at removal
  fw : List Key                            -- pooled proxies with the flow-wait flag up
  rows : Option (List Row)                 -- committed rows of task_states and task_outputs (none: not observed)
  stopPoint : Option Int
  deriving Inhabited

def parseOb (ob : Json) : Ob :=
  let xt := (jField? ob "xt").getD Json.null
  let xpre := ((jArrField? xt "pool").getD []).map fun t => (keyOf t, atomsOf ((jArrField? t "pre").getD []))
  let xsui := ((jArrField? ob "xsui").getD []).filterMap fun t =>
    match jArr? t with
    | some [p, n, pres] => do pure (((← jInt? p), (← jStr? n)), atomsOf ((jArr? pres).getD []))
    | _ => none
  let pool := (poolOf ob).map fun t =>
    let k := keyOf t
    ({ key := k, st := (jStrField? t "st").getD "", fl := natList (jField? t "fl"),
       out := strList (jField? t "out"), rh := (jBoolField? t "rh").getD false,
       pre := ((xpre.find? (·.1 == k)).map (·.2)).getD [],
       sui := ((xsui.find? (·.1 == k)).map (·.2)).getD [] } : PO)
  let removed := ((jArrField? ob "removed").getD []).filterMap fun r =>
    match jArr? r with
    | some (p :: n :: _ :: outs :: _) => do pure (((← jInt? p), (← jStr? n)), strList (some outs))
    | _ => none
  let rowsOf (tbl : String) (xdb : Json) : List Row := ((jArrField? xdb tbl).getD []).filterMap fun r =>
    match jArr? r with
    | some (p :: n :: fl :: _) => do
        pure ({ key := ((← jInt? p), (← jStr? n)), fl := natList (some fl), states := tbl == "states" } : Row)
    | _ => none
  { pool, adds := ((jArrField? ob "adds").getD []).filterMap keyArr?, removed,
    fw := ((jArrField? ob "fw").getD []).filterMap keyArr?,
    rows := (jOptField ob "xdb").map fun xdb => rowsOf "states" xdb ++ rowsOf "outputs" xdb,
    stopPoint := jIntField? ob "stop_point" }

def Ob.get? (o : Ob) (k : Key) : Option PO := o.pool.find? (·.key == k)

/-- one `cylc remove` command of the case -/
structure RmCmd where
  idx : Nat                       -- op index (observation `idx` is before, `idx + 1` after)
  ids : List Key                  -- the ids that name task instances of the graph
  flows : List Nat                -- `F` ([] = all flows)

def parseRms (g : Graph) (i : Json) : List RmCmd :=
  (((jArrField? i "ops").getD []).zipIdx).filterMap fun (op, k) =>
    if jStrField? op "name" != some "remove_tasks" then none else
    let args := (jField? op "args").getD Json.null
    let ids := ((strList (jField? args "tasks")).filterMap fun t => (parseTaskId t).toOption).foldl
      (fun acc q => if acc.contains q || (instOf g q).isNone then acc else acc ++ [q]) []
    let fl := strList (jField? args "flow")
    let flows := if fl == ["all"] then [] else fl.filterMap String.toNat?
    some { idx := k, ids, flows }

def isLoop (op : Json) : Bool := jStrField? op "op" == some "loop"
def isRestart (op : Json) : Bool := jStrField? op "op" == some "restart"

def inter (a b : List Nat) : Bool := a.any b.contains
def subset (a b : List Nat) : Bool := a.all b.contains
def sameSet (a b : List Nat) : Bool := subset a b && subset b a

/-- the flows of a proxy that a removal from `F` concerns (`[]` = all): all its flows, or those in `F` -/
def concerned (fl F : List Nat) : List Nat := if F.isEmpty then fl else fl.filter F.contains

def atomLt (a b : AtomC) : Bool :=
  a.1 < b.1 || (a.1 == b.1 && (a.2.1 < b.2.1 || (a.2.1 == b.2.1 && (a.2.2.1 < b.2.2.1 ||
    (a.2.2.1 == b.2.2.1 && a.2.2.2 < b.2.2.2)))))

def sortAtoms (l : List AtomC) : List AtomC := sortBy atomLt l

/-- the atoms after the ids `T` un-satisfy what they satisfied naturally -/
def unsetBy (T : List Key) (atoms : List AtomC) : List AtomC :=
  atoms.map fun a => if T.contains (a.1, a.2.1) && (a.2.2.2 == 1 || a.2.2.2 == 2) then (a.1, a.2.1, a.2.2.1, 0) else a

def changedBy (T : List Key) (atoms : List AtomC) : Bool :=
  atoms.any fun a => T.contains (a.1, a.2.1) && (a.2.2.2 == 1 || a.2.2.2 == 2)

def sameAtoms (a b : List AtomC) : Bool := sortAtoms a == sortAtoms b

def subsetsOf {α} : List α → List (List α)
  | [] => [[]]
  | x :: xs => let r := subsetsOf xs; r ++ r.map (x :: ·)

def messageOf (g : Graph) (name trig : String) : String :=
  match g.task? name with
  | some t => match t.outputs.find? (·.trigger == trig) with | some o => o.message | none => trig
  | none => trig

structure Fail where
  key : Option String           -- finding key
  text : String

def Fail.why (f : Fail) : String := match f.key with | some k => s!"{k}: {f.text}" | none => f.text

def kErase : Option String := some "erase-deferred"
def kElse : Option String := some "active-elsewhere-history-kept"
def kAbs : Option String := some "abs-trigger-dependants"

/-- the judge; returns all failures (unkeyed ones first) -/
def judgeAll (g : Graph) (ops : List Json) (rms : List RmCmd) (obs : Array Ob) : List Fail := Id.run do
  let mut fails : List Fail := []
  let nOps := ops.length
  for c in rms do
    let i := c.idx
    let some B := obs[i]? | continue
    let some A := obs[i + 1]? | continue
    let F := c.flows
    let M := c.ids
    let showF := if F.isEmpty then "all flows" else s!"flows {F}"
    -- matched ids whose pooled proxy is in none of the flows of `F` ("not removable" for the code as found)
    let elsewhere := M.filter fun t => match B.get? t with
      | some x => (concerned x.fl F).isEmpty
      | none => false
    let removedKeys := A.removed.map (·.1)
    -- flows a parentless successor may gain from a predecessor that was removed / released from the runahead pool
    let succMerge (k : Key) : List Nat := B.pool.flatMap fun q =>
      if q.key.2 == k.2 && (instOf g q.key).bind (·.nextParentless) == some k.1 &&
         (removedKeys.contains q.key || (q.rh && (match A.get? q.key with | some y => !y.rh | none => true)))
      then q.fl else []
    let fresh (y : PO) : Bool := A.adds.contains y.key && y.st == "waiting" && y.out.isEmpty
    -- ids removed from all their flows (or not in the pool): they are to be spawned again like new instances
    let mut gone : List Key := []
    -- clause `flows` ----------------------------------------------------------------------------------------------
    for t in M do
      match B.get? t with
      | none => gone := gone ++ [t]
      | some x =>
        let fr := concerned x.fl F
        let rest := x.fl.filter fun f => !fr.contains f
        if !x.fl.isEmpty && rest.isEmpty then
          gone := gone ++ [t]
          match A.get? t with
          | none => pure ()
          | some y =>
            if A.adds.contains t then
              if !fresh y then
                fails := fails ++ [⟨kErase, s!"flows: op {i}: {showKey t} removed from {showF} (it was in {x.fl}) is back in the pool after the command as {y.st} with outputs {y.out}: spawned again from the history the command was to erase"⟩]
            else
              fails := fails ++ [⟨none, s!"flows: op {i}: {showKey t} (in flows {x.fl}) removed from {showF} is still in the pool, in flows {y.fl}"⟩]
        else
          match A.get? t with
          | none =>
            fails := fails ++ [⟨none, s!"flows: op {i}: {showKey t} (in flows {x.fl}) removed from {showF} left the pool although flows {rest} remain"⟩]
          | some y =>
            if !(subset rest y.fl && subset y.fl (rest ++ succMerge t)) then
              fails := fails ++ [⟨none, s!"flows: op {i}: {showKey t} (in flows {x.fl}) removed from {showF} is in flows {y.fl} after the command, expected {rest}"⟩]
    -- clauses `others`, `prereqs`, `children` over the proxies pooled before ------------------------------------
    for x in B.pool do
      let k := x.key
      let isId := M.contains k
      let conc := !(concerned x.fl F).isEmpty
      -- the matched ids that un-satisfy atoms of this proxy: all of them (the property); `found`: those the code
      -- as found handles (not the ids that are active in other flows only); `gp`: those that have this proxy among
      -- their graph children (an absolute trigger lists only the first dependent instance)
      let T := if conc then M else []
      let found (l : List Key) : List Key := l.filter fun t => !elsewhere.contains t
      let gp (l : List Key) : List Key := l.filter fun t => (allChildren g t).contains k
      let sd (Ts : List Key) : Bool :=
        !isId && conc && (changedBy Ts x.pre || changedBy Ts x.sui) && (x.st == "waiting" || x.st == "expired") &&
        subset x.fl (concerned x.fl F) && !(unsetBy Ts x.pre).isEmpty && (unsetBy Ts x.pre).all (·.2.2.2 == 0)
      let preAfter := unsetBy T x.pre
      let standsDown := sd T
      match A.get? k with
      | none =>
        if !isId then
          if !standsDown then
            fails := fails ++ [⟨none, s!"others: op {i}: {showKey k} ({x.st}, flows {x.fl}, prerequisites {x.pre.map showAtom}) left the pool; it is neither removed by the command ({M.map showKey}, {showF}) nor a child left without a satisfied prerequisite"⟩]
      | some y =>
        if A.adds.contains k && (isId || standsDown) then
          -- removed and spawned again during the command: a new object
          if !isId && !fresh y then
            fails := fails ++ [⟨kErase, s!"children: op {i}: child {showKey k} stood down and is back in the pool as {y.st} with outputs {y.out}"⟩]
        else
          if !isId then
            if !(subset x.fl y.fl && subset y.fl (x.fl ++ succMerge k)) then
              fails := fails ++ [⟨none, s!"others: op {i}: flows of {showKey k} changed from {x.fl} to {y.fl} by the removal of {M.map showKey} from {showF}"⟩]
            if standsDown then
              let key := if !sd (gp T) then kAbs else if !sd (found T) then kElse else none
              fails := fails ++ [⟨key, s!"children: op {i}: child {showKey k} ({x.st}, flows {x.fl}) is left without a satisfied prerequisite {preAfter.map showAtom} by the removal of {M.map showKey} from {showF} but is still in the pool"⟩]
          if y.out != x.out then
            fails := fails ++ [⟨none, s!"others: op {i}: completed outputs of {showKey k} changed from {x.out} to {y.out}"⟩]
          -- prerequisites: exactly the naturally satisfied atoms on the matched ids are unset
          let same (Ts : List Key) : Bool := sameAtoms y.pre (unsetBy Ts x.pre) && sameAtoms y.sui (unsetBy Ts x.sui)
          -- a matched id whose own flows are reduced by the command is concerned as a child of the ids handled
          -- before it only (the ids are a set: any order is admissible)
          let sameSelf (Ts : List Key) : Bool := isId && (subsetsOf Ts).any same
          if !(same T || sameSelf T) then
            let key := if same (gp T) || sameSelf (gp T) then kAbs
              else if same (found T) || sameSelf (found T) then kElse
              else if same (gp (found T)) || sameSelf (gp (found T)) then kAbs else none
            fails := fails ++ [⟨key, s!"prereqs: op {i}: prerequisites of {showKey k} (flows {x.fl}) after the removal of {M.map showKey} from {showF}: {(sortAtoms y.pre).map showAtom} suicide {(sortAtoms y.sui).map showAtom}, expected {(sortAtoms (unsetBy T x.pre)).map showAtom} suicide {(sortAtoms (unsetBy T x.sui)).map showAtom}"⟩]
    -- clause `others-history`: the DB rows of every task other than the matched ids --------------------------------
    -- a row keeps its flows; only a child that stood down loses, in its rows, the flows it was removed in
    let stoodFr : List (Key × List Nat) :=
      (B.pool.filter fun x => !M.contains x.key && removedKeys.contains x.key).map fun x => (x.key, concerned x.fl F)
    let rowsKept (rb ra : List Row) (when_ : String) : List Fail :=
      (rb.filter fun r => !M.contains r.key).filterMap fun r =>
        let fr := ((stoodFr.find? (·.1 == r.key)).map (·.2)).getD []
        let want := r.fl.filter fun f => !fr.contains f
        if ra.any (fun q => q.key == r.key && q.states == r.states && (sameSet q.fl r.fl || sameSet q.fl want)) then none
        else some ⟨none, s!"others-history: op {i}: the {if r.states then "task_states" else "task_outputs"} row of {showKey r.key} with flows {r.fl} (not among the removed ids {M.map showKey}{if fr.isEmpty then "" else s!"; it stood down from flows {fr}"}) is gone {when_}: its rows now have flows {(ra.filter fun q => q.key == r.key && q.states == r.states).map (·.fl)}"⟩
    match B.rows, A.rows with
    | some rb, some ra => fails := fails ++ (rowsKept rb ra "after the command").take 2
    | _, _ => pure ()
    -- the window up to the next commit of the run DB: the ops after the command up to the first main loop ---------
    let nextLoop : Option Nat := ((ops.zipIdx).find? fun (op, q) => q > i && (isLoop op || isRestart op)).map (·.2)
    let wEnd : Nat := match nextLoop with | some j => j | none => nOps - 1     -- last op index of the window
    -- clause `history` --------------------------------------------------------------------------------------------
    match nextLoop with
    | none => pure ()
    | some j =>
      match obs[j + 1]?, ops[j]? with
      | some oj, some opj =>
        if isLoop opj then
          match oj.rows with
          | none => pure ()
          | some rows =>
            -- (clause `others-history` again, once the queued operations are written, unless another command came)
            let otherCmd := (List.range (j + 1)).any fun q => q > i &&
              (jStrField? (ops[q]?.getD Json.null) "op") == some "cmd" &&
              ((jStrField? (ops[q]?.getD Json.null) "name").getD "" ∈ ["remove_tasks", "force_trigger_tasks"])
            match B.rows with
            | some rb => if !otherCmd then fails := fails ++ (rowsKept rb rows s!"at the next commit (op {j})").take 2
            | none => pure ()
            -- stood-down children are erased from the flows they were removed in
            let stood : List (Key × List Nat) :=
              (B.pool.filter fun x => !M.contains x.key && removedKeys.contains x.key).map fun x => (x.key, concerned x.fl F)
            -- a matched id is erased from `F`; a child that stood down from the flows it was removed in
            for (t, F) in M.map (fun t => (t, F)) ++ stood do
              -- spawned again (or merged back into the flows) in the meantime: the rows are legitimately there
              let back := (List.range (j + 2)).any fun q => q > i && match obs[q]? with
                | some o => o.adds.contains t || (match o.get? t with
                     | some y => if F.isEmpty then !y.fl.isEmpty else inter y.fl F
                     | none => false)
                | none => false
              if !back then
                let bad := rows.filter fun r => r.key == t && (if F.isEmpty then !r.fl.isEmpty else inter r.fl F)
                if !bad.isEmpty then
                  -- rows that were not yet in the database when the command ran (their INSERT was still queued:
                  -- `remove_task_from_flows` reads the committed rows only) belong to the deferred-commit finding
                  let pending := match B.rows with
                    | some rb => bad.all fun r => !(rb.any fun q => q.key == t && q.states == r.states && sameSet q.fl r.fl)
                    | none => false
                  let key := if elsewhere.contains t then kElse else if pending then kErase else none
                  fails := fails ++ [⟨key, s!"history: op {i}: {showKey t} removed from {showF}: after the next commit (op {j}) the run database still has rows of it with flows {bad.map (·.fl)}" ++ (if pending then " (rows whose INSERT was still queued when the command read the tables)" else "")⟩]
              -- ... and the erasure must not hit the record of an instance spawned after the command
              match oj.get? t with
              | some y =>
                if !y.fl.isEmpty && !(rows.any fun r => r.states && r.key == t && sameSet r.fl y.fl) then
                  fails := fails ++ [⟨kErase, s!"history: op {i}: {showKey t} removed from {showF} is in the pool again in flows {y.fl} at the next commit (op {j}) but the run database has no task_states row for it in these flows (rows: {(rows.filter fun r => r.states && r.key == t).map (·.fl)}): the deferred erasure overwrote the record of the new instance"⟩]
              | none => pure ()
        else pure ()
      | _, _ => pure ()
    -- clause `respawn` --------------------------------------------------------------------------------------------
    for q in [i + 1 : wEnd + 1] do
      let some o0 := obs[q]? | break
      let some o1 := obs[q + 1]? | break
      -- a later `cylc remove` / `cylc trigger` in the window changes what is expected: stop there
      if (jStrField? (ops[q]?.getD Json.null) "op") == some "cmd" &&
         !((jStrField? (ops[q]?.getD Json.null) "name").getD "" ∈ ["hold", "release", "pause", "resume"]) then break
      for P in o0.pool do
        let outs1 : Option (List String) := match o1.get? P.key with
          | some y => some y.out
          | none => (o1.removed.find? (·.1 == P.key)).map (·.2)
        let newOuts := (outs1.getD P.out).filter fun t => !P.out.contains t
        if newOuts.isEmpty || P.fl.isEmpty || o0.fw.contains P.key then continue
        if !(F.isEmpty || subset P.fl F) then continue
        for tr in newOuts do
          for ch in childrenOfInst g P.key.2 P.key.1 (messageOf g P.key.2 tr) do
            let t : Key := (ch.pt, ch.name)
            if !gone.contains t || (o0.get? t).isSome then continue
            -- came back earlier in the window (and left again): its history is no longer the erased one
            if (List.range (q + 1)).any fun z => z > i && (match obs[z]? with | some o => o.adds.contains t | none => false) then continue
            if t.1 < g.start then continue
            let beyondStop := match o0.stopPoint, instOf g t with
              | some sp, some d => t.1 ≤ sp && (d.pre.any fun p => p.atoms.any fun a => a.1.pt > sp)
              | _, _ => false
            if beyondStop then continue
            if !((o1.get? t).isSome || o1.adds.contains t) then
              fails := fails ++ [⟨kErase, s!"respawn: op {i} removed {showKey t} from {showF}; op {q} completed {showKey P.key}:{tr} (flows {P.fl}) upstream of it, but {showKey t} was not spawned again (its history had not yet been erased from the run database)"⟩]
  return (fails.filter (·.key.isNone)) ++ (fails.filter (·.key.isSome))

def handle (i o : Json) : Except String Reply := do
  if let some r := crashReply? i then return r
  let c ← parseCase i
  -- the behaviour flags probed from the live code decide which variant of the model runs
  let c := { c with graph := { c.graph with rmCommits := CylcModel.RmFlags.commits,
                                            rmAlwaysDb := CylcModel.RmFlags.alwaysDb,
                                            anyOutput := CylcModel.RmFlags.anyOutput,
                                            triggerUnpooled := CylcModel.RmFlags.triggerUnpooled,
                                            dbRowPerFlowSet := false,
                                            rowInsertMode := CylcModel.RmFlags.rowInsertMode,
                                            qotSkipsPrepped := CylcModel.RmFlags.qotSkipsPrepped,
                                            releaseQueueIfReady := CylcModel.RmFlags.releaseQueueIfReady } }
  let ops := (jArrField? i "ops").getD []
  let obs := ((obsList o).map parseOb).toArray
  let fails := judgeAll c.graph ops (parseRms c.graph i) obs
  match fails with
  | [] => return { model := modelObs c, holds := true }
  | f :: _ => return { model := modelObs c, holds := false, why := f.why }

end CylcModel.DrvC30

def main : IO Unit := CylcModel.Drv.run CylcModel.DrvC30.handle
