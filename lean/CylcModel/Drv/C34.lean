/-
Driver for C34: runs the `Params` model on a JSON case and judges the implementation's
observation against the property (one instance per combination of the values of the parameters
used; `p=v` selects exactly the member `v`; `p-k` / `p+k` selects the neighbouring member and the
node is dropped when there is none).

input i : {"kind": "graph",   "params": [P..], "chain": [[T..]..]}      T = {"op": ""|"&"|"|", "segs": [S..]}
        | {"kind": "heading", "params": [P..], "names": [[S..]..]}
   P = {"name": s, "values": [V..], "tmpl": [TS..]}      V = {"i": n} | {"s": str}
   TS = {"lit": s} | {"f": p, "c": "s"} | {"f": p, "c": "d", "plus": b, "w": n}
   S = {"lit": s} | {"grp": [{"p": name, "sel": "plain"} | {"p": name, "fixed": raw} | {"p": name, "off": k}]}
observed o / model m :
   graph   : {"lines": [s..] | "error", "pairs": [[l|null, r]..] | "error"}    (sorted, duplicate-free)
   heading : {"names": [[name, [[p, V]..]]..] | "error"}                       (in result order, dict items sorted)
-/
import CylcModel.Util.Drv
import CylcModel.Params
open Lean CylcModel.Drv CylcModel.Params

namespace CylcModel.DrvC34

/-! ### decoding -/

def need {α} (o : Option α) (what : String) : Except String α :=
  match o with | some v => .ok v | none => .error what

def parseVal (j : Json) : Except String Val :=
  match jIntField? j "i", jStrField? j "s" with
  | some v, _ => .ok (.int v)
  | _, some s => .ok (.str s)
  | _, _ => .error "bad value"

def parseTSeg (j : Json) : Except String TSeg :=
  match jStrField? j "lit" with
  | some s => .ok (.lit s)
  | none => do
    let p ← need (jStrField? j "f") "tmpl.f"
    let c ← need (jStrField? j "c") "tmpl.c"
    if c == "s" then return .field p .s
    else if c == "d" then
      return .field p (.d ((jBoolField? j "plus").getD false) ((jNatField? j "w").getD 0))
    else .error s!"bad conversion {c}"

def parseParam (j : Json) : Except String Param := do
  let name ← need (jStrField? j "name") "param.name"
  let values ← (← need (jArrField? j "values") "param.values").mapM parseVal
  let tmpl ← (← need (jArrField? j "tmpl") "param.tmpl").mapM parseTSeg
  return ⟨name, values, tmpl⟩

def parseItem (j : Json) : Except String Item := do
  let p ← need (jStrField? j "p") "item.p"
  match jStrField? j "fixed", jIntField? j "off" with
  | some raw, _ => return ⟨p, .fixed raw⟩
  | _, some k => return ⟨p, .offset k⟩
  | _, _ => return ⟨p, .plain⟩

def parseSeg (j : Json) : Except String Seg :=
  match jStrField? j "lit" with
  | some s => .ok (.lit s)
  | none => do
    let items ← (← need (jArrField? j "grp") "seg").mapM parseItem
    return .group items

def parseTerm (j : Json) : Except String Params.Term := do
  let op ← need (jStrField? j "op") "term.op"
  let segs ← (← need (jArrField? j "segs") "term.segs").mapM parseSeg
  return ⟨op, segs⟩

inductive Case where
  | graph (cfg : Cfg) (chain : Chain)
  | heading (cfg : Cfg) (names : List (List Seg))

def parseCase (j : Json) : Except String Case := do
  let cfg ← (← need (jArrField? j "params") "params").mapM parseParam
  match jStrField? j "kind" with
  | some "graph" =>
    let chain ← (← need (jArrField? j "chain") "chain").mapM fun e => do
      (← need (jArr? e) "expr").mapM parseTerm
    return .graph cfg chain
  | some "heading" =>
    let names ← (← need (jArrField? j "names") "names").mapM fun n => do
      (← need (jArr? n) "name").mapM parseSeg
    return .heading cfg names
  | _ => .error "kind"

/-! ### canonical output -/

def valJson : Val → Json
  | .int i => Json.mkObj [("i", jOfInt i)]
  | .str s => Json.mkObj [("s", Json.str s)]

def sortStr (l : List String) : List String := (l.mergeSort fun a b => decide (a ≤ b)).eraseDups

def pairLe (a b : Option String × String) : Bool :=
  match a.1, b.1 with
  | none, none => decide (a.2 ≤ b.2)
  | none, some _ => true
  | some _, none => false
  | some x, some y => if x = y then decide (a.2 ≤ b.2) else decide (x ≤ y)

def sortPairs (l : List (Option String × String)) : List (Option String × String) :=
  (l.mergeSort pairLe).eraseDups

def pairJson (p : Option String × String) : Json :=
  Json.arr #[(match p.1 with | some s => Json.str s | none => Json.null), Json.str p.2]

def envJson (e : Env) : Json :=
  let sorted := e.mergeSort fun a b => decide (a.1 ≤ b.1)
  jOfList (fun kv => Json.arr #[Json.str kv.1, valJson kv.2]) sorted

def errJ : Json := Json.str "error"

def modelOut : Case → Json
  | .graph cfg chain =>
    let lines := match expandGraph .live cfg (chainSegs chain) with
      | some l => jOfList Json.str (sortStr l)
      | none => errJ
    let pairs := match expandPairs .live cfg chain with
      | some l => jOfList pairJson (sortPairs l)
      | none => errJ
    Json.mkObj [("lines", lines), ("pairs", pairs)]
  | .heading cfg names =>
    match expandHeading .live cfg names with
    | some l => Json.mkObj [("names", jOfList (fun r => Json.arr #[Json.str r.1, envJson r.2]) l)]
    | none => Json.mkObj [("names", errJ)]

/-! ### Judge: the property, evaluated on the implementation's observation.
Own enumeration of the combinations (positions in the value lists), own selection of specific
values and neighbours; shares with the model only the Python environment (`pyInt?`, `fmtVal`,
`renderT`: `int()` and `%`-formatting are not what the property is about). -/

def lookupParam (cfg : Cfg) (p : String) : Option Param := cfg.find? fun x => x.name == p

def valsOf (cfg : Cfg) (p : String) : List Val := ((lookupParam cfg p).map (·.values)).getD []
def tmplOf (cfg : Cfg) (p : String) : List TSeg := ((lookupParam cfg p).map (·.tmpl)).getD []

/-- `p=raw` names the member written exactly `raw`, else the member with the same integer value -/
def specSelect (vs : List Val) (raw : String) : Option Val :=
  match vs.find? (fun v => v == Val.str raw) with
  | some v => some v
  | none =>
    match pyInt? raw with
    | none => none
    | some n => vs.find? fun v => v.asInt? == some n

structure Pick where
  name : String
  idx : Nat
  val : Val

def enumFrom {α} : Nat → List α → List (Nat × α)
  | _, [] => []
  | n, a :: r => (n, a) :: enumFrom (n + 1) r

/-- all combinations: one position in the value list of every parameter used -/
def combos (cfg : Cfg) : List String → List (List Pick)
  | [] => [[]]
  | p :: r => (enumFrom 0 (valsOf cfg p)).flatMap fun iv => (combos cfg r).map fun c => ⟨p, iv.1, iv.2⟩ :: c

def pickOf (ρ : List Pick) (p : String) : Option Pick := ρ.find? fun k => k.name == p

inductive SVal where
  | val (v : Val)
  | removed
  | invalid

def specItem (cfg : Cfg) (ρ : List Pick) (it : Item) : SVal :=
  let vs := valsOf cfg it.name
  if vs.isEmpty then .invalid else
  match it.sel with
  | .plain => match pickOf ρ it.name with | some k => .val k.val | none => .invalid
  | .fixed raw => match specSelect vs raw with | some v => .val v | none => .invalid
  | .offset k =>
    match pickOf ρ it.name with
    | none => .invalid
    | some pk =>
      let j : Int := (pk.idx : Int) + k
      if j < 0 then .removed else
      match vs[j.toNat]? with
      | some v => .val v
      | none => .removed

def distinct (l : List String) : List String := l.eraseDups

def segItems (segs : List Seg) : List Item :=
  segs.flatMap fun | .lit _ => [] | .group items => items

structure SNode where
  text : Option String     -- none: cannot be rendered (template refers to a parameter not in the group, %d of a string)
  removed : Bool
  invalid : Bool

/-- a group: the templates of its items in order, filled with the items' values; the removed
member is written with the sentinel at the level of `expand()` -/
def specGroup (cfg : Cfg) (ρ : List Pick) (items : List Item) : SNode :=
  let svals := items.map fun it => (it.name, specItem cfg ρ it)
  let invalid := svals.any fun sv => match sv.2 with | .invalid => true | _ => false
  let removed := svals.any fun sv => match sv.2 with | .removed => true | _ => false
  let env : Env := svals.filterMap fun sv => match sv.2 with
    | .val v => some (sv.1, v)
    | .removed => some (sv.1, sentinel)
    | .invalid => none
  let tmpl := items.flatMap fun it => tmplOf cfg it.name
  ⟨renderT env tmpl, removed, invalid⟩

def specNode (cfg : Cfg) (ρ : List Pick) (segs : List Seg) : SNode :=
  segs.foldl (fun acc sg =>
    match sg with
    | .lit s => { acc with text := acc.text.map (· ++ s) }
    | .group items =>
      let g := specGroup cfg ρ items
      { text := match acc.text, g.text with | some a, some b => some (a ++ b) | _, _ => none,
        removed := acc.removed || g.removed, invalid := acc.invalid || g.invalid })
    ⟨some "", false, false⟩

structure Verdict where
  ok : Bool
  why : String := ""

def isInfixStr (needle hay : String) : Bool :=
  let n := needle.toList
  let rec go : List Char → Bool
    | [] => n.isEmpty
    | c :: cs => isPrefix n (c :: cs) || go cs
  go hay.toList

/-- a numeric specific value on a parameter that has string values: the recorded defect region -/
def numericOnStrings (cfg : Cfg) (items : List Item) : Bool :=
  items.any fun it => match it.sel with
    | .fixed raw => (pyInt? raw).isSome && (valsOf cfg it.name).any fun v => match v with | .str _ => true | .int _ => false
    | _ => false

def fixKey (cfg : Cfg) (items : List Item) (msg : String) : String :=
  if numericOnStrings cfg items then "specific-value-string-param: " ++ msg else msg

/-- one expression of the chain for one combination: the nodes that stay (each with the operator
written before it), and the nodes that are dropped (their `expand()`-level text) -/
structure SExpr where
  kept : List (String × String)
  dropped : List String

def joinKept : List (String × String) → String
  | [] => ""
  | t :: r => t.2 ++ (r.map fun u => u.1 ++ u.2).foldl (· ++ ·) ""

def judgeGraph (cfg : Cfg) (chain : Chain) (o : Json) : Verdict := Id.run do
  let allItems := chain.flatMap fun e => e.flatMap fun t => segItems t.segs
  let used := distinct (allItems.map (·.name))
  let linesJ := (jField? o "lines").getD Json.null
  let pairsJ := (jField? o "pairs").getD Json.null
  -- validity that does not depend on the combination
  let undefined := allItems.any fun it => (valsOf cfg it.name).isEmpty
  let badFixed := allItems.any fun it => match it.sel with
    | .fixed raw => (specSelect (valsOf cfg it.name) raw).isNone
    | _ => false
  if undefined || badFixed then
    if linesJ == errJ && pairsJ == errJ then return {ok := true}
    else return {ok := false, why := "a line using an undefined parameter or a value that is not a member was expanded"}
  let rhos := combos cfg used
  -- every node of every combination
  let inst : List (List (List (String × SNode))) := rhos.map fun ρ =>
    chain.map fun e => e.map fun t => (t.op, specNode cfg ρ t.segs)
  let unrenderable := inst.any fun c => c.any fun e => e.any fun n => n.2.text.isNone || n.2.invalid
  if unrenderable then
    if linesJ == errJ && pairsJ == errJ then return {ok := true}
    else return {ok := false, why := fixKey cfg allItems "a template that cannot be filled was expanded"}
  if linesJ == errJ || pairsJ == errJ then
    return {ok := false, why := fixKey cfg allItems "a valid line was rejected"}
  -- (a) expand(): exactly one line per combination
  let lineOf (c : List (List (String × SNode))) : String :=
    "=>".intercalate (c.map fun e => String.join (e.map fun n => n.1 ++ n.2.text.getD ""))
  let wantLines := sortStr ((inst.map lineOf).filter (· ≠ ""))
  let gotLines := ((jArr? linesJ).getD []).filterMap jStr?
  if gotLines != wantLines then
    let missing := wantLines.filter fun l => !gotLines.contains l
    let extra := gotLines.filter fun l => !wantLines.contains l
    let msg := s!"expand(): {gotLines.length} lines, {wantLines.length} combinations; missing {missing.take 2}, unexpected {extra.take 2}"
    return {ok := false, why := fixKey cfg allItems msg}
  -- (b) parse_graph: out-of-range nodes dropped
  let sexprs : List (List SExpr) := inst.map fun c => c.map fun e =>
    let keptNodes := e.filter fun n => !n.2.removed
    let kept := match keptNodes with
      | [] => []
      | n :: r => ("", n.2.text.getD "") :: r.map fun m => (m.1, m.2.text.getD "")
    ⟨kept, (e.filter fun n => n.2.removed).map fun n => n.2.text.getD ""⟩
  -- required: the chain up to the first emptied expression; allowed in addition: the pieces after it
  let mut required : List (Option String × String) := []
  let mut allowed : List (Option String × String) := []
  for c in sexprs do
    let texts := c.map fun e => (joinKept e.kept, e.kept.map (·.2))
    let mut first := true      -- still in the leading piece
    let mut start := true      -- at the start of a piece
    let mut prev : Option String := none
    for (t, nodes) in texts do
      if t == "" then
        first := false; start := true; prev := none
      else
        let ps : List (Option String × String) :=
          (if start then nodes.map fun n => (none, n) else []) ++
          (match prev with | some l => [(some l, t)] | none => [])
        if first then required := required ++ ps else allowed := allowed ++ ps
        start := false; prev := some t
  let got : List (Option String × String) := ((jArr? pairsJ).getD []).filterMap fun p =>
    match jArr? p with
    | some [l, r] => (jStr? r).map fun rs => (jStr? l, rs)
    | _ => none
  let lost := required.filter fun p => !got.contains p
  let ghosts := got.filter fun p => !(required.contains p || allowed.contains p)
  if lost.isEmpty && ghosts.isEmpty then return {ok := true}
  -- attribute to the recorded findings by the *shape of the input*
  let sentinelText := toString Generated.Params.removeSentinel
  let droppedTexts := sexprs.flatMap fun c => c.flatMap (·.dropped)
  -- a dropped node whose text does not show the sentinel after at least one character
  let hidden := droppedTexts.filter fun t => !(isInfixStr sentinelText (String.ofList (t.toList.drop 1)))
  -- two leading nodes of one expression dropped together
  let twoLeading := inst.any fun c => c.any fun e =>
    match e with | n1 :: n2 :: _ => n1.2.removed && n2.2.removed | _ => false
  let ghostText := ghosts.map fun p => (p.1.getD "") ++ " " ++ p.2
  let mentions (ts : List String) := ghostText.any fun g => ts.any fun t => isInfixStr t g
  let show2 (l : List (Option String × String)) : String :=
    toString ((l.take 2).map fun p => (p.1.getD "None") ++ " => " ++ p.2)
  let msg := "pairs: missing " ++ show2 lost ++ ", unexpected " ++ show2 ghosts
  if !hidden.isEmpty && mentions hidden then
    return {ok := false, why := "sentinel-not-recognised: an out-of-range node is not dropped; " ++ msg}
  if twoLeading && mentions droppedTexts then
    return {ok := false, why := "adjacent-leading-removed: the second of two leading out-of-range nodes is not dropped; " ++ msg}
  return {ok := false, why := msg}

def countOcc (l : List String) (a : String) : Nat := (l.filter (· == a)).length

def judgeHeading (cfg : Cfg) (names : List (List Seg)) (o : Json) : Verdict := Id.run do
  let namesJ := (jField? o "names").getD Json.null
  let allItems := names.flatMap segItems
  let invalid := allItems.any fun it =>
    (valsOf cfg it.name).isEmpty ||
    (match it.sel with
     | .offset _ => true
     | .fixed raw => (specSelect (valsOf cfg it.name) raw).isNone
     | .plain => false)
  if invalid then
    if namesJ == errJ then return {ok := true}
    else return {ok := false, why := "a heading using an undefined parameter, an offset or a value that is not a member was expanded"}
  let repeated := names.any fun segs =>
    let ns := (segItems segs).map (·.name)
    ns.any fun a => countOcc ns a > 1
  let key (msg : String) : String :=
    if repeated then "heading-repeated-param: " ++ msg else fixKey cfg allItems msg
  -- expected instances, name by name
  let mut want : List (String × Option Env) := []
  let mut bad := false
  for segs in names do
    let items := segItems segs
    if items.isEmpty && !(segs.any fun | .group _ => true | .lit _ => false) then
      want := want ++ [(litText segs, some [])]
      continue
    let plain := distinct ((items.filter fun it => it.sel == .plain).map (·.name))
    let ns := items.map (·.name)
    let conflict := ns.any fun a => countOcc ns a > 1
    for ρ in combos cfg plain do
      -- the dict handed to the task: every parameter used with the value selected for it
      let env : Env := items.foldl (fun e it =>
        match specItem cfg ρ it with
        | .val v => if (e.any fun kv => kv.1 == it.name) then e else e ++ [(it.name, v)]
        | _ => e) []
      -- each item fills its own template with its own selection (other fields: the dict)
      let text := segs.foldl (fun (acc : Option String) sg =>
        match sg with
        | .lit s => acc.map (· ++ s)
        | .group its => its.foldl (fun acc it =>
            match specItem cfg ρ it with
            | .val v =>
              let own : Env := (it.name, v) :: env.filter fun kv => kv.1 != it.name
              (match acc, renderT own (tmplOf cfg it.name) with
               | some a, some b => some (a ++ b)
               | _, _ => none)
            | _ => none) acc) (some "")
      match text with
      | none => bad := true
      | some t => want := want ++ [(t, if conflict then none else some env)]
  if bad then
    if namesJ == errJ then return {ok := true}
    else return {ok := false, why := key "a template that cannot be filled was expanded"}
  if namesJ == errJ then return {ok := false, why := key "a valid heading was rejected"}
  let got : List (String × Json) := ((jArr? namesJ).getD []).filterMap fun r =>
    match jArr? r with
    | some [n, e] => (jStr? n).map fun s => (s, e)
    | _ => none
  -- multiset comparison: exactly one instance per combination
  let wantNames := want.map (·.1)
  let gotNames := got.map (·.1)
  let badCount := (distinct (wantNames ++ gotNames)).filter fun n => countOcc wantNames n != countOcc gotNames n
  if !badCount.isEmpty then
    return {ok := false, why := key s!"{gotNames.length} instances for {wantNames.length} combinations; wrong multiplicity of {badCount.take 3}"}
  for (n, e) in want do
    match e with
    | none => continue
    | some env =>
      if !(got.any fun g => g.1 == n && g.2 == envJson env) then
        return {ok := false, why := key s!"instance {n} does not carry the values {(envJson env).compress}"}
  return {ok := true}

def handle (i o : Json) : Except String Reply := do
  let c ← parseCase i
  let v := match c with
    | .graph cfg chain => judgeGraph cfg chain o
    | .heading cfg names => judgeHeading cfg names o
  return { model := modelOut c, holds := v.ok, why := v.why }

end CylcModel.DrvC34

def main : IO Unit := CylcModel.Drv.run CylcModel.DrvC34.handle
