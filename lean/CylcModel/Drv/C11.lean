/-
Driver for C11 (completion-expression semantics): runs the `Outputs` model on a JSON case and
judges the implementation's observations against the property text.

input i : {"std": {"expired": R, "submitted": R, "submit-failed": R, "started": R, "succeeded": R, "failed": R},
           "custom": [[trigger, message, R] ...],            R : true (required) | false (optional) | null
           "user": null | {"text": s, "tree": T | null},     T : {"a": name} | {"and": [T, T]} | {"or": [T, T]}
                                                                 | {"not": T} | {"c": word}
           "mode": "tdef" | "bare"}
  tdef : real TaskDef -> tweak_outputs -> WorkflowConfig._set_completion_expressions -> TaskOutputs(tdef)
  bare : TaskOutputs(text) + add() for every output (text may be '': removed task definition)
observed o / model m :
   {"cfg": "reject"} | {"cfg": "ok", "expr": text, "complete": S}
   S : one character per subset k of the outputs (output number j is completed iff bit j of k is set):
       T | F | N (NameError) | I (invalid expression) | Y (TypeError) | X (anything else)
-/
import CylcModel.Util.Drv
import CylcModel.Outputs
open Lean CylcModel CylcModel.Drv CylcModel.Outputs
open CylcModel.Generated.Outputs (stdOutputs)

namespace CylcModel.DrvC11

/-- expression tree as generated (judge side): may contain `not` and constants -/
inductive JT where
  | a (s : String)
  | and (l r : JT)
  | or (l r : JT)
  | not (x : JT)
  | c (w : String)
  deriving Repr, Inhabited

partial def parseJT (j : Json) : Except String JT :=
  match jStrField? j "a", jArrField? j "and", jArrField? j "or", jField? j "not", jStrField? j "c" with
  | some s, _, _, _, _ => .ok (.a s)
  | _, some [l, r], _, _, _ => do return .and (← parseJT l) (← parseJT r)
  | _, _, some [l, r], _, _ => do return .or (← parseJT l) (← parseJT r)
  | _, _, _, some x, _ => do return .not (← parseJT x)
  | _, _, _, _, some w => .ok (.c w)
  | _, _, _, _, _ => .error "bad tree"

/-- a valid completion expression: names, and, or -/
def JT.positive : JT → Bool
  | .a _ => true
  | .and l r => l.positive && r.positive
  | .or l r => l.positive && r.positive
  | .not _ => false
  | .c _ => false

def JT.eval (σ : String → Bool) : JT → Bool
  | .a s => σ s
  | .and l r => l.eval σ && r.eval σ
  | .or l r => l.eval σ || r.eval σ
  | .not x => !x.eval σ
  | .c w => w == "True" || (w != "False" && w != "None" && w != "0")

def JT.names : JT → List String
  | .a s => [s]
  | .and l r => l.names ++ r.names
  | .or l r => l.names ++ r.names
  | .not x => x.names
  | .c _ => []

/-- a completion expression Python can read: and/or over words that are names -/
def JT.valid (t : JT) : Bool := t.positive && t.names.all isPyName

def parseReq (j : Json) : Option Bool := jBool? j

structure Case where
  std : List OutDef
  custom : List OutDef
  userText : Option String
  tree : Option JT
  bare : Bool

def parseCase (j : Json) : Except String Case := do
  let stdJ ← (jField? j "std").elim (.error "std") .ok
  let std := stdOutputs.map fun s => (⟨s, s, (jOptField stdJ s).bind parseReq⟩ : OutDef)
  let custom ← ((jArrField? j "custom").getD []).mapM fun c =>
    match jArr? c with
    | some [t, m, r] =>
      match jStr? t, jStr? m with
      | some t, some m => Except.ok (⟨t, m, parseReq r⟩ : OutDef)
      | _, _ => .error "custom"
    | _ => .error "custom"
  let (userText, tree) ← match jOptField j "user" with
    | none => pure (none, none)
    | some u => do
      let text ← (jStrField? u "text").elim (.error "user.text") .ok
      let tree ← match jOptField u "tree" with
        | none => pure none
        | some t => do pure (some (← parseJT t))
      pure (some text, tree)
  let mode := (jStrField? j "mode").getD "tdef"
  return ⟨std, custom, userText, tree, mode == "bare"⟩

def Case.outs (c : Case) : List OutDef := c.std ++ c.custom

def bit (k j : Nat) : Bool := (k >>> j) % 2 == 1

/-- completed-message predicate of subset number `k` -/
def doneOf (msgs : List String) (k : Nat) : String → Bool :=
  let tagged := msgs.zipIdx.filter (fun p => bit k p.2) |>.map (·.1)
  fun m => tagged.contains m

def resChar : Except EvalErr Bool → Char
  | .ok true => 'T'
  | .ok false => 'F'
  | .error .name => 'N'
  | .error .invalid => 'I'
  | .error .type => 'Y'

def okJson (text : String) (s : String) : Json :=
  Json.mkObj [("cfg", "ok"), ("expr", Json.str text), ("complete", Json.str s)]

def rejectJson : Json := Json.mkObj [("cfg", "reject")]

/-- all subsets through `pyEvalParsed`, which is what `isCompleteParsed` unfolds to
(`envOf done outs = envOfKV done (kvOf outs)` by definition); the key/value list is computed once -/
def completeString (p : PyExpr) (outs : List OutDef) : String :=
  let kv := kvOf outs
  let keys := compvars outs
  let msgs := outs.map (·.message)
  let n := outs.length
  String.ofList ((List.range (2 ^ n)).map fun k =>
    resChar (pyEvalParsed p keys (envOfKV (doneOf msgs k) kv)))

def modelOut (c : Case) : Json :=
  if c.bare then
    let text := c.userText.getD ""
    let p := parsePy (if text.isEmpty then CylcModel.Generated.Outputs.finalCompletion else text)
    okJson text (completeString p c.outs)
  else
    let d := tweakOutputs ⟨c.outs⟩
    match configure d c.userText with
    | .reject => rejectJson
    | .ok text =>
      let isDefault := match c.userText with | some t => t.isEmpty | none => true
      if isDefault then
        match (defaultExpr d).1 with
        | some e =>
          -- self-check of the model: the rendered text parses back to the structure it was rendered from
          if e.vars.all isPyName && parsePy text != .ok e then
            Json.mkObj [("cfg", "ok"), ("expr", Json.str text), ("selfcheck", "render/parse mismatch")]
          else okJson text (completeString (pyOfB e) d.outs)
        | none => okJson text (completeString (parsePy CylcModel.Generated.Outputs.finalCompletion) d.outs)
      else okJson text (completeString (parsePy text) d.outs)

/-! ### Judge: the property text evaluated on the observation -/

structure Verdict where
  ok : Bool
  why : String := ""

def distinct : List String → Bool
  | [] => true
  | x :: xs => !xs.contains x && distinct xs

/-- The judge's reading of the task definition.  "If neither :succeeded nor :failed is used in the
graph, success is required" (the rule of `tweak_outputs`) is part of what a task definition is. -/
structure Spec where
  outs : List OutDef                 -- with the implicit success requirement applied
  failOpt : Bool
  subOpt : Bool
  expOpt : Bool

def reqOfJ (outs : List OutDef) (t : String) : Option Bool :=
  (outs.find? (·.trigger == t)).bind (·.req)

def mkSpec (outs0 : List OutDef) : Spec :=
  let implicit := (reqOfJ outs0 "succeeded").isNone && (reqOfJ outs0 "failed").isNone
  let outs := if implicit then outs0.map fun o => if o.trigger == "succeeded" then { o with req := some true } else o else outs0
  { outs := outs
    failOpt := reqOfJ outs "succeeded" == some false || reqOfJ outs "failed" == some false
    subOpt := reqOfJ outs "submitted" == some false || reqOfJ outs "submit-failed" == some false
    expOpt := reqOfJ outs "expired" == some false }

/-- "requires every required output, tolerates failure only when succeeded or failed is optional, and
tolerates submit-failure and expiry only when those are optional" — `doneT` is over *triggers* -/
def Spec.complete (s : Spec) (doneT : String → Bool) : Bool :=
  let allReq := s.outs.all fun o => o.req != some true || doneT o.trigger
  (allReq && (!s.failOpt || doneT "succeeded"))
  || (s.failOpt && doneT "failed")
  || (s.subOpt && doneT "submit-failed")
  || (s.expOpt && doneT "expired")

def judge (c : Case) (o : Json) : Verdict := Id.run do
  let outs := c.outs
  let n := outs.length
  let cvs := outs.map fun x => compvar x.trigger
  let collision := !distinct cvs
  let clash := cvs.contains "expr"
  let cfg := (jStrField? o "cfg").getD ""
  let isDefault := match c.userText with | some t => t.isEmpty | none => true
  let spec := mkSpec outs
  let badReqName := isDefault && !c.bare &&
    spec.outs.any fun x => x.req == some true && !isPyName (compvar x.trigger)
  if cfg == "reject" then
    if c.bare then return ⟨false, "TaskOutputs(text) cannot be rejected"⟩
    if !isDefault then return ⟨true, ""⟩          -- consistency of user expressions is C12
    -- two outputs that cannot be told apart in an expression that uses their variable
    let reqCvs := (spec.outs.filter (·.req == some true)).map fun x => compvar x.trigger
    let used := reqCvs ++ ["succeeded", "failed", "submit_failed", "expired"]
    let ambiguous := cvs.any fun v => used.contains v && cvs.count v > 1
    if ambiguous || badReqName then return ⟨true, ""⟩
    return ⟨false, "a task definition with a well-formed default completion expression was rejected"⟩
  if cfg != "ok" then return ⟨false, s!"unexpected observation {o.compress}"⟩
  let s := ((jStrField? o "complete").getD "").toList
  if s.length != 2 ^ n then return ⟨false, "wrong number of subsets in the observation"⟩
  -- expected value per subset, `none` = the property does not say
  let trigs := outs.map (·.trigger)
  let doneT (k : Nat) (t : String) : Bool :=
    match trigs.idxOf? t with
    | some j => bit k j
    | none => false
  let expected (k : Nat) : Option Bool :=
    if c.bare && isDefault then
      -- removed task definition: complete when any final output was generated
      some (doneT k "succeeded" || doneT k "failed" || doneT k "submit-failed" || doneT k "expired")
    else if isDefault then some (spec.complete (doneT k))
    else match c.tree with
      | none => none
      | some t =>
        if !t.valid then none else    -- text that is no completion expression: the property does not say
        -- a completion variable denotes the output(s) it is the variable of
        let den (v : String) : List Bool := (outs.zipIdx.filter fun p => compvar p.1.trigger == v).map fun p => bit k p.2
        if t.names.any (fun v => let d := den v; d.isEmpty || d.any (· != d.headD false)) then none
        else some (t.eval fun v => (den v).headD false)
  let validUser := match c.tree with | some t => t.valid | none => false
  if !isDefault && !validUser && !c.bare then
    -- text that is no completion expression was accepted by the validation
    if s.any (fun ch => ch != 'T' && ch != 'F') then
      return ⟨false, "invalid-completion-accepted: a completion text that cannot be evaluated passed validation"⟩
  let mut bad : Option String := none
  for (ch, k) in s.zipIdx do
    match expected k with
    | none => continue
    | some b =>
      let want := if b then 'T' else 'F'
      if ch != want then
        let doneNames := trigs.zipIdx.filter (fun p => bit k p.2) |>.map (·.1)
        let key :=
          if ch == 'Y' && clash then "evaluator-kwarg-clash: "
          else if collision then "compvar-collision: "
          else if ch == 'I' && badReqName then "unevaluable-default: "
          else ""
        bad := some s!"{key}is_complete = {ch} with completed outputs {doneNames}, the property says {want}"
        break
  match bad with
  | some w => return ⟨false, w⟩
  | none => return ⟨true, ""⟩

def handle (i o : Json) : Except String Reply := do
  let c ← parseCase i
  if c.outs.length > 14 then throw "too many outputs"
  let v := judge c o
  return { model := modelOut c, holds := v.ok, why := v.why }

end CylcModel.DrvC11

def main : IO Unit := CylcModel.Drv.run CylcModel.DrvC11.handle
