/-
Driver for C17: runs the `IsoSeq` model (wrapper + caches of `ISO8601Sequence`) over the abstract
recurrence the adapter enumerated from the real `TimeRecurrence`, and judges the implementation's
answers against brute force over the enumerated list.

input  i : {"pts": [t..], "open": bool, "bounded": bool, "xp": [t..], "xs": [[t..]..],
            "nxo": [[t, t'|null]..], "pvo": [[t, t'|null]..], "cap": n|null,
            "qs": [[op, key, t, kprev|null]..]}
   pts   : list(iter(recurrence)) as instants (minutes); `open`: the iteration goes on beyond the window
   xp/xs : exclusion points / the enumerated exclusion recurrences
   nxo   : where `recurrence.get_next(point_parse(str(t)))` is NOT the successor of t in pts (or t is not in pts)
   pvo   : the same for `get_prev` / predecessor
   qs    : op in v on n p np f s e ; key = the point string asked ; t = its instant ;
           kprev = `recurrence.get_prev(point_parse(key))` (ops p, np)
observed o / model m : {"a": [answer..], "f": [answer..]}   a: one long-lived object, f: a fresh object per query
   answer: true | false | t | null | "BOGUS"  (impl only: "ERR:<type>" | "TIMEOUT")
-/
import Std.Data.HashSet
import Std.Data.HashMap
import CylcModel.Util.Drv
import CylcModel.IsoSeq
open Lean CylcModel.Drv CylcModel.IsoSeq

namespace CylcModel.DrvC17

structure Qry where
  op : String
  key : String
  t : Int
  kprev : Option Int

structure Case where
  pts : List Int
  isOpen : Bool
  bounded : Bool
  xp : List Int
  xs : List (List Int)
  nxo : List (Int × Option Int)
  pvo : List (Int × Option Int)
  cap : Nat
  qs : List Qry

def parsePair (j : Json) : Except String (Int × Option Int) :=
  match jArr? j with
  | some [a, b] => match jInt? a with
    | some v => .ok (v, jInt? b)
    | none => .error "pair"
  | _ => .error "pair"

def parseQry (j : Json) : Except String Qry :=
  match jArr? j with
  | some [o, k, t, kp] =>
    match jStr? o, jStr? k, jInt? t with
    | some o, some k, some t => .ok ⟨o, k, t, jInt? kp⟩
    | _, _, _ => .error "query"
  | _ => .error "query"

def parseCase (j : Json) : Except String Case := do
  let ints (k : String) : List Int := ((jArrField? j k).getD []).filterMap jInt?
  let xs := ((jArrField? j "xs").getD []).map fun l => ((jArr? l).getD []).filterMap jInt?
  let nxo ← ((jArrField? j "nxo").getD []).mapM parsePair
  let pvo ← ((jArrField? j "pvo").getD []).mapM parsePair
  let qs ← ((jArrField? j "qs").getD []).mapM parseQry
  let cap := match jOptField j "cap" with | some c => (jNat? c).getD defaultCap | none => defaultCap
  return ⟨ints "pts", (jBoolField? j "open").getD false, (jBoolField? j "bounded").getD false,
          ints "xp", xs, nxo, pvo, cap, qs⟩

def exclSet (c : Case) : Std.HashSet Int :=
  c.xs.foldl (fun s l => l.foldl (fun s x => s.insert x) s) (c.xp.foldl (fun s x => s.insert x) {})

/-- successor / predecessor of every member, for the default of `next` / `prevC` -/
def succMap (l : List Int) : Std.HashMap Int (Option Int) :=
  let rec go : List Int → Std.HashMap Int (Option Int) → Std.HashMap Int (Option Int)
    | [], m => m
    | [a], m => m.insert a none
    | a :: b :: t, m => go (b :: t) (m.insert a (some b))
  go l {}

def mkSeq (c : Case) : Seq :=
  let ex := exclSet c
  let sm := succMap c.pts
  let pm := succMap c.pts.reverse
  let nx : Std.HashMap Int (Option Int) := c.nxo.foldl (fun m e => m.insert e.1 e.2) {}
  let pv : Std.HashMap Int (Option Int) := c.pvo.foldl (fun m e => m.insert e.1 e.2) {}
  let kp : Std.HashMap String (Option Int) :=
    c.qs.foldl (fun m q => if q.op == "p" || q.op == "np" then m.insert q.key q.kprev else m) {}
  let vl : Std.HashMap String Int := c.qs.foldl (fun m q => m.insert q.key q.t) {}
  { rc := { pts := c.pts
            next := fun p => match nx.get? p with | some r => r | none => (sm.get? p).getD none
            prevC := fun p => match pv.get? p with | some r => r | none => (pm.get? p).getD none
            prevK := fun k => (kp.get? k).getD none
            bounded := c.bounded }
    excl := fun x => ex.contains x
    val := fun k => (vl.get? k).getD 0
    cap := c.cap }

def toQ (q : Qry) : Except String Q :=
  match q.op with
  | "v" => .ok (.valid q.key)
  | "on" => .ok (.onSeq q.key)
  | "n" => .ok (.next q.key)
  | "p" => .ok (.prev q.key)
  | "np" => .ok (.nearestPrev q.key)
  | "f" => .ok (.first q.key)
  | "s" => .ok .start
  | "e" => .ok .stop
  | o => .error s!"unknown op {o}"

def ansJson : Ans → Json
  | .bool b => Json.bool b
  | .pt p => jOptInt p
  | .bogus => Json.str "BOGUS"

def modelOut (c : Case) (qs : List Q) : Json :=
  let s := mkSeq c
  let fuel := c.pts.length + c.nxo.length + c.pvo.length + 2
  let long := answers s fuel {} qs
  let fresh := qs.map fun q => (step s fuel {} q).2
  Json.mkObj [("a", jOfList ansJson long), ("f", jOfList ansJson fresh)]

/-! ### Judge: brute force over the enumerated list, written without the model's functions -/

structure Verdict where
  ok : Bool
  why : String

def firstWhere (P : Int → Bool) : List Int → Option Int
  | [] => none
  | x :: t => if P x then some x else firstWhere P t

def lastWhere (P : Int → Bool) : List Int → Option Int → Option Int
  | [], acc => acc
  | x :: t, acc => lastWhere P t (if P x then some x else acc)

def judge (c : Case) (o : Json) : Verdict := Id.run do
  let ex := exclSet c
  let members : Std.HashSet Int := c.pts.foldl (fun s x => s.insert x) {}
  -- the ordered list obtained by iterating the recurrence and removing excluded points
  let L := c.pts.filter fun x => !ex.contains x
  let inL : Std.HashSet Int := L.foldl (fun s x => s.insert x) {}
  let a := (jArrField? o "a").getD []
  let f := (jArrField? o "f").getD []
  if a.length != c.qs.length || f.length != c.qs.length then
    return ⟨false, "observation has the wrong number of answers"⟩
  -- input classes of the recorded findings
  let trailing := (c.pts.reverse.takeWhile fun x => ex.contains x).length
  let nextDeviates := c.nxo.any fun e => members.contains e.1
  let prevDeviatesC := c.pvo.any fun e => members.contains e.1
  let mut badNew : Option String := none     -- first failure outside the recorded findings' input classes
  let mut badKnown : Option String := none
  for (q, (r, rf)) in c.qs.zip (a.zip f) do
    let t := q.t
    let below := lastWhere (fun x => decide (x < t)) L none
    let want : Option Json :=            -- none: inconclusive inside this window
      match q.op with
      | "v" | "on" => some (Json.bool (inL.contains t))
      | "n" => match firstWhere (fun x => decide (t < x)) L with
               | some x => some (jOfInt x)
               | none => if c.isOpen then none else some Json.null
      | "f" => match firstWhere (fun x => decide (t ≤ x)) L with
               | some x => some (jOfInt x)
               | none => if c.isOpen then none else some Json.null
      | "np" | "p" => some (jOptInt below)
      | "s" => some (jOptInt L.head?)
      | "e" => some (if c.isOpen then Json.null else jOptInt L.getLast?)
      | _ => none
    let kprevDeviates := members.contains t && q.kprev != lastWhere (fun x => decide (x < t)) c.pts none
    let cls : String :=
      if q.op == "e" && (trailing ≥ 2 || L.isEmpty) then "stop-trailing-exclusions: "
      else if q.op == "p" && !members.contains t then "prev-off-sequence: "
      else if (q.op == "p" || (q.op == "np" && inL.contains t)) && (kprevDeviates || prevDeviatesC) then
        "prev-inexact-duration: "
      else if nextDeviates && (q.op == "v" || q.op == "on" || q.op == "n" || q.op == "f" || q.op == "np") then
        "step-off-iteration: "
      else ""
    let mut msg : Option String := none
    match want with
    | none => pure ()
    | some w =>
      if r != w then
        msg := some s!"{cls}{q.op}({q.key}) = {r.compress} on a long-lived sequence, brute force over the iterated list gives {w.compress}"
      else if rf != w then
        msg := some s!"{cls}{q.op}({q.key}) = {rf.compress} on a fresh sequence, brute force over the iterated list gives {w.compress}"
    if msg.isNone && r != rf then
      msg := some s!"{cls}{q.op}({q.key}) = {r.compress} after the earlier queries but {rf.compress} on a fresh sequence (the answer depends on the query history)"
    if msg.isSome then
      if cls == "" then
        if badNew.isNone then badNew := msg
      else
        if badKnown.isNone then badKnown := msg
  match badNew, badKnown with
  | some w, _ => return ⟨false, w⟩
  | none, some w => return ⟨false, w⟩
  | none, none => return ⟨true, ""⟩

def handle (i o : Json) : Except String Reply := do
  let c ← parseCase i
  let qs ← c.qs.mapM toQ
  let v := judge c o
  return { model := modelOut c qs, holds := v.ok, why := v.why }

end CylcModel.DrvC17

def main : IO Unit := CylcModel.Drv.run CylcModel.DrvC17.handle
