/-
Driver for C11 over stop + restart on the `Sched3Set` model (id C11R): runs with `cylc set` (outputs /
prerequisites, --flow, --wait), `cylc trigger --flow=N --wait`, several flows, merges, then stop + restart at any
point (twice in some runs).

Model side: the `Sched3Set` correspondence for the set / setany / corpus runs.  Runs of kind `trigw` (`cylc trigger`,
which `Sched3Set` does not model) are judged on the real trace only: the model predicts nothing for them.

Judges (they read only the REAL scheduler's observations, the recorded op list and the static instance graph):

* retention judge (C11 as written, after every operation): every finished proxy found in the pool is incomplete
  over the outputs it has completed (`retained-complete`); every completion-based removal concerns a finished and
  complete proxy (`removed-incomplete`, `removed-unfinished`).
* delivery judge (the retention clause over arrival orders): an output message received from the current job of a
  pooled task - in any order, e.g. a custom output after `succeeded` - is recorded as completed (`output-dropped`);
  a finished task in the pool is incomplete even counting everything its job has reported (`retained-delivered`).
* restart judge (for every `restart` op: the observation of the stopped scheduler against the observation of the
  new scheduler after start-up): a finished task must stay exactly as retained / complete as it was, so everything
  the completion decision and the continued run read is compared item by item -
  same pooled instances (`pool-lost`, `pool-extra`); status, preparing ↦ waiting (`status`); submit number,
  preparing ↦ one less (`submit-num`), and the first launch after the restart of a task that was preparing carries
  the old number (`resubmit-number`); flow numbers (`flows`); flow-wait flag (`flow-wait`); manual-submit flag
  (`manual-submit`); held state (`held`); completed outputs (`outputs`); prerequisite satisfaction (`prereqs`);
  hold point, tasks_to_hold, stop point of a requested stop, stop task, record of absolute outputs
  (`hold-point`, `tasks-to-hold`, `stop-point`, `stop-task`, `abs-outputs`); the flow counter does not go down
  (`flow-counter`).
  Deviations of the unchanged code that are recorded findings carry the finding key (findings/C11R.json, the keys
  of findings/C19.json where the finding is the same): `outputs-not-restored` (outputs are reloaded only for
  running / failed / succeeded tasks), `hold-point-reapplied`, `new-row-drops-outputs` (every output of the task
  is gone AND the task has completed nothing since a flow was merged into it / since it entered the pool carrying
  the outputs of its history - read off the trace),
  `flow-wait-resurrected` (the flag is up again AND it went down while the task was pooled - which only a flow
  merge does - or the committed row of the task's flows said flow_wait all along: the restart read a stale row),
  `set-db-row-missing` (a pooled task is gone AND the database had no row of exactly its flows; finding of C29),
  `manual-trigger-not-persisted` (is_manual_submit was up and is down), `prereq-row-shared` (only atoms that occur in
  several prerequisite expressions of the task with DIFFERENT satisfaction changed).
  Any other failure is reported first.
-/
import CylcModel.Sched3SetObs
open Lean CylcModel.Drv CylcModel.Sched3Set CylcModel.S3Obs

namespace CylcModel.DrvC11R

structure Fail where
  known : Bool
  msg : String

def isRestart (op : Json) : Bool := jStrField? op "op" == some "restart"

def fld (t : Json) (k : String) : Json := (jField? t k).getD Json.null

def findTask (pool : List Json) (k : Key) : Option Json := pool.find? fun t => keyOf t == k

def isFinalStr (st : String) : Bool :=
  st == "succeeded" || st == "failed" || st == "submit-failed" || st == "expired"

/-- the completion expression over a list of completed *triggers* -/
def evalCompletion (e : CE) (outs : List String) : Bool :=
  e.eval fun v => outs.any fun t => compVar t == v

def strs (j : Json) : List String := ((jArr? j).getD []).filterMap jStr?

def firstSome {α} (l : List α) (f : α → Option String) : Option String :=
  l.foldl (fun acc x => match acc with | some w => some w | none => f x) none

/-! ### retention judge (C11 as written) -/

def judgeRetention (g : Graph) (idx : Nat) (ob : Json) : Option String :=
  let pooled := firstSome (poolOf ob) fun t =>
    let k := keyOf t
    let st := (jStrField? t "st").getD ""
    let outs := strs (fld t "out")
    if !isFinalStr st then none else
    match g.task? k.2 with
    | none => none
    | some td =>
      if evalCompletion td.completion outs then
        some s!"retained-complete: obs {idx}: {showKey k} is {st} and complete (outputs {outs}) but still in the pool"
      else none
  match pooled with
  | some w => some w
  | none =>
    firstSome ((jArrField? ob "removed").getD []) fun r =>
      match jArr? r with
      | some [p, n, st, outs, reason] =>
        let k : Key := ((jInt? p).getD 0, (jStr? n).getD "")
        let st := (jStr? st).getD ""
        let outs := strs outs
        if (jStr? reason).isSome then none          -- suicide trigger, `cylc remove`: not a completion-based removal
        else match g.task? k.2 with
          | none => none
          | some td =>
            if !isFinalStr st then some s!"removed-unfinished: obs {idx}: {showKey k} removed as completed while {st}"
            else if !evalCompletion td.completion outs then
              some s!"removed-incomplete: obs {idx}: {showKey k} ({st}) removed as completed although incomplete (outputs {outs})"
            else none
      | _ => none

/-! ### delivery judge: what the task's own job reports is recorded, in any order of arrival -/

/-- the output messages that job messages handed to `process_message` in this observation carried for the CURRENT
job of a pooled task (runner instrumentation `msgs`: flag `received`, top level, not forced, the proxy is the pooled
one, the message's submit number is the proxy's, the task is preparing / submitted / running / succeeded / failed -
a task waiting for a retry legitimately ignores late messages): (key, submit number, trigger, recorded afterwards) -/
def deliveredOutputs (g : Graph) (ob : Json) : List (Key × Nat × String × Bool) :=
  ((jArrField? ob "msgs").getD []).filterMap fun m =>
    let k : Key := ((jIntField? m "p").getD 0, (jStrField? m "n").getD "")
    let before := (jArrField? m "b").getD []
    let after := (jArrField? m "a").getD []
    match before, after with
    | bst :: bsn :: _, _ :: _ :: aouts :: _ =>
      let st := (jStr? bst).getD ""
      if jStrField? m "fl" == some "received" && jNatField? m "d" == some 0 && jBoolField? m "tr" == some false &&
          jBoolField? m "forced" == some false && jBoolField? m "in" == some true &&
          jNatField? m "sn" == jNat? bsn &&
          (st == "preparing" || st == "submitted" || st == "running" || st == "succeeded" || st == "failed") then
        let msg := (jStrField? m "m").getD ""
        if msg == "failed" || msg == "submit-failed" then none else
        match (g.task? k.2).bind fun t => t.outputs.find? (·.message == msg) with
        | some o => some (k, (jNat? bsn).getD 0, o.trigger, (strs aouts).contains o.trigger)
        | none => none
      else none
    | _, _ => none

/-- `output-dropped`: an output message received from the current job of a pooled task is among its completed
outputs right after it was processed -/
def judgeDelivered (g : Graph) (idx : Nat) (ob : Json) : Option String :=
  firstSome (deliveredOutputs g ob) fun (k, sn, trg, ok) =>
    if ok then none
    else some s!"output-dropped: obs {idx}: job {sn} of {showKey k} reported its output {trg} and the output is not recorded as completed"

/-- `retained-delivered` (retention clause of C11 over arrival orders): a finished task still in the pool is
incomplete even when the outputs its current job has reported since the last restart - in whatever order they
arrived - are counted -/
def judgeRetainedDelivered (g : Graph) (ops obs : List Json) : Option String :=
  let flowsOf (ob : Json) (k : Key) : List Nat :=
    match findTask (poolOf ob) k with
    | some t => ((jArrField? t "fl").getD []).filterMap jNat?
    | none => []
  let rec go (idx : Nat) (prev : Json) (acc : List (Key × Nat × String × List Nat)) (ops obs : List Json) :
      Option String :=
    match obs with
    | [] => none
    | ob :: obs' =>
      -- (reports count for the pooled incarnation only - the one that carried, when the report arrived, flow numbers
      -- the pooled proxy still carries; forgotten once the instance leaves the pool)
      let fresh : List (Key × Nat × String × List Nat) :=
        (deliveredOutputs g ob).map fun e => (e.1, e.2.1, e.2.2.1, flowsOf prev e.1)
      let acc := (acc ++ fresh).filter fun e =>
        (findTask (poolOf ob) e.1).isSome && !e.2.2.2.isEmpty && e.2.2.2.all ((flowsOf ob e.1).contains ·)
      let here := firstSome (poolOf ob) fun t =>
        let k := keyOf t
        let st := (jStrField? t "st").getD ""
        if !isFinalStr st then none else
        match g.task? k.2 with
        | none => none
        | some td =>
          let sn := (jNatField? t "sn").getD 0
          let got := (acc.filter fun e => e.1 == k && e.2.1 == sn).map (·.2.2.1)
          let outs := strs (fld t "out")
          if !evalCompletion td.completion outs && evalCompletion td.completion (outs ++ got) then
            some s!"retained-delivered: obs {idx}: {showKey k} is {st} and retained as incomplete (outputs {outs}) although its job {sn} has reported {got}: every output of its completion expression was delivered"
          else none
      match here with
      | some w => some w
      | none =>
        match ops with
        | [] => none
        | op :: ops' => go (idx + 1) ob (if isRestart op then [] else acc) ops' obs'
  go 0 Json.null [] ops obs

/-! ### restart judge -/

def keysOf (j : Json) : List Key := ((jArr? j).getD []).filterMap keyArr?

/-- flow-wait flag of instance `k` in an observation (`fw` lists the pooled instances with the flag up) -/
def fwOf (ob : Json) (k : Key) : Bool := (keysOf (fld ob "fw")).contains k

/-- manual-submit flag of instance `k` (`xt.pool[].man`) -/
def manOf (ob : Json) (k : Key) : Option Bool :=
  (((jArrField? (fld ob "xt") "pool").getD []).find? fun t => keyOf t == k).bind fun t => jBoolField? t "man"

def launches (ob : Json) : List (Key × Nat) :=
  ((jArrField? ob "launch").getD []).filterMap fun l =>
    match jArr? l with
    | some [p, n, sn] => do pure ((← jInt? p, ← jStr? n), ← jNat? sn)
    | _ => none

/-- the first launch of instance `k` in the observations that follow, up to the next restart, while it stays pooled -/
def firstLaunch (k : Key) : List (Json × Json) → Option Nat
  | [] => none
  | (op, ob) :: rest =>
    if isRestart op then none else
    match (launches ob).find? fun l => l.1 == k with
    | some l => some l.2
    | none =>
      -- (only while the restored proxy stays in the pool: a later incarnation is another matter)
      if (findTask (poolOf ob) k).isNone then none else firstLaunch k rest

/-- index (1-based position in `hist`, oldest first) of the last observation in which `proj` of instance `k`
differs from the observation before it, both taken while `k` is pooled when `both`; 0 = never -/
def lastChange (hist : List Json) (k : Key) (proj : Json → Json → Json) (both : Bool) : Nat :=
  let vals : List (Option Json) := hist.map fun ob => (findTask (poolOf ob) k).map (proj ob)
  let rec go (i : Nat) (prev : Option Json) (acc : Nat) : List (Option Json) → Nat
    | [] => acc
    | v :: rest =>
      let changed := match prev, v with
        | some x, some y => x != y
        | none, some _ => !both
        | _, _ => false
      go (i + 1) v (if changed then i else acc) rest
  match vals with
  | [] => 0
  | v :: rest => go 2 v 0 rest

/-- position (1-based, oldest first) of the observation in which instance `k` entered the pool the last time
(1 = pooled from the start) -/
def lastBorn (hist : List Json) (k : Key) : Nat :=
  let rec go (i : Nat) (prev : Bool) (acc : Nat) : List Json → Nat
    | [] => acc
    | ob :: rest =>
      let here := (findTask (poolOf ob) k).isSome
      go (i + 1) here (if here && !prev then i else acc) rest
  go 1 false 0 hist

/-- the committed rows of task_states ⋈ task_outputs as last observed before the stop (the stopped scheduler's own
observation has none): `[point, name, flows, status, submit number, flow wait, outputs]` -/
def lastRows (hist : List Json) : List Json :=
  match hist.reverse.find? fun ob => (jOptField ob "ts").isSome with
  | some ob => (jArrField? ob "ts").getD []
  | none => []

/-- the row of exactly the flows `fl` of instance `k` -/
def rowOf (rows : List Json) (k : Key) (fl : Json) : Option (List Json) :=
  (rows.filterMap jArr?).find? fun r =>
    match r with
    | p :: n :: f :: _ => jInt? p == some k.1 && jStr? n == some k.2 && f == fl
    | _ => false

/-- judge of one restart: `hist` = the observations up to and including `b` (oldest first) -/
def judgeRestart (idx : Nat) (hist : List Json) (b a : Json) (later : List (Json × Json)) : List Fail :=
  let bp := poolOf b
  let ap := poolOf a
  let at_ := s!"restart at op {idx}"
  let holdB := fld b "hold"
  let holdA := fld a "hold"
  let hp : Option Int := jIntField? holdB "point"
  let lost := bp.filter fun t => (findTask ap (keyOf t)).isNone
  let extra := ap.filter fun t => (findTask bp (keyOf t)).isNone
  let rows := lastRows hist
  let f0 : List Fail :=
    (lost.map fun t =>
      if (rowOf rows (keyOf t) (fld t "fl")).isNone then
        ⟨true, s!"set-db-row-missing: {at_}: {showKey (keyOf t)} ({(fld t "st").compress}, flows {(fld t "fl").compress}) was in the pool before the stop, the database has no task_states row of exactly these flows, and the task is gone after the restart"⟩
      else
        ⟨false, s!"pool-lost: {at_}: {showKey (keyOf t)} ({(fld t "st").compress}, flows {(fld t "fl").compress}) was in the pool before the stop and is gone after the restart"⟩) ++
    (extra.map fun t => ⟨false, s!"pool-extra: {at_}: {showKey (keyOf t)} is in the pool after the restart and was not before the stop"⟩)
  let perTask : List Fail := bp.flatMap fun t =>
    match findTask ap (keyOf t) with
    | none => []
    | some u =>
      let k := keyOf t
      let st := (jStrField? t "st").getD "?"
      let sn := (jNatField? t "sn").getD 0
      let wantSt := if st == "preparing" then "waiting" else st
      let wantSn := if st == "preparing" then sn - 1 else sn
      let c1 : List Fail :=
        if jStrField? u "st" != some wantSt then
          [⟨false, s!"status: {at_}: {showKey k} was {st}, restored as {(jStrField? u "st").getD "?"} (expected {wantSt})"⟩] else []
      let c2 : List Fail :=
        if jNatField? u "sn" != some wantSn then
          [⟨false, s!"submit-num: {at_}: {showKey k} ({st}) had submit number {sn}, restored with {(fld u "sn").compress} (expected {wantSn})"⟩]
        else []
      let c3 : List Fail :=
        if fld u "fl" != fld t "fl" then
          [⟨false, s!"flows: {at_}: {showKey k} flow numbers {(fld t "fl").compress} restored as {(fld u "fl").compress}"⟩] else []
      -- the last flow merge into the pooled instance, its last output completion, the last change of its
      -- flow-wait flag (positions in the history, 0 = none)
      let mergeAt := lastChange hist k (fun _ x => fld x "fl") true
      let outAt := lastChange hist k (fun _ x => fld x "out") true
      -- the position at which the instance entered the pool (the last time)
      let bornAt := lastBorn hist k
      let fwAt := lastChange hist k (fun ob x => Json.bool (fwOf ob (keyOf x))) true
      let c3w : List Fail :=
        if fwOf a k != fwOf b k then
          let rowFw : Option Bool := match rowOf rows k (fld t "fl") with
            | some (_ :: _ :: _ :: _ :: _ :: fw :: _) => jBool? fw
            | _ => none
          if fwOf a k && (fwAt != 0 || rowFw == some true) then
            [⟨true, s!"flow-wait-resurrected: {at_}: {showKey k} ({st}, flows {(fld t "fl").compress}) was not waiting for a flow merge before the stop ({if fwAt != 0 then s!"the wait was ended by a merge, obs {fwAt - 1}" else "it entered the pool without the flag"}), its task_states row still says flow_wait, and it waits again after the restart"⟩]
          else if fwOf a k then
            [⟨false, s!"flow-wait: {at_}: {showKey k} ({st}, flows {(fld t "fl").compress}) was not waiting for a flow merge before the stop and is (flow-wait) after the restart"⟩]
          else
            [⟨false, s!"flow-wait: {at_}: {showKey k} ({st}, flows {(fld t "fl").compress}) was waiting for a flow merge (flow-wait) before the stop and is not after the restart"⟩]
        else []
      let c3m : List Fail :=
        match manOf b k, manOf a k with
        | some mb, some ma =>
          if mb && !ma then
            [⟨true, s!"manual-trigger-not-persisted: {at_}: {showKey k} ({st}) had been triggered manually (is_manual_submit) before the stop and is not after the restart"⟩]
          else if mb != ma then
            [⟨false, s!"manual-submit: {at_}: {showKey k} ({st}) manual-submit flag {mb} restored as {ma}"⟩] else []
        | _, _ => []
      let c4 : List Fail :=
        if fld u "held" != fld t "held" then
          let reapplied := jBoolField? u "held" == some true && (match hp with | some h => k.1 > h | none => false)
          if reapplied then
            [⟨true, s!"hold-point-reapplied: {at_}: {showKey k} had been released (hold point {hp.getD 0}) and is held again after the restart"⟩]
          else [⟨false, s!"held: {at_}: {showKey k} held={(fld t "held").compress} restored as held={(fld u "held").compress}"⟩]
        else []
      let c5 : List Fail :=
        if fld u "out" != fld t "out" then
          let unloaded := fld u "out" == Json.arr #[] && !(st == "running" || st == "failed" || st == "succeeded")
          if unloaded then
            [⟨true, s!"outputs-not-restored: {at_}: {showKey k} ({st}) had completed outputs {(fld t "out").compress}, none after the restart"⟩]
          else if fld u "out" == Json.arr #[] && outAt ≤ (if mergeAt < bornAt then bornAt else mergeAt) then
            [⟨true, s!"new-row-drops-outputs: {at_}: {showKey k} ({st}, flows {(fld t "fl").compress}) has completed nothing since it {if mergeAt < bornAt then "entered the pool with the outputs of its history" else "got a flow merged in"} (outputs {(fld t "out").compress}); none of these outputs after the restart"⟩]
          else if fld u "out" == Json.arr #[] && (match rowOf ((jArrField? a "ts").getD rows) k (fld t "fl") with
              | some (_ :: _ :: _ :: _ :: _ :: _ :: outs :: _) => outs == Json.arr #[]
              | _ => false) then
            -- a merge of flow numbers the task already carries re-creates its rows too (no change of its flows to see)
            [⟨true, s!"new-row-drops-outputs: {at_}: {showKey k} ({st}, flows {(fld t "fl").compress}) had completed {(fld t "out").compress} while the task_outputs row of exactly its flows had been re-created empty (a merge of flow numbers it already carries); none of these outputs after the restart"⟩]
          else [⟨false, s!"outputs: {at_}: {showKey k} ({st}, flows {(fld t "fl").compress}) completed outputs {(fld t "out").compress} restored as {(fld u "out").compress}"⟩]
        else []
      let c6 : List Fail :=
        if fld u "pre" != fld t "pre" then
          -- the task_prerequisites table has ONE row per (task, upstream output): an atom that occurs in several
          -- prerequisite expressions of the task with different satisfaction comes back with one value everywhere
          let atomsOf (j : Json) : List (Json × Json) :=
            ((jArr? j).getD []).flatMap fun pr => ((jArr? pr).getD []).filterMap fun a =>
              match jArr? a with
              | some [p, n, o, v] => some (Json.arr #[p, n, o], v)
              | _ => none
          let before := atomsOf (fld t "pre")
          let after := atomsOf (fld u "pre")
          let mixed (key : Json) : Bool :=
            (before.any fun e => e.1 == key && e.2 == Json.bool true) &&
            (before.any fun e => e.1 == key && e.2 == Json.bool false)
          let cnt (l : List (Json × Json)) (key : Json) (v : Option Json) : Nat :=
            (l.filter fun e => e.1 == key && (match v with | some x => e.2 == x | none => true)).length
          -- (the observation lists the expressions sorted, so they are compared per atom, not by position)
          let onlyShared := before.length == after.length && (before ++ after).all fun e =>
            cnt before e.1 none == cnt after e.1 none &&
            (mixed e.1 || cnt before e.1 (some (Json.bool true)) == cnt after e.1 (some (Json.bool true)))
          if onlyShared then
            [⟨true, s!"prereq-row-shared: {at_}: {showKey k} has an upstream output in several prerequisite expressions with different satisfaction {(fld t "pre").compress}; restored with one value for all of them {(fld u "pre").compress}"⟩]
          else
          [⟨false, s!"prereqs: {at_}: {showKey k} prerequisite satisfaction {(fld t "pre").compress} restored as {(fld u "pre").compress}"⟩]
        else []
      let c7 : List Fail :=
        if st == "preparing" then
          match firstLaunch k later with
          | some sn' => if sn' != sn then
              [⟨false, s!"resubmit-number: {at_}: {showKey k} was preparing under submit number {sn} and is launched under {sn'} after the restart"⟩]
            else []
          | none => []
        else []
      c1 ++ c2 ++ c3 ++ c3w ++ c3m ++ c4 ++ c5 ++ c6 ++ c7
  let g1 : List Fail :=
    if fld holdA "point" != fld holdB "point" then
      [⟨false, s!"hold-point: {at_}: hold point {(fld holdB "point").compress} restored as {(fld holdA "point").compress}"⟩] else []
  let tb := (jArrField? holdB "tasks").getD []
  let ta := (jArrField? holdA "tasks").getD []
  let g2 : List Fail :=
    if tb == ta then [] else
    let missing := tb.filter fun x => !ta.contains x
    let added := ta.filter fun x => !tb.contains x
    let addedByHoldPoint := added.all fun x =>
      match keyArr? x, hp with
      | some k, some h => k.1 > h && (findTask bp k).isSome
      | _, _ => false
    if missing.isEmpty && addedByHoldPoint then
      [⟨true, s!"hold-point-reapplied: {at_}: tasks_to_hold gained {(Json.arr added.toArray).compress} (pooled tasks beyond the hold point that had been released)"⟩]
    else [⟨false, s!"tasks-to-hold: {at_}: tasks_to_hold {(Json.arr tb.toArray).compress} restored as {(Json.arr ta.toArray).compress}"⟩]
  let requested := ((jStrField? b "stop").getD "").startsWith "REQUEST"
  let g3 : List Fail :=
    if requested && fld a "stop_point" != fld b "stop_point" then
      [⟨false, s!"stop-point: {at_}: stop point {(fld b "stop_point").compress} restored as {(fld a "stop_point").compress}"⟩] else []
  let g4 : List Fail :=
    if fld a "stop_task" != fld b "stop_task" then
      [⟨false, s!"stop-task: {at_}: stop task {(fld b "stop_task").compress} restored as {(fld a "stop_task").compress}"⟩] else []
  let g5 : List Fail :=
    if fld a "abs_done" != fld b "abs_done" then
      [⟨false, s!"abs-outputs: {at_}: completed absolute outputs {(fld b "abs_done").compress} restored as {(fld a "abs_done").compress}"⟩]
    else []
  let g6 : List Fail :=
    match jNatField? b "flow_counter", jNatField? a "flow_counter" with
    | some cb, some ca =>
      if ca < cb then [⟨false, s!"flow-counter: {at_}: flow counter {cb} restored as {ca}"⟩] else []
    | _, _ => []
  f0 ++ perTask ++ g1 ++ g2 ++ g3 ++ g4 ++ g5 ++ g6

/-- all restarts of a run: ops[k] yields obs[k+1] -/
def judgeRestarts (ops obs : List Json) : List Fail :=
  let rec go (idx : Nat) (seen : List Json) (ops : List Json) (obs : List Json) : List Fail :=
    match ops, obs with
    | op :: ops', b :: (a :: obs') =>
      let here := if isRestart op then judgeRestart idx (seen ++ [b]) b a (ops'.zip obs') else []
      here ++ go (idx + 1) (seen ++ [b]) ops' (a :: obs')
    | _, _ => []
  go 0 [] ops obs

def judgeRetentionAll (g : Graph) (o : Json) : Option String :=
  let rec go (i : Nat) : List Json → Option String
    | [] => none
    | ob :: rest => match judgeRetention g i ob with
      | some w => some w
      | none => match judgeDelivered g i ob with
        | some w => some w
        | none => go (i + 1) rest
  go 0 (obsList o)

def handle (i o : Json) : Except String Reply := do
  if let some r := crashReplyKeyed? i then return r
  let g ← parseGraph (← (match jField? i "graph" with | some x => pure x | none => .error "graph"))
  let opsJ := (jArrField? i "ops").getD []
  let model : Json ←
    if jStrField? i "kind" == some "trigw" then
      -- `cylc trigger` is not an op of Sched3Set: judged on the real trace only
      pure (Json.arr ((obsList o).map fun _ => Json.mkObj []).toArray)
    else do
      let c ← parseCase i
      pure (modelObs c)
  let fails := judgeRestarts opsJ (obsList o)
  match fails.find? (!·.known) with
  | some f => return { model, holds := false, why := f.msg }
  | none =>
    match (judgeRetentionAll g o).orElse fun _ => judgeRetainedDelivered g opsJ (obsList o) with
    | some w => return { model, holds := false, why := w }
    | none =>
      match fails with
      | f :: _ => return { model, holds := false, why := f.msg }
      | [] => return { model, holds := true }

end CylcModel.DrvC11R

def main : IO Unit := CylcModel.Drv.run CylcModel.DrvC11R.handle
