/-
Driver for C46 (warm starts run only what follows the start point): `Sched` correspondence + judge on
the real scheduler's trace.

The judge reads the implementation's observations and the extracted instance graph only:
* no job launch (`launch`), no hand-over to job preparation (`prep`) and no pooled instance in a
  status other than `waiting` before the start point (v1 runs contain no manual trigger);
* dependencies on pre-start instances count as satisfied: in the graph read off the real
  `TaskProxy` objects every atom pointing before the start point on an instance at or after the start
  point is initially satisfied (the rule `point < start`; also the hypothesis `preStartSatB` of the
  theorem), and in every observed pool those atoms are satisfied.
-/
import CylcModel.SchedJson
import CylcModel.SchedAbsStart
open Lean CylcModel.Drv CylcModel.Sched

namespace CylcModel.DrvC46

/-- the first atom of the graph that breaks the pre-start rule -/
def graphOffender (g : Graph) : Option String :=
  g.tasks.findSome? fun t => t.insts.findSome? fun pd =>
    if pd.1 < g.start then none else
    pd.2.pre.findSome? fun pr => pr.atoms.findSome? fun e =>
      if e.1.pt < g.start && !e.2 then
        some s!"{pd.1}/{t.name}: dependency on the pre-start {e.1.pt}/{e.1.task}:{e.1.out} is not initially satisfied"
      else none

def tripleOf (j : Json) : Option (Int × String) :=
  match jArr? j with
  | some (p :: n :: _) => do return (← jInt? p, ← jStr? n)
  | _ => none

def judgeObs (g : Graph) (idx : Nat) (ob : Json) : Option String :=
  let early (k : String) : Option (Int × String) :=
    (((jArrField? ob k).getD []).filterMap tripleOf).find? fun l => l.1 < g.start
  match early "launch" with
  | some l => some s!"obs {idx}: job launched for {l.1}/{l.2} before the start point {g.start}"
  | none =>
  match early "prep" with
  | some l => some s!"obs {idx}: {l.1}/{l.2} handed to job preparation before the start point {g.start}"
  | none =>
    (poolOf ob).findSome? fun t =>
      let (p, n) := keyOf t
      if p < g.start then
        if jStrField? t "st" != some "waiting" then
          some s!"obs {idx}: pre-start instance {p}/{n} is {(jStrField? t "st").getD "?"}"
        else none
      else
        ((jArrField? t "pre").getD []).findSome? fun pr => ((jArr? pr).getD []).findSome? fun a =>
          match jArr? a with
          | some [ap, an, am, as] =>
            if (jInt? ap).getD 0 < g.start && jBool? as != some true then
              some s!"obs {idx}: {p}/{n} waits on the pre-start {(jInt? ap).getD 0}/{(jStr? an).getD ""}:{(jStr? am).getD ""}"
            else none
          | _ => some s!"obs {idx}: malformed atom"

def judge (g : Graph) (o : Json) : Option String :=
  let rec go (i : Nat) : List Json → Option String
    | [] => none
    | ob :: rest => match judgeObs g i ob with
      | some w => some w
      | none => go (i + 1) rest
  go 0 (obsList o)

def handle (i o : Json) : Except String Reply := do
  if let some r := crashReply? i then return r
  let c ← parseCase i
  -- the rule of the property on the real graph = the hypothesis `preStartSatB` of `prestart_satisfied`
  match graphOffender c.graph with
  | some w => return { model := modelObs c, holds := false, why := s!"graph: {w}" }
  | none =>
  if !preStartSatB c.graph then
    return { model := modelObs c, holds := false, why := "graph: preStartSatB fails" }
  match judge c.graph o with
  | some w => return { model := modelObs c, holds := false, why := w }
  | none => return { model := modelObs c, holds := true }

end CylcModel.DrvC46

def main : IO Unit := CylcModel.Drv.run CylcModel.DrvC46.handle
