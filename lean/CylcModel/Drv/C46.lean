/-
Driver for C46 (warm starts run only what follows the start point): `Sched` correspondence + judge on
the real scheduler's trace.

The judge reads the implementation's observations and the extracted instance graph only:
* no job launch (`launch`), no hand-over to job preparation (`prep`) and no pooled instance in a
  status other than `waiting` before the start point (v1 runs contain no manual trigger);
* dependencies on pre-start instances count as satisfied: in the graph read off the real
  `TaskProxy` objects every atom pointing before the start point on an instance at or after the start
  point is initially satisfied (the rule `point < start`; also the hypothesis `preStartSatB` of the
  theorem), and in every observed pool those atoms are satisfied;
* the start point itself: the scheduler's start point (read off the loaded configuration into the graph)
  must be the one the command line asks for — `--startcp`, or the earliest cycle among the `--start-task`
  ids (compared as cycle points, by the harness, from the case options), or the initial point;
* nothing that must run is lost (checked on `complete` runs that ended with the automatic shutdown):
  a warm-started run launches every instance at or after the start point (up to the stop point, no
  suicide trigger) all of whose dependencies are on pre-start instances; a start-task run launches every
  start task;
* start tasks: every launch lies in the closure of the start tasks under "graph child of any output"
  and "next parentless instance" (what the start tasks lead to).
-/
import CylcModel.SchedJson
import CylcModel.SchedAbsStart
import CylcModel.SchedStart
open Lean CylcModel.Drv CylcModel.Sched

namespace CylcModel.DrvC46

/-- the first atom of the graph that breaks the pre-start rule -/
def graphOffender (g : Graph) : Option String :=
  g.tasks.findSome? fun t => t.insts.findSome? fun pd =>
    if pd.1 < g.start then none else
    pd.2.pre.findSome? fun pr => pr.atoms.findSome? fun e =>
      if e.1.pt < g.start && !e.2 then
        some s!"{pd.1}/{t.name}: dependency on the pre-start {e.1.pt}/{e.1.task}:{e.1.out} is not initially satisfied"
      else none

def tripleOf (j : Json) : Option (Int × String) :=
  match jArr? j with
  | some (p :: n :: _) => do return (← jInt? p, ← jStr? n)
  | _ => none

def judgeObs (g : Graph) (idx : Nat) (ob : Json) : Option String :=
  let early (k : String) : Option (Int × String) :=
    (((jArrField? ob k).getD []).filterMap tripleOf).find? fun l => l.1 < g.start
  match early "launch" with
  | some l => some s!"obs {idx}: job launched for {l.1}/{l.2} before the start point {g.start}"
  | none =>
  match early "prep" with
  | some l => some s!"obs {idx}: {l.1}/{l.2} handed to job preparation before the start point {g.start}"
  | none =>
    (poolOf ob).findSome? fun t =>
      let (p, n) := keyOf t
      if p < g.start then
        if jStrField? t "st" != some "waiting" then
          some s!"obs {idx}: pre-start instance {p}/{n} is {(jStrField? t "st").getD "?"}"
        else none
      else
        ((jArrField? t "pre").getD []).findSome? fun pr => ((jArr? pr).getD []).findSome? fun a =>
          match jArr? a with
          | some [ap, an, am, as] =>
            if (jInt? ap).getD 0 < g.start && jBool? as != some true then
              some s!"obs {idx}: {p}/{n} waits on the pre-start {(jInt? ap).getD 0}/{(jStr? an).getD ""}:{(jStr? am).getD ""}"
            else none
          | _ => some s!"obs {idx}: malformed atom"


/-- every job launch of the trace -/
def launches (o : Json) : List (Int × String) :=
  (obsList o).flatMap fun ob => ((jArrField? ob "launch").getD []).filterMap tripleOf

def lastStop (o : Json) : Option String :=
  match (obsList o).getLast? with
  | some ob => jStrField? ob "stop"
  | none => none

def upper (g : Graph) : Int := match g.stopPoint with | some sp => min sp g.fcp | none => g.fcp

/-- instances at/after the start point whose (non-empty) dependencies are all on pre-start instances -/
def preStartOnly (g : Graph) : List (Int × String) :=
  g.tasks.flatMap fun t => t.insts.filterMap fun pd =>
    if pd.1 < g.start || pd.1 > upper g || !pd.2.sui.isEmpty || pd.2.pre.isEmpty then none
    else if pd.2.pre.all fun pr => pr.atoms.all fun e => e.1.pt < g.start then some (pd.1, t.name)
    else none

/-- what a set of instances leads to: graph children of every output, and the next parentless instance -/
def leadsTo (g : Graph) (k : Int × String) : List (Int × String) :=
  match (g.task? k.2).bind (·.inst? k.1) with
  | none => []
  | some d =>
    (d.children.flatMap fun oc => oc.2.map fun c => (c.pt, c.name)) ++
      (match d.nextParentless with | some np => [(np, k.2)] | none => [])

def closure (g : Graph) (starts : List (Int × String)) : List (Int × String) :=
  let size := (g.tasks.map fun t => t.insts.length).foldl (· + ·) 1
  let rec go : Nat → List (Int × String) → List (Int × String)
    | 0, acc => acc
    | n + 1, acc =>
      let next := (acc.flatMap (leadsTo g)).foldl (fun a k => if a.contains k then a else a ++ [k]) acc
      if next.length == acc.length then acc else go n next
  go size (starts.foldl (fun a k => if a.contains k then a else a ++ [k]) [])

def parseStarts (i : Json) : Option (List (Int × String)) :=
  (jArrField? i "start_tasks").map fun l => l.filterMap tripleOf

def judge (g : Graph) (i o : Json) : Option String :=
  let rec go (k : Nat) : List Json → Option String
    | [] => none
    | ob :: rest => match judgeObs g k ob with
      | some w => some w
      | none => go (k + 1) rest
  match go 0 (obsList o) with
  | some w => some w
  | none =>
    let ran := launches o
    -- a `complete` run (every job does what its task requires) that ended with the automatic shutdown, or
    -- stalled: nothing more will happen
    let finished := jStrField? i "kind" == some "complete" &&
      (lastStop o == some "AUTOMATIC" || ((obsList o).getLast?.bind fun ob => jBoolField? ob "stalled") == some true)
    -- recorded defect: a sequential task with graph parents is never "parentless", so its first instance
    -- at/after the start point is never spawned when all its parents are before the start point
    let isSeq (n : String) : Bool :=
      (((jField? i "graph").bind fun gj => jField? gj "tasks").bind fun tj => (jField? tj n).bind fun t =>
        jBoolField? t "sequential") == some true
    match parseStarts i with
    | none =>
      -- start from a cycle point
      if !finished || g.start ≤ g.icp then none else
      -- after a stall only what lies within the runahead limit can be expected to have run
      let auto := lastStop o == some "AUTOMATIC"
      let limit : Int := ((obsList o).getLast?.bind fun ob => jIntField? ob "rl").getD g.start
      match (preStartOnly g).find? fun k => !ran.contains k && (auto || k.1 ≤ limit) with
      | some k =>
        let key := if isSeq k.2 then "sequential-first-instance-never-spawned: " else ""
        some s!"{key}never-ran: {k.1}/{k.2} depends on pre-start instances only (start point {g.start}) but the run ended (automatic shutdown or stall) without running it"
      | none => none
    | some starts =>
      let cl := closure g starts
      match ran.find? fun k => !cl.contains k with
      | some k => some s!"job launched for {k.1}/{k.2}, which no start task leads to"
      | none =>
        if !finished then none else
        let auto := lastStop o == some "AUTOMATIC"
        let limit : Int := ((obsList o).getLast?.bind fun ob => jIntField? ob "rl").getD g.start
        match starts.find? fun k => k.1 ≤ upper g && ((g.task? k.2).bind (·.inst? k.1)).isSome && !ran.contains k &&
            (auto || k.1 ≤ limit) with
        | some k => some s!"never-ran: start task {k.1}/{k.2} was never run"
        | none => none

def handle (i o : Json) : Except String Reply := do
  if let some r := crashReply? i then return r
  let c ← parseCase i
  let g := c.graph
  let model : Json := match parseStarts i with
    | some starts => jOfList (obsJson g) (runTasks g starts c.ops)
    | none => modelObs c
  -- the start point the command line asks for (computed by the harness from the case options)
  let want : Int := (jIntField? i "expect_start").getD g.icp
  if g.start != want then
    return { model, holds := false,
             why := s!"start-point: the scheduler starts from {g.start}, the command line asks for {want}" }
  -- the rule of the property on the real graph = the hypothesis `preStartSatB` of `prestart_satisfied`
  match graphOffender g with
  | some w => return { model, holds := false, why := s!"graph: {w}" }
  | none =>
  if !preStartSatB g then
    return { model, holds := false, why := "graph: preStartSatB fails" }
  match judge g i o with
  | some w => return { model, holds := false, why := w }
  | none => return { model, holds := true }

end CylcModel.DrvC46

def main : IO Unit := CylcModel.Drv.run CylcModel.DrvC46.handle
