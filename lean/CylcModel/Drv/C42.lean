/-
Driver for C42: runs the `SubProc` model on a JSON case and judges the implementation's
observations with the monitor `SubProc.Spec.judge` (the property, independent of the model).

input  i : {"size": n, "timeout": T, "cmds": [{"id": n, "submit": b, "kind": "quick|slow|hang|bad", "code": n, "remote": b?, "cb255": b?}],
            "ops": [["put", id] | ["proc", [id...]] | ["adv", dt] | ["rel", id] | ["stop"] | ["close"] | ["term", [id...]]]}
           (the id lists of proc / term are the children the implementation found exited: environment)
observed o / model m : {"out": [[[EV...], queued, running] per op]}
   EV : ["start", id] | ["cb", id, "exit:<code>" | "host255" (the 255 callback was called) | "timeout" | "killed" | "stopping" | "oserr"]
-/
import CylcModel.Util.Drv
import CylcModel.SubProc
open Lean CylcModel.Drv CylcModel.SubProc

namespace CylcModel.DrvC42

def need {α} (o : Option α) (what : String) : Except String α :=
  match o with | some v => .ok v | none => .error s!"bad or missing {what}"

def parseKind : String → Except String Kind
  | "quick" => .ok .quick | "slow" => .ok .slow | "hang" => .ok .hang | "bad" => .ok .bad
  | s => .error s!"unknown kind {s}"

def parseCmd (j : Json) : Except String Cmd := do
  return { id := ← need (jNatField? j "id") "cmd.id", submit := ← need (jBoolField? j "submit") "cmd.submit",
           kind := ← parseKind (← need (jStrField? j "kind") "cmd.kind"), code := ← need (jIntField? j "code") "cmd.code",
           remote := (jBoolField? j "remote").getD false, cb255 := (jBoolField? j "cb255").getD false }

def natList (j : Json) : Except String (List Nat) := do
  (← need (jArr? j) "id list").mapM fun x => need (jNat? x) "id"

def parseOp (cmds : List Cmd) (j : Json) : Except String Op := do
  match ← need (jArr? j) "op" with
  | [k] =>
    match jStr? k with
    | some "stop" => return .setStopping
    | some "close" => return .close
    | _ => throw "unknown op"
  | [k, a] =>
    match jStr? k with
    | some "put" =>
      let id ← need (jNat? a) "put id"
      match cmds.find? (·.id == id) with
      | some c => return .put c
      | none => throw s!"put of unknown command {id}"
    | some "proc" => return .process (← natList a)
    | some "term" => return .terminate (← natList a)
    | some "adv" => return .advance (← need (jNat? a) "adv dt")
    | some "rel" => return .release (← need (jNat? a) "rel id")
    | _ => throw "unknown op"
  | _ => throw "malformed op"

structure Case where
  size : Nat
  timeout : Int
  cmds : List Cmd
  ops : List Op

def parseCase (j : Json) : Except String Case := do
  let cmds ← (← need (jArrField? j "cmds") "cmds").mapM parseCmd
  let ops ← (← need (jArrField? j "ops") "ops").mapM (parseOp cmds)
  return { size := ← need (jNatField? j "size") "size", timeout := ← need (jIntField? j "timeout") "timeout", cmds, ops }

def outcomeStr : Outcome → String
  | .exit c => s!"exit:{c}"
  | .host255 => "host255"
  | .timeout => "timeout"
  | .killed => "killed"
  | .stopping => "stopping"
  | .oserr => "oserr"

def evJson : Ev → Json
  | .cb id o => Json.arr #[Json.str "cb", jOfNat id, Json.str (outcomeStr o)]
  | .start c => Json.arr #[Json.str "start", jOfNat c.id]

def modelOut (c : Case) : Json :=
  let rows := trace Flags.code (init c.size c.timeout) c.ops
  Json.mkObj [("out", jOfList (fun (r : List Ev × Nat × Nat) =>
    Json.arr #[jOfList evJson r.1, jOfNat r.2.1, jOfNat r.2.2]) rows)]

/-! ### decoding the observation -/

def parseOutcome (s : String) : Option Outcome :=
  match s with
  | "timeout" => some .timeout
  | "killed" => some .killed
  | "stopping" => some .stopping
  | "oserr" => some .oserr
  | "host255" => some .host255
  | _ => if s.startsWith "exit:" then (s.drop 5).toInt?.map .exit else none

def parseEv (cmds : List Cmd) (j : Json) : Option Ev :=
  match jArr? j with
  | some [k, a] =>
    if jStr? k == some "start" then do
      let id ← jNat? a
      -- a start of a command that is not in the table is kept visible to the monitor
      some (.start ((cmds.find? (·.id == id)).getD { id, submit := false, kind := .quick, code := 0, remote := false, cb255 := false }))
    else none
  | some [k, a, o] =>
    if jStr? k == some "cb" then do
      some (.cb (← jNat? a) (← parseOutcome (← jStr? o)))
    else none
  | _ => none

def parseObs (cmds : List Cmd) (o : Json) : Option (List (List Ev)) := do
  (← jArrField? o "out").mapM fun row =>
    match jArr? row with
    | some (evs :: _) => do (← jArr? evs).mapM (parseEv cmds)
    | _ => none

def failText : Spec.Fail → String
  | .twice k id => s!"op {k}: command {id} called back a second time"
  | .unknown k id => s!"op {k}: event for command {id}, which was never put"
  | .overSize k n size => s!"op {k}: {n} child processes alive, pool size {size}"
  | .submitWhileStopping k id => s!"op {k}: job-submit command {id} started although the pool is stopping"
  | .startedTwice k id => s!"op {k}: command {id} started a second time"
  | .noCallback id why => why ++ s!" (command {id})"

def handle (i o : Json) : Except String Reply := do
  let c ← parseCase i
  let (ok, why) := match parseObs c.cmds o with
    | none => (false, "observation cannot be decoded")
    | some obs =>
      match Spec.judge c.size c.ops obs with
      | .ok _ => (true, "")
      | .error f => (false, failText f)
  return { model := modelOut c, holds := ok, why := why }

end CylcModel.DrvC42

def main : IO Unit := CylcModel.Drv.run CylcModel.DrvC42.handle
