/-
Driver for C45 (absolute-trigger outputs satisfy every dependent instance): `Sched` correspondence +
judge on the real scheduler's trace.

The judge reads the implementation's observations only:
* `msgs` — every `process_message` call of the op with the outputs of the instance before / after and
  whether the instance was in the pool: an output is *completed* when it appears in `after \ before`
  of a call on a pooled instance;
* the instance graph — which outputs are referenced by an absolute trigger (`children` entries flagged
  `is_abs`) and by which dependent tasks, the and/or expression of every prerequisite;
* `pool` — the prerequisite atoms (with their satisfied flags) of every pooled instance.

Restart: Sched v1 has no restart op.  Cases of kind `cmdr` contain a stop command and a restart; the
harness hands the model the op list up to the first command (correspondence on that prefix) and the
judge the complete observation trace (`full_obs`), so "including instances spawned after a restart" is
judged on the real scheduler although no theorem covers it.

Property: from the observation in which an absolute output `a` is completed onwards, every pooled
instance of every task depending on `a` has, in each prerequisite that mentions `a`, the atom satisfied
(or that prerequisite satisfied as a whole).
-/
import CylcModel.SchedJson
import CylcModel.SchedAbsStart
open Lean CylcModel.Drv CylcModel.Sched

namespace CylcModel.DrvC45

structure PoolEnt where
  p : Int
  n : String
  pre : List (List (Atom × Bool))

def parseAtomFlag (j : Json) : Option (Atom × Bool) :=
  match jArr? j with
  | some [p, n, m, s] => do
    let pt ← jInt? p
    let task ← jStr? n
    let out ← jStr? m
    let sat ← jBool? s
    return (⟨pt, task, out⟩, sat)
  | _ => none

def poolEnts (ob : Json) : List PoolEnt :=
  (poolOf ob).map fun t =>
    { p := (keyOf t).1, n := (keyOf t).2,
      pre := ((jArrField? t "pre").getD []).map fun pr => ((jArr? pr).getD []).filterMap parseAtomFlag }

def strList (j : Option Json) : List String :=
  match j with
  | some v => ((jArr? v).getD []).filterMap jStr?
  | none => []

/-- outputs (trigger names) of the snapshot `[status, submit_num, outputs, tries]` -/
def snapOuts (m : Json) (k : String) : List String :=
  match jArrField? m k with
  | some l => strList l[2]?
  | none => []

/-- the outputs completed during this op on instances that were in the pool: (point, task, trigger) -/
def completions (ob : Json) : List (Int × String × String) :=
  ((jArrField? ob "msgs").getD []).flatMap fun m =>
    if jBoolField? m "in" == some true then
      let b := snapOuts m "b"
      let a := snapOuts m "a"
      (a.filter fun t => !b.contains t).map fun t => ((jIntField? m "p").getD 0, (jStrField? m "n").getD "", t)
    else []

def messageOf (g : Graph) (n trig : String) : Option String :=
  (g.task? n).bind fun t => (t.outputs.find? (·.trigger == trig)).map (·.message)

def sameKeys (l1 l2 : List Atom) : Bool :=
  l1.length == l2.length && l1.all l2.contains && l2.all l1.contains

/-- is the observed prerequisite (atoms with flags) satisfied, by the and/or expression that the graph
gives for the prerequisite with these atoms?  `none`: the graph has no such prerequisite. -/
def preSatisfied (g : Graph) (n : String) (p : Int) (obsPre : List (Atom × Bool)) : Option Bool :=
  match (g.task? n).bind (·.inst? p) with
  | none => none
  | some d =>
    match d.pre.find? (fun pr => sameKeys (pr.atoms.map (·.1)) (obsPre.map (·.1))) with
    | none => none
    | some pr =>
      let flag (a : Atom) : Bool := ((obsPre.find? (·.1 == a)).map (·.2)).getD false
      match pr.expr with
      | none => some (obsPre.all (·.2))
      | some e => some (e.eval fun i => match pr.atoms[i]? with | some a => flag a.1 | none => false)

def atomStr (a : Atom) : String := s!"{a.pt}/{a.task}:{a.out}"

/-- a completed absolute output with the observation index of its completion and the pool right after -/
structure Done where
  atom : Atom
  since : Nat
  poolKeys : List (Int × String)

/-- check one observation against the absolute outputs completed so far -/
def checkObs (g : Graph) (idx : Nat) (ents : List PoolEnt) (done : List Done) : Option String :=
  done.findSome? fun d =>
    ents.findSome? fun t =>
      if !dependentB g d.atom t.n then none else
      t.pre.findSome? fun pr =>
        if !(pr.any fun e => e.1 == d.atom && !e.2) then none else
        match preSatisfied g t.n t.p pr with
        | some true => none
        | some false =>
          -- known defect: the first child of the trigger was not available when the output completed
          let firstMissing := (absChildren g d.atom).any fun c =>
            c.name == t.n && !d.poolKeys.contains (c.pt, c.name)
          let wasCurrent := d.poolKeys.contains (t.p, t.n)
          let key := if firstMissing && wasCurrent then "abs-first-child-unavailable: " else ""
          some s!"{key}obs {idx}: {t.p}/{t.n} has {atomStr d.atom} unsatisfied (and the prerequisite with it) although that absolute output was completed at obs {d.since}"
        | none => some s!"obs {idx}: {t.p}/{t.n} carries a prerequisite that the instance graph does not list"

def judge (g : Graph) (o : Json) : Option String :=
  let rec go (idx : Nat) (done : List Done) : List Json → Option String
    | [] => none
    | ob :: rest =>
      let ents := poolEnts ob
      let keysNow := ents.map fun t => (t.p, t.n)
      let newAtoms : List Atom := (completions ob).filterMap fun (p, n, trig) =>
        match messageOf g n trig with
        | some msg =>
          let a : Atom := ⟨p, n, msg⟩
          if (absChildren g a).isEmpty then none else some a
        | none => none
      let done := newAtoms.foldl (fun acc a =>
        if acc.any (·.atom == a) then acc else acc ++ [{ atom := a, since := idx, poolKeys := keysNow }]) done
      match checkObs g idx ents done with
      | some w => some w
      | none => go (idx + 1) done rest
  go 0 [] (obsList o)

def handle (i o : Json) : Except String Reply := do
  if let some r := crashReply? i then return r
  let c ← parseCase i
  -- hypothesis of the theorems, checked on every extracted graph
  if !absWfB c.graph then
    return { model := modelObs c, holds := false,
             why := "graph: an absolute child belongs to a task without has_abs_triggers (hypothesis absWfB of the C45 theorems)" }
  -- runs with a stop command and a restart: the model (Sched v1) covers the prefix before the first
  -- command (`o`), the judge the whole trace of the implementation (`full_obs`)
  let whole := match jField? i "full_obs" with
    | some f => f
    | none => o
  match judge c.graph whole with
  | some w => return { model := modelObs c, holds := false, why := w }
  | none => return { model := modelObs c, holds := true }

end CylcModel.DrvC45

def main : IO Unit := CylcModel.Drv.run CylcModel.DrvC45.handle
