/-
Driver for C14: runs the `Graph` models on a JSON case and judges the implementation's observation
against the property, with a reference reading of graph text written from the specification side
(`Spec.*` below: own normaliser, tokeniser, recursive-descent reader, set-based semantics — none of the
model's `parse*` / `proc*` / matcher functions).

input i :
  {"kind":"ast", "lines":[L..], "forms":[F..], "texts":[str..]}
     L = {"lone":[N..]} | {"head":T, "rest":[[N..]..]}
     N = {"name","off","q","opt","sui"}      T = {"n":N} | {"and":[T,T]} | {"or":[T,T]} | {"par":T}
     F = {"pre":[[ws,c|null]..], "lines":[{"src":[line,start,end], "segs":[S..]}..]}
     S = {"items":[[ws,tok]..], "tw":ws, "c":c|null, "blank":[[ws,c|null]..]},  tok = {"n":text} | "=>" | "&" | "|" | "(" | ")"
     texts[k] must be the rendering of forms[k] (checked here against `Graph.renderText`)
     optional "cfgobs":[digest|null ..]: per form, digest of TaskDefs / edges after WorkflowConfig (judge only)
  {"kind":"raw", "text":str}
observed o / model m :
  {"r":[R..], "s":R'}   one R per text;  R = {"err":"GraphParseError"|"other"}
                         | {"tasks":[..], "trig":[[task,expr,[trigs],suicide]..], "opt":[[task,output,a,b,c]..]} (sorted)
     "s" (ast cases inside the domain of the structure model): R of form 0 with the error kind collapsed
-/
import CylcModel.Util.Drv
import CylcModel.Graph
open Lean CylcModel.Drv CylcModel.Graph

namespace CylcModel.DrvC14

def S (s : String) : Str := s.toList
def T (s : Str) : String := String.ofList s

/-! ### decoding -/

def parseNode (j : Json) : Except String Node := do
  let name ← (jStrField? j "name").elim (.error "node.name") .ok
  return { name := S name, offset := S ((jStrField? j "off").getD ""), qual := S ((jStrField? j "q").getD ""),
           opt := (jBoolField? j "opt").getD false, suicide := (jBoolField? j "sui").getD false }

partial def parseTree (j : Json) : Except String (Tree Node) :=
  match jField? j "n", jArrField? j "and", jArrField? j "or", jField? j "par" with
  | some n, _, _, _ => do return .leaf (← parseNode n)
  | _, some [l, r], _, _ => do return .and (← parseTree l) (← parseTree r)
  | _, _, some [l, r], _ => do return .or (← parseTree l) (← parseTree r)
  | _, _, _, some t => do return .paren (← parseTree t)
  | _, _, _, _ => .error "bad tree"

def parseSLine (j : Json) : Except String SLine :=
  match jArrField? j "lone" with
  | some ns => do return .lone (← ns.mapM parseNode)
  | none => do
    let h ← (jField? j "head").elim (.error "line.head") parseTree
    let rest ← ((jArrField? j "rest").getD []).mapM fun e =>
      match jArr? e with
      | some ns => ns.mapM parseNode
      | none => .error "line.rest"
    return .chain h rest

def parseTok (j : Json) : Except String Tok :=
  match jStr? j with
  | some "=>" => .ok .arrow
  | some "&" => .ok .amp
  | some "|" => .ok .bar
  | some "(" => .ok .lp
  | some ")" => .ok .rp
  | some _ => .error "bad token"
  | none =>
    match jStrField? j "n" with
    | some s => .ok (.node (S s))
    | none => .error "bad token"

def parseBlank (j : Json) : Except String Blank :=
  match jArr? j with
  | some [w, c] =>
    match jStr? w with
    | some w => .ok { ws := S w, comment := (jStr? c).map S }
    | none => .error "bad blank"
  | _ => .error "bad blank"

def parseSeg (j : Json) : Except String Seg := do
  let items ← ((jArrField? j "items").getD []).mapM fun e =>
    match jArr? e with
    | some [w, t] =>
      match jStr? w with
      | some w => do return (S w, ← parseTok t)
      | none => .error "bad item"
    | _ => .error "bad item"
  let blanks ← ((jArrField? j "blank").getD []).mapM parseBlank
  return { items, tailWs := S ((jStrField? j "tw").getD ""), comment := ((jOptField j "c").bind jStr?).map S, blanks }

structure FLine where
  src : Nat × Nat × Nat
  segs : LLine

structure Form where
  pre : List Blank
  lines : List FLine

def parseForm (j : Json) : Except String Form := do
  let pre ← ((jArrField? j "pre").getD []).mapM parseBlank
  let lines ← ((jArrField? j "lines").getD []).mapM fun l => do
    let src ← match (jArrField? l "src").map (·.filterMap jNat?) with
      | some [a, b, c] => .ok (a, b, c)
      | _ => .error "bad src"
    let segs ← ((jArrField? l "segs").getD []).mapM parseSeg
    return ({ src, segs } : FLine)
  return { pre, lines }

/-! ### results as JSON -/

def pairLe2 (a b : Str × Str) : Bool := strLt a.1 b.1 || (a.1 == b.1 && strLe a.2 b.2)

def jS (s : Str) : Json := Json.str (T s)

def stJson (st : St) : Json :=
  let tr := sortBy (fun a b => pairLe2 a.1 b.1) (st.trigs.filter fun e => !e.1.2.isEmpty)
  let op := sortBy (fun a b => pairLe2 a.1 b.1) st.opts
  let tasks := sortBy strLe (dedup (st.trigs.map (·.1.1)))
  Json.mkObj [
    ("tasks", jOfList jS tasks),
    ("trig", jOfList (fun (e : (Str × Str) × (List Str × Bool)) =>
      Json.arr #[jS e.1.1, jS e.1.2, jOfList jS (sortBy strLe (dedup e.2.1)), Json.bool e.2.2]) tr),
    ("opt", jOfList (fun (e : (Str × Str) × Bool) =>
      Json.arr #[jS e.1.1, jS e.1.2, Json.bool e.2, Json.bool e.2, Json.bool true]) op)]

def resJson : Except Err St → Json
  | .ok st => stJson st
  | .error .gpe => Json.mkObj [("err", "GraphParseError")]
  | .error .other => Json.mkObj [("err", "other")]

def structJson : Option St → Json
  | some st => stJson st
  | none => Json.mkObj [("err", "rejected")]

/-! ### the reference reading (specification side) -/

namespace Spec

def isWord (c : Char) : Bool := c.isAlphanum || c == '_'
def isNameCh (c : Char) : Bool := isWord c || c == '-' || c == '+' || c == '%' || c == '@'
def isSpace (c : Char) : Bool := c == ' ' || c == '\t' || c == '\r' || c.toNat == 11 || c.toNat == 12 ||
  (28 ≤ c.toNat && c.toNat ≤ 31)
def isOpCh (c : Char) : Bool := c == '&' || c == '|' || c == '(' || c == ')' || c == '=' || c == '>'

def splitLines : Str → List Str
  | [] => [[]]
  | c :: r =>
    match splitLines r with
    | [] => [[c]]
    | h :: t => if c == '\n' then [] :: h :: t else (c :: h) :: t

def cutComment : Str → Str
  | [] => []
  | c :: r => if c == '#' then [] else c :: cutComment r

/-- how white space sits in a line: `bad` = between two names (must be rejected), `inner` = inside a
node in some other way (no verdict on acceptance), otherwise only around operators -/
structure WsInfo where
  bad : Bool := false
  inner : Bool := false

/-- `inName`: the non-space characters just before form a task name (a word character followed by
name characters) -/
def wsScan (prev : Option Char) (inName : Bool) (gap : Bool) : Str → WsInfo
  | [] => {}
  | c :: r =>
    if isSpace c then wsScan prev inName true r
    else
      let inName' := if isWord c then true else if isNameCh c then (inName && !gap) else false
      let info := wsScan (some c) inName' false r
      match gap, prev with
      | true, some a =>
        if isOpCh a || isOpCh c then info
        else if inName && isNameCh c then
          let digitAfter : Bool := match r.dropWhile isSpace with | d :: _ => d.isDigit | [] => false
          let exempt := ((a == '-' || a == '+') && c.isDigit) || ((c == '-' || c == '+') && digitAfter)
          if exempt then { info with inner := true } else { info with bad := true }
        else { info with inner := true }
      | _, _ => info

inductive PTok where
  | arrow | amp | bar | lp | rp
  | atom : Str → PTok
  deriving Repr, DecidableEq, Inhabited

def PTok.isOp : PTok → Bool
  | .arrow => true | .amp => true | .bar => true | _ => false

def tokenize (s : Str) : List PTok :=
  let flush (cur : Str) (acc : List PTok) : List PTok := if cur.isEmpty then acc else PTok.atom cur.reverse :: acc
  let rec go : Str → Str → List PTok → List PTok
    | [], cur, acc => (flush cur acc).reverse
    | [c], cur, acc =>
      if c == '(' then (PTok.lp :: flush cur acc).reverse
      else if c == ')' then (PTok.rp :: flush cur acc).reverse
      else if c == '&' then (PTok.amp :: flush cur acc).reverse
      else if c == '|' then (PTok.bar :: flush cur acc).reverse
      else (flush (c :: cur) acc).reverse
    | c :: d :: r, cur, acc =>
      if c == '=' && d == '>' then go r [] (PTok.arrow :: flush cur acc)
      else if c == '(' then go (d :: r) [] (PTok.lp :: flush cur acc)
      else if c == ')' then go (d :: r) [] (PTok.rp :: flush cur acc)
      else if c == '&' then go (d :: r) [] (PTok.amp :: flush cur acc)
      else if c == '|' then go (d :: r) [] (PTok.bar :: flush cur acc)
      else go (d :: r) (c :: cur) acc
  go s [] []

/-- read `[!]NAME[[OFFSET]][:QUAL][?]` or `@XTRIGGER` -/
def readNode (s : Str) : Option Node :=
  match s with
  | '@' :: r =>
    -- an xtrigger: `@` and a name (REC_NODES)
    (match r with
     | c :: r' => if isWord c && r'.all isNameCh then some { name := s } else none
     | [] => none)
  | _ =>
    let (sui, s1) := match s with | '!' :: r => (true, r) | _ => (false, s)
    match s1 with
    | [] => none
    | c :: _ =>
      if !isWord c then none else
      let name := s1.takeWhile isNameCh
      let s2 := s1.dropWhile isNameCh
      let offRes : Option (Str × Str) :=
        match s2 with
        | '[' :: r =>
          let body := r.takeWhile fun c => isWord c || c == '-' || c == '+' || c == '^' || c == ':'
          (match r.drop body.length with
           | ']' :: r' => if body.isEmpty then none else some ('[' :: body ++ [']'], r')
           | _ => none)
        | _ => some ([], s2)
      match offRes with
      | none => none
      | some (off, s3) =>
        let qRes : Option (Str × Str) :=
          match s3 with
          | ':' :: r =>
            let q := r.takeWhile fun c => isWord c || c == '-'
            if q.isEmpty then none else some (q, r.drop q.length)
          | _ => some ([], s3)
        match qRes with
        | none => none
        | some (q, s4) =>
          match s4 with
          | [] => some { name, offset := off, qual := q, opt := false, suicide := sui }
          | ['?'] => some { name, offset := off, qual := q, opt := true, suicide := sui }
          | _ => none

/-- recursive descent with `&` binding tighter than `|`; level 0 = or, 1 = and, 2 = factor -/
def parseLvl : Nat → Nat → List PTok → Option (Tree Node × List PTok)
  | 0, _, _ => none
  | fuel + 1, 2, toks =>
    (match toks with
     | PTok.atom a :: r => (readNode a).map fun n => (.leaf n, r)
     | PTok.lp :: r =>
       (match parseLvl fuel 0 r with
        | some (t, PTok.rp :: r') => some (.paren t, r')
        | _ => none)
     | _ => none)
  | fuel + 1, 1, toks =>
    (match parseLvl fuel 2 toks with
     | some (l, PTok.amp :: r) =>
       (match parseLvl fuel 1 r with
        | some (t, r') => some (.and l t, r')
        | none => none)
     | other => other)
  | fuel + 1, _, toks =>
    (match parseLvl fuel 1 toks with
     | some (l, PTok.bar :: r) =>
       (match parseLvl fuel 0 r with
        | some (t, r') => some (.or l t, r')
        | none => none)
     | other => other)

def readExpr (toks : List PTok) : Option (Tree Node) :=
  match parseLvl (3 * toks.length + 3) 0 toks with
  | some (t, []) => some t
  | _ => none

def splitArrows (toks : List PTok) : List (List PTok) :=
  let rec go : List PTok → List PTok → List (List PTok)
    | [], cur => [cur.reverse]
    | PTok.arrow :: r, cur => cur.reverse :: go r []
    | t :: r, cur => go r (t :: cur)
  go toks []

/-- join physical lines: a line that ends with, or is followed by a line that starts with, one of
`=>` `&` `|` continues -/
def joinToks : List (List PTok) → List (List PTok)
  | [] => []
  | [a] => [a]
  | a :: b :: r =>
    let endsOp := match a.getLast? with | some t => t.isOp | none => false
    let startsOp := match b.head? with | some t => t.isOp | none => false
    if endsOp || startsOp then joinToks ((a ++ b) :: r) else a :: joinToks (b :: r)
termination_by l => l.length

/-- conjunction of plain leaves ↦ its nodes -/
def conjNodes : Tree Node → Option (List Node)
  | .leaf n => some [n]
  | .and l r => match conjNodes l, conjNodes r with | some a, some b => some (a ++ b) | _, _ => none
  | _ => none

structure Reading where
  /-- `none`: the text is not generated by the graph grammar -/
  chains : Option (List (List (Tree Node)))
  ws : WsInfo
  /-- the logical lines as tokens -/
  logical : List (List PTok)

def readText (text : Str) : Reading :=
  let phys := (splitLines text).map cutComment
  let kept := phys.filter fun l => !(l.all isSpace)
  let ws : WsInfo := kept.foldl (fun acc l => let w := wsScan none false false l
                                              { bad := acc.bad || w.bad, inner := acc.inner || w.inner }) {}
  let toks := kept.map fun l => tokenize (l.filter fun c => !isSpace c)
  let logical := joinToks toks
  let chains := logical.mapM fun l => (splitArrows l).mapM readExpr
  { chains, ws, logical }

/-- chains inside the domain of the structure semantics -/
def toSLines (chains : List (List (Tree Node))) : Option (List SLine) :=
  chains.mapM fun ch =>
    match ch with
    | [] => none
    | [e] => (conjNodes e).map SLine.lone
    | h :: rest => (rest.mapM conjNodes).map fun r => SLine.chain h r

/-! #### set-based semantics of a graph (what the parser tables must contain) -/

def stdTable : List (String × String) :=
  [("expire", "expired"), ("submit", "submitted"), ("submit-fail", "submit-failed"), ("start", "started"),
   ("succeed", "succeeded"), ("fail", "failed"), ("finish", "finished")]

def std (q : Str) : Str := match stdTable.lookup (T q) with | some v => S v | none => q

def famQuals : List String :=
  ["expire", "start", "succeed", "fail", "submit", "submit-fail", "finish"].flatMap fun s => [s ++ "-all", s ++ "-any"]

def outOf (n : Node) : Str := if n.qual.isEmpty then S "succeeded" else std n.qual

def atomOf (n : Node) (out : String) : Str := n.name ++ n.offset ++ ':' :: S out

/-- truth of one left node under a valuation of atoms -/
def nodeDen (σ : Str → Bool) (n : Node) : Bool :=
  if n.isXtrig then σ n.name
  else if outOf n == S "finished" then σ (atomOf n "succeeded") || σ (atomOf n "failed")
  else σ (n.name ++ n.offset ++ ':' :: outOf n)

def nodeAtoms (n : Node) : List Str :=
  if n.isXtrig then [n.name]
  else if outOf n == S "finished" then [atomOf n "succeeded", atomOf n "failed"]
  else [n.name ++ n.offset ++ ':' :: outOf n]

/-- an occurrence of a node: element index, chain length -/
structure Occ where
  n : Node
  idx : Nat
  len : Nat

def occs (l : SLine) : List Occ :=
  let es : List (List Node) := match l with
    | .lone ns => [ns]
    | .chain h rest => h.leaves :: rest
  (es.zipIdx).flatMap fun (ns, i) => ns.map fun n => ⟨n, i, es.length⟩

/-- optionality declarations: (task, output, optional).  `shared`: the end-of-chain exemption is
decided against the set of all last elements of the listed lines (what the unchanged code does)
instead of per occurrence -/
def optDecls (shared : Bool) (lines : List SLine) : List (Str × Str × Bool) :=
  let eocTexts : List Str := lines.flatMap fun l => match l with
    | .lone ns => ns.map Node.text
    | .chain _ rest => match rest.getLast? with | some ns => ns.map Node.text | none => []
  (lines.flatMap occs).flatMap fun o =>
    let n := o.n
    if n.suicide || n.isXtrig then [] else
    let plain := n.qual.isEmpty && !n.opt
    let exempt :=
      if shared then plain && o.idx ≥ 1 && eocTexts.contains n.text
      else plain && o.len ≥ 2 && o.idx + 1 == o.len
    if exempt then []
    else if outOf n == S "finished" then [(n.name, S "succeeded", true), (n.name, S "failed", true)]
    else [(n.name, outOf n, n.opt)]

def oppositeOf (o : Str) : Option Str :=
  match T o with
  | "succeeded" => some (S "failed") | "failed" => some (S "succeeded")
  | "submitted" => some (S "submit-failed") | "submit-failed" => some (S "submitted")
  | _ => none

/-- left units of a link: a conditional or parenthesised left side is one expression, a plain
conjunction one per node -/
def units (t : Tree Node) : List (Tree Node) :=
  if t.hasOr || t.hasParen then [t] else t.leaves.map .leaf

def links (l : SLine) : List (Tree Node × List Node) :=
  match l with
  | .lone _ => []
  | .chain h rest =>
    let lefts := h :: rest.map (bigAnd default)
    lefts.zip rest

/-- canonical text of a left unit (only used to tell whether two units are the same expression) -/
def unitKey (t : Tree Node) : Str :=
  t.render fun n => if n.isXtrig then n.name else n.name ++ n.offset ++ ':' :: outOf n

structure Sem where
  reject : Option String       -- some reason: the graph must be rejected
  tasks : List Str
  opts : List (Str × Str × Bool)
  /-- expected trigger units per (task, suicide) -/
  trig : List ((Str × Bool) × Tree Node)

def sem (shared : Bool) (lines : List SLine) : Sem := Id.run do
  let allOccs := lines.flatMap occs
  let lks := lines.flatMap links
  let mut reject : Option String := none
  let note (r : Option String) (m : String) : Option String := match r with | some x => some x | none => some m
  -- structure
  for o in allOccs do
    if o.n.isXtrig && (o.idx ≥ 1) then reject := note reject "xtrigger on the right"
    if o.n.suicide && o.idx + 1 < o.len then reject := note reject "suicide mark on the left"
    if !o.n.isXtrig && o.idx + 1 < o.len && famQuals.contains (T (outOf o.n)) then
      reject := note reject "family trigger on a plain task"
    if o.n.opt && outOf o.n == S "finished" && !o.n.suicide then reject := note reject "finish can't be optional"
  -- offsets only on the right
  let leftTexts := lks.flatMap fun (l, _) => l.leaves.map Node.text
  for (_, rs) in lks do
    match rs with
    | [r] => if !r.offset.isEmpty && !leftTexts.contains r.text then reject := note reject "offset only on the right"
    | _ => pure ()
  -- optionality
  let decls := optDecls shared lines
  for (t, o, b) in decls do
    if !b && (o == S "expired" || o == S "submit-failed") then reject := note reject s!"{T t}:{T o} must be optional"
    if decls.any fun (t', o', b') => t' == t && o' == o && b' != b then
      reject := note reject s!"{T t}:{T o} both optional and required"
    match oppositeOf o with
    | some opp =>
      if decls.any fun (t', o', b') => t' == t && o' == opp && (!b || !b') then
        reject := note reject s!"opposite outputs of {T t} must both be optional"
    | none => pure ()
  -- triggers
  let mut trig : List ((Str × Bool) × Tree Node) := []
  for (l, rs) in lks do
    for u in units l do
      for r in rs do
        if r.offset.isEmpty && !r.isXtrig then
          trig := ((r.name, r.suicide), u) :: trig
  for ((t, s), u) in trig do
    if trig.any fun ((t', s'), u') => t' == t && s' != s && unitKey u' == unitKey u then
      reject := note reject s!"{T (unitKey u)} triggers both {T t} and !{T t}"
  let tasks := dedup ((allOccs.filter fun o => !o.n.isXtrig && o.n.offset.isEmpty).map (·.n.name))
  return { reject, tasks := sortBy strLe tasks, opts := dedup decls, trig }

end Spec

/-! ### observations -/

structure Obs where
  err : Option String := none
  tasks : List Str := []
  trig : List (Str × Str × List Str × Bool) := []
  opt : List (Str × Str × Bool × Bool × Bool) := []
  deriving Inhabited

def readObs (o : Json) : Obs :=
  { err := jStrField? o "err"
    tasks := ((jArrField? o "tasks").getD []).filterMap fun e => (jStr? e).map S
    trig := ((jArrField? o "trig").getD []).filterMap fun e =>
      match jArr? e with
      | some [n, x, ts, s] =>
        match jStr? n, jStr? x, jArr? ts, jBool? s with
        | some n, some x, some ts, some s => some (S n, S x, ts.filterMap (fun t => (jStr? t).map S), s)
        | _, _, _, _ => none
      | _ => none
    opt := ((jArrField? o "opt").getD []).filterMap fun e =>
      match jArr? e with
      | some [n, x, a, b, c] =>
        match jStr? n, jStr? x, jBool? a, jBool? b, jBool? c with
        | some n, some x, some a, some b, some c => some (S n, S x, a, b, c)
        | _, _, _, _, _ => none
      | _ => none }

/-- read a recorded trigger expression back as a tree over atom texts -/
def readRecorded (x : Str) : Option (Tree Str) :=
  -- atoms are read as opaque texts
  let toks := Spec.tokenize x
  let rec lvl : Nat → Nat → List Spec.PTok → Option (Tree Str × List Spec.PTok)
    | 0, _, _ => none
    | fuel + 1, 2, toks =>
      (match toks with
       | Spec.PTok.atom a :: r => some (.leaf a, r)
       | Spec.PTok.lp :: r =>
         (match lvl fuel 0 r with
          | some (t, Spec.PTok.rp :: r') => some (.paren t, r')
          | _ => none)
       | _ => none)
    | fuel + 1, 1, toks =>
      (match lvl fuel 2 toks with
       | some (l, Spec.PTok.amp :: r) =>
         (match lvl fuel 1 r with
          | some (t, r') => some (.and l t, r')
          | none => none)
       | other => other)
    | fuel + 1, _, toks =>
      (match lvl fuel 1 toks with
       | some (l, Spec.PTok.bar :: r) =>
         (match lvl fuel 0 r with
          | some (t, r') => some (.or l t, r')
          | none => none)
       | other => other)
  match lvl (3 * toks.length + 3) 0 toks with
  | some (t, []) => some t
  | _ => none

def subsetsOf : List Str → List (List Str)
  | [] => [[]]
  | a :: r => let s := subsetsOf r; s ++ s.map (a :: ·)

def valuations (atoms : List Str) : List (List Str) :=
  if atoms.length ≤ 8 then subsetsOf atoms
  else
    let singles := atoms.map fun a => [a]
    let cos := atoms.map fun a => atoms.filter (· != a)
    let rnd := (List.range 300).map fun k =>
      (atoms.zipIdx).filterMap fun (a, i) =>
        let h := ((k + 1) * 2654435761 + (i + 7) * 40503 + (k + 1) * (i + 1) * 97) % 4294967296
        if (h / 65536) % 2 == 0 then some a else none
    [[], atoms] ++ singles ++ cos ++ rnd

/-- compare an accepted observation with the semantics; `none` = agrees -/
def diffAccepted (sm : Spec.Sem) (ob : Obs) : Option String := Id.run do
  if ob.tasks != sm.tasks then
    return some s!"tasks: recorded {ob.tasks.map T}, the graph names {sm.tasks.map T}"
  -- optionality: exactly the declarations
  let got := ob.opt.map fun (n, o, a, _, _) => (n, o, a)
  for (n, o, a, b, c) in ob.opt do
    if !(a == b && c) then return some s!"optionality: {T n}:{T o} recorded as ({a},{b},{c}) without any family"
  for d in sm.opts do
    if !got.contains d then
      return some s!"optionality: {T d.1}:{T d.2.1} is written as {if d.2.2 then "optional" else "required"} but not recorded so"
  for d in got do
    if !sm.opts.contains d then
      return some s!"optionality: {T d.1}:{T d.2.1} recorded as {if d.2.2 then "optional" else "required"}, which the graph does not say"
  -- triggers: per (task, suicide) the conjunction of the recorded expressions means the conjunction of the written ones
  let mut gotT : List ((Str × Bool) × Tree Str) := []
  for (n, x, ts, s) in ob.trig do
    match readRecorded x with
    | none => return some s!"expression: trigger expression of {T n} is not a well-formed expression: {T x}"
    | some t =>
      if !(t.leaves.all ts.contains) || !(ts.all t.leaves.contains) then
        return some s!"expression: atoms of {T x} differ from its trigger list {ts.map T}"
      gotT := ((n, s), t) :: gotT
  let keys := dedup (sm.trig.map (·.1) ++ gotT.map (·.1))
  for k in keys do
    let ls := (sm.trig.filter (·.1 == k)).map (·.2)
    let gs := (gotT.filter (·.1 == k)).map (·.2)
    let atoms := dedup ((ls.flatMap fun l => l.leaves.flatMap Spec.nodeAtoms) ++ gs.flatMap Tree.leaves)
    for v in valuations atoms do
      let σ : Str → Bool := fun a => v.contains a
      let want := ls.all fun l => l.den (Spec.nodeDen σ)
      let have_ := gs.all fun g => g.den σ
      if want != have_ then
        let kind := if k.2 then "suicide triggers" else "triggers"
        return some (s!"trigger-meaning: {kind} of {T k.1} are {gs.map fun g => T (g.render id)}: with exactly {v.map T} complete " ++
          s!"they are {have_} but the written left sides {ls.map fun l => T (l.render Node.text)} are {want}")
  return none

/-- does observation `ob` agree with semantics `sm` (accept/reject and content)? `none` = yes -/
def diffSem (sm : Spec.Sem) (ob : Obs) : Option String :=
  match sm.reject, ob.err with
  | some _, some "GraphParseError" => none
  | some why, some e => some s!"wrong-exception: the graph must be rejected ({why}) but the parser raised {e}, not GraphParseError"
  | some why, none => some s!"accepted-invalid: the graph must be rejected ({why}) but was accepted"
  | none, some e => some s!"rejected-valid: a valid graph was rejected ({e})"
  | none, none => diffAccepted sm ob

structure Verdict where
  ok : Bool
  why : String := ""

/-- the slice `[start, end)` of the elements of line `l` as a line of its own -/
def sliceLine (l : SLine) (a b : Nat) : Option SLine :=
  match l with
  | .lone ns => if a == 0 && b == 1 then some (.lone ns) else none
  | .chain h rest =>
    let n := rest.length + 1
    if !(a < b && b ≤ n) then none
    else if b - a == 1 then
      (if a == 0 then (Spec.conjNodes h).map SLine.lone else (rest[a - 1]?).map SLine.lone)
    else
      let sub := (rest.drop a).take (b - a - 1)
      if a == 0 then some (.chain h sub)
      else (rest[a - 1]?).map fun ns => .chain (bigAnd default ns) sub

/-- a form presents the graph: every form line is a slice of a graph line, every link and every
lone line of the graph is covered -/
def formCovers (lines : List SLine) (f : Form) : Bool :=
  let srcs := f.lines.map (·.src)
  (lines.zipIdx).all fun (l, i) =>
    match l with
    | .lone _ => srcs.any fun (j, _, _) => j == i
    | .chain _ rest =>
      (List.range rest.length).all fun k => srcs.any fun (j, a, b) => j == i && a ≤ k && k + 2 ≤ b

def judgeAst (lines : List SLine) (forms : List (Form × List SLine)) (obs : List Obs) : Verdict := Id.run do
  if obs.length != forms.length then return ⟨false, "harness: one observation per form expected"⟩
  let strict := Spec.sem false lines
  for ((_, flines), k) in forms.zipIdx do
    let ob := obs[k]!
    match diffSem strict ob with
    | none => pure ()
    | some why =>
      -- is this exactly the behaviour of the shared end-of-chain set?
      let shared := Spec.sem true flines
      if ob.err == some "other" then
        return ⟨false, s!"rhs-valueerror: form {k}: {why}"⟩
      if (diffSem shared ob).isNone then
        return ⟨false, s!"eoc-shared: form {k}: {why} (explained by end_of_chain_nodes being one set for the whole graph)"⟩
      return ⟨false, s!"form {k}: {why}"⟩
  -- all forms identical (implied by the above when accepted forms agree with the semantics; checked on its own too)
  match obs with
  | [] => return ⟨true, ""⟩
  | o0 :: rest =>
    for (o, k) in rest.zipIdx do
      if !(o.err == o0.err && o.tasks == o0.tasks && o.opt == o0.opt &&
           (o.trig.map fun (n, _, _, s) => (n, s)) == (o0.trig.map fun (n, _, _, s) => (n, s))) then
        return ⟨false, s!"presentation: forms 0 and {k + 1} of the same graph give different tables"⟩
    return ⟨true, ""⟩

/-- which recorded defect (if any) explains that text outside the grammar was not rejected with
GraphParseError (`lines`: the logical lines without white space):
* `rhs-valueerror` — another exception was raised;
* `expression-unchecked` — a line with `=>` has an element that is not an expression of nodes although
  every text in it passes for nodes once cut at `!` and freed of `@name` texts (operators, parentheses,
  misplaced `!`, several nodes run together such as `a:x@y`);
* `bad-node-not-last-line` — every offending line is before the last one and has a node that is not a
  node even after the code's own treatment of `!` and `@xtrigger` texts, the last line has none;
* `lone-line-unchecked` — every other offending line is a line without `=>`.
Anything else gets no key (a new violation). -/
def malformedCause (lines : List (List Spec.PTok)) (ob : Obs) : String :=
  let atoms (l : List Spec.PTok) : List Str := l.filterMap fun t => match t with | .atom a => some a | _ => none
  let unreadable (a : Str) : Bool := (Spec.readNode a).isNone
  -- pieces between `!`, with `@name` texts cut out (what the node check of the code looks at)
  let cutX (a : Str) : Str :=
    let rec go : Nat → Str → Str
      | 0, _ => []
      | _, [] => []
      | f + 1, c :: r =>
        if c == '@' then
          let body := r.takeWhile fun d => Spec.isWord d || d == '-' || d == '+' || d == '%'
          if body.isEmpty then c :: go f r else go f (r.drop body.length)
        else c :: go f r
    go (a.length + 1) a
  let pieces (a : Str) : List Str := ((splitOnChar '!' a).map cutX).filter fun p => !p.isEmpty
  let hardBad (l : List Spec.PTok) : Bool := (atoms l).any fun a => (pieces a).any unreadable
  let fails (l : List Spec.PTok) : Bool := ((Spec.splitArrows l).mapM Spec.readExpr).isNone
  let hasArrow (l : List Spec.PTok) : Bool := l.contains Spec.PTok.arrow
  if ob.err == some "other" then "rhs-valueerror: "
  else if lines.any fun l => fails l && hasArrow l && !hardBad l then "expression-unchecked: "
  else
    match lines.reverse with
    | [] => ""
    | last :: before =>
      let failing := (before.filter fails).map fun l => (l, false) 
      let failing := failing ++ (if fails last then [(last, true)] else [])
      if failing.all fun (l, isLast) => !isLast && hardBad l then
        (if hardBad last then "" else "bad-node-not-last-line: ")
      else if failing.all fun (l, isLast) => !hasArrow l || (!isLast && hardBad l && !hardBad last) then
        "lone-line-unchecked: "
      else ""

def judgeRaw (text : Str) (ob : Obs) : Verdict :=
  let rd := Spec.readText text
  match rd.chains with
  | none =>
    match ob.err with
    | some "GraphParseError" => ⟨true, ""⟩
    | some e => ⟨false, s!"{malformedCause rd.logical ob}malformed: text outside the graph grammar raised {e}, not GraphParseError"⟩
    | none => ⟨false, s!"{malformedCause rd.logical ob}malformed: text outside the graph grammar was parsed into something"⟩
  | some chains =>
    if rd.ws.bad then
      match ob.err with
      | some "GraphParseError" => ⟨true, ""⟩
      | some e => ⟨false, s!"malformed-wrong-exception: two names separated by white space raised {e}"⟩
      | none => ⟨false, "malformed-accepted: two names separated by white space were accepted"⟩
    else
      match Spec.toSLines chains with
      | none => ⟨true, ""⟩       -- in the grammar, outside the domain of the semantics: no verdict
      | some lines =>
        let strict := Spec.sem false lines
        match diffSem strict ob with
        | none => ⟨true, ""⟩
        | some why =>
          if rd.ws.inner && ob.err.isSome && ob.err != some "other" && strict.reject.isNone then ⟨true, ""⟩   -- white space inside a node: may be rejected
          else if ob.err == some "other" then ⟨false, s!"rhs-valueerror: {why}"⟩
          else if (diffSem (Spec.sem true lines) ob).isNone then ⟨false, s!"eoc-shared: {why}"⟩
          else ⟨false, why⟩

/-! ### the case -/

def handle (i o : Json) : Except String Reply := do
  let kind := (jStrField? i "kind").getD "ast"
  let obsR := ((jArrField? o "r").getD []).map readObs
  if kind == "raw" then
    let text := S ((jStrField? i "text").getD "")
    let m := Json.mkObj [("r", Json.arr #[resJson (parseText text)])]
    let v := match obsR with
      | [ob] => judgeRaw text ob
      | _ => ⟨false, "harness: one observation expected"⟩
    return { model := m, holds := v.ok, why := v.why }
  let lines ← ((jArrField? i "lines").getD []).mapM parseSLine
  let forms ← ((jArrField? i "forms").getD []).mapM parseForm
  let texts := ((jArrField? i "texts").getD []).filterMap jStr?
  if texts.length != forms.length then throw "texts/forms length"
  let mut fl : List (Form × List SLine) := []
  for (f, k) in forms.zipIdx do
    if !(f.pre.all blankOkB && (f.lines.map (·.segs)).all lineOkB) then
      throw s!"form {k}: the layout is outside the hypotheses of C14.text_layer (lineOkB)"
    let rendered := T (renderText f.pre (f.lines.map (·.segs)))
    if rendered != texts[k]! then throw s!"form {k}: text differs from Graph.renderText: {rendered.quote} vs {texts[k]!.quote}"
    let mut sl : List SLine := []
    for ln in f.lines do
      let (j, a, b) := ln.src
      match (lines[j]?).bind fun l => sliceLine l a b with
      | none => throw s!"form {k}: bad slice"
      | some s =>
        if LLine.toks ln.segs != s.toks then throw s!"form {k}: tokens are not those of the slice"
        sl := sl ++ [s]
    if !formCovers lines f then throw s!"form {k} does not cover the graph"
    fl := fl ++ [(f, sl)]
  let rs := texts.map fun t => resJson (parseText (S t))
  let m := Json.mkObj [("r", Json.arr rs.toArray), ("s", structJson (parseStruct lines))]
  let v := judgeAst lines fl obsR
  -- second stage: forms with the same parser tables must give the same TaskDefs / edges through WorkflowConfig
  let cfg : List (Option String) := ((jArrField? i "cfgobs").getD []).map jStr?
  let obsJ := (jArrField? o "r").getD []
  let v := Id.run do
    if !v.ok || cfg.isEmpty then return v
    for (a, ka) in cfg.zipIdx do
      for (b, kb) in cfg.zipIdx do
        if ka < kb then
          match a, b with
          | some x, some y =>
            if x != y && (obsJ[ka]?.map Json.compress) == (obsJ[kb]?.map Json.compress) then
              return ⟨false, s!"config-level: forms {ka} and {kb} give the same parser tables but different TaskDefs / edges ({x} vs {y})"⟩
          | _, _ => pure ()
    return v
  return { model := m, holds := v.ok, why := v.why }

end CylcModel.DrvC14

def main : IO Unit := CylcModel.Drv.run CylcModel.DrvC14.handle
