/-
Driver for C44: runs the `Perm` model of scheduler start-up (keys + databases) on a JSON case and
judges the file modes observed from the real code.

input  i : {"umask": n, "restart": b, "pre": {"priDb": n|null, "pubDb": .., "srvPub": .., "srvPriv": ..,
            "cliPriv": .., "cliPubCopy": ..}}        (modes of files that exist before start-up)
observed o / model m :
   {"priDb": n|null, "pubDb": .., "srvPub": .., "srvPriv": .., "cliPriv": .., "cliPubCopy": ..,
    "extra": [left-over file ...], "umask": n}   |   {"err": kind, ...}  (start-up failed)
-/
import CylcModel.Util.Drv
import CylcModel.Perm
open Lean CylcModel.Drv CylcModel.Perm

namespace CylcModel.DrvC44

def fileKeys : List (String × F) :=
  [("priDb", .priDb), ("pubDb", .pubDb), ("srvPub", .srvPub), ("srvPriv", .srvPriv),
   ("cliPriv", .cliPriv), ("cliPubCopy", .cliPubCopy)]

def parseCase (i : Json) : Except String (St × Bool) := do
  let u ← (jNatField? i "umask").elim (.error "umask") .ok
  let restart ← (jBoolField? i "restart").elim (.error "restart") .ok
  let pre := (jField? i "pre").getD Json.null
  let files : F → Option Nat := fun f =>
    match fileKeys.find? (·.2 == f) with
    | some (k, _) => (jOptField pre k).bind jNat?
    | none => none
  return (⟨u, files⟩, restart)

def jOptNat : Option Nat → Json
  | some n => jOfNat n
  | none => Json.null

def modelOut (s : St) (restart : Bool) : Json :=
  let s' := startup restart s
  let extra : List Json := if (s'.files .tmpPub).isSome then [Json.str "tmp"] else []
  Json.mkObj (fileKeys.map (fun (k, f) => (k, jOptNat (s'.files f))) ++
    [("extra", Json.arr extra.toArray), ("umask", jOfNat s'.umask)])

/-- octal rendering for messages -/
def oct (n : Nat) : String := "0o" ++ String.ofList (Nat.toDigits 8 n)

/-- Judge: after a completed start-up each private file exists and grants nothing to group / others. -/
def judge (umask : Nat) (o : Json) : Bool × String :=
  if (jField? o "err").isSome then (true, "")       -- start-up did not complete: nothing claimed
  else
    let check (k what : String) : Option String :=
      match (jOptField o k).bind jNat? with
      | none => some s!"{what} does not exist after start-up"
      | some m => if m &&& 0o077 == 0 then none
                  else some s!"{what} has mode {oct m} after start-up under umask {oct umask}"
    match [check "priDb" "the private database", check "srvPriv" "the server private key",
           check "cliPriv" "the client private key"].filterMap id with
    | [] => (true, "")
    | w :: _ => (false, w)

def handle (i o : Json) : Except String Reply := do
  let (s, restart) ← parseCase i
  let (ok, why) := judge s.umask o
  return { model := modelOut s restart, holds := ok, why := why }

end CylcModel.DrvC44

def main : IO Unit := CylcModel.Drv.run CylcModel.DrvC44.handle
