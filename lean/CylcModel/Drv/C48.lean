/-
Driver for C48: runs the `Install` model on a JSON history and judges the implementation's
observed directory trees against the property.

input i : {"ops": [O]}
  O : {"op":"install"} | {"op":"named","name":s} | {"op":"flat"} | {"op":"clean","run":s} | {"op":"cleanAll"}
    | {"op":"cleanN"} | {"op":"reinstall","run":s} | {"op":"reinstallFlat"} | {"op":"rmN"} | {"op":"relink","k":n}
observed o / model m : [ {"res":"ok"|"err", "run": s|null, "runs": [[name, stamp]] (sorted by name),
                          "runN": s|null, "flat": n|null} per op ]
Operation number i (from 0) is performed with stamp i+1 in the source directory.
-/
import CylcModel.Util.Drv
import CylcModel.Install
open Lean CylcModel.Drv CylcModel.Install

namespace CylcModel.DrvC48

/-- "runK" (K in canonical decimal form) is a numbered run, anything else a named one -/
def parseRun (s : String) : RunId :=
  if s.startsWith "run" then
    let d := (s.drop 3).toString
    match d.toNat? with
    | some k => if toString k == d then .num k else .named s
    | none => .named s
  else .named s

def runName : RunId → String
  | .num k => s!"run{k}"
  | .named s => s

def parseOp (j : Json) : Except String Op := do
  let op ← (jStrField? j "op").elim (.error "op") .ok
  let runF : Except String RunId := (jStrField? j "run").elim (.error "op.run") (fun s => .ok (parseRun s))
  match op with
  | "install" => return .install
  | "named" => return .installNamed (← (jStrField? j "name").elim (.error "op.name") .ok)
  | "flat" => return .installFlat
  | "clean" => return .clean (← runF)
  | "cleanAll" => return .cleanAll
  | "cleanN" => return .cleanRunN
  | "reinstall" => return .reinstall (← runF)
  | "reinstallFlat" => return .reinstallFlat
  | "rmN" => return .rmRunN
  | "relink" => return .relink (← (jNatField? j "k").elim (.error "op.k") .ok)
  | s => .error s!"unknown op {s}"

def insertByName (x : String × Nat) : List (String × Nat) → List (String × Nat)
  | [] => [x]
  | y :: ys => if x.1 < y.1 then x :: y :: ys else y :: insertByName x ys

def obsJson (r : St × Res) : Json :=
  let st := r.1
  let runs := (st.runs.map fun x => (runName x.1, x.2)).foldr insertByName []
  let res : String × Json := match r.2 with
    | .ok (some id) => ("ok", Json.str (runName id))
    | .ok none => ("ok", Json.null)
    | .err => ("err", Json.null)
  Json.mkObj [
    ("res", res.1), ("run", res.2),
    ("runs", Json.arr (runs.map fun x => Json.arr #[Json.str x.1, jOfNat x.2]).toArray),
    ("runN", match st.runN with | some k => Json.str s!"run{k}" | none => Json.null),
    ("flat", match st.flat with | some s => jOfNat s | none => Json.null)]

/-! ### Judge: the property on the observed trees (no model function is used) -/

structure Obs where
  ok : Bool
  run : Option String
  runs : List (String × Nat)
  runN : Option String
  flat : Option Nat

def parseObs (j : Json) : Option Obs := do
  let res ← jStrField? j "res"
  let runs ← ((jArrField? j "runs").getD []).mapM fun e =>
    match jArr? e with
    | some [n, s] => do return ((← jStr? n), (← jNat? s))
    | _ => none
  return ⟨res == "ok", (jOptField j "run").bind jStr?, runs, (jOptField j "runN").bind jStr?, (jOptField j "flat").bind jNat?⟩

/-- K of a directory name `runK` -/
def numOfName (s : String) : Option Nat :=
  if s.startsWith "run" && (s.drop 3).toString.length > 0 && (s.drop 3).toString.all Char.isDigit then (s.drop 3).toString.toNat? else none

def numsOf (runs : List (String × Nat)) : List Nat := runs.filterMap fun x => numOfName x.1

def judgeStep (i : Nat) (op : Op) (prev o : Obs) (relinked : Bool) : Option String := Id.run do
  let stamp := i + 1
  let isInstall := match op with | .install | .installNamed _ | .installFlat => true | _ => false
  if isInstall then
    -- an install never touches what is already there
    for x in prev.runs do
      if !o.runs.contains x then
        return some s!"op {i}: install changed or removed the existing run directory {x.1} (stamp {x.2})"
    if prev.flat.isSome && o.flat != prev.flat then
      return some s!"op {i}: install overwrote the installed workflow directory"
    if o.ok then
      match op with
      | .installFlat =>
        if prev.flat.isSome || !prev.runs.isEmpty then return some s!"op {i}: --no-run-name install into an existing workflow directory"
        if o.flat != some stamp then return some s!"op {i}: --no-run-name install did not write the workflow directory"
        if o.runs != prev.runs then return some s!"op {i}: --no-run-name install changed run directories"
      | _ =>
        match o.run with
        | none => return some s!"op {i}: successful install reports no run directory"
        | some t =>
          if (prev.runs.map (·.1)).contains t then
            return some s!"op {i}: install wrote into the existing run directory {t}"
          if !o.runs.contains (t, stamp) then
            return some s!"op {i}: the run directory {t} does not hold the files of this install"
          if o.runs.length != prev.runs.length + 1 then
            return some s!"op {i}: install created more than one run directory"
          if op == .install then
            match numOfName t with
            | none => return some s!"op {i}: numbered install created {t}"
            | some k =>
              let before := numsOf prev.runs
              if before.contains k then return some s!"op {i}: run number {k} is in use"
              if !relinked then
                let mx := before.foldl max 0
                if k != mx + 1 then
                  return some s!"op {i}: numbered install created run{k}, expected run{mx + 1} (one more than the highest existing run)"
              if o.runN != some t then
                return some s!"op {i}: after installing {t}, runN points to {o.runN.getD "nothing"}"
    else
      if o.runs != prev.runs || o.flat != prev.flat then
        return some s!"op {i}: a failed install changed the run directories"
      -- successive numbered installs must go through: nothing but numbered runs there, runN untouched by the user
      if op == .install && prev.flat.isNone && !relinked && prev.runs.all (fun x => (numOfName x.1).isSome) then
        return some s!"op {i}: a numbered install was refused although the workflow holds only numbered runs"
  -- runN keeps tracking: only the user (rmN / relink), the disappearance of its target, or a new install may
  -- change it; in particular cleaning a run that is not the one runN points to leaves the link alone
  let userOp := match op with | .rmRunN | .relink _ => true | _ => false
  if !userOp then
    match prev.runN with
    | some t =>
      if (o.runs.map (·.1)).contains t && o.runN != some t && !(isInstall && (o.ok || relinked)) then
        return some s!"op {i}: runN pointed to {t}, which still exists, but now points to {o.runN.getD "nothing"}: runN no longer tracks the most recent run"
    | none => pure ()
  -- runN, after every operation
  match o.runN with
  | none => pure ()
  | some t =>
    if !(o.runs.map (·.1)).contains t then return some s!"op {i}: runN points to {t}, which does not exist"
    if !relinked then
      let mx := (numsOf o.runs).foldl max 0
      if numOfName t != some mx then
        return some s!"op {i}: runN points to {t} but the most recent run is run{mx}"
  return none

def judge (ops : List Op) (obs : List Obs) : Option String := Id.run do
  let mut prev : Obs := ⟨true, none, [], none, none⟩
  let mut relinked := false
  let mut i := 0
  for (op, o) in ops.zip obs do
    if let .relink _ := op then relinked := true
    match judgeStep i op prev o relinked with
    | some w => return some w
    | none => pure ()
    prev := o
    i := i + 1
  return none

def handle (i o : Json) : Except String Reply := do
  let ops ← ((jArrField? i "ops").getD []).mapM parseOp
  let model := Json.arr ((run ops).map obsJson).toArray
  let obsJ := (jArr? o).getD []
  match obsJ.mapM parseObs with
  | none => return { model := model, holds := false, why := "malformed observation" }
  | some obs =>
    if obs.length != ops.length then
      return { model := model, holds := false, why := "observation has the wrong number of steps" }
    match judge ops obs with
    | some w => return { model := model, holds := false, why := w }
    | none => return { model := model, holds := true }

end CylcModel.DrvC48

def main : IO Unit := CylcModel.Drv.run CylcModel.DrvC48.handle
