/-
Driver for C37: runs the `PyLit` model (literal_eval / repr on tokens, start / store / restart) on a
JSON case and judges what the real code restored.

input  i : {"runs": [RUN ...]}
   RUN   : {"s": [[key, text, TOKS] ...],        -- -s key=text          (TOKS = tokens of text, leaves evaluated)
            "f": [[key, text, TOKS] ...],        -- --set-file lines
            "z": [[key, text, [[cp ...] ...]] ...]}   -- -z key=a,b,c       (the strings it lists)
   run 0 is the first start, the others are restarts with those command-line options.
   (sets are printed in Python's iteration order, which the model does not predict: the harness compares
    values and stored token lists with the elements of every set display sorted)
   TOKS  : ["(" | ")" | "[" | "]" | "{" | "}" | "," | ":" | "+" | "-" | "..." |
            {"n": name} | {"i": digits} | {"f": repr | "inf"} | {"j": text} | {"s": [cp]} | {"b": [byte]} | {"x": text}]
observed o / model m : {"runs": [{"load": "err" | TVS, "tv": "skip" | "err" | TVS, "tv2": "skip" | "err" | TVS,
                                  "db": "skip" | "err" | [[key, TOKS] ...]} ...]}      (model: or "unsupported")
   TVS   : [[key, ENC] ...] sorted by key
   ENC   : {"t": "none" | "ell"} | {"t": "bool", "v": b} | {"t": "int", "v": digits} | {"t": "float", "v": repr}
         | {"t": "str" | "bytes", "v": [n]} | {"t": "list" | "tuple" | "set", "v": [ENC]} | {"t": "dict", "v": [[ENC, ENC]]}
         | {"t": "complex" | "other", "v": text}
-/
import CylcModel.Util.Drv
import CylcModel.PyLit
open Lean CylcModel.Drv CylcModel.PyLit

namespace CylcModel.DrvC37

def need {α} (o : Option α) (what : String) : Except String α :=
  match o with | some v => .ok v | none => .error what

def natList (j : Json) : Except String (List Nat) := do
  (← need (jArr? j) "number list").mapM fun e => need (jNat? e) "number"

def parseTok (j : Json) : Except String Tok :=
  match jStr? j with
  | some "(" => .ok .lpar | some ")" => .ok .rpar | some "[" => .ok .lbr | some "]" => .ok .rbr
  | some "{" => .ok .lbrace | some "}" => .ok .rbrace | some "," => .ok .comma | some ":" => .ok .colon
  | some "+" => .ok .plus | some "-" => .ok .minus | some "..." => .ok .dots
  | some s => .error s!"token {s}"
  | none =>
    match jStrField? j "n", jStrField? j "i", jStrField? j "f", jStrField? j "j", jField? j "s", jField? j "b", jStrField? j "x" with
    | some n, _, _, _, _, _, _ => .ok (.name n)
    | _, some d, _, _, _, _, _ => do return .int (← need d.toNat? "int token")
    | _, _, some f, _, _, _, _ => .ok (.float (if f == "inf" then .inf else if f == "nan" then .nan else .fin f))
    | _, _, _, some t, _, _, _ => .ok (.imag t)
    | _, _, _, _, some s, _, _ => do return .str (← natList s)
    | _, _, _, _, _, some b, _ => do return .bytes (← natList b)
    | _, _, _, _, _, _, some x => .ok (.other x)
    | _, _, _, _, _, _, _ => .error "token"

def parseToks (j : Json) : Except String (List Tok) := do
  (← need (jArr? j) "tokens").mapM parseTok

def tokJson : Tok → Json
  | .lpar => "(" | .rpar => ")" | .lbr => "[" | .rbr => "]" | .lbrace => "{" | .rbrace => "}"
  | .comma => "," | .colon => ":" | .plus => "+" | .minus => "-" | .dots => "..."
  | .name s => Json.mkObj [("n", s)]
  | .int n => Json.mkObj [("i", toString n)]
  | .float (.fin t) => Json.mkObj [("f", t)]
  | .float .inf => Json.mkObj [("f", "inf")]
  | .float .nan => Json.mkObj [("f", "nan")]
  | .imag t => Json.mkObj [("j", t)]
  | .str s => Json.mkObj [("s", jOfList jOfNat s)]
  | .bytes b => Json.mkObj [("b", jOfList jOfNat b)]
  | .other x => Json.mkObj [("x", x)]
  | .eof => Json.mkObj [("x", "<eof>")]

def floatText (neg : Bool) (m : FMag) : String :=
  (if neg then "-" else "") ++ (match m with | .fin t => t | .inf => "inf" | .nan => "nan")

def tagged (t : String) (v : Json) : Json := Json.mkObj [("t", t), ("v", v)]

mutual
def enc : Val → Json
  | .leaf .none => Json.mkObj [("t", "none")]
  | .leaf .ellipsis => Json.mkObj [("t", "ell")]
  | .leaf (.bool b) => tagged "bool" (Json.bool b)
  | .leaf (.int i) => tagged "int" (toString i)
  | .leaf (.float n m) => tagged "float" (floatText n m)
  | .leaf (.str s) => tagged "str" (jOfList jOfNat s)
  | .leaf (.bytes b) => tagged "bytes" (jOfList jOfNat b)
  | .list xs => tagged "list" (Json.arr (encAll xs).toArray)
  | .tuple xs => tagged "tuple" (Json.arr (encAll xs).toArray)
  | .set xs => tagged "set" (Json.arr (encAll xs).toArray)
  | .dict ps => tagged "dict" (Json.arr (encPairs ps).toArray)
def encAll : Vals → List Json
  | .nil => []
  | .cons v vs => enc v :: encAll vs
def encPairs : Pairs → List Json
  | .nil => []
  | .cons k v ps => Json.arr #[enc k, enc v] :: encPairs ps
end

/-- equality of encoded values where the elements of a set are unordered -/
partial def canonEq (a b : Json) : Bool :=
  match a, b with
  | .arr x, .arr y => x.size == y.size && (x.toList.zip y.toList).all fun p => canonEq p.1 p.2
  | .obj _, .obj _ =>
    match jStrField? a "t", jStrField? b "t" with
    | some "set", some "set" =>
      let xs := (jArrField? a "v").getD []
      let ys := (jArrField? b "v").getD []
      let rec perm (xs ys : List Json) : Bool :=
        match xs with
        | [] => ys.isEmpty
        | x :: r =>
          match ys.findIdx? (canonEq x) with
          | some i => perm r (ys.eraseIdx i)
          | none => false
      xs.length == ys.length && perm xs ys
    | some s, some t => s == t && canonEq ((jField? a "v").getD .null) ((jField? b "v").getD .null)
    | _, _ => a == b
  | _, _ => a == b

/-! ### the model side -/

structure RunIn where
  s : List (String × List Tok)
  f : List (String × List Tok)
  z : List (String × List (List Nat))

def parseKT (j : Json) : Except String (String × List Tok) :=
  match jArr? j with
  | some [k, _, t] => do return (← need (jStr? k) "key", ← parseToks t)
  | _ => .error "key/text/tokens"

def parseRun (j : Json) : Except String RunIn := do
  let s ← ((jArrField? j "s").getD []).mapM parseKT
  let f ← ((jArrField? j "f").getD []).mapM parseKT
  let z ← ((jArrField? j "z").getD []).mapM fun e => match jArr? e with
    | some [k, _, l] => do return (← need (jStr? k) "key", ← (← need (jArr? l) "z list").mapM natList)
    | _ => .error "z item"
  return ⟨s, f, z⟩

def strList (l : List (List Nat)) : Val :=
  .list (l.foldr (fun s acc => .cons (.leaf (.str s)) acc) .nil)

/-- `load_template_vars`: file < -z < -s; the same key with -s and -z is an error -/
def loadTemplateVars (reject : Bool) (r : RunIn) : Res TV :=
  let evalAll (l : List (String × List Tok)) : Res TV :=
    l.foldl (fun acc p => match acc with
      | .ok tv => (match evalVar reject p.2 with
        | .ok v => .ok (upsert tv p.1 v)
        | .bad => .bad
        | .unsup => .unsup)
      | e => e) (.ok [])
  match evalAll r.f, evalAll r.s with
  | .ok ftv, .ok stv =>
    let ztv : TV := r.z.foldl (fun tv p => upsert tv p.1 (strList p.2)) []
    if stv.any (fun p => ztv.any (fun q => q.1 == p.1)) then .bad
    else
      let keys := (ftv.map (·.1) ++ ztv.map (·.1) ++ stv.map (·.1)).eraseDups
      .ok (keys.filterMap fun k =>
        match lookup stv k, lookup ztv k, lookup ftv k with
        | some v, _, _ => some (k, v)
        | _, some v, _ => some (k, v)
        | _, _, some v => some (k, v)
        | _, _, _ => none)
  | .unsup, _ => .unsup
  | _, .unsup => .unsup
  | _, _ => .bad

def sortTV (tv : TV) : List (String × Val) := (tv.toArray.qsort (fun a b => a.1 < b.1)).toList
def tvJson (tv : TV) : Json := Json.arr ((sortTV tv).map fun p => Json.arr #[Json.str p.1, enc p.2]).toArray
def dbJson (db : Db) : Json :=
  Json.arr (((db.toArray.qsort (fun a b => a.1 < b.1)).toList).map fun p =>
    Json.arr #[Json.str p.1, Json.arr (p.2.map tokJson).toArray]).toArray

structure MState where
  db : Option Db := none
  out : List Json := []
  unsup : Bool := false

def runOne (reject : Bool) (st : MState) (r : RunIn) : MState :=
  let rec_ (load tv tv2 db : Json) : Json :=
    Json.mkObj [("load", load), ("tv", tv), ("tv2", tv2), ("db", db)]
  match loadTemplateVars reject r with
  | .unsup => { st with unsup := true }
  | .bad => { st with out := st.out ++ [rec_ "err" "skip" "skip" "skip"] }
  | .ok cli =>
    let restored : Res TV := match st.db with
      | none => .ok cli
      | some db => restore reject db cli
    let restored2 : Res TV := match st.db with
      | none => .ok cli
      | some db => (match restoreAll reject db with
        | .ok old => .ok (overlay cli old)
        | .bad => .bad
        | .unsup => .unsup)
    match restored, restored2 with
    | .unsup, _ => { st with unsup := true }
    | _, .unsup => { st with unsup := true }
    | .ok tv, .ok tv2 =>
      (match putDb (st.db.getD []) tv with
       | none => { st with out := st.out ++ [rec_ (tvJson cli) (tvJson tv) (tvJson tv2) "err"] }
       | some db' => { st with db := some db', out := st.out ++ [rec_ (tvJson cli) (tvJson tv) (tvJson tv2) (dbJson db')] })
    | a, b =>
      let j (x : Res TV) : Json := match x with | .ok tv => tvJson tv | _ => "err"
      { st with out := st.out ++ [rec_ (tvJson cli) (j a) (j b) "skip"] }

def modelOut (runs : List RunIn) : Json :=
  let st := runs.foldl (runOne Generated.PyLitCfg.rejectsUnrestorable) {}
  if st.unsup then "unsupported" else Json.mkObj [("runs", Json.arr st.out.toArray)]

/-! ### judge: the property, on the implementation's observations only -/

def tvPairs (j : Json) : Option (List (String × Json)) :=
  (jArr? j).bind fun l => l.mapM fun e => match jArr? e with
    | some [k, v] => (jStr? k).map fun k => (k, v)
    | _ => none

/-- a leaf that `repr` prints as a name `literal_eval` does not know -/
partial def hasSpecialLeaf (j : Json) : Bool :=
  match jStrField? j "t" with
  | some "ell" => true
  | some "float" => (match jStrField? j "v" with
      | some v => v == "inf" || v == "-inf" || v == "nan" || v == "-nan"
      | none => false)
  | some "complex" => (match jStrField? j "v" with
      | some v => (v.splitOn "inf").length > 1 || (v.splitOn "nan").length > 1
      | none => false)
  | some _ => (match jField? j "v" with
      | some (.arr a) => a.any fun e => match e with
          | .arr kv => kv.any hasSpecialLeaf
          | x => hasSpecialLeaf x
      | _ => false)
  | none => false

def sameTV (a b : List (String × Json)) : Option String :=
  match a.find? (fun p => (b.find? (·.1 == p.1)).isNone), b.find? (fun p => (a.find? (·.1 == p.1)).isNone) with
  | some p, _ => some s!"variable {p.1} is missing after the restart"
  | _, some p => some s!"unexpected variable {p.1} after the restart"
  | none, none =>
    match a.find? (fun p => match b.find? (·.1 == p.1) with
        | some q => !canonEq p.2 q.2
        | none => true) with
    | some p => some s!"variable {p.1}: expected {p.2.compress}, restored {((b.find? (·.1 == p.1)).map (·.2.compress)).getD "?"}"
    | none => none

/-- Walk the runs.  `prev` = the template variables of the last run that started (what the
workflow was running with).  At a restart every one of them must come back with the identical
value and type, except those given again on the command line, which take the new value. -/
def judge (runs : List Json) : Bool × String :=
  let rec go (rs : List Json) (prev : Option (List (String × Json))) (idx : Nat) : Bool × String :=
    match rs with
    | [] => (true, "")
    | r :: rest =>
      match (jField? r "load").bind tvPairs with
      | none => go rest prev (idx + 1)                       -- options refused: the run did not start
      | some cli =>
        let expected := match prev with
          | none => cli
          | some p => cli ++ p.filter (fun q => (cli.find? (·.1 == q.1)).isNone)
        let special := match prev with
          | some p => p.any (fun q => hasSpecialLeaf q.2)
          | none => false
        let key := if special then "unrestorable: " else ""
        let check (field : String) : Option String :=
          match jField? r field with
          | some (.str "err") =>
            if prev.isSome then some s!"run {idx}: the restart fails, a template variable stored at the previous start cannot be read back ({field})"
            else some s!"run {idx}: start fails in {field}"
          | some j => (match tvPairs j with
            | some got => (sameTV expected got).map (fun m => s!"run {idx} ({field}): {m}")
            | none => some s!"run {idx}: no {field}")
          | none => some s!"run {idx}: no {field}"
        match check "tv", check "tv2" with
        | some m, _ => (false, key ++ m)
        | _, some m => (false, key ++ m)
        | none, none =>
          match jField? r "db" with
          | some (.str "err") => go rest prev (idx + 1)        -- storing raised: this start failed, nothing written
          | _ => go rest ((jField? r "tv").bind tvPairs) (idx + 1)
  go runs none 0

def handle (i o : Json) : Except String Reply := do
  let runs ← ((jArrField? i "runs").getD []).mapM parseRun
  let (h, why) := judge ((jArrField? o "runs").getD [])
  return { model := modelOut runs, holds := h, why := why }

end CylcModel.DrvC37

def main : IO Unit := CylcModel.Drv.run CylcModel.DrvC37.handle
