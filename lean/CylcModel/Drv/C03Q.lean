/-
Driver for C03 on workflows WITH LIMITED INTERNAL QUEUES (id C03Q): `Sched3QR` correspondence + judge
(`Sched3QR` = `Sched3QT` - limited queues, manual triggers - with retry delays that are not over at once).

The judge reads the REAL scheduler's trace and decides the property text on it:
 (a) when the scheduler stopped by itself (reason AUTOMATIC), the pool at that moment has no
     preparing/submitted/running task, no released waiting task that can still run - in particular no queued ready
     task, whether or not its queue has a free slot -, no finished-but-incomplete task and no task within the stop
     point waiting on an output within the stop point;
 (b) when the stall flag went up, the pool at the moment `TaskPool.is_stalled` answered yes (`stall_at`, recorded
     by the harness together with the runahead limit) has no active task and no waiting task that is ready and
     within the runahead limit (a queued ready task at that moment has a free slot in its queue, since nothing is
     active), and has a reason to be stalled (an incomplete or a partially satisfied task);
 (c) every task that is waiting, not held, with all prerequisites satisfied and within the runahead limit at the
     start of a main loop (scheduler not paused, not stopping) is submitted by that main loop OR its queue is at its
     limit: (members of the queue that are preparing / submitted / running at the start of the loop) + (members
     submitted by this loop) >= limit > 0.  The judge counts the members itself, from the observed pool and the
     queue table of the graph (`graph.queues`: name, limit, members, read off the real IndepQueueManager) - never
     from the model and never from the implementation's `count_active_tasks`.  A finished (failed / submit-failed /
     succeeded / expired) or waiting member does not occupy a slot.
A task whose retry delay is not over yet (`rwait`, read off the real retry xtriggers and the clock of the run) is
not ready in the sense of (c) - but it can run without intervention, so (b) counts it as able to run: a stall
reported while a task only waits for its retry timer is a false stall.
Prerequisite satisfaction and completion are evaluated by the judge from the expressions of the instance graph
over the atoms / outputs the real proxies report - not by the model's transition functions.  The stop point is
the one the real task pool reports (`stop_point`), so `cylc stop <point>` is followed.
-/
import CylcModel.Sched3QRJson
open Lean CylcModel.Drv CylcModel.Sched3QT CylcModel.Sched3QR

namespace CylcModel.DrvC03Q

structure PX where                      -- an observed proxy
  p : Int
  n : String
  st : String
  held : Bool
  q : Bool
  rh : Bool
  sn : Nat
  outs : List String
  pre : List (List (Int × String × String × Bool))

def parseAtomRow (a : Json) : Option (Int × String × String × Bool) :=
  match jArr? a with
  | some [p, n, m, s] => do
    let p ← jInt? p; let n ← jStr? n; let m ← jStr? m; let s ← jBool? s
    pure (p, n, m, s)
  | _ => none

def parsePX (t : Json) : PX :=
  { p := (jIntField? t "p").getD 0, n := (jStrField? t "n").getD "", st := (jStrField? t "st").getD "",
    held := (jBoolField? t "held").getD false, q := (jBoolField? t "q").getD false,
    rh := (jBoolField? t "rh").getD true, sn := (jNatField? t "sn").getD 0,
    outs := ((jArrField? t "out").getD []).filterMap jStr?,
    pre := ((jArrField? t "pre").getD []).map fun pr => ((jArr? pr).getD []).filterMap parseAtomRow }

def poolPX (ob : Json) : List PX := (poolOf ob).map parsePX

def isFinalStr (st : String) : Bool :=
  st == "succeeded" || st == "failed" || st == "submit-failed" || st == "expired"

/-- the statuses that occupy a slot of a limited queue (property text: preparing, submitted or running) -/
def isActiveStr (st : String) : Bool := st == "preparing" || st == "submitted" || st == "running"

def complete (g : Graph) (x : PX) : Bool :=
  match g.task? x.n with
  | some t => t.completion.eval fun v => x.outs.any fun tr => compVar tr == v
  | none => false

def keyLt (a b : Int × String × String) : Bool :=
  a.1 < b.1 || (a.1 == b.1 && (a.2.1 < b.2.1 || (a.2.1 == b.2.1 && a.2.2 < b.2.2)))

def keysOf (l : List (Int × String × String × Bool)) : List (Int × String × String) :=
  sortBy keyLt (l.map fun a => (a.1, a.2.1, a.2.2.1))

/-- remove the first element satisfying `f` -/
def takeFirst {α} (f : α → Bool) : List α → Option (α × List α)
  | [] => none
  | a :: l => if f a then some (a, l) else (takeFirst f l).map fun (b, r) => (b, a :: r)

/-- the prerequisites of an observed proxy: per prerequisite of the graph instance, whether its expression is
true over the observed atom flags, and its unsatisfied atom points; `none` if the observation does not match -/
def prereqs (g : Graph) (x : PX) : Option (List (Bool × List Int)) :=
  match (g.task? x.n).bind (·.inst? x.p) with
  | none => none
  | some d =>
    let rec go (ps : List Pre) (cands : List (List (Int × String × String × Bool))) : Option (List (Bool × List Int)) :=
      match ps with
      | [] => if cands.isEmpty then some [] else none
      | pr :: rest =>
        let want := sortBy keyLt (pr.atoms.map fun a => (a.1.pt, a.1.task, a.1.out))
        match takeFirst (fun c => keysOf c == want) cands with
        | none => none
        | some (c, cands') =>
          let flag (a : Atom) : Bool := match c.find? fun r => r.1 == a.pt && r.2.1 == a.task && r.2.2.1 == a.out with
            | some r => r.2.2.2 | none => false
          let sat : Bool := match pr.expr with
            | none => pr.atoms.all fun a => flag a.1
            | some e => e.eval fun i => match pr.atoms[i]? with | some a => flag a.1 | none => false
          let unsat := (pr.atoms.filter fun a => !flag a.1).map (·.1.pt)
          (go rest cands').map fun l => (sat, unsat) :: l
    go d.pre x.pre

def allSat (g : Graph) (x : PX) : Option Bool := (prereqs g x).map fun l => l.all (·.1)

/-- within the stop point with an unsatisfied prerequisite waiting on an output within the stop point -/
def partially (g : Graph) (stop : Int) (x : PX) : Option Bool :=
  (prereqs g x).map fun l => x.p ≤ stop && l.any fun (sat, unsat) => !sat && unsat.any (· ≤ stop)

def firstSome {α} (l : List α) (f : α → Option String) : Option String :=
  l.foldl (fun acc x => match acc with | some w => some w | none => f x) none

def mismatch (x : PX) : String := s!"judge: prerequisites of {x.p}/{x.n} do not match the instance graph"

def showPX (x : PX) : String := s!"{x.p}/{x.n}"

/-! ### queues, from the queue table of the graph and the observed pool only -/

/-- the queues a task name is a member of (exactly one for the queue manager's independent queues) -/
def queuesOf (g : Graph) (name : String) : List QDef := g.queues.filter fun q => q.members.contains name

/-- the members of `q` in an observed pool that occupy a slot: preparing, submitted or running -/
def slotHolders (q : QDef) (pool : List PX) : List PX :=
  pool.filter fun x => q.members.contains x.n && isActiveStr x.st

/-- a free slot: unlimited, or fewer slot holders than the limit -/
def hasFreeSlot (q : QDef) (pool : List PX) : Bool := q.limit == 0 || (slotHolders q pool).length < q.limit

def describeQueues (g : Graph) (name : String) (pool : List PX) : String :=
  match queuesOf g name with
  | [] => "it is a member of no queue"
  | qs => ", ".intercalate (qs.map fun q =>
      s!"queue {q.name} (limit {q.limit}) has {(slotHolders q pool).length} preparing/submitted/running members {(slotHolders q pool).map showPX}")

/-- (a) -/
def judgeShutdown (g : Graph) (stop : Int) (idx : Nat) (pool : List PX) : Option String :=
  firstSome pool fun x =>
    if isActiveStr x.st then some s!"obs {idx}: shut down while {x.p}/{x.n} is {x.st}"
    else if isFinalStr x.st && !complete g x then
      some s!"obs {idx}: shut down while {x.p}/{x.n} is {x.st} but incomplete (outputs {x.outs})"
    else match allSat g x, partially g stop x with
      | some sat, some part =>
        if x.st == "waiting" && !x.rh && !x.held && sat then
          if (queuesOf g x.n).all fun q => hasFreeSlot q pool then
            some s!"obs {idx}: shut down while the ready task {x.p}/{x.n} is queued and its queue has a free slot ({describeQueues g x.n pool})"
          else
            some s!"obs {idx}: shut down while the released waiting task {x.p}/{x.n} can still run"
        else if part then
          some s!"obs {idx}: shut down while {x.p}/{x.n} has partially satisfied prerequisites within the stop point"
        else none
      | _, _ => some (mismatch x)

/-- (b) -/
def judgeStall (g : Graph) (stop : Int) (idx : Nat) (pool : List PX) (rl : Option Int) (rwait : List (Int × String)) :
    Option String :=
  let ready (x : PX) : Option Bool := (allSat g x).map fun sat => x.st == "waiting" && !x.held && sat
  let active := firstSome pool fun x =>
    if isActiveStr x.st then some s!"obs {idx}: stall reported while {x.p}/{x.n} is {x.st}" else none
  let released := firstSome pool fun x =>
    match ready x with
    | none => some (mismatch x)
    | some r =>
      if r && !x.rh then
        if rwait.contains (x.p, x.n) then
          some s!"obs {idx}: stall reported while {x.p}/{x.n} only waits for its retry delay (it runs again without intervention once the delay is over)"
        else if (queuesOf g x.n).all fun q => hasFreeSlot q pool then
          some s!"obs {idx}: stall reported while the ready task {x.p}/{x.n} is queued and its queue has a free slot ({describeQueues g x.n pool})"
        else some s!"obs {idx}: stall reported while the released waiting task {x.p}/{x.n} is ready"
      else none
  let reason := pool.any fun x => (isFinalStr x.st && !complete g x) || (partially g stop x == some true)
  let noReason : Option String :=
    if reason then none
    else some s!"obs {idx}: stall reported although no task is incomplete or partially satisfied within the stop point"
  -- recorded finding: a ready task spawned after this loop's runahead release is still flagged runahead-limited
  -- although its point is within the limit; the next main loop releases and submits it
  let pending := firstSome pool fun x =>
    if ready x == some true && x.rh && (match rl with | some l => x.p ≤ l | none => false) then
      some s!"stall-runahead-pending: obs {idx}: stall reported while the waiting task {x.p}/{x.n} is ready and within the runahead limit (it is released and submitted by the next main loop)"
    else none
  match active, released, noReason with
  | some w, _, _ => some w
  | _, some w, _ => some w
  | _, _, some w => some w
  | none, none, none => pending

def isSet (ob : Json) (k : String) : Bool := (jOptField ob k).isSome

/-- a list of `[point, name]` pairs under key `k` (absent = empty) -/
def keysField (ob : Json) (k : String) : List (Int × String) :=
  ((jArrField? ob k).getD []).filterMap fun a =>
    match jArr? a with
    | some (p :: n :: _) => do return (← jInt? p, ← jStr? n)
    | _ => none

/-- (c) -/
def judgeResponse (g : Graph) (idx : Nat) (before after : Json) : Option String :=
  -- stopping (any stop mode requested or reached) or paused: the release step does not run
  if isSet before "stop" || isSet after "stop" || isSet before "stop_mode" || isSet after "stop_mode" then none else
  if jBoolField? before "paused" == some true || jBoolField? after "paused" == some true then none else
  let rl := jIntField? after "rl"
  let launches := ((jArrField? after "launch").getD []).filterMap fun a =>
    match jArr? a with
    | some [p, n, sn] => match jInt? p, jStr? n, jNat? sn with | some p, some n, some sn => some (p, n, sn) | _, _, _ => none
    | _ => none
  let pool := poolPX before
  -- tasks whose retry delay was not over when the loop started: their (retry) xtrigger is not satisfied
  let rwait := keysField before "rwait"
  firstSome pool fun x =>
    if x.st != "waiting" || x.held || rwait.contains (x.p, x.n) then none else
    match allSat g x with
    | none => some (mismatch x)
    | some sat =>
      let within := !x.rh || (match rl with | some l => x.p ≤ l | none => false)
      if sat && within && !launches.contains (x.p, x.n, x.sn + 1) then
        -- not submitted: only a queue at its limit excuses it.  Slots of queue q taken when this loop ends its
        -- release step = members preparing/submitted/running when the loop started + members it submitted
        let full (q : QDef) : Bool :=
          q.limit > 0 &&
            (slotHolders q pool).length + (launches.filter fun l => q.members.contains l.2.1).length ≥ q.limit
        if (queuesOf g x.n).any full then none
        else
          let sub (q : QDef) : List String := (launches.filter fun l => q.members.contains l.2.1).map fun l => s!"{l.1}/{l.2.1}"
          let extra := match queuesOf g x.n with
            | [] => ""
            | qs => "; this loop submitted " ++ ", ".intercalate (qs.map fun q => s!"{sub q} from queue {q.name}")
          some s!"obs {idx}: {x.p}/{x.n} was ready (waiting, not held, prerequisites satisfied, within the runahead limit) at the start of the main loop but was not submitted by it although its queue was not at its limit: {describeQueues g x.n pool}{extra}"
      else none

def isStopTaskOp (op : Json) : Bool :=
  jStrField? op "op" == some "cmd" && jStrField? op "name" == some "stop" &&
    ((jField? op "args").bind fun a => jStrField? a "task").isSome

def judge (g : Graph) (ops : List Json) (obs : List Json) : Option String :=
  -- `cylc stop <task>` makes the scheduler stop by itself once that task finished, whatever else is running:
  -- a requested stop, not an automatic shutdown in the sense of the property
  let stopTask := ops.any isStopTaskOp
  let stopOf (ob : Json) : Int := (jIntField? ob "stop_point").getD (g.stopPoint.getD g.fcp)
  let rec go (i : Nat) (prev : Json) (ops : List Json) (rest : List Json) : List String :=
    match ops, rest with
    | op :: ops', ob :: rest' =>
      let kind := (jStrField? op "op").getD ""
      let r1 : Option String :=
        if jStrField? ob "stop" == some "AUTOMATIC" && (jOptField prev "stop").isNone && !stopTask then
          judgeShutdown g (stopOf ob) i (poolPX ob)
        else none
      let r2 : Option String :=
        if jBoolField? ob "stalled" == some true && jBoolField? prev "stalled" != some true then
          match jOptField ob "stall_at" with
          | some sa => judgeStall g (stopOf ob) i (((jArrField? sa "pool").getD []).map parsePX) (jIntField? sa "rl")
              (keysField sa "rwait")
          | none => some s!"obs {i}: the stall flag went up although TaskPool.is_stalled did not hold during the operation"
        else none
      let r3 : Option String := if kind == "loop" then judgeResponse g i prev ob else none
      [r1, r2, r3].filterMap id ++ go (i + 1) ob ops' rest'
    | _, _ => []
  let all := match obs with
    | [] => []
    | ob0 :: rest => go 1 ob0 ops rest
  -- a failure that is not the recorded finding is reported first
  match all.find? fun w => !w.startsWith "stall-runahead-pending:" with
  | some w => some w
  | none => all.head?

def handle (i o : Json) : Except String Reply := do
  if let some r := crashReply? i then return r
  let c ← parseCaseR i
  let ops := (jArrField? i "ops").getD []
  match judge c.graph.g ops (obsList o) with
  | some w => return { model := modelObsR c, holds := false, why := w }
  | none => return { model := modelObsR c, holds := true }

end CylcModel.DrvC03Q

def main : IO Unit := CylcModel.Drv.run CylcModel.DrvC03Q.handle
