/-
Driver for C04 (runahead limit): `Sched` correspondence + judge on the traces of the real scheduler.

The judge reads only the implementation's observations (pool snapshots with the `is_runahead`
flag of every proxy, taken after start-up and after every op), the recurrences / limit / stop
point of the instance graph and the op kinds.  It decides the property as written:

* release-sound — every proxy that is released between two consecutive observations
  (`rh` true → false, or a new proxy that shows up released), and every proxy released during
  start-up, has a cycle point no later than `limitAt` (the prose `RunaheadSpec`, see
  `SchedSpecC04`) computed from the pool of that moment: for a main loop the pool it started
  with (the release is the first thing a main loop does), otherwise the pool before the op;
* no-deadlock — after a main loop (and after start-up) no proxy of the base cycle (the earliest
  point of the pool the loop started with, if that is within the stop point) is still held back
  by the runahead limit: the base cycle can always run, so the limit cannot block a completable run.

The instance graph must satisfy the hypotheses of the theorems (`wfSeqs`, `wfForward`);
a graph that does not is reported as a disagreement (the model output is replaced by a message).

Cases with a "direct" field are component-level runs of the real `compute_runahead` on a pool stub
(duration limits, future offsets); see the second half of this file.
-/
import CylcModel.SchedJson
import CylcModel.SchedSpecC04
import CylcModel.Runahead
open Lean CylcModel.Drv CylcModel.Sched

namespace CylcModel.DrvC04

structure T where
  p : Int
  n : String
  rh : Bool

def tasksOf (ob : Json) : Except String (List T) :=
  (poolOf ob).mapM fun t => do
    let p ← req (jIntField? t "p") "pool p"
    let n ← req (jStrField? t "n") "pool n"
    let rh ← req (jBoolField? t "rh") "pool rh"
    return ⟨p, n, rh⟩

/-- the earliest cycle point of a pool -/
def lowest : List T → Option Int
  | [] => none
  | t :: ts => some (ts.foldl (fun m u => if u.p < m then u.p else m) t.p)

def withinStop (g : Graph) (p : Int) : Bool :=
  match g.stopPoint with
  | some sp => p ≤ sp
  | none => true

def isStopped (ob : Json) : Bool := (jOptField ob "stop").isSome

/-- start-up: everything released must be within the limit of the start-up pool; the base cycle is released -/
def judgeStart (g : Graph) (cur : List T) : Option String :=
  match lowest cur with
  | none => none
  | some b =>
    let lim := limitAt g b
    match cur.find? fun t => !t.rh && t.p > lim with
    | some t => some s!"release-beyond-limit: obs 0: {t.p}/{t.n} released at start-up beyond the runahead limit {lim} of base point {b}"
    | none =>
      if withinStop g b then
        match cur.find? fun t => t.rh && t.p == b with
        | some t => some s!"base-cycle-held: obs 0: {t.p}/{t.n} of the base cycle {b} is held back by the runahead limit after start-up"
        | none => none
      else none

def judgeOp (g : Graph) (idx : Nat) (isLoop : Bool) (prevStopped : Bool) (prev cur : List T) : Option String :=
  let wasReleased (t : T) : Bool := prev.any fun u => u.p == t.p && u.n == t.n && !u.rh
  let fresh := cur.filter fun t => !t.rh && !wasReleased t
  let opName := if isLoop then "main loop" else "op"
  let sound : Option String :=
    match fresh with
    | t :: _ =>
      (match lowest prev with
       | none => some s!"release-beyond-limit: obs {idx}: {t.p}/{t.n} released by a {opName} that started with an empty pool"
       | some b =>
         let lim := limitAt g b
         match fresh.find? fun t => t.p > lim with
         | some t => some s!"release-beyond-limit: obs {idx}: {t.p}/{t.n} released by a {opName} beyond the runahead limit {lim} of base point {b}"
         | none => none)
    | [] => none
  match sound with
  | some w => some w
  | none =>
    if isLoop && !prevStopped then
      match lowest prev with
      | none => none
      | some b =>
        if withinStop g b then
          match cur.find? fun t => t.rh && t.p == b && prev.any (fun u => u.p == t.p && u.n == t.n) with
          | some t => some s!"base-cycle-held: obs {idx}: {t.p}/{t.n} of the base cycle {b} is still held back by the runahead limit after a main loop"
          | none => none
        else none
    else none

def judge (c : Case) (o : Json) : Except String (Option String) := do
  let obs := obsList o
  let pools ← obs.mapM tasksOf
  match pools with
  | [] => return some "no observations"
  | p0 :: rest =>
    match judgeStart c.graph p0 with
    | some w => return some w
    | none =>
      let rec go (idx : Nat) (prev : List T) (prevOb : Json) :
          List (List T) → List Json → List Op → Option String
        | cur :: ps, ob :: obs, op :: ops =>
          let isLoop := match op with | .loop => true | _ => false
          match judgeOp c.graph idx isLoop (isStopped prevOb) prev cur with
          | some w => some w
          | none => go (idx + 1) cur ob ps obs ops
        | [], _, _ => none
        | _, _, _ => some "observation list and op list differ in length"
      return go 1 p0 (obs.headD Json.null) rest (obs.drop 1) c.ops


/-! ### (ii) direct cases: the real `compute_runahead` / `set_max_future_offset` / `release_runahead_tasks`
on a pool stub, against the `Runahead` component model

case:  {"direct": {"seqs": [[p..]..], "limit": {"count": n} | {"dur": d}, "start": p, "stop": p|null,
                   "ops": [{"op":"pool","tasks":[[p, off|null, rh]..]} | {"op":"offset"} |
                           {"op":"compute","force":b} | {"op":"release"}]}}
       ("guarded": which variant of the stop-point early return the code under test has, see `Runahead.Cfg`)
obs:   one per op: {"rl": p|null, "off": d|null, "ch": b|null, "rel": [p..] (ascending)}

The judge reads the observed `rel` lists only (and the ops of the case): every point released by a
`release` op must be no later than `Runahead.specLimit` (the prose RunaheadSpec incl. duration limits
and the largest future offset among the pooled tasks) of the pool of that moment; and the first
release after the limit was computed for a pool must release the runahead-limited tasks of that
pool's base cycle (if within the stop point). -/

open CylcModel.Runahead in
def parseLimit (j : Json) : Except String Limit :=
  match jNatField? j "count", jIntField? j "dur" with
  | some n, _ => .ok (.count n)
  | none, some d => .ok (.dur d)
  | _, _ => .error "bad limit"

open CylcModel.Runahead in
def parseDTask (j : Json) : Except String Task :=
  match jArr? j with
  | some [p, o, r] => do
    let pt ← req (jInt? p) "task point"
    let rh ← req (jBool? r) "task rh"
    return { pt, off := jInt? o, rh }
  | _ => .error "bad task"

def parseDOp (j : Json) : Except String Runahead.Op := do
  match jStrField? j "op" with
  | some "pool" => return .pool (← ((jArrField? j "tasks").getD []).mapM parseDTask)
  | some "offset" => return .offset
  | some "compute" => return .compute (← req (jBoolField? j "force") "force")
  | some "release" => return .release
  | _ => .error "unknown direct op"

structure DCase where
  cfg : Runahead.Cfg
  ops : List Runahead.Op

def parseDCase (j : Json) : Except String DCase := do
  let seqs := ((jArrField? j "seqs").getD []).map fun q => ((jArr? q).getD []).filterMap jInt?
  let limit ← parseLimit (← req (jField? j "limit") "limit")
  let start ← req (jIntField? j "start") "start"
  let stop := (jOptField j "stop").bind jInt?
  let ops ← ((jArrField? j "ops").getD []).mapM parseDOp
  let guarded := (jBoolField? j "guarded").getD false
  return { cfg := { seqs, limit, start, stop, guarded }, ops }

def obsJsonD (o : Runahead.Obs) : Json :=
  Json.mkObj [("rl", jOptInt o.limit), ("off", jOptInt o.maxOff),
    ("ch", match o.changed with | some b => Json.bool b | none => Json.null),
    ("rel", jOfList jOfInt (sortBy (· < ·) o.released))]

def lowestD : List Runahead.Task → Option Int
  | [] => none
  | t :: ts => some (ts.foldl (fun m u => if u.pt < m then u.pt else m) t.pt)

/-- the largest future-trigger offset among the pooled tasks -/
def largestOff (pool : List Runahead.Task) : Option Int :=
  pool.foldl (fun m t => match t.off with
    | none => m
    | some o => match m with
      | none => some o
      | some v => some (if o > v then o else v)) none

structure JSt where
  pool : List Runahead.Task := []
  computed : Bool := false       -- a compute since the last pool op
  released : Bool := false       -- a release since the last pool op
  bases : List Int := []         -- base points of the earlier pools

def judgeDirect (c : DCase) (o : Json) : Except String (Option String) := do
  let obs := obsList o
  if obs.length != c.ops.length then return some "observation list and op list differ in length"
  let rec go (idx : Nat) (st : JSt) : List Runahead.Op → List Json → Except String (Option String)
    | op :: ops, ob :: obs => do
      match op with
      | .pool ts =>
        let bases := match lowestD st.pool with | some b => b :: st.bases | none => st.bases
        go (idx + 1) { pool := ts, bases } ops obs
      | .offset => go (idx + 1) st ops obs
      | .compute _ => go (idx + 1) { st with computed := true } ops obs
      | .release =>
        let rel := ((jArrField? ob "rel").getD []).filterMap jInt?
        let rl := (jOptField ob "rl").bind jInt?
        match lowestD st.pool with
        | none =>
          if rel.isEmpty then go (idx + 1) { st with released := true } ops obs
          else return some s!"release-beyond-limit: op {idx}: released {rel} from an empty pool"
        | some b =>
          let lim := Runahead.specLimit c.cfg (largestOff st.pool) b
          match rel.find? (· > lim) with
          | some p =>
            -- signature of the recorded finding: the limit sits at the stop point and the base point moved backward
            let stale := rl.isSome && rl == c.cfg.stop && st.bases.any (· > b)
            let key := if stale then "stale-limit-at-stop-point" else "release-beyond-limit"
            return some s!"{key}: op {idx}: point {p} released beyond the runahead limit {lim} of base point {b} (limit in force: {rl})"
          | none =>
            let within := match c.cfg.stop with | some sp => b ≤ sp | none => true
            if st.computed && !st.released && within && st.pool.any (fun t => t.pt == b && t.rh) && !rel.contains b then
              return some s!"base-cycle-held: op {idx}: the base cycle {b} is not released (limit in force: {rl})"
            else go (idx + 1) { st with released := true } ops obs
    | _, _ => return none
  go 0 {} c.ops obs

def handleDirect (d o : Json) : Except String Reply := do
  let c ← parseDCase d
  let model : Json :=
    if !Runahead.wf c.cfg then Json.str "hypothesis violated: a recurrence is not strictly ascending, or a negative duration"
    else jOfList obsJsonD (Runahead.run c.cfg c.ops)
  match ← judgeDirect c o with
  | some w => return { model, holds := false, why := w }
  | none => return { model, holds := true }

def handle (i o : Json) : Except String Reply := do
  if let some r := crashReply? i then return r
  if let some d := jOptField i "direct" then return ← handleDirect d o
  let c ← parseCase i
  let model : Json :=
    if !wfSeqs c.graph then Json.str "hypothesis violated: a recurrence is not a strictly ascending list of points"
    else if !wfForward c.graph then
      Json.str "hypothesis violated: a graph child or next parentless instance lies at an earlier point (future trigger)"
    else modelObs c
  match ← judge c o with
  | some w => return { model, holds := false, why := w }
  | none => return { model, holds := true }

end CylcModel.DrvC04

def main : IO Unit := CylcModel.Drv.run CylcModel.DrvC04.handle
