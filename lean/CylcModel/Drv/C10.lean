/-
Driver for C10 (stale, duplicate and out-of-order job messages cannot corrupt state).

model : `Msg.runX` (= `Sched.run` extended by poll results) on the recorded instance graph and op list.
judge : the property text evaluated on the REAL scheduler's message log (`msgs`: every
        `process_message` call with the task's status / submit number / outputs before and after and the
        return value), the polls it requested (`polls`), the op list and the final pool.

  (a) stale: a received message carrying a submit number older than the task's current one leaves
      status, submit number and outputs unchanged and requests no poll;
  (b) backward: a received message of the current job announcing a status behind the current one
      (lifecycle position: waiting < preparing < submitted = submit-failed < running < succeeded = failed)
      changes no status and makes the scheduler poll the task in the same main loop;
  (c) convergence: for every task instance whose latest job has exactly one actual outcome among the
      delivered events (succeeded | failed | submission failed — by message, submit result or poll
      result; a failed submission together with submitted/started/succeeded/failed events of the same job is not
      a job history) and that outcome has been processed, with no poll outstanding: the last state of the task
      is that outcome (succeeded; failed or waiting-for-retry; submit-failed or waiting-for-retry) with
      submitted/started/the outcome complete, and every custom output the job delivered is complete.

  (a') stale poll results: the result of a jobs-poll command for an older job of the task (op `pollres`
      with a submit number below the pooled task's) changes nothing.

  (d) poll translation: a jobs-poll result for the current job (op `pollres`, fed through the real
      `_poll_task_jobs_callback`) reaches the task as the message its job state stands for: running → started,
      exited 0 → succeeded, error trap → failed, signal → failed/<SIGNAL>, started and gone without an exit
      record (died without its trap) → failed, never ran and gone → submission failed.

A poll result of the CURRENT job is believed unconditionally by cylc-flow; one that was overtaken by job
messages can take a finished task back: recorded finding `late-poll` (findings/C10.json), recognised by
its exact shape.
-/
import CylcModel.MsgJson
open Lean CylcModel.Drv CylcModel.Sched CylcModel.Msg

namespace CylcModel.DrvC10

def findingKeys : List String := ["late-poll"]

def sameState (a b : Snap) : Bool := a.st == b.st && a.sn == b.sn && a.out == b.out

def hasPoll (ob : Json) (p : Int) (n : String) : Bool :=
  ((jArrField? ob "polls").getD []).any fun e =>
    match jArr? e with
    | some [pp, nn] => jInt? pp == some p && jStr? nn == some n
    | _ => false

/-- (a), (b) on one observation -/
def judgeObs (idx : Nat) (ob : Json) : List String :=
  match recsOf ob with
  | none => [s!"obs {idx}: observation lacks the message log"]
  | some recs =>
    recs.filterMap fun r =>
      if r.d != 0 || r.tr || r.forced then none
      else if r.fl != "received" then none
      else if r.sn < r.b.sn then
        if sameState r.a r.b && !r.r then none
        else some (s!"obs {idx}: {r.p}/{r.n} message '{r.m}' of old job {r.sn} (current job {r.b.sn}) changed the task: " ++
                   s!"{r.b.st} {r.b.out} -> {r.a.st} {r.a.out}, poll={r.r}")
      else if r.sn == r.b.sn && r.b.st != "expired" then
        match msgStatus? r.m with
        | some ms =>
          if phaseS ms < phaseS r.b.st then
            if r.a.st != r.b.st then
              some s!"obs {idx}: {r.p}/{r.n} received '{r.m}' moved the status backwards: {r.b.st} -> {r.a.st}"
            else if !r.r then
              some s!"obs {idx}: {r.p}/{r.n} received '{r.m}' while {r.b.st}: no poll requested"
            else if r.inPool && !hasPoll ob r.p r.n then
              some s!"obs {idx}: {r.p}/{r.n} received '{r.m}' while {r.b.st}: the task was not polled"
            else none
          else none
        | none => none
      else none

/-! ### (c) convergence -/

structure Ev where          -- a delivered event of a job, read from the op list
  p : Int
  n : String
  sn : Nat
  kind : String             -- msg | subres | poll
  text : String
  deriving Repr

def evOf (op : Json) : Option Ev := do
  let kind ← jStrField? op "op"
  if kind == "loop" then none
  let (p, n) ← (parseTaskId (← jStrField? op "task")).toOption
  let sn := (jNatField? op "sn").getD 0
  match kind with
  | "subres" => pure { p, n, sn, kind, text := if (jBoolField? op "ok").getD true then "submitted" else "submission failed" }
  | "msg" => pure { p, n, sn, kind, text := baseMsg (← jStrField? op "msg") }
  | "pollres" => pure { p, n, sn, kind, text := baseMsg (pollExpected (← jStrField? op "state")) }
  | _ => none

def isOutcome (t : String) : Bool := t == "succeeded" || t == "failed" || t == "submission failed"

def dedup (l : List String) : List String := l.foldl (fun acc x => if acc.contains x then acc else acc ++ [x]) []

/-- all top-level, non-transient message records of the trace, in order -/
def allRecs (obs : List Json) : List Rec :=
  (obs.flatMap fun ob => (recsOf ob).getD []).filter fun r => r.d == 0 && !r.tr && !r.forced

def judgeConverge (ts : List TInfo) (ops obs : List Json) : List String :=
  let evs := ops.filterMap evOf
  let recs := allRecs obs
  let finalPool := (obs.getLast?.bind poolObs).getD []
  let keys := recs.foldl (fun (acc : List (Int × String)) r => if acc.contains (r.p, r.n) then acc else acc ++ [(r.p, r.n)]) []
  keys.filterMap fun k =>
    let mine := recs.filter fun r => r.p == k.1 && r.n == k.2
    let sn := mine.foldl (fun m r => max m r.a.sn) 0
    -- the latest job's records: the task's current job was `sn` when they were processed, and they were not stale
    let cur := mine.filter fun r => r.b.sn == sn && (r.fl != "received" || r.sn == sn)
    let jobEvs := evs.filter fun e => e.p == k.1 && e.n == k.2 && e.sn == sn
    let outcomes := dedup ((jobEvs.filter fun e => isOutcome e.text).map (·.text))
    -- a job whose submission failed does not run: such event sets have no well-defined actual outcome
    let inconsistent := outcomes.contains "submission failed" &&
      jobEvs.any fun e => ["submitted", "started", "succeeded", "failed"].contains e.text
    -- a poll the scheduler requested (backward message) and that has not been answered yet
    let pollPending := cur.foldl (fun (pend : Bool) r => if r.fl == "polled" then r.r else pend || r.r) false
    match outcomes, cur.getLast? with
    | [o], some last =>
      if sn == 0 || inconsistent || !(cur.any fun r => baseMsg r.m == o) || pollPending then none else
      -- the last state of the instance: the pool at the end if it is still there under the same job
      let fin : Option Snap :=
        match finalPool.find? (fun x => x.p == k.1 && x.n == k.2) with
        | some x => if x.sn == sn then some { st := x.st, sn := x.sn, out := x.out, tries := [] } else none
        | none => some last.a
      match fin with
      | none => none          -- re-prepared under a newer job that has no events yet
      | some f =>
        let want : List String :=
          if o == "succeeded" then ["succeeded"]
          else if o == "failed" then ["failed", "waiting"] else ["submit-failed", "waiting"]
        let needOut : List String :=
          if f.st == "succeeded" then ["submitted", "started", "succeeded"]
          else if f.st == "failed" then ["submitted", "started", "failed"]
          else if f.st == "submit-failed" then ["submit-failed"] else []
        let customs : List String := match tinfo? ts k.2 with
          | none => []
          | some t => t.outputs.filterMap fun (trig, msg) =>
              if ["submitted", "started", "succeeded", "failed", "submit-failed", "expired"].contains trig then none
              else if cur.any (fun r => r.m == msg && r.inPool) then some trig else none
        let lastChange := (cur.filter fun r => r.a.st != r.b.st).getLast?
        let pre := match lastChange with
          | some r => if r.fl == "polled" && baseMsg r.m != o then "late-poll: " else ""
          | none => ""
        if !want.contains f.st then
          some s!"{pre}{k.1}/{k.2} job {sn} actually {o}, but the task ends {f.st} (outputs {f.out})"
        else if !subset needOut f.out then
          some s!"{pre}{k.1}/{k.2} job {sn} {o}: task ends {f.st} with outputs {f.out}"
        else if !subset customs f.out then
          some s!"{pre}{k.1}/{k.2} job {sn}: delivered outputs {customs} but the task ends with {f.out}"
        else none
    | _, _ => none

/-- (a'): a poll result of an older job leaves the pooled task as it was -/
def judgeStalePolls (ops obs : List Json) : List String :=
  let rec go (idx : Nat) : List Json → List Json → List String
    | op :: ops, prev :: ob :: rest =>
      let here : List String :=
        match evOf op with
        | some e =>
          if e.kind != "pollres" then [] else
          match (poolObs prev).bind (·.find? fun x => x.p == e.p && x.n == e.n),
                (poolObs ob).map (·.find? fun x => x.p == e.p && x.n == e.n) with
          | some x, some after =>
            if e.sn < x.sn then
              match after with
              | some y =>
                if y.st == x.st && y.sn == x.sn && y.out == x.out then []
                else [s!"obs {idx}: {e.p}/{e.n} poll result '{e.text}' of old job {e.sn} (current job {x.sn}) changed " ++
                      s!"the task: {x.st} {x.out} -> {y.st} {y.out}"]
              | none => [s!"obs {idx}: {e.p}/{e.n} poll result '{e.text}' of old job {e.sn} removed the task"]
            else []
          | _, _ => []
        | none => []
      here ++ go (idx + 1) ops (ob :: rest)
    | _, _ => []
  go 1 ops obs

/-- (d): a poll result of the current job is reported to the task as the message its job state stands for -/
def judgePollTranslation (ops obs : List Json) : List String :=
  let rec go (idx : Nat) : List Json → List Json → List String
    | op :: ops, prev :: ob :: rest =>
      let here : List String :=
        if jStrField? op "op" != some "pollres" then [] else
        match (jStrField? op "task").bind (fun t => (parseTaskId t).toOption), jStrField? op "state", jNatField? op "sn" with
        | some (p, n), some state, some sn =>
          match (poolObs prev).bind (·.find? fun x => x.p == p && x.n == n) with
          | some x =>
            if x.sn != sn || sn == 0 then [] else
            let want := pollExpected state
            let got := ((recsOf ob).getD []).filter fun r => r.d == 0 && r.fl == "polled" && r.p == p && r.n == n
            if got.any (fun r => r.m == want) then []
            else [s!"obs {idx}: {p}/{n} poll of job {sn} found the job state '{state}', to be reported as '{want}', " ++
                  s!"but the task was told {got.map (·.m)}"]
          | none => []
        | _, _, _ => []
      here ++ go (idx + 1) ops (ob :: rest)
    | _, _ => []
  go 1 ops obs

def judge (i o : Json) : Option String :=
  let ts := tinfos ((jField? i "graph").getD Json.null)
  let obs := obsList o
  let ops := (jArrField? i "ops").getD []
  let rec go (idx : Nat) : List Json → List String
    | [] => []
    | ob :: rest => judgeObs idx ob ++ go (idx + 1) rest
  pickFailure findingKeys (go 0 obs ++ judgeStalePolls ops obs ++ judgePollTranslation ops obs ++ judgeConverge ts ops obs)

def handle (i o : Json) : Except String Reply := do
  if let some r := crashReply? i then return r
  let c ← parseXCase i
  let model :=
    if !noSelfChild c.graph then Json.str "hypothesis violated: a task instance is its own graph child"
    else if !stdOutputs c.graph then Json.str "hypothesis violated: a task lacks the submitted/started outputs"
    else modelObsX c
  match judge i o with
  | some w => return { model, holds := false, why := w }
  | none => return { model, holds := true }

end CylcModel.DrvC10

def main : IO Unit := CylcModel.Drv.run CylcModel.DrvC10.handle
