/-
Driver for C02 (no double submission; retries): correspondence with `Sched` extended by job-file preparation
failures (`SchedPF`) + judge on the observed trace.

Judge (from the property text, on what the REAL scheduler did), per instance (p, name) with N execution and M
submission retry delays:
* the submissions (launches, and attempts whose job-file preparation failed - observation key `prepfail`), in order,
  carry the submit numbers 1, 2, 3, … (distinct, consecutive);
* each launch after the first is preceded, since the previous launch, by a `failed` / `submission failed` event
  that was handled as a retry (task back to waiting) while a retry remained: the judge counts the retries itself
  (execution retries over the whole life; submission retries since the last `started`) and requires the count
  before the event to be below N / M;
* at most (N+1)*(M+1) launches;
* the `failed` (`submit-failed`) output becomes complete only in an event before which N execution retries
  (M submission retries since the last `started`) had been used.
The hypothesis `Graph.wf` of the theorems is checked on every real graph.
-/
import CylcModel.SchedObsC01
import CylcModel.SchedHypC01
import CylcModel.SchedPF
open Lean CylcModel.Drv CylcModel.Sched CylcModel.SchedObs

namespace CylcModel.DrvC02

/-- retry bookkeeping of one instance, kept by the judge -/
structure Acc where
  p : Int
  n : String
  launches : Nat := 0
  execUsed : Nat := 0         -- execution retries used
  subUsed : Nat := 0          -- submission retries used since the last `started`
  retrySince : Bool := false  -- a retry event since the last launch
  deriving Inhabited

def getAcc (accs : List Acc) (p : Int) (n : String) : Acc :=
  (accs.find? fun a => a.p == p && a.n == n).getD { p := p, n := n }

def putAcc (accs : List Acc) (a : Acc) : List Acc :=
  if accs.any (fun b => b.p == a.p && b.n == a.n) then accs.map fun b => if b.p == a.p && b.n == a.n then a else b
  else accs ++ [a]

def retriesOf (i : Json) (n : String) : Nat × Nat :=
  let t := (((jField? i "graph").bind fun g => jField? g "tasks").bind fun t => jField? t n).getD Json.null
  ((jNatField? t "exec_retries").getD 0, (jNatField? t "sub_retries").getD 0)

def isFailMsg (m : String) : Bool := m == "failed" || m.startsWith "failed/" || m.startsWith "aborted/"
def isSubFailMsg (m : String) : Bool := m == "submission failed" || m == "submit-failed"

/-- one logged `process_message` call on a pooled (non-transient) proxy -/
def judgeMsg (i : Json) (idx : Nat) (accs : List Acc) (r : MRec) : Except String (List Acc) := do
  if r.transient || !r.inPool || !r.hasAfter then return accs
  let a := getAcc accs r.p r.n
  let (nExec, nSub) := retriesOf i r.n
  let tag := s!"obs {idx}: {r.p}/{r.n} message '{r.m}'"
  let mut a := a
  -- completion of the final outputs
  if !r.bOut.contains "failed" && r.aOut.contains "failed" then
    if a.execUsed < nExec && r.bSn > 0 then
      throw s!"{tag}: the failed output was completed although {nExec - a.execUsed} execution retr(y/ies) remained"
  if !r.bOut.contains "submit-failed" && r.aOut.contains "submit-failed" then
    if a.subUsed < nSub && r.bSn > 0 then
      throw s!"{tag}: the submit-failed output was completed although {nSub - a.subUsed} submission retr(y/ies) remained"
  -- a retry: the event sent the task back to waiting
  if r.bSt != "waiting" && r.aSt == "waiting" then
    if isFailMsg r.m then
      if a.execUsed ≥ nExec then throw s!"{tag}: handled as an execution retry although none of the {nExec} remained"
      a := { a with execUsed := a.execUsed + 1, retrySince := true }
    else if isSubFailMsg r.m then
      if a.subUsed ≥ nSub then throw s!"{tag}: handled as a submission retry although none of the {nSub} remained"
      a := { a with subUsed := a.subUsed + 1, retrySince := true }
    else throw s!"{tag}: sent the task back to waiting"
  if r.m == "started" && r.aSt == "running" && r.bSt != "running" then
    a := { a with subUsed := 0 }
  -- a vacated job is back in the batch queue: submission succeeded, the execution retries used stay used
  if r.m.startsWith "vacated/" && r.aSt == "submitted" then
    a := { a with subUsed := 0 }
  return putAcc accs a

def judgeLaunch (i : Json) (idx : Nat) (accs : List Acc) (l : Int × String × Nat) : Except String (List Acc) := do
  let a := getAcc accs l.1 l.2.1
  let (nExec, nSub) := retriesOf i l.2.1
  let tag := s!"obs {idx}: launch {l.1}/{l.2.1} (submit {l.2.2})"
  if l.2.2 != a.launches + 1 then
    throw s!"{tag}: submit number is not the successor of the previous one ({a.launches})"
  if a.launches ≥ 1 && !a.retrySince then
    throw s!"{tag}: submitted again without a failed / submit-failed event handled as a retry since the previous submission"
  if a.launches + 1 > (nExec + 1) * (nSub + 1) then
    throw s!"{tag}: more than (N+1)*(M+1) = {(nExec + 1) * (nSub + 1)} submissions"
  return putAcc accs { a with launches := a.launches + 1, retrySince := false }

def judgeObs (i : Json) (idx : Nat) (accs : List Acc) (ob : Json) : Except String (List Acc) := do
  -- within one operation launches come first (release happens before message processing in a main loop;
  -- the other operations launch nothing)
  let mut accs := accs
  -- a submission attempt whose job-file preparation failed counts as a submission
  let pf : List (Int × String × Nat) := ((jArrField? ob "prepfail").getD []).filterMap fun l =>
    match jArr? l with
    | some [p, n, sn] => do pure (← jInt? p, ← jStr? n, ← jNat? sn)
    | _ => none
  let ls := launchesOf ob ++ pf
  -- two launches of one instance in one operation
  for l in ls do
    if (ls.filter fun l' => l'.1 == l.1 && l'.2.1 == l.2.1).length > 1 then
      throw s!"obs {idx}: {l.1}/{l.2.1} submitted twice in one operation"
  for l in ls do
    accs ← judgeLaunch i idx accs l
  for r in msgsOf ob do
    accs ← judgeMsg i idx accs r
  return accs

def judge (i : Json) (c : CaseV) (o : Json) : Option String :=
  if !c.graph.wf then some "hypothesis-violated: a task of the extracted graph lacks a standard output (Graph.wf)"
  else
    let rec go (idx : Nat) (accs : List Acc) : List Json → Option String
      | [] => none
      | ob :: rest =>
        match judgeObs i idx accs ob with
        | .error w => some w
        | .ok accs' => go (idx + 1) accs' rest
    go 0 [] (obsList o)

def handle (i o : Json) : Except String Reply := do
  if let some r := crashReply? i then return r
  let c ← parseCaseV i
  match judge i c o with
  | some w => return { model := modelObsV c, holds := false, why := w }
  | none => return { model := modelObsV c, holds := true }

end CylcModel.DrvC02

def main : IO Unit := CylcModel.Drv.run CylcModel.DrvC02.handle
