/-
Driver for C07 (cycle bounds, sequences, stop point): `Sched` correspondence + judge on the observed trace.

The judge reads only what the REAL scheduler did — the pool after every operation, every call of
`add_to_pool` during the operation (`adds`), every job launch — and compares it with the bounds,
recurrences and stop point of the workflow *as written in flow.cylc* (`expect`, computed by the harness
from the text: `pts` = the points of the recurrences of the graph sections that name the task,
`stop` = `stop after cycle point`), not with the model and not with the scheduler's own `is_valid_point`.
`graph-wf`: the instance graph handed to the model must list exactly those points for every task and the
same stop point (the theorems speak about `insts` / `stopPoint` of that graph).
-/
import CylcModel.SchedJson
open Lean CylcModel.Drv CylcModel.Sched

namespace CylcModel.DrvC07

structure Expect where
  icp : Int
  fcp : Int
  stop : Int                              -- the stop point in effect (configured, else the final point)
  pts : List (String × List Int)

def parseExpect (i : Json) : Except String Expect := do
  let e ← req (jField? i "expect") "expect"
  let icp ← req (jIntField? e "icp") "expect.icp"
  let fcp ← req (jIntField? e "fcp") "expect.fcp"
  let stop := ((jOptField e "stop").bind jInt?).getD fcp
  let pts := (objPairs ((jField? e "pts").getD Json.null)).map fun (k, v) => (k, ((jArr? v).getD []).filterMap jInt?)
  return { icp, fcp, stop, pts }

/-- is `(p, n)` an instance of the workflow as written? -/
def keyProblem (e : Expect) (p : Int) (n : String) : Option String :=
  if p < e.icp then some s!"{p}/{n} is before the initial cycle point {e.icp}"
  else if p > e.fcp then some s!"{p}/{n} is after the final cycle point {e.fcp}"
  else match e.pts.find? (·.1 == n) with
    | none => some s!"{p}/{n}: no such task in the graph"
    | some (_, ps) => if ps.contains p then none else some s!"{p}/{n} is not on a recurrence of {n} (points {ps})"

def firstSome {α} (l : List α) (f : α → Option String) : Option String :=
  l.foldl (fun acc x => match acc with | some w => some w | none => f x) none

def judgeObs (e : Expect) (idx : Nat) (ob : Json) : Option String :=
  let pool := (poolOf ob).map keyOf
  let adds := ((jArrField? ob "adds").getD []).filterMap fun a =>
    match jArr? a with
    | some [p, n] => match jInt? p, jStr? n with | some p, some n => some (p, n) | _, _ => none
    | _ => none
  let launches := ((jArrField? ob "launch").getD []).filterMap fun a =>
    match jArr? a with
    | some [p, n, _] => match jInt? p, jStr? n with | some p, some n => some (p, n) | _, _ => none
    | _ => none
  match firstSome pool fun k => (keyProblem e k.1 k.2).map fun w => s!"obs {idx}: in the pool: {w}" with
  | some w => some w
  | none =>
  match firstSome adds fun k => (keyProblem e k.1 k.2).map fun w => s!"obs {idx}: added to the pool: {w}" with
  | some w => some w
  | none =>
  firstSome launches fun k =>
    if k.1 > e.stop then some s!"obs {idx}: job of {k.1}/{k.2} submitted beyond the stop point {e.stop}"
    else (keyProblem e k.1 k.2).map fun w => s!"obs {idx}: job submitted: {w}"

/-- the instance graph given to the model lists exactly the recurrence points of every task -/
def graphWf (e : Expect) (g : Graph) : Option String :=
  if g.icp != e.icp || g.fcp != e.fcp then some s!"graph-wf: bounds {g.icp}..{g.fcp} differ from flow.cylc {e.icp}..{e.fcp}"
  else if g.stopPoint != some e.stop then some s!"graph-wf: stop point of the pool differs from flow.cylc ({e.stop})"
  else
    match firstSome g.tasks fun t =>
      let want := (e.pts.find? (·.1 == t.name)).map (·.2)
      let have_ := t.insts.map (·.1)
      if want == some have_ then none
      else some s!"graph-wf: valid points of {t.name} are {have_}, the recurrences in flow.cylc give {want}" with
    | some w => some w
    | none =>
      firstSome e.pts fun (n, _) => if (g.task? n).isSome then none else some s!"graph-wf: task {n} missing from the graph"

def judge (e : Expect) (g : Graph) (o : Json) : Option String :=
  let rec go (i : Nat) : List Json → Option String
    | [] => none
    | ob :: rest => match judgeObs e i ob with
      | some w => some w
      | none => go (i + 1) rest
  match go 0 (obsList o) with
  | some w => some w
  | none => graphWf e g

def handle (i o : Json) : Except String Reply := do
  if let some r := crashReply? i then return r
  let c ← parseCase i
  let e ← parseExpect i
  match judge e c.graph o with
  | some w => return { model := modelObs c, holds := false, why := w }
  | none => return { model := modelObs c, holds := true }

end CylcModel.DrvC07

def main : IO Unit := CylcModel.Drv.run CylcModel.DrvC07.handle
